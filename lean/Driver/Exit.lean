import XfemmVerif.Model.Exit
/-! line-protocol engine `exit` (C20): `solver <fsolver|esolver|hsolver> b1 … b9` ; `mesher <status> <periodic> <triOk>` -/
namespace Driver.Exit
open XfemmVerif.Exit XfemmVerif.Generated.ExitTable

def bit (s : String) : Option Bool := if s = "1" then some true else if s = "0" then some false else none

def step (line : String) : String :=
  match line.trimAscii.toString.splitOn " " with
  | ["solver", t, a, b, c, d, e, f, g, h, k] =>
    let tab := if t = "fsolver" then some fsolver else if t = "esolver" then some esolver
               else if t = "hsolver" then some hsolver else none
    match tab, bit a, bit b, bit c, bit d, bit e, bit f, bit g, bit h, bit k with
    | some tab, some a, some b, some c, some d, some e, some f, some g, some h, some k =>
      let i : Inputs := { problem := a, node := b, pbc := c, ele := d, edge := e, materials := f, prevNeeded := g, prevOk := h, writable := k }
      match solverMain tab i with
      | .exit code wrote => s!"exit {code} {if wrote then 1 else 0} ok={if i.ok tab then 1 else 0}"
      | .undefined => s!"undefined ok={if i.ok tab then 1 else 0}"
    | _, _, _, _, _, _, _, _, _, _ => "bad-op"
  | ["mesher", s, p, t] =>
    match s.toNat?, bit p, bit t with
    | some s, some p, some t => if s < parserResult.length then s!"exit {mesherMain s p t}" else "bad-op"
    | _, _, _ => "bad-op"
  | _ => "bad-op"

partial def run (h out : IO.FS.Stream) : IO Unit := do
  let line ← h.getLine
  if line.isEmpty then return ()
  out.putStrLn (step line)
  run h out

end Driver.Exit
