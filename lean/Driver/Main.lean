import Driver.Sparse
import Driver.CSparse
import Driver.Markers
import Driver.Exit
import Driver.Refs
import Driver.AssembleE
import Driver.AssembleH
import Driver.AssembleM
import Driver.AssembleMH
import Driver.Heat
import Driver.Magnetics
import Driver.PostInt
import Driver.PostIntE
import Driver.PostIntH
import Driver.PostIntM
import Driver.Locate
import Driver.BHCurve
import Driver.FileCodec
import Driver.Periodic
import Driver.Discretize
import Driver.Edit
import Driver.Cuthill
import Driver.EditGeom
/-! `xfemm_model` — line-protocol driver for the executable models.
    usage: xfemm_model <engine> [float|rat]   (requests on stdin, one reply per line on stdout) -/
def main (args : List String) : IO UInt32 := do
  let stdin ← IO.getStdin
  let stdout ← IO.getStdout
  match args with
  | "csparse" :: rest => Driver.CSparse.run (rest.headD "float") stdin stdout; return 0
  | "sparse" :: rest => Driver.Sparse.run (rest.headD "float") stdin stdout; return 0
  | "assemble-mh" :: _ => Driver.AssembleMH.run stdin stdout; return 0
  | "assemble-m" :: _ => Driver.AssembleM.run stdin stdout; return 0
  | "assemble-h" :: _ => Driver.AssembleH.run stdin stdout; return 0
  | "assemble-e" :: _ => Driver.AssembleE.run stdin stdout; return 0
  | "magnetics" :: _ => Driver.Magnetics.run stdin stdout; return 0
  | "postint-m" :: _ => Driver.PostIntM.run stdin stdout; return 0
  | "postint-h" :: _ => Driver.PostIntH.run stdin stdout; return 0
  | "postint-e" :: _ => Driver.PostIntE.run stdin stdout; return 0
  | "postint" :: _ => Driver.PostInt.run stdin stdout; return 0
  | "edit" :: _ => Driver.Edit.run stdin stdout; return 0
  | "cuthill" :: _ => Driver.Cuthill.run stdin stdout; return 0
  | "editgeom" :: _ => Driver.EditGeom.run stdin stdout; return 0
  | "discretize" :: _ => Driver.Discretize.run stdin stdout; return 0
  | "periodic" :: _ => Driver.Periodic.run stdin stdout; return 0
  | "filecodec" :: _ => Driver.FileCodec.run stdin stdout; return 0
  | "bh" :: _ => Driver.BHCurve.run stdin stdout; return 0
  | "locate" :: _ => Driver.Locate.run stdin stdout; return 0
  | "heat" :: _ => Driver.Heat.run stdin stdout; return 0
  | "refs" :: _ => Driver.Refs.run stdin stdout; return 0
  | "exit" :: _ => Driver.Exit.run stdin stdout; return 0
  | "markers" :: _ => Driver.Markers.run stdin stdout; return 0
  | _ => IO.eprintln "usage: xfemm_model <engine> [float|rat]"; return 2
