import XfemmVerif.Scalar
import XfemmVerif.Model.PostIntE
/-! line-protocol engine `postint-e` (C13): `consts axi depth pi lc eo` · `mat ex ey` (per block property) · `lab blk` (per label) ·
    `n x y v` · `e p0 p1 p2 lbl` · `int typ s0 s1 …` (selection flag per label) → the block integral as the model sums it -/
namespace Driver.PostIntE
open XfemmVerif XfemmVerif.PostIntE XfemmVerif.PostInt

structure S where
  axi : Bool := false
  depth : Float := 1
  pi : Float := 3.141592653589793
  lc : Float := 1
  eo : Float := 8.85418781762e-12
  mats : Array (Float × Float) := #[]
  labs : Array Nat := #[]
  nodes : Array (Float × Float × Float) := #[]
  els : Array (Nat × Nat × Nat × Nat) := #[]

def f (s : String) : Option Float := parseFloatTok s

def step (s : S) (line : String) : S × Option String :=
  match line.trimAscii.toString.splitOn " " with
  | ["consts", axi, depth, pi, lc, eo] => match f depth, f pi, f lc, f eo with
    | some d, some pi, some lc, some eo => ({ s with axi := axi = "1", depth := d, pi := pi, lc := lc, eo := eo }, none)
    | _, _, _, _ => (s, some "bad-op")
  | ["mat", ex, ey] => match f ex, f ey with
    | some ex, some ey => ({ s with mats := s.mats.push (ex, ey) }, none)
    | _, _ => (s, some "bad-op")
  | ["lab", b] => match b.toNat? with
    | some b => ({ s with labs := s.labs.push b }, none)
    | none => (s, some "bad-op")
  | ["n", x, y, v] => match f x, f y, f v with
    | some x, some y, some v => ({ s with nodes := s.nodes.push (x, y, v) }, none)
    | _, _, _ => (s, some "bad-op")
  | ["e", p0, p1, p2, l] => match p0.toNat?, p1.toNat?, p2.toNat?, l.toNat? with
    | some p0, some p1, some p2, some l => ({ s with els := s.els.push (p0, p1, p2, l) }, none)
    | _, _, _, _ => (s, some "bad-op")
  | "int" :: typ :: flags =>
    match typ.toNat? with
    | some typ =>
      let sel (l : Nat) : Bool := flags.getD l "0" == "1"
      let nd (i : Nat) := s.nodes.getD i (0, 0, 0)
      let contribs : List (Nat × Float) := s.els.toList.map (fun (p0, p1, p2, l) =>
        let (x0, y0, v0) := nd p0
        let (x1, y1, v1) := nd p1
        let (x2, y2, v2) := nd p2
        let (ex, ey) := s.mats.getD (s.labs.getD l 0) (1, 1)
        (l, contribution typ s.axi s.depth s.pi s.lc s.eo ex ey { x0 := x0, y0 := y0, x1 := x1, y1 := y1, x2 := x2, y2 := y2, v0 := v0, v1 := v1, v2 := v2 }))
      (s, some (floatTok (blockIntegral contribs sel)))
    | none => (s, some "bad-op")
  | _ => (s, some "bad-op")

partial def loop (h out : IO.FS.Stream) (s : S) : IO Unit := do
  let line ← h.getLine
  if line.isEmpty then return ()
  let (s', o) := step s line
  match o with
  | some o => out.putStrLn o
  | none => pure ()
  loop h out s'

def run (h out : IO.FS.Stream) : IO Unit := loop h out {}
end Driver.PostIntE
