import XfemmVerif.Scalar
import XfemmVerif.Model.Periodic
/-! line-protocol engine `periodic` (C07): `line a0x a0y a1x a1y b0x b0y b1x b1y k` → interior node pairs
    `ax ay bx by …` (k−1 pairs) as the mesher creates them · `idx k base a0 a1 b0 b1` → the pair list of indices -/
namespace Driver.Periodic
open XfemmVerif XfemmVerif.Periodic

instance : NatCast Float := ⟨Float.ofNat⟩

def step (line : String) : String :=
  match line.trimAscii.toString.splitOn " " with
  | ["line", a0x, a0y, a1x, a1y, b0x, b0y, b1x, b1y, k] =>
    match [a0x, a0y, a1x, a1y, b0x, b0y, b1x, b1y].mapM parseFloatTok, k.toNat? with
    | some [a0x, a0y, a1x, a1y, b0x, b0y, b1x, b1y], some k =>
      let ps := lineNodes (a0x, a0y) (a1x, a1y) (b0x, b0y) (b1x, b1y) k
      String.intercalate " " (ps.flatMap (fun p => [floatTok p.1.1, floatTok p.1.2, floatTok p.2.1, floatTok p.2.2]))
    | _, _ => "bad-op"
  | ["idx", k, base, a0, a1, b0, b1] =>
    match [k, base, a0, a1, b0, b1].mapM String.toNat? with
    | some [k, base, a0, a1, b0, b1] =>
      String.intercalate " " ((pairIndices k base a0 a1 b0 b1).map (fun p => toString p.1 ++ ":" ++ toString p.2))
    | _ => "bad-op"
  | _ => "bad-op"

partial def loop (h out : IO.FS.Stream) : IO Unit := do
  let line ← h.getLine
  if line.isEmpty then return ()
  out.putStrLn (step line)
  loop h out

def run (h out : IO.FS.Stream) : IO Unit := loop h out
end Driver.Periodic
