import XfemmVerif.Scalar
import XfemmVerif.Model.Locate
/-! line-protocol engine `locate` (C12): `interp x0 y0 x1 y1 x2 y2 v0 v1 v2 x y` · `side pj pk xj yj xk yk x y` · `probes rounds sz k` -/
namespace Driver.Locate
open XfemmVerif XfemmVerif.Locate

def step (line : String) : String :=
  match line.trimAscii.toString.splitOn " " with
  | "interp" :: xs =>
    match xs.mapM parseFloatTok with
    | some [x0, y0, x1, y1, x2, y2, v0, v1, v2, x, y] => floatTok (interp x0 y0 x1 y1 x2 y2 v0 v1 v2 x y)
    | _ => "bad-op"
  | "side" :: pj :: pk :: xs =>
    match pj.toNat?, pk.toNat?, xs.mapM parseFloatTok with
    | some pj, some pk, some [xj, yj, xk, yk, x, y] => if sideAccepts pj pk xj yj xk yk x y then "1" else "0"
    | _, _, _ => "bad-op"
  | ["probes", r, sz, k] =>
    match r.toNat?, sz.toNat?, k.toNat? with
    | some r, some sz, some k => " ".intercalate ((probes r sz k).map toString)
    | _, _, _ => "bad-op"
  | _ => "bad-op"

partial def run (h out : IO.FS.Stream) : IO Unit := do
  let line ← h.getLine
  if line.isEmpty then return ()
  out.putStrLn (step line)
  run h out
end Driver.Locate
