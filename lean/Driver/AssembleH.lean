import XfemmVerif.Scalar
import XfemmVerif.Model.HSolver
/-! line-protocol engine `assemble-h` (C04): builds the heat problem record from lines, runs `Model/HSolver.assembleH` at
    `Float` for the first pass (previous iterate all zero) and prints the system in the format of the solver hook dump -/
namespace Driver.AssembleH
open XfemmVerif XfemmVerif.ESolver XfemmVerif.HSolver XfemmVerif.Sparse

structure Acc where
  k : Option (Float × Float) := none
  P : HProblem Float := { axi := false, depth := 0, extRo := 0, extRi := 0, extZo := 0, dt := 0, nodeProps := #[], lineProps := #[],
                          blockProps := #[], circProps := #[], labelExternal := #[], nodes := #[], els := #[], pbc := #[], bandwidth := 0 }
  bad : Bool := false

def f (s : String) : Option Float := parseFloatTok s

def pairs : List Float → List (Float × Float)
  | a :: b :: r => (a, b) :: pairs r
  | _ => []

def step (a : Acc) (line : String) : Acc :=
  let bad := { a with bad := true }
  match line.trimAscii.toString.splitOn " " with
  | ["consts", pi, ksb] => match f pi, f ksb with
    | some pi, some ksb => { a with k := some (pi, ksb) }
    | _, _ => bad
  | ["problem", axi, depth, ro, ri, zo, bw, dt] => match f depth, f ro, f ri, f zo, bw.toNat?, f dt with
    | some d, some ro, some ri, some zo, some bw, some dt =>
      { a with P := { a.P with axi := axi = "1", depth := d, extRo := ro, extRi := ri, extZo := zo, bandwidth := bw, dt := dt } }
    | _, _, _, _, _, _ => bad
  | ["np", v, q] => match f v, f q with
    | some v, some q => { a with P := { a.P with nodeProps := a.P.nodeProps.push { V := v, qp := q } } }
    | _, _ => bad
  | ["lp", fmt, tset, qs, beta, h, tinf] => match fmt.toNat?, f tset, f qs, f beta, f h, f tinf with
    | some fmt, some tset, some qs, some beta, some h, some tinf =>
      { a with P := { a.P with lineProps := a.P.lineProps.push { fmt := fmt, Tset := tset, qs := qs, beta := beta, h := h, Tinf := tinf } } }
    | _, _, _, _, _, _ => bad
  | "bp" :: kx :: ky :: kt :: qv :: _ :: tab => match f kx, f ky, f kt, f qv, tab.mapM f with
    | some kx, some ky, some kt, some qv, some tab =>
      { a with P := { a.P with blockProps := a.P.blockProps.push { Kx := kx, Ky := ky, Kt := kt, qv := qv, tab := pairs tab } } }
    | _, _, _, _, _ => bad
  | ["cp", t, v, q] => match t.toNat?, f v, f q with
    | some t, some v, some q => { a with P := { a.P with circProps := a.P.circProps.push { typ := t, V := v, q := q } } }
    | _, _, _ => bad
  | ["lab", e] => { a with P := { a.P with labelExternal := a.P.labelExternal.push (e = "1") } }
  | ["n", x, y, bm, cond, tp] => match f x, f y, bm.toInt?, cond.toInt?, f tp with
    | some x, some y, some bm, some cond, some tp =>
      { a with P := { a.P with nodes := a.P.nodes.push { x := x, y := y, bm := bm, cond := cond, tprev := tp } } }
    | _, _, _, _, _ => bad
  | ["e", p0, p1, p2, lbl, blk, e0, e1, e2] =>
    match p0.toNat?, p1.toNat?, p2.toNat?, lbl.toNat?, blk.toNat?, e0.toInt?, e1.toInt?, e2.toInt? with
    | some p0, some p1, some p2, some lbl, some blk, some e0, some e1, some e2 =>
      { a with P := { a.P with els := a.P.els.push { p := (p0, p1, p2), lbl := lbl, blk := blk, e := (e0, e1, e2) } } }
    | _, _, _, _, _, _, _, _ => bad
  | ["pbc", x, y, t] => match x.toNat?, y.toNat?, t.toNat? with
    | some x, some y, some t => { a with P := { a.P with pbc := a.P.pbc.push (x, y, t) } }
    | _, _, _ => bad
  | [""] => a
  | _ => bad

/-- reads lines up to `run`; `vo x1 x2 …` sets the previous iterate for the next run.  Returns `none` at end of input. -/
partial def readUntilRun (h : IO.FS.Stream) (a : Acc) (vo : Array Float) : IO (Option (Acc × Array Float)) := do
  let line ← h.getLine
  if line.isEmpty then return none
  let t := line.trimAscii.toString
  if t = "run" then return some (a, vo)
  match t.splitOn " " with
  | "vo" :: xs =>
    match xs.mapM parseFloatTok with
    | some v => readUntilRun h a v.toArray
    | none => readUntilRun h { a with bad := true } vo
  | _ => readUntilRun h (step a line) vo

partial def session (h out : IO.FS.Stream) (a : Acc) (vo : Array Float) : IO Unit := do
  match ← readUntilRun h a vo with
  | none => return ()
  | some (a, vo) =>
    match a.bad, a.k with
    | false, some (pi, ksb) =>
      let r := assembleH { pi := pi, ksb := ksb, sqrt := Float.sqrt, pow := fun x n => Float.pow x (Float.ofNat n) } a.P vo
      let L := r.L
      out.putStrLn s!"SYS real {L.n} {L.bdw}"
      for p in [0:L.n] do
        for (c, x) in L.rows.getD p [] do
          out.putStrLn s!"E {p} {c} {floatTok x}"
      for i in [0:L.n] do
        out.putStrLn s!"B {i} {floatTok (getB L i)}"
      out.putStrLn "END"
    | _, _ => out.putStrLn "bad-op"
    session h out a vo

def run (h out : IO.FS.Stream) : IO Unit := session h out {} #[]

end Driver.AssembleH
