import XfemmVerif.Scalar
import XfemmVerif.Model.MSolver
/-! line-protocol engine `assemble-m` (C05): builds the magnetostatic problem record from lines, runs
    `Model/MSolver.assembleM` at `Float` (first pass of Static2D) and prints the system in the format of the solver hook dump -/
namespace Driver.AssembleM
open XfemmVerif XfemmVerif.ESolver XfemmVerif.MSolver XfemmVerif.Sparse

structure Acc where
  k : Option (Float × Float × Float × Float × Float × Float) := none
  P : MProblem Float := { polar := false, nodeProps := #[], lineProps := #[], blockProps := #[], circProps := #[], labels := #[],
                          nodes := #[], els := #[], pbc := #[], bandwidth := 0 }
  axi : Bool := false
  ext : Float × Float × Float × Float := (0, 0, 0, 1e-6)
  external : Array Bool := #[]
  bad : Bool := false

def f (s : String) : Option Float := parseFloatTok s

def step (a : Acc) (line : String) : Acc :=
  let bad := { a with bad := true }
  match line.trimAscii.toString.splitOn " " with
  | ["consts", c, deg, pi, ucm, c001, c0001] => match f c, f deg, f pi, f ucm, f c001, f c0001 with
    | some c, some deg, some pi, some ucm, some c001, some c0001 => { a with k := some (c, deg, pi, ucm, c001, c0001) }
    | _, _, _, _, _, _ => bad
  | ["problem", polar, bw, axi] => match bw.toNat? with
    | some bw => { a with P := { a.P with polar := polar = "1", bandwidth := bw }, axi := axi = "1" }
    | none => bad
  | ["ext", ro, ri, zo, tiny] => match f ro, f ri, f zo, f tiny with
    | some ro, some ri, some zo, some tiny => { a with ext := (ro, ri, zo, tiny) }
    | _, _, _, _ => bad
  | ["np", jr, ji, ar] => match f jr, f ji, f ar with
    | some jr, some ji, some ar => { a with P := { a.P with nodeProps := a.P.nodeProps.push { Jre := jr, Jim := ji, Are := ar } } }
    | _, _, _ => bad
  | ["lp", fmt, a0, a1, a2, phi, c0, c1] => match fmt.toNat?, f a0, f a1, f a2, f phi, f c0, f c1 with
    | some fmt, some a0, some a1, some a2, some phi, some c0, some c1 =>
      { a with P := { a.P with lineProps := a.P.lineProps.push { fmt := fmt, A0 := a0, A1 := a1, A2 := a2, phi := phi, c0 := c0, c1 := c1 } } }
    | _, _, _, _, _, _, _ => bad
  | ["bp", mux, muy, lt, lf, j, cd, hc] => match f mux, f muy, lt.toNat?, f lf, f j, f cd, f hc with
    | some mux, some muy, some lt, some lf, some j, some cd, some hc =>
      { a with P := { a.P with blockProps := a.P.blockProps.push { mux := mux, muy := muy, lamType := lt, lamFill := lf, Jre := j, cduct := cd, Hc := hc } } }
    | _, _, _, _, _, _, _ => bad
  | ["cp", t, amps, dv] => match t.toNat?, f amps, f dv with
    | some t, some amps, some dv => { a with P := { a.P with circProps := a.P.circProps.push { typ := t, amps := amps, dvolts := dv } } }
    | _, _, _ => bad
  | ["lab", ic, w, md, ex] => match ic.toInt?, f md with
    | some ic, some md => { a with P := { a.P with labels := a.P.labels.push { inCircuit := ic, wound := w = "1", magDir := md } },
                                   external := a.external.push (ex = "1") }
    | _, _ => bad
  | ["n", x, y, bm] => match f x, f y, bm.toInt? with
    | some x, some y, some bm => { a with P := { a.P with nodes := a.P.nodes.push { x := x, y := y, bm := bm, cond := -1 } } }
    | _, _, _ => bad
  | ["e", p0, p1, p2, lbl, blk, e0, e1, e2] =>
    match p0.toNat?, p1.toNat?, p2.toNat?, lbl.toNat?, blk.toNat?, e0.toInt?, e1.toInt?, e2.toInt? with
    | some p0, some p1, some p2, some lbl, some blk, some e0, some e1, some e2 =>
      { a with P := { a.P with els := a.P.els.push { p := (p0, p1, p2), lbl := lbl, blk := blk, e := (e0, e1, e2) } } }
    | _, _, _, _, _, _, _, _ => bad
  | ["pbc", x, y, t] => match x.toNat?, y.toNat?, t.toNat? with
    | some x, some y, some t => { a with P := { a.P with pbc := a.P.pbc.push (x, y, t) } }
    | _, _, _ => bad
  | [""] => a
  | _ => bad

partial def readAll (h : IO.FS.Stream) (a : Acc) : IO Acc := do
  let line ← h.getLine
  if line.isEmpty then return a
  if line.trimAscii.toString = "run" then return a
  readAll h (step a line)

def run (h out : IO.FS.Stream) : IO Unit := do
  let a ← readAll h {}
  match a.bad, a.k with
  | false, some (c, deg, pi, ucm, c001, c0001) =>
    let kc : MConsts Float := { c := c, deg := deg, pi := pi, ucm := ucm, sqrt := Float.sqrt, sq := fun x => Float.pow x 2, cos := Float.cos,
                                sin := Float.sin, atan2 := Float.atan2 }
    let L := if a.axi then
        assembleMAxi kc { log := Float.log, abs := Float.abs, tiny := a.ext.2.2.2, extRo := a.ext.1, extRi := a.ext.2.1, extZo := a.ext.2.2.1,
                          external := a.external } c001 c0001 a.P
      else assembleM kc c001 c0001 a.P
    out.putStrLn s!"SYS real {L.n} {L.bdw}"
    for p in [0:L.n] do
      for (c, x) in L.rows.getD p [] do
        out.putStrLn s!"E {p} {c} {floatTok x}"
    for i in [0:L.n] do
      out.putStrLn s!"B {i} {floatTok (getB L i)}"
    out.putStrLn "END"
  | _, _ => out.putStrLn "bad-op"

end Driver.AssembleM
