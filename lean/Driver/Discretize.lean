import XfemmVerif.Scalar
import XfemmVerif.Model.Discretize
/-! line-protocol engine `discretize` (C01, C18):
    `line a0x a0y a1x a1y k` → the k−1 cut points `x y …`
    `arc n0x n0y n1x n1y angleDeg k` → `cx cy R` followed by the k−1 cut points
    `area user dflt force` → the area constraint -/
namespace Driver.Discretize
open XfemmVerif XfemmVerif.Discretize XfemmVerif.Periodic

instance : NatCast Float := ⟨Float.ofNat⟩

def pi : Float := 3.141592653589793238462643383

/-- `abs(CComplex)` of femmcomplex.cpp (scaled) -/
def absC (x y : Float) : Float :=
  if x == 0 && y == 0 then 0
  else if x.abs > y.abs then x.abs * Float.sqrt (1 + (y / x) * (y / x))
  else y.abs * Float.sqrt (1 + (x / y) * (x / y))

def pts (l : List (Float × Float)) : String :=
  String.intercalate " " (l.flatMap (fun p => [floatTok p.1, floatTok p.2]))

def step (line : String) : String :=
  match line.trimAscii.toString.splitOn " " with
  | ["line", a0x, a0y, a1x, a1y, k] =>
    match [a0x, a0y, a1x, a1y].mapM parseFloatTok, k.toNat? with
    | some [a0x, a0y, a1x, a1y], some k => pts (linePoints (a0x, a0y) (a1x, a1y) k)
    | _, _ => "bad-op"
  | ["arc", n0x, n0y, n1x, n1y, ang, k] =>
    match [n0x, n0y, n1x, n1y, ang].mapM parseFloatTok, k.toNat? with
    | some [n0x, n0y, n1x, n1y, ang], some k =>
      let d := absC (n1x - n0x) (n1y - n0y)
      let tta := ang * pi / 180
      let (c, R) := circleCentre Float.sqrt Float.sin (n0x, n0y) (n1x, n1y) d tta
      let y := ang * pi / (Float.ofNat k * 180)
      let dstep : Float × Float := (Float.cos y, Float.sin y)
      String.intercalate " " [floatTok c.1, floatTok c.2, floatTok R, pts (arcPoints c dstep (n0x, n0y) k)]
    | _, _ => "bad-op"
  | ["area", u, d, f] =>
    match parseFloatTok u, parseFloatTok d with
    | some u, some d => floatTok (areaConstraint u d 0 (f == "1"))
    | _, _ => "bad-op"
  | _ => "bad-op"

partial def loop (h out : IO.FS.Stream) : IO Unit := do
  let line ← h.getLine
  if line.isEmpty then return ()
  out.putStrLn (step line)
  loop h out

def run (h out : IO.FS.Stream) : IO Unit := loop h out
end Driver.Discretize
