import XfemmVerif.Scalar
import XfemmVerif.Model.Magnetics
/-! line-protocol engine `magnetics` (C05): `lam <type> <fill> <mux> <muy>` → `mu1 mu2` ; `circj <0.01> <amps> <int3> <int1>` -/
namespace Driver.Magnetics
open XfemmVerif XfemmVerif.Magnetics

def step (line : String) : String :=
  match line.trimAscii.toString.splitOn " " with
  | ["lam", t, f, mx, my] =>
    match t.toNat?, parseFloatTok f, parseFloatTok mx, parseFloatTok my with
    | some t, some f, some mx, some my => let r := lamMu t f mx my; s!"{floatTok r.1} {floatTok r.2}"
    | _, _, _, _ => "bad-op"
  | ["circj", h, a, i3, i1] =>
    match parseFloatTok h, parseFloatTok a, parseFloatTok i3, parseFloatTok i1 with
    | some h, some a, some i3, some i1 => floatTok (circuitJ h a i3 i1)
    | _, _, _, _ => "bad-op"
  | _ => "bad-op"

partial def run (h out : IO.FS.Stream) : IO Unit := do
  let line ← h.getLine
  if line.isEmpty then return ()
  out.putStrLn (step line)
  run h out
end Driver.Magnetics
