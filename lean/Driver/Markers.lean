import XfemmVerif.Scalar
import XfemmVerif.Model.Markers
/-! line-protocol engine `markers` (C02) -/
namespace Driver.Markers
open XfemmVerif XfemmVerif.Markers

def optNat (s : String) : Option (Option Nat) :=
  if s = "-" then some none else s.toNat?.map some

def names (s : String) : List String :=
  if s = "-" then [] else (s.splitOn ",").map pctDecode

def parseElem (s : String) : Option Elem :=
  match s.splitOn "," with
  | [a, b, c] => do
    let a ← a.toNat?; let b ← b.toNat?; let c ← c.toNat?
    pure { p0 := a, p1 := b, p2 := c }
  | _ => none

def step (els : List Elem) (line : String) : List Elem × String :=
  match line.trimAscii.toString.splitOn " " with
  | ["dec-node", kind, m] =>
    match m.toInt? with
    | some m =>
      if kind = "m" then (els, s!"{decNodeM m} -1")
      else let r := decNodeEH m; (els, s!"{r.1} {r.2}")
    | none => (els, "bad-op")
  | ["dec-edge", kind, m] =>
    match m.toInt? with
    | some m =>
      if kind = "m" then
        match decEdgeM m with
        | some j => (els, s!"{j} -1")
        | none => (els, "none")
      else
        let r := decEdgeEH m
        if m < 0 then (els, s!"{r.1} {r.2}") else (els, "none")
    | none => (els, "bad-op")
  | ["enc-node", kind, p, c] =>
    match optNat p, optNat c with
    | some p, some c => (els, s!"{pointMarker (kind = "m") p c}")
    | _, _ => (els, "bad-op")
  | ["enc-seg", kind, p, c] =>
    match optNat p, optNat c with
    | some p, some c => (els, s!"{segMarker (kind = "m") p c}")
    | _, _ => (els, "bad-op")
  | ["enc-node-n", kind, pn, cn, b, c] =>
    (els, s!"{pointMarkerN (kind = "m") (names pn) (names cn) (pctDecode b) (pctDecode c)}")
  | ["enc-seg-n", kind, pn, cn, b, c] =>
    (els, s!"{segMarkerN (kind = "m") (names pn) (names cn) (pctDecode b) (pctDecode c)}")
  | "region-attrs" :: flags =>
    let fl : List Bool := flags.map (fun f => f == "1")
    (els, " ".intercalate ((regionAttrs fl).map (fun o => match o with | some a => toString a | none => "-")))
  | ["elem-label", a, d] =>
    match a.toInt?, optNat d with
    | some a, some d => (els, match elemLabel a d with | some l => toString l | none => "missing")
    | _, _ => (els, "bad-op")
  | "els" :: rest =>
    match rest.mapM parseElem with
    | some l => (l, "ok")
    | none => (els, "bad-op")
  | ["edge", n0, n1, j, onlyFirst] =>
    match n0.toNat?, n1.toNat?, j.toInt? with
    | some n0, some n1, some j => (assignEdge els n0 n1 j (onlyFirst = "1"), "ok")
    | _, _, _ => (els, "bad-op")
  | ["dump-e"] => (els, " ".intercalate (els.map (fun e => s!"{e.e0},{e.e1},{e.e2}")))
  | _ => (els, "bad-op")

partial def loop (h out : IO.FS.Stream) (els : List Elem) : IO Unit := do
  let line ← h.getLine
  if line.isEmpty then return ()
  let (els', o) := step els line
  out.putStrLn o
  loop h out els'

def run (h out : IO.FS.Stream) : IO Unit := loop h out []

end Driver.Markers
