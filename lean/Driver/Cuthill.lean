import XfemmVerif.Model.Cuthill
/-! line-protocol engine `cuthill` (C03 / C04 / C05): `n N` · `edges a b a b …` (the lines of the `.edge` file, in order) ·
    `els p0 p1 p2 lbl …` (the `.ele` file, labels as the solver stores them) · `run` →
    `newnum … | bw B | els p0 p1 p2 lbl …` (renumbered, in the order `SortElements` leaves) or `unreachable` -/
namespace Driver.Cuthill
open XfemmVerif.Cuthill

structure S where
  n : Nat := 0
  edges : List (Nat × Nat) := []
  els : List Elem := []

def pairs : List Nat → List (Nat × Nat)
  | a :: b :: rest => (a, b) :: pairs rest
  | _ => []

def quads : List Int → List Elem
  | a :: b :: c :: d :: rest => { p0 := a.toNat, p1 := b.toNat, p2 := c.toNat, lbl := d } :: quads rest
  | _ => []

def step (s : S) (line : String) : S × String :=
  match line.trimAscii.toString.splitOn " " with
  | ["n", k] => match k.toNat? with
    | some k => ({ s with n := k }, "ok")
    | none => (s, "bad-op")
  | "edges" :: xs =>
    let v := xs.filterMap String.toNat?
    if v.length = xs.length then ({ s with edges := pairs v }, "ok") else (s, "bad-op")
  | "els" :: xs =>
    let v := xs.filterMap String.toInt?
    if v.length = xs.length then ({ s with els := quads v }, "ok") else (s, "bad-op")
  | ["run"] =>
    match cuthill s.n s.edges with
    | none => (s, "unreachable")
    | some r =>
      let es := elements r.newnum s.els
      (s, "newnum " ++ " ".intercalate (r.newnum.toList.map toString) ++ " | bw " ++ toString r.bandwidth ++ " | els " ++
          " ".intercalate (es.map (fun e => toString e.p0 ++ " " ++ toString e.p1 ++ " " ++ toString e.p2 ++ " " ++ toString e.lbl)))
  | _ => (s, "bad-op")

partial def loop (h out : IO.FS.Stream) (s : S) : IO Unit := do
  let line ← h.getLine
  if line.isEmpty then return ()
  let (s', r) := step s line
  out.putStrLn r
  out.flush
  loop h out s'

def run (h out : IO.FS.Stream) : IO Unit := loop h out {}
end Driver.Cuthill
