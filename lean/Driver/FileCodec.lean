import XfemmVerif.Scalar
import XfemmVerif.Model.FileCodec
/-! line-protocol engine `filecodec` (C14): `str <pct-encoded line>` → `some <pct-encoded>` | `none` -/
namespace Driver.FileCodec
open XfemmVerif XfemmVerif.FileCodec

def step (line : String) : String :=
  let l := (line.dropEndWhile (fun c => c == '\n')).toString
  if l.startsWith "str" then
    let arg := pctDecode ((l.drop 4).toString)
    match parseStr arg.toList with
    | some s => "some " ++ pctEncode (String.ofList s)
    | none => "none"
  else "bad-op"

partial def loop (h out : IO.FS.Stream) : IO Unit := do
  let line ← h.getLine
  if line.isEmpty then return ()
  out.putStrLn (step line)
  loop h out

def run (h out : IO.FS.Stream) : IO Unit := loop h out
end Driver.FileCodec
