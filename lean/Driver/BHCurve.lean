import XfemmVerif.Scalar
import XfemmVerif.Model.BHCurve
/-! line-protocol engine `bh` (C19):
    `tab B0 H0 B1 H1 …` · `lam <type> <fill>` · `slopes` → `rows n passes` + n lines `r B H s` (or `no-fuel`)
    `q b` → `H dH E v dv` · `res` → residuals of the spline rows of the current table · `ok` → curveOK -/
namespace Driver.BHCurve
open XfemmVerif XfemmVerif.BHCurve

instance : NatCast Float := ⟨Float.ofNat⟩

structure S where
  pts : List (Float × Float) := []
  lamType : Nat := 0
  fill : Float := 1
  tab : List (Row Float) := []

def pairs : List Float → List (Float × Float)
  | a :: b :: r => (a, b) :: pairs r
  | _ => []

def triples : List Float → List (Row Float)
  | a :: b :: c :: r => (a, b, c) :: triples r
  | _ => []

def muo : Float := 1.2566370614359173e-6

def step (s : S) (line : String) : S × String :=
  match line.trimAscii.toString.splitOn " " with
  | "tab" :: xs =>
    match xs.mapM parseFloatTok with
    | some v => ({ s with pts := pairs v, tab := [] }, "ok")
    | none => (s, "bad-op")
  | "rows" :: xs =>   -- install a table with slopes directly (the implementation's final table)
    match xs.mapM parseFloatTok with
    | some v => ({ s with tab := triples v }, "ok")
    | none => (s, "bad-op")
  | ["lam", t, f] =>
    match t.toNat?, parseFloatTok f with
    | some t, some f => ({ s with lamType := t, fill := f }, "ok")
    | _, _ => (s, "bad-op")
  | ["slopes"] =>
    match getSlopes Float.sqrt Float.abs muo s.fill (s.lamType == 0) 20000 false 0 s.pts with
    | none => (s, "no-fuel")
    | some (tab, passes) =>
      let body := tab.map (fun (b, h, sl) => "r " ++ floatTok b ++ " " ++ floatTok h ++ " " ++ floatTok sl)
      ({ s with tab := tab }, String.intercalate "\n" (("rows " ++ toString tab.length ++ " " ++ toString passes) :: body))
  | ["q", b] =>
    match parseFloatTok b with
    | some b =>
      let (v, dv) := getBHProps s.tab b
      (s, String.intercalate " " [floatTok (getH s.tab b), floatTok (getDH s.tab b), floatTok (getEnergy s.tab b), floatTok v, floatTok dv])
    | none => (s, "bad-op")
  | ["res"] => (s, String.intercalate " " ((residuals s.tab).map floatTok))
  | ["ok"] => (s, if curveOK Float.sqrt s.tab then "true" else "false")
  | _ => (s, "bad-op")

partial def loop (h out : IO.FS.Stream) (s : S) : IO Unit := do
  let line ← h.getLine
  if line.isEmpty then return ()
  let (s', o) := step s line
  out.putStrLn o
  loop h out s'

def run (h out : IO.FS.Stream) : IO Unit := loop h out {}
end Driver.BHCurve
