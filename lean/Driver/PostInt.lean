import XfemmVerif.Model.PostInt
/-! line-protocol engine `postint` (C13): `labels g0 g1 …` (group of each label) · `block l` · `group g` · `clear` · `state` -/
namespace Driver.PostInt
open XfemmVerif.PostInt

structure S where
  groups : List Nat := []
  sel : Sel := []

def step (s : S) (line : String) : S × String :=
  match line.trimAscii.toString.splitOn " " with
  | "labels" :: gs =>
    match gs.mapM String.toNat? with
    | some g => ({ groups := g, sel := List.replicate g.length false }, "ok")
    | none => (s, "bad-op")
  | ["block", l] => match l.toNat? with
    | some l => if l < s.sel.length then ({ s with sel := XfemmVerif.PostInt.step s.groups s.sel (.block l) }, "ok") else (s, "bad-op")
    | none => (s, "bad-op")
  | ["group", g] => match g.toNat? with
    | some g => ({ s with sel := XfemmVerif.PostInt.step s.groups s.sel (.group g) }, "ok")
    | none => (s, "bad-op")
  | ["clear"] => ({ s with sel := XfemmVerif.PostInt.step s.groups s.sel .clear }, "ok")
  | ["state"] => (s, " ".intercalate (s.sel.map (fun b => if b then "1" else "0")))
  | _ => (s, "bad-op")

partial def loop (h out : IO.FS.Stream) (s : S) : IO Unit := do
  let line ← h.getLine
  if line.isEmpty then return ()
  let (s', o) := step s line
  out.putStrLn o
  loop h out s'

def run (h out : IO.FS.Stream) : IO Unit := loop h out {}
end Driver.PostInt
