import XfemmVerif.Model.Edit
import XfemmVerif.Generated.Edit
/-! line-protocol engine `edit` (C16): `state n s0 s1 …` (selection flags of the n points) · `segs n0:n1:sel …` ·
    `delnodes` → `nodes <surviving original indices, comma separated> segs <n0:n1,…>` (marking variant of the current source) -/
namespace Driver.Edit
open XfemmVerif.Edit

structure S where
  st : State Nat Unit := { nodes := [], segs := [], arcs := [] }

def step (s : S) (line : String) : S × String :=
  match line.trimAscii.toString.splitOn " " with
  | "state" :: _ :: flags =>
    let nodes := (List.range flags.length).zip flags |>.map (fun (i, f) => ({ p := i, sel := f == "1" } : Node Nat))
    ({ s with st := { s.st with nodes := nodes } }, "ok")
  | "segs" :: xs =>
    let segs := xs.filterMap (fun x => match x.splitOn ":" with
      | [a, b, c] => match a.toNat?, b.toNat? with
        | some a, some b => some ({ n0 := a, n1 := b, q := (), sel := c == "1" } : Link Unit)
        | _, _ => none
      | _ => none)
    ({ s with st := { s.st with segs := segs } }, "ok")
  | "arcs" :: xs =>
    let arcs := xs.filterMap (fun x => match x.splitOn ":" with
      | [a, b, c] => match a.toNat?, b.toNat? with
        | some a, some b => some ({ n0 := a, n1 := b, q := (), sel := c == "1" } : Link Unit)
        | _, _ => none
      | _ => none)
    ({ s with st := { s.st with arcs := arcs } }, "ok")
  | ["delnodes"] =>
    let r := deleteSelectedNodes XfemmVerif.Generated.Edit.attachedMarkToggles s.st
    let ns := String.intercalate "," (r.nodes.map (fun n => toString n.p))
    let ss := String.intercalate "," (r.segs.map (fun e => toString e.n0 ++ ":" ++ toString e.n1))
    let as := String.intercalate "," (r.arcs.map (fun e => toString e.n0 ++ ":" ++ toString e.n1))
    ({ s with st := r }, "nodes " ++ ns ++ " segs " ++ ss ++ " arcs " ++ as)
  | _ => (s, "bad-op")

partial def loop (h out : IO.FS.Stream) (s : S) : IO Unit := do
  let line ← h.getLine
  if line.isEmpty then return ()
  let (s', o) := step s line
  out.putStrLn o
  loop h out s'

def run (h out : IO.FS.Stream) : IO Unit := loop h out {}
end Driver.Edit
