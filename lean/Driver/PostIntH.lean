import XfemmVerif.Scalar
import XfemmVerif.Model.PostIntH
/-! line-protocol engine `postint-h` (C13): `consts axi depth pi lc` · `mat kx ky T1 k1 T2 k2 …` (per block property) · `lab blk` ·
    `n x y T` · `e p0 p1 p2 lbl` · `int typ s0 s1 …` → real and imaginary part of the block integral as the model computes it -/
namespace Driver.PostIntH
open XfemmVerif XfemmVerif.PostIntE XfemmVerif.PostIntH XfemmVerif.PostInt

structure S where
  axi : Bool := false
  depth : Float := 1
  pi : Float := 3.141592653589793
  lc : Float := 1
  mats : Array (HMat Float) := #[]
  labs : Array Nat := #[]
  nodes : Array (Float × Float × Float) := #[]
  els : Array (Nat × Nat × Nat × Nat) := #[]

def f (s : String) : Option Float := parseFloatTok s
def pairs : List Float → List (Float × Float)
  | a :: b :: r => (a, b) :: pairs r
  | _ => []

def step (s : S) (line : String) : S × Option String :=
  match line.trimAscii.toString.splitOn " " with
  | ["consts", axi, depth, pi, lc] => match f depth, f pi, f lc with
    | some d, some pi, some lc => ({ s with axi := axi = "1", depth := d, pi := pi, lc := lc }, none)
    | _, _, _ => (s, some "bad-op")
  | "mat" :: kx :: ky :: rest => match f kx, f ky, rest.mapM f with
    | some kx, some ky, some v => ({ s with mats := s.mats.push { kx := kx, ky := ky, tab := pairs v } }, none)
    | _, _, _ => (s, some "bad-op")
  | ["lab", b] => match b.toNat? with
    | some b => ({ s with labs := s.labs.push b }, none)
    | none => (s, some "bad-op")
  | ["n", x, y, v] => match f x, f y, f v with
    | some x, some y, some v => ({ s with nodes := s.nodes.push (x, y, v) }, none)
    | _, _, _ => (s, some "bad-op")
  | ["e", p0, p1, p2, l] => match p0.toNat?, p1.toNat?, p2.toNat?, l.toNat? with
    | some p0, some p1, some p2, some l => ({ s with els := s.els.push (p0, p1, p2, l) }, none)
    | _, _, _, _ => (s, some "bad-op")
  | "int" :: typ :: flags =>
    match typ.toNat? with
    | some typ =>
      let sel (l : Nat) : Bool := flags.getD l "0" == "1"
      let nd (i : Nat) := s.nodes.getD i (0, 0, 0)
      let contribs (ty : Nat) : List (Nat × Cx Float) := s.els.toList.map (fun (p0, p1, p2, l) =>
        let (x0, y0, v0) := nd p0
        let (x1, y1, v1) := nd p1
        let (x2, y2, v2) := nd p2
        let m := s.mats.getD (s.labs.getD l 0) { kx := 1, ky := 1, tab := [] }
        (l, contribution ty s.axi s.depth s.pi s.lc m { x0 := x0, y0 := y0, x1 := x1, y1 := y1, x2 := x2, y2 := y2, v0 := v0, v1 := v1, v2 := v2 }))
      let z := finish typ (blockIntegral (contribs typ) sel) (blockIntegral (contribs 2) sel)
      (s, some (floatTok z.re ++ " " ++ floatTok z.im))
    | none => (s, some "bad-op")
  | _ => (s, some "bad-op")

partial def loop (h out : IO.FS.Stream) (s : S) : IO Unit := do
  let line ← h.getLine
  if line.isEmpty then return ()
  let (s', o) := step s line
  match o with
  | some o => out.putStrLn o
  | none => pure ()
  loop h out s'

def run (h out : IO.FS.Stream) : IO Unit := loop h out {}
end Driver.PostIntH
