import XfemmVerif.Scalar
import XfemmVerif.Model.PostIntM
/-! line-protocol engine `postint-m` (C13): `consts depth lc muo mega` · `mat mux muy lamtype lamfill lamd J cduct` (per block property) ·
    `lab blk incircuit wound case value` (per label) · `n x y A` · `e p0 p1 p2 lbl` · `int typ s0 s1 …` → real and imaginary part of the
    block integral of a planar magnetostatic solution as the model sums it -/
namespace Driver.PostIntM
open XfemmVerif XfemmVerif.PostIntE XfemmVerif.PostIntM XfemmVerif.PostInt

structure S where
  depth : Float := 1
  lc : Float := 1
  muo : Float := 1.2566370614359173e-6
  mega : Float := 1.0e6
  mats : Array (MMat Float) := #[]
  labs : Array (Nat × MLab Float) := #[]
  nodes : Array (Float × Float × Float) := #[]
  els : Array (Nat × Nat × Nat × Nat) := #[]

def f (s : String) : Option Float := parseFloatTok s

def step (s : S) (line : String) : S × Option String :=
  match line.trimAscii.toString.splitOn " " with
  | ["consts", depth, lc, muo, mega] => match f depth, f lc, f muo, f mega with
    | some d, some lc, some muo, some mega => ({ s with depth := d, lc := lc, muo := muo, mega := mega }, none)
    | _, _, _, _ => (s, some "bad-op")
  | ["mat", mux, muy, lt, lf, ld, j, cd] => match f mux, f muy, lt.toNat?, f lf, f ld, f j, f cd with
    | some mux, some muy, some lt, some lf, some ld, some j, some cd =>
      ({ s with mats := s.mats.push { mux := mux, muy := muy, lamType := lt, lamFill := lf, lamD := ld, J := j, cduct := cd } }, none)
    | _, _, _, _, _, _, _ => (s, some "bad-op")
  | ["lab", b, ic, w, cs, v] => match b.toNat?, cs.toNat?, f v with
    | some b, some cs, some v => ({ s with labs := s.labs.push (b, { inCircuit := ic = "1", wound := w = "1", case := cs, value := v }) }, none)
    | _, _, _ => (s, some "bad-op")
  | ["n", x, y, v] => match f x, f y, f v with
    | some x, some y, some v => ({ s with nodes := s.nodes.push (x, y, v) }, none)
    | _, _, _ => (s, some "bad-op")
  | ["e", p0, p1, p2, l] => match p0.toNat?, p1.toNat?, p2.toNat?, l.toNat? with
    | some p0, some p1, some p2, some l => ({ s with els := s.els.push (p0, p1, p2, l) }, none)
    | _, _, _, _ => (s, some "bad-op")
  | "int" :: typ :: flags =>
    match typ.toNat? with
    | some typ =>
      let sel (l : Nat) : Bool := flags.getD l "0" == "1"
      let nd (i : Nat) := s.nodes.getD i (0, 0, 0)
      let contribs : List (Nat × Cx Float) := s.els.toList.map (fun (p0, p1, p2, l) =>
        let (x0, y0, v0) := nd p0
        let (x1, y1, v1) := nd p1
        let (x2, y2, v2) := nd p2
        let (b, lab) := s.labs.getD l (0, { inCircuit := false, wound := false, case := 1, value := 0 })
        let m := s.mats.getD b { mux := 1, muy := 1, lamType := 0, lamFill := 1, lamD := 0, J := 0, cduct := 0 }
        (l, contribution typ s.depth s.lc s.muo s.mega m lab { x0 := x0, y0 := y0, x1 := x1, y1 := y1, x2 := x2, y2 := y2, v0 := v0, v1 := v1, v2 := v2 }))
      let z := blockIntegral contribs sel
      (s, some (floatTok z.re ++ " " ++ floatTok z.im))
    | none => (s, some "bad-op")
  | _ => (s, some "bad-op")

partial def loop (h out : IO.FS.Stream) (s : S) : IO Unit := do
  let line ← h.getLine
  if line.isEmpty then return ()
  let (s', o) := step s line
  match o with
  | some o => out.putStrLn o
  | none => pure ()
  loop h out s'

def run (h out : IO.FS.Stream) : IO Unit := loop h out {}
end Driver.PostIntM
