import XfemmVerif.Scalar
import XfemmVerif.Model.Refs
/-! line-protocol engine `refs` (C15): four independent copies (kinds 0..3) of `Model/Refs.lean`.
    `init k n` · `add k name` · `del k name` · `rename k old new` · `assign k slot name|-` · `dump k` -/
namespace Driver.Refs
open XfemmVerif XfemmVerif.Refs

structure S where
  renumber : Bool
  kinds : Array St

def upd (s : S) (k : Nat) (f : St → St) : S := { s with kinds := s.kinds.modify k f }

def step (s : S) (line : String) : S × String :=
  match line.trimAscii.toString.splitOn " " with
  | ["mode", m] => ({ s with renumber := m = "repaired" }, "ok")
  | ["init", k, n] =>
    match k.toNat?, n.toNat? with
    | some k, some n => if k < 4 then ({ s with kinds := s.kinds.set! k (init n) }, "ok") else (s, "bad-op")
    | _, _ => (s, "bad-op")
  | ["add", k, name] =>
    match k.toNat? with
    | some k => if k < 4 then (upd s k (fun st => XfemmVerif.Refs.step s.renumber st (.add (pctDecode name))), "ok") else (s, "bad-op")
    | none => (s, "bad-op")
  | ["del", k, name] =>
    match k.toNat? with
    | some k => if k < 4 then (upd s k (fun st => XfemmVerif.Refs.step s.renumber st (.del (pctDecode name))), "ok") else (s, "bad-op")
    | none => (s, "bad-op")
  | ["rename", k, o, n] =>
    match k.toNat? with
    | some k => if k < 4 then (upd s k (fun st => XfemmVerif.Refs.step s.renumber st (.rename (pctDecode o) (pctDecode n))), "ok") else (s, "bad-op")
    | none => (s, "bad-op")
  | ["assign", k, slot, name] =>
    match k.toNat?, slot.toNat? with
    | some k, some slot =>
      if k < 4 then
        let nm := if name = "-" then none else some (pctDecode name)
        (upd s k (fun st => XfemmVerif.Refs.step s.renumber st (.assign slot nm)), "ok")
      else (s, "bad-op")
    | _, _ => (s, "bad-op")
  | ["dump", k] =>
    match k.toNat? with
    | some k =>
      match s.kinds[k]? with
      | some st =>
        let props := ",".intercalate (st.props.map (fun p => pctEncode p.name))
        let slots := " ".intercalate (st.slots.map (fun sl =>
          s!"{savedIndex sl}:{if slotConsistent st sl then 1 else 0}"))
        (s, s!"props={props} slots={slots}")
      | none => (s, "bad-op")
    | none => (s, "bad-op")
  | _ => (s, "bad-op")

partial def loop (h out : IO.FS.Stream) (s : S) : IO Unit := do
  let line ← h.getLine
  if line.isEmpty then return ()
  let (s', o) := step s line
  out.putStrLn o
  loop h out s'

def run (h out : IO.FS.Stream) : IO Unit :=
  loop h out { renumber := true, kinds := Array.replicate 4 (init 0) }

end Driver.Refs
