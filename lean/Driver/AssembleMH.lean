import XfemmVerif.Scalar
import XfemmVerif.Model.MHarmonic
/-! line-protocol engine `assemble-mh` (C05): builds the time-harmonic problem record from lines, runs
    `Model/MHarmonic.assembleHarm` at `Float` (first pass of Harmonic2D) and prints the system in the format of the solver hook dump -/
namespace Driver.AssembleMH
open XfemmVerif XfemmVerif.ESolver XfemmVerif.MHarmonic XfemmVerif.Sparse

structure Acc where
  k : Option (Array Float) := none
  P : HProblem Float := { polar := false, nodeProps := #[], lineProps := #[], blockProps := #[], circProps := #[], labels := #[],
                          nodes := #[], els := #[], pbc := #[], bandwidth := 0 }
  bad : Bool := false

def f (s : String) : Option Float := parseFloatTok s
def fs (l : List String) : Option (Array Float) :=
  l.foldl (fun acc t => do let a ← acc; let v ← f t; pure (a.push v)) (some #[])
def cx (a : Array Float) (i : Nat) : Cx Float := ⟨a.getD i 0, a.getD (i + 1) 0⟩

def step (a : Acc) (line : String) : Acc :=
  let bad := { a with bad := true }
  match line.trimAscii.toString.splitOn " " with
  | "consts" :: rest => match fs rest with
    | some v => if v.size = 9 then { a with k := some v } else bad
    | none => bad
  | ["problem", polar, bw] => match bw.toNat? with
    | some bw => { a with P := { a.P with polar := polar = "1", bandwidth := bw } }
    | none => bad
  | "np" :: rest => match fs rest with
    | some v => if v.size = 4 then { a with P := { a.P with nodeProps := a.P.nodeProps.push { J := cx v 0, A := cx v 2 } } } else bad
    | none => bad
  | "lp" :: fmt :: rest => match fmt.toNat?, fs rest with
    | some fmt, some v =>
      if v.size = 10 then
        let lp : HBdryProp Float := { fmt := fmt, A0 := v[0]!, A1 := v[1]!, A2 := v[2]!, phi := v[3]!, mu := v[4]!, sig := v[5]!, c0 := cx v 6, c1 := cx v 8 }
        { a with P := { a.P with lineProps := a.P.lineProps.push lp } }
      else bad
    | _, _ => bad
  | ["bp", mux, muy, lt, lf, ld, thx, thy, jr, ji, cd] => match fs [mux, muy, lf, ld, thx, thy, jr, ji, cd], lt.toNat? with
    | some v, some lt =>
      let bp : HBlockProp Float := { mux := v[0]!, muy := v[1]!, lamType := lt, lamFill := v[2]!, lamD := v[3]!, thetaHx := v[4]!, thetaHy := v[5]!, J := cx v 6, cduct := v[8]! }
      { a with P := { a.P with blockProps := a.P.blockProps.push bp } }
    | _, _ => bad
  | "cp" :: t :: rest => match t.toNat?, fs rest with
    | some t, some v => if v.size = 4 then { a with P := { a.P with circProps := a.P.circProps.push { typ := t, amps := cx v 0, dvolts := cx v 2 } } } else bad
    | _, _ => bad
  | ["lab", ic, w, pr, pi] => match ic.toInt?, fs [pr, pi] with
    | some ic, some v => { a with P := { a.P with labels := a.P.labels.push { inCircuit := ic, wound := w = "1", proximityMu := cx v 0 } } }
    | _, _ => bad
  | ["n", x, y, bm] => match f x, f y, bm.toInt? with
    | some x, some y, some bm => { a with P := { a.P with nodes := a.P.nodes.push { x := x, y := y, bm := bm, cond := -1 } } }
    | _, _, _ => bad
  | ["e", p0, p1, p2, lbl, blk, e0, e1, e2] =>
    match p0.toNat?, p1.toNat?, p2.toNat?, lbl.toNat?, blk.toNat?, e0.toInt?, e1.toInt?, e2.toInt? with
    | some p0, some p1, some p2, some lbl, some blk, some e0, some e1, some e2 =>
      { a with P := { a.P with els := a.P.els.push { p := (p0, p1, p2), lbl := lbl, blk := blk, e := (e0, e1, e2) } } }
    | _, _, _, _, _, _, _, _ => bad
  | ["pbc", x, y, t] => match x.toNat?, y.toNat?, t.toNat? with
    | some x, some y, some t => { a with P := { a.P with pbc := a.P.pbc.push (x, y, t) } }
    | _, _, _ => bad
  | [""] => a
  | _ => bad

partial def readAll (h : IO.FS.Stream) (a : Acc) : IO Acc := do
  let line ← h.getLine
  if line.isEmpty then return a
  if line.trimAscii.toString = "run" then return a
  readAll h (step a line)

def run (h out : IO.FS.Stream) : IO Unit := do
  let a ← readAll h {}
  match a.bad, a.k with
  | false, some v =>
    let kc : HConsts Float := { c := v[0]!, deg := v[1]!, pi := v[2]!, ucm := v[3]!, w := v[4]!, sqrt := Float.sqrt, sq := fun x => Float.pow x 2,
                                atan2 := Float.atan2, F := { exp := Float.exp, sin := Float.sin, cos := Float.cos } }
    let (L, _) := assembleHarm kc v[5]! v[6]! v[7]! v[8]! a.P
    out.putStrLn s!"SYS complex {L.n} {L.bdw} newton=0"
    for p in [0:L.n] do
      for (c, x) in L.rows.getD p [] do
        out.putStrLn s!"E {p} {c} {floatTok x.re} {floatTok x.im}"
    for i in [0:L.n] do
      out.putStrLn s!"B {i} {floatTok (getB L i).re} {floatTok (getB L i).im}"
    out.putStrLn "END"
  | _, _ => out.putStrLn "bad-op"

end Driver.AssembleMH
