import XfemmVerif.Scalar
import XfemmVerif.Model.Sparse
/-! line-protocol engine `sparse` (C09): drives `Model/Sparse.lean` at `Float` or `Rat`. -/
namespace Driver.Sparse
open XfemmVerif XfemmVerif.Sparse

structure ScalarIO (α : Type) where
  parse : String → Option α
  show_ : α → String
  exitTest : α → α → α → Bool     -- prec res res0 ↦ leave the loop?

def floatIO : ScalarIO Float :=
  { parse := parseFloatTok, show_ := floatTok,
    exitTest := fun prec res res0 => !(Float.sqrt (res / res0) > prec) }

def ratIO : ScalarIO Rat :=
  { parse := parseRatTok, show_ := ratTok,
    exitTest := fun prec res res0 => !(res / res0 > prec * prec) }

def parseAll {α} (io : ScalarIO α) (toks : List String) : Option (Array α) :=
  toks.foldl (fun acc t => do let a ← acc; let v ← io.parse t; pure (a.push v)) (some #[])

def showVec {α} (io : ScalarIO α) (v : Array α) : String :=
  " ".intercalate (v.toList.map io.show_)

variable {α : Type} [OfNat α 0] [OfNat α 1] [OfNat α 2] [Add α] [Sub α] [Mul α] [Div α] [Neg α] [BEq α]

def inRange (M : LinProb α) (p q : Nat) : Bool := p < M.n && q < M.n

def step (io : ScalarIO α) (M : LinProb α) (line : String) : LinProb α × String :=
  match line.trimAscii.toString.splitOn " " with
  | ["recreate", n, bw] =>       -- `Create()` called again on the same object: a blank system of the new size and band hint
    match n.toNat?, bw.toNat? with
    | some n, some bw => (create n bw, "ok")
    | _, _ => (M, "bad-op")
  | ["create", n, bw] =>
    match n.toNat?, bw.toNat? with
    | some n, some bw => (create n bw, "ok")
    | _, _ => (M, "bad-op")
  | ["put", v, p, q] =>
    match io.parse v, p.toNat?, q.toNat? with
    | some v, some p, some q => if inRange M p q then (put M v p q, "ok") else (M, "bad-op")
    | _, _, _ => (M, "bad-op")
  | ["addto", v, p, q] =>
    match io.parse v, p.toNat?, q.toNat? with
    | some v, some p, some q => if inRange M p q then (addTo M v p q, "ok") else (M, "bad-op")
    | _, _, _ => (M, "bad-op")
  | ["get", p, q] =>
    match p.toNat?, q.toNat? with
    | some p, some q => if inRange M p q then (M, io.show_ (get M p q)) else (M, "bad-op")
    | _, _ => (M, "bad-op")
  | ["setb", i, v] =>
    match i.toNat?, io.parse v with
    | some i, some v => if i < M.n then (setB M i v, "ok") else (M, "bad-op")
    | _, _ => (M, "bad-op")
  | ["getb", i] =>
    match i.toNat? with
    | some i => if i < M.n then (M, io.show_ (getB M i)) else (M, "bad-op")
    | _ => (M, "bad-op")
  | ["setvalue", i, v] =>
    match i.toNat?, io.parse v with
    | some i, some v => if i < M.n then (setValue M i v, "ok") else (M, "bad-op")
    | _, _ => (M, "bad-op")
  | ["periodic", i, j] =>
    match i.toNat?, j.toNat? with
    | some i, some j => if inRange M i j then (periodicity M i j, "ok") else (M, "bad-op")
    | _, _ => (M, "bad-op")
  | ["antiperiodic", i, j] =>
    match i.toNat?, j.toNat? with
    | some i, some j => if inRange M i j then (antiPeriodicity M i j, "ok") else (M, "bad-op")
    | _, _ => (M, "bad-op")
  | ["wipe"] => (wipe M, "ok")
  | "setv" :: xs =>
    match parseAll io xs with
    | some v => if v.size = M.n then ({ M with V := v }, "ok") else (M, "bad-op")
    | none => (M, "bad-op")
  | "multa" :: xs =>
    match parseAll io xs with
    | some v => if v.size = M.n then (M, showVec io (multA M v)) else (M, "bad-op")
    | none => (M, "bad-op")
  | "multpc" :: lam :: xs =>
    match io.parse lam, parseAll io xs with
    | some lam, some v => if v.size = M.n then (M, showVec io (multPC M lam v)) else (M, "bad-op")
    | _, _ => (M, "bad-op")
  | ["solve", flag, prec, lam, fuel] =>
    match flag.toNat?, io.parse prec, io.parse lam, fuel.toNat? with
    | some flag, some prec, some lam, some fuel =>
      match pcgSolve M lam (flag != 0) (io.exitTest prec) fuel with
      | .singular i => (M, s!"singular {i}")
      | .zeroRhs => (M, "zerorhs " ++ showVec io M.V)
      | .converged V k => ({ M with V := V }, s!"converged {k} " ++ showVec io V)
      | .noFuel V => ({ M with V := V }, "nofuel " ++ showVec io V)
    | _, _, _, _ => (M, "bad-op")
  | ["dump"] =>
    let ents := (List.range M.n).flatMap (fun p =>
      (M.rows.getD p []).map (fun (c, x) => s!"{p},{c},{io.show_ x}"))
    (M, s!"{M.n} " ++ " ".intercalate ents ++ " | " ++ showVec io M.b)
  | _ => (M, "bad-op")

partial def loop (io : ScalarIO α) (h : IO.FS.Stream) (out : IO.FS.Stream) (M : LinProb α) : IO Unit := do
  let line ← h.getLine
  if line.isEmpty then return ()
  let (M', o) := step io M line
  out.putStrLn o
  loop io h out M'

def run (scalar : String) (h out : IO.FS.Stream) : IO Unit :=
  match scalar with
  | "rat" => loop ratIO h out (create (α := Rat) 0 0)
  | _ => loop floatIO h out (create (α := Float) 0 0)

end Driver.Sparse
