import XfemmVerif.Scalar
import XfemmVerif.Model.EditGeom
/-! line-protocol engine `editgeom` (C16), Float instance of `Model/EditGeom.lean`:
    `mirror x0 y0 x1 y1 px py` → image of (px, py) under the reflection about the line (x0,y0)-(x1,y1) as `mirrorCopy` computes it
    `rotate cx cy deg px py`   → image under the rotation by `deg` degrees about (cx, cy) (`z = exp(I*t*PI/180)`)
    `translate dx dy px py`    → (px + dx, py + dy) -/
namespace Driver.EditGeom
open XfemmVerif XfemmVerif.EditGeom

def pi : Float := 3.141592653589793238462643383
def F : Cx.RealFuns Float := { exp := Float.exp, sin := Float.sin, cos := Float.cos }

def step (line : String) : String :=
  match line.trimAscii.toString.splitOn " " with
  | ["mirror", x0, y0, x1, y1, px, py] =>
    match [x0, y0, x1, y1, px, py].mapM parseFloatTok with
    | some [x0, y0, x1, y1, px, py] =>
      -- CComplex x=x0 + I*y0;  CComplex p=(x1-x0) + I*(y1-y0);  p/=abs(p);
      let x : Cx Float := Cx.ofParts x0 y0
      let p0 : Cx Float := Cx.ofParts (x1 - x0) (y1 - y0)
      let p := unitVec Float.sqrt Float.abs p0
      let r := mirror x p ⟨px, py⟩
      floatTok r.re ++ " " ++ floatTok r.im
    | _ => "bad-op"
  | ["rotate", cx, cy, deg, px, py] =>
    match [cx, cy, deg, px, py].mapM parseFloatTok with
    | some [cx, cy, deg, px, py] =>
      -- z = exp(I*t*PI/180): ((I*t)*PI)/180 with the real-scalar operators
      let arg : Cx Float := Cx.divR (Cx.mulR (Cx.mulR Cx.I deg) pi) 180
      let z := Cx.cexp F arg
      let r := rotate ⟨cx, cy⟩ z ⟨px, py⟩
      floatTok r.re ++ " " ++ floatTok r.im
    | _ => "bad-op"
  | ["translate", dx, dy, px, py] =>
    match [dx, dy, px, py].mapM parseFloatTok with
    | some [dx, dy, px, py] =>
      let r := translate (⟨dx, dy⟩ : Cx Float) ⟨px, py⟩
      floatTok r.re ++ " " ++ floatTok r.im
    | _ => "bad-op"
  | _ => "bad-op"

partial def loop (h out : IO.FS.Stream) : IO Unit := do
  let line ← h.getLine
  if line.isEmpty then return ()
  out.putStrLn (step line)
  loop h out

def run (h out : IO.FS.Stream) : IO Unit := loop h out
end Driver.EditGeom
