import XfemmVerif.Scalar
import XfemmVerif.Model.Heat
/-! line-protocol engine `heat` (C04): `tab T1 k1 T2 k2 …` · `dflt kx` · `getk t` -/
namespace Driver.Heat
open XfemmVerif XfemmVerif.Heat

structure S where
  tab : List (Float × Float) := []
  dflt : Float := 1

def pairs : List Float → List (Float × Float)
  | a :: b :: r => (a, b) :: pairs r
  | _ => []

def step (s : S) (line : String) : S × String :=
  match line.trimAscii.toString.splitOn " " with
  | "tab" :: xs =>
    match xs.mapM parseFloatTok with
    | some v => ({ s with tab := pairs v }, "ok")
    | none => (s, "bad-op")
  | ["dflt", k] => match parseFloatTok k with
    | some k => ({ s with dflt := k }, "ok")
    | none => (s, "bad-op")
  | ["getk", t] => match parseFloatTok t with
    | some t => (s, floatTok (getK s.tab s.dflt t))
    | none => (s, "bad-op")
  | _ => (s, "bad-op")

partial def loop (h out : IO.FS.Stream) (s : S) : IO Unit := do
  let line ← h.getLine
  if line.isEmpty then return ()
  let (s', o) := step s line
  out.putStrLn o
  loop h out s'

def run (h out : IO.FS.Stream) : IO Unit := loop h out {}
end Driver.Heat
