import XfemmVerif.Scalar
import XfemmVerif.Model.CSparse
import Driver.Sparse
/-! line-protocol engine `csparse` (C09): drives `Model/CSparse.lean` at `Float` or `Rat`; a complex number is two tokens. -/
namespace Driver.CSparse
open XfemmVerif XfemmVerif.Sparse XfemmVerif.CSparse Driver.Sparse

variable {α : Type} [OfNat α 0] [OfNat α 1] [OfNat α 2] [Add α] [Sub α] [Mul α] [Div α] [Neg α] [BEq α] [AbsGt α]

def parseCx (io : ScalarIO α) (a b : String) : Option (Cx α) := do
  let x ← io.parse a
  let y ← io.parse b
  pure ⟨x, y⟩

def showCx (io : ScalarIO α) (z : Cx α) : String := io.show_ z.re ++ " " ++ io.show_ z.im

def parseCxAll (io : ScalarIO α) : List String → Option (Array (Cx α))
  | a :: b :: rest => do
    let z ← parseCx io a b
    let r ← parseCxAll io rest
    pure (#[z] ++ r)
  | [] => some #[]
  | _ => none

def showCxVec (io : ScalarIO α) (v : Array (Cx α)) : String := " ".intercalate (v.toList.map (showCx io))

structure St (α : Type) where
  M : CLinProb α
  nodes : Nat

def step (io : ScalarIO α) (leave : α → α → α → Bool) (S : St α) (line : String) : St α × String :=
  let M := S.M
  let inR (p q : Nat) : Bool := p < M.n && q < M.n
  match line.trimAscii.toString.splitOn " " with
  | ["create", n, bw, nodes] =>
    match n.toNat?, bw.toNat?, nodes.toNat? with
    | some n, some bw, some nodes => ({ M := create n bw, nodes := nodes }, "ok")
    | _, _, _ => (S, "bad-op")
  | ["put", a, b, p, q] =>
    match parseCx io a b, p.toNat?, q.toNat? with
    | some v, some p, some q => if inR p q then ({ S with M := put M v p q }, "ok") else (S, "bad-op")
    | _, _, _ => (S, "bad-op")
  | ["addto", a, b, p, q] =>
    match parseCx io a b, p.toNat?, q.toNat? with
    | some v, some p, some q => if inR p q then ({ S with M := addTo M v p q }, "ok") else (S, "bad-op")
    | _, _, _ => (S, "bad-op")
  | ["get", p, q] =>
    match p.toNat?, q.toNat? with
    | some p, some q => if inR p q then (S, showCx io (get M p q)) else (S, "bad-op")
    | _, _ => (S, "bad-op")
  | ["setb", i, a, b] =>
    match i.toNat?, parseCx io a b with
    | some i, some v => if i < M.n then ({ S with M := setB M i v }, "ok") else (S, "bad-op")
    | _, _ => (S, "bad-op")
  | ["getb", i] =>
    match i.toNat? with
    | some i => if i < M.n then (S, showCx io (getB M i)) else (S, "bad-op")
    | _ => (S, "bad-op")
  | ["setvalue", i, a, b] =>
    match i.toNat?, parseCx io a b with
    | some i, some v => if i < M.n then ({ S with M := setValue S.nodes M i v }, "ok") else (S, "bad-op")
    | _, _ => (S, "bad-op")
  | ["periodic", i, j] =>
    match i.toNat?, j.toNat? with
    | some i, some j => if inR i j then ({ S with M := CSparse.periodicity M i j }, "ok") else (S, "bad-op")
    | _, _ => (S, "bad-op")
  | ["antiperiodic", i, j] =>
    match i.toNat?, j.toNat? with
    | some i, some j => if inR i j then ({ S with M := CSparse.antiPeriodicity M i j }, "ok") else (S, "bad-op")
    | _, _ => (S, "bad-op")
  | ["wipe"] => ({ S with M := wipe M }, "ok")
  | "setv" :: xs =>
    match parseCxAll io xs with
    | some v => if v.size = M.n then ({ S with M := { M with V := v } }, "ok") else (S, "bad-op")
    | none => (S, "bad-op")
  | "multa" :: xs =>
    match parseCxAll io xs with
    | some v => if v.size = M.n then (S, showCxVec io (multA M v)) else (S, "bad-op")
    | none => (S, "bad-op")
  | "multpc" :: lam :: xs =>
    match io.parse lam, parseCxAll io xs with
    | some lam, some v => if v.size = M.n then (S, showCxVec io (multPC M lam v)) else (S, "bad-op")
    | _, _ => (S, "bad-op")
  | "appa" :: lam :: xs =>
    match io.parse lam, parseCxAll io xs with
    | some lam, some v => if v.size = M.n then (S, showCxVec io (multAPPA M lam v)) else (S, "bad-op")
    | _, _ => (S, "bad-op")
  | ["div", a, b, c, d] =>
    match parseCx io a b, parseCx io c d with
    | some x, some z => (S, showCx io (x / z))
    | _, _ => (S, "bad-op")
  | ["solve", flag, prec, lam, fuel] =>
    match flag.toNat?, io.parse prec, io.parse lam, fuel.toNat? with
    | some flag, some prec, some lam, some fuel =>
      match pbcgSolveMod M lam (flag != 0) (leave prec) fuel with
      | .singular => (S, "singular")
      | .converged V k => ({ S with M := { M with V := V } }, s!"converged {k} " ++ showCxVec io V)
      | .noFuel V => ({ S with M := { M with V := V } }, "nofuel " ++ showCxVec io V)
    | _, _, _, _ => (S, "bad-op")
  | ["dump"] =>
    let ents := (List.range M.n).flatMap (fun p =>
      (M.rows.getD p []).map (fun (c, x) => s!"{p},{c},{io.show_ x.re},{io.show_ x.im}"))
    (S, s!"{M.n} " ++ " ".intercalate ents ++ " | " ++ showCxVec io M.b)
  | _ => (S, "bad-op")

partial def loop (io : ScalarIO α) (leave : α → α → α → Bool) (h : IO.FS.Stream) (out : IO.FS.Stream) (S : St α) : IO Unit := do
  let line ← h.getLine
  if line.isEmpty then return ()
  let (S', o) := step io leave S line
  out.putStrLn o
  loop io leave h out S'

def run (scalar : String) (h out : IO.FS.Stream) : IO Unit :=
  match scalar with
  | "rat" => loop ratIO (fun prec r2 b2 => !(r2 / b2 > prec * prec)) h out { M := create (α := Cx Rat) 0 0, nodes := 0 }
  | _ => loop floatIO (fun prec r2 b2 => !(Float.sqrt r2 / Float.sqrt b2 > prec)) h out { M := create (α := Cx Float) 0 0, nodes := 0 }

end Driver.CSparse
