/-
Scalar plumbing shared by the executable models (core Lean only).

Doubles cross the line protocol as `x` + 16 hex digits of the IEEE-754 bit pattern, so the `Float`
instance of a model can be compared bit for bit with the C++, and the very same double can be
decoded *exactly* into a `Rat` (every finite double is a dyadic rational) for the exact instance —
the instance the theorems are about.
-/
namespace XfemmVerif

def hexDigit (c : Char) : Option Nat :=
  if '0' ≤ c ∧ c ≤ '9' then some (c.toNat - '0'.toNat)
  else if 'a' ≤ c ∧ c ≤ 'f' then some (c.toNat - 'a'.toNat + 10)
  else if 'A' ≤ c ∧ c ≤ 'F' then some (c.toNat - 'A'.toNat + 10)
  else none

def parseHex (s : String) : Option Nat :=
  s.toList.foldl (fun acc c => do let a ← acc; let d ← hexDigit c; pure (a * 16 + d)) (some 0)

/-- `x3FF0000000000000` ↦ bit pattern -/
def parseBits (tok : String) : Option UInt64 :=
  match tok.toList with
  | 'x' :: rest => if rest.length = 16 then (parseHex (String.ofList rest)).map (·.toUInt64) else none
  | _ => none

def toHexDigit (n : Nat) : Char :=
  if n < 10 then Char.ofNat (n + '0'.toNat) else Char.ofNat (n - 10 + 'A'.toNat)

def bitsToTok (b : UInt64) : String :=
  let n := b.toNat
  "x" ++ String.ofList ((List.range 16).map (fun k => toHexDigit ((n >>> (4 * (15 - k))) % 16)))

def parseFloatTok (tok : String) : Option Float := (parseBits tok).map Float.ofBits
def floatTok (x : Float) : String := bitsToTok x.toBits

/-- exact value of a finite double as a rational; `none` for inf / nan -/
def bitsToRat (b : UInt64) : Option Rat :=
  let n : Nat := b.toNat
  let neg : Bool := n >>> 63 == 1
  let e : Nat := (n >>> 52) % 2048
  let m : Nat := n % (2 ^ 52)
  let sgn (q : Rat) : Rat := if neg then -q else q
  if e = 2047 then none
  else if e = 0 then some (sgn ((m : Rat) / ((2 ^ 1074 : Nat) : Rat)))
  else
    let mant : Nat := 2 ^ 52 + m
    if e ≥ 1075 then some (sgn (((mant * 2 ^ (e - 1075) : Nat) : Rat)))
    else some (sgn ((mant : Rat) / ((2 ^ (1075 - e) : Nat) : Rat)))

def parseRatTok (tok : String) : Option Rat := (parseBits tok) >>= bitsToRat

/-- rationals leave the driver as `num/den` -/
def ratTok (q : Rat) : String := toString q.num ++ "/" ++ toString q.den

/-- nearest-double rendering of a rational (for human-readable residual sizes only) -/
def ratToFloat (q : Rat) : Float :=
  Float.ofInt q.num / Float.ofNat q.den

/-- percent-decoding for strings in the protocol -/
def pctDecode (s : String) : String :=
  let rec go : List Char → List Char
    | '%' :: a :: b :: rest =>
      match hexDigit a, hexDigit b with
      | some x, some y => Char.ofNat (x * 16 + y) :: go rest
      | _, _ => '%' :: go (a :: b :: rest)
    | c :: rest => c :: go rest
    | [] => []
  String.ofList (go s.toList)

def pctEncode (s : String) : String :=
  String.ofList (s.toList.flatMap (fun c =>
    if c.isAlphanum || c == '_' || c == '-' || c == '.' then [c]
    else ['%', toHexDigit (c.toNat / 16), toHexDigit (c.toNat % 16)]))

end XfemmVerif
