import XfemmVerif.Lemmas.SparseMultA
import XfemmVerif.Lemmas.SparseConstraints
import XfemmVerif.Lemmas.CSparseLemmas
/-!
# Every history of the matrix API keeps the stored form

`Good n M` = sizes agree with `n` and every row is in the stored form (`RowsOk`).  `Create` establishes it; `Put`, `AddTo`, writes to the
right-hand side, `SetValue`, `Periodicity`, `AntiPeriodicity` (real and complex versions) keep it for indices inside the matrix.  Hence
the refinement `MultA` = symmetric matrix product (`Lemmas/SparseMultA.lean`) holds on every system the assemblers can build.
-/
set_option linter.unusedSectionVars false
namespace XfemmVerif.Sparse
variable {α : Type} [Field α] [DecidableEq α]

/-- `WF`, size and stored form together: what every operation of the API keeps -/
structure Good (n : Nat) (M : LinProb α) : Prop where
  wf : WF M
  n_eq : M.n = n
  rows : RowsOk M

theorem good_put {n : Nat} {M : LinProb α} (h : Good n M) (v : α) (p q : Nat) (hp : p < n) (hq : q < n) :
    Good n (put M v p q) :=
  ⟨put_wf M h.wf v p q, h.n_eq, put_rowsOk M h.wf h.rows v p q (by rw [h.n_eq]; exact hp) (by rw [h.n_eq]; exact hq)⟩

theorem good_setB {n : Nat} {M : LinProb α} (h : Good n M) (i : Nat) (v : α) : Good n (setB M i v) :=
  ⟨setB_wf M h.wf i v, h.n_eq, setB_rowsOk M h.rows i v⟩

theorem good_setValueRow {n : Nat} {M : LinProb α} (h : Good n M) (i : Nat) (x : α) (k : Nat) (hi : i < n) (hk : k < n) :
    Good n (setValueRow i x M k) := by
  unfold setValueRow
  simp only
  split
  · split
    · exact good_put (good_setB h _ _) _ _ _ hk hi
    · exact good_setB h _ _
  · exact h

theorem good_foldl {n : Nat} (f : LinProb α → Nat → LinProb α) (hf : ∀ M k, Good n M → k < n → Good n (f M k))
    (L : List Nat) (hL : ∀ k ∈ L, k < n) (M : LinProb α) (h : Good n M) : Good n (L.foldl f M) := by
  induction L generalizing M with
  | nil => exact h
  | cons k t ih => exact ih (fun k' hk' => hL k' (by simp [hk'])) _ (hf M k h (hL k (by simp)))

theorem good_setValue {n : Nat} {M : LinProb α} (h : Good n M) (i : Nat) (x : α) (hi : i < n) : Good n (setValue M i x) := by
  unfold setValue
  generalize hw : window M.n M.bdw i = w
  obtain ⟨fst, lst⟩ := w
  have hlst : lst ≤ n := by
    rw [← h.n_eq]; unfold window at hw; split at hw <;> simp only [Prod.mk.injEq] at hw <;> omega
  simp only
  exact good_setB (good_foldl _ (fun M k hM hk => good_setValueRow hM i x k hi hk) _
    (fun k hk => by rw [List.mem_range'_1] at hk; omega) M h) _ _

theorem good_periodicRow {n : Nat} {M : LinProb α} (h : Good n M) (anti : Bool) (i j k : Nat) (hi : i < n) (hj : j < n)
    (hk : k < n) : Good n (periodicRow anti i j M k) := by
  unfold periodicRow
  simp only
  split
  · split
    · split <;> exact good_put (good_put h _ _ _ hk hi) _ _ _ hk hj
    · exact h
  · exact h

theorem good_periodicity {n : Nat} {M : LinProb α} (h : Good n M) (i j : Nat) (hi : i < n) (hj : j < n) :
    Good n (periodicity M i j) := by
  unfold periodicity
  rcases ord_cases i j with ⟨e, _⟩ | ⟨e, _⟩ <;> rw [e] <;> simp only
  · have h1 := good_foldl (periodicRow false i j) (fun M k hM hk => good_periodicRow hM false i j k hi hj hk)
      (List.range M.n) (fun k hk => by rw [← h.n_eq]; exact List.mem_range.1 hk) M h
    exact good_setB (good_setB (good_put (good_put h1 _ _ _ hi hi) _ _ _ hj hj) _ _) _ _
  · have h1 := good_foldl (periodicRow false j i) (fun M k hM hk => good_periodicRow hM false j i k hj hi hk)
      (List.range M.n) (fun k hk => by rw [← h.n_eq]; exact List.mem_range.1 hk) M h
    exact good_setB (good_setB (good_put (good_put h1 _ _ _ hj hj) _ _ _ hi hi) _ _) _ _

theorem good_antiPeriodicity {n : Nat} {M : LinProb α} (h : Good n M) (i j : Nat) (hi : i < n) (hj : j < n) :
    Good n (antiPeriodicity M i j) := by
  unfold antiPeriodicity
  rcases ord_cases i j with ⟨e, _⟩ | ⟨e, _⟩ <;> rw [e] <;> simp only
  · have h1 := good_foldl (periodicRow true i j) (fun M k hM hk => good_periodicRow hM true i j k hi hj hk)
      (List.range M.n) (fun k hk => by rw [← h.n_eq]; exact List.mem_range.1 hk) M h
    exact good_setB (good_setB (good_put (good_put h1 _ _ _ hi hi) _ _ _ hj hj) _ _) _ _
  · have h1 := good_foldl (periodicRow true j i) (fun M k hM hk => good_periodicRow hM true j i k hj hi hk)
      (List.range M.n) (fun k hk => by rw [← h.n_eq]; exact List.mem_range.1 hk) M h
    exact good_setB (good_setB (good_put (good_put h1 _ _ _ hj hj) _ _ _ hi hi) _ _) _ _

/-- the operations of the matrix API -/
inductive ApiOp (α : Type) where
  | put (v : α) (p q : Nat)
  | addTo (v : α) (p q : Nat)
  | setB (i : Nat) (v : α)
  | setValue (i : Nat) (x : α)
  | periodic (i j : Nat)
  | antiPeriodic (i j : Nat)

def ApiOp.inRange (n : Nat) : ApiOp α → Prop
  | .put _ p q => p < n ∧ q < n
  | .addTo _ p q => p < n ∧ q < n
  | .setB _ _ => True
  | .setValue i _ => i < n
  | .periodic i j => i < n ∧ j < n
  | .antiPeriodic i j => i < n ∧ j < n

def ApiOp.apply (M : LinProb α) : ApiOp α → LinProb α
  | .put v p q => Sparse.put M v p q
  | .addTo v p q => Sparse.addTo M v p q
  | .setB i v => Sparse.setB M i v
  | .setValue i x => Sparse.setValue M i x
  | .periodic i j => Sparse.periodicity M i j
  | .antiPeriodic i j => Sparse.antiPeriodicity M i j

theorem good_create (d bw : Nat) : Good d (create (α := α) d bw) := ⟨create_wf d bw, rfl, create_rowsOk d bw⟩

/-- **every history of the matrix API keeps the stored form** -/
theorem good_history (d bw : Nat) (ops : List (ApiOp α)) (hops : ∀ o ∈ ops, o.inRange d) :
    Good d (ops.foldl ApiOp.apply (create (α := α) d bw)) := by
  have key : ∀ (ops : List (ApiOp α)) (M : LinProb α), Good d M → (∀ o ∈ ops, o.inRange d) → Good d (ops.foldl ApiOp.apply M) := by
    intro ops
    induction ops with
    | nil => intro M h _; exact h
    | cons o t ih =>
      intro M h ho
      have h1 := ho o (by simp)
      refine ih _ ?_ (fun o' ho' => ho o' (by simp [ho']))
      cases o with
      | put v p q => exact good_put h v p q h1.1 h1.2
      | addTo v p q => exact good_put h _ p q h1.1 h1.2
      | setB i v => exact good_setB h i v
      | setValue i x => exact good_setValue h i x h1
      | periodic i j => exact good_periodicity h i j h1.1 h1.2
      | antiPeriodic i j => exact good_antiPeriodicity h i j h1.1 h1.2
  exact key ops _ (good_create d bw) hops

end XfemmVerif.Sparse

namespace XfemmVerif.CSparse
open XfemmVerif XfemmVerif.Sparse XfemmVerif.Cx
variable {K : Type} [Field K] [LinearOrder K] [IsStrictOrderedRing K] [AbsGt K] [LawfulAbsGt K]

theorem good_csetValue {n : Nat} {M : CLinProb K} (h : Good n M) (numNodes i : Nat) (x : Cx K) (hi : i < n) :
    Good n (CSparse.setValue numNodes M i x) := by
  unfold CSparse.setValue
  rw [setValueRow_eq]
  exact good_setB (good_foldl _ (fun M k hM hk => good_setValueRow hM i x k hi hk) _
    (fun k hk => by rw [← h.n_eq]; exact setValueRows_lt _ _ _ _ k hk) M h) _ _

/-- the complex solver's API -/
def capply (numNodes : Nat) (M : CLinProb K) : ApiOp (Cx K) → CLinProb K
  | .put v p q => Sparse.put M v p q
  | .addTo v p q => Sparse.addTo M v p q
  | .setB i v => Sparse.setB M i v
  | .setValue i x => CSparse.setValue numNodes M i x
  | .periodic i j => CSparse.periodicity M i j
  | .antiPeriodic i j => CSparse.antiPeriodicity M i j

theorem good_chistory (numNodes d bw : Nat) (ops : List (ApiOp (Cx K))) (hops : ∀ o ∈ ops, o.inRange d) :
    Good d (ops.foldl (capply numNodes) (create (α := Cx K) d bw)) := by
  have key : ∀ (ops : List (ApiOp (Cx K))) (M : CLinProb K), Good d M → (∀ o ∈ ops, o.inRange d) →
      Good d (ops.foldl (capply numNodes) M) := by
    intro ops
    induction ops with
    | nil => intro M h _; exact h
    | cons o t ih =>
      intro M h ho
      have h1 := ho o (by simp)
      refine ih _ ?_ (fun o' ho' => ho o' (by simp [ho']))
      cases o with
      | put v p q => exact good_put h v p q h1.1 h1.2
      | addTo v p q => exact good_put h _ p q h1.1 h1.2
      | setB i v => exact good_setB h i v
      | setValue i x => exact good_csetValue h numNodes i x h1
      | periodic i j => show Good d (CSparse.periodicity M i j); rw [periodicity_eq]; exact good_periodicity h i j h1.1 h1.2
      | antiPeriodic i j => show Good d (CSparse.antiPeriodicity M i j); rw [antiPeriodicity_eq]; exact good_antiPeriodicity h i j h1.1 h1.2
  exact key ops _ (good_create d bw) hops

end XfemmVerif.CSparse
