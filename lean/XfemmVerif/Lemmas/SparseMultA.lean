import XfemmVerif.Lemmas.SparseLemmas
import Mathlib.Algebra.BigOperators.Group.Finset.Basic
import Mathlib.Algebra.BigOperators.Ring.Finset
import Mathlib.Tactic.Ring
/-!
# `MultA` computes the product with the symmetric matrix the rows store

`multA` (the model of `CBigLinProb::MultA` / `CBigComplexLinProb::MultA`) walks the linked rows — upper triangle, diagonal first —
and scatters each stored entry to two components of the result.  For rows in the stored form (`RowsOk`: row `p` starts with its
diagonal entry, columns strictly increase and stay below `n`; what `Create` establishes and `Put` keeps) component `k` of the
result is `∑ j < n, get M k j * X j`: the product with the full symmetric matrix read through `get`.
-/
namespace XfemmVerif.Sparse
open Finset
variable {α : Type} [CommRing α]

theorem vadd_size (Y : Array α) (i : Nat) (d : α) : (vadd Y i d).size = Y.size := by
  simp [vadd]

theorem vget_vadd (Y : Array α) (i : Nat) (d : α) (k : Nat) (hi : i < Y.size) :
    vget (vadd Y i d) k = vget Y k + (if k = i then d else 0) := by
  unfold vadd vget
  simp only [Array.getD_eq_getD_getElem?, Array.getElem?_setIfInBounds]
  by_cases h : i = k
  · subst h; simp [hi]
  · have : ¬ k = i := fun e => h e.symm
    simp [h, this]

/-- sum of `g column value` over the entries of a row -/
def rowSum (g : Nat → α → α) (r : Row α) : α := (r.map (fun a => g a.1 a.2)).sum

@[simp] theorem rowSum_nil (g : Nat → α → α) : rowSum g ([] : Row α) = 0 := rfl
@[simp] theorem rowSum_cons (g : Nat → α → α) (a : Nat × α) (r : Row α) :
    rowSum g (a :: r) = g a.1 a.2 + rowSum g r := by simp [rowSum]

/-- the stored form of row `p` of an `n × n` problem -/
structure RowOk (n p : Nat) (r : Row α) : Prop where
  head : ∃ d rest, r = (p, d) :: rest
  sorted : Sorted r
  lt : ∀ a ∈ r, a.1 < n

def RowsOk (M : LinProb α) : Prop := ∀ p, p < M.n → RowOk M.n p (M.rows.getD p [])

/-- a row whose first column is beyond `j` does not store column `j` -/
theorem getRow_before_head (j : Nat) (r : Row α) (h : ∀ a ∈ r.head?, j < a.1) : getRow j r = 0 := by
  cases r with
  | nil => rfl
  | cons a t =>
    obtain ⟨c, x⟩ := a
    have hc : j < c := by simpa using h
    unfold getRow
    rw [if_neg (by omega), if_pos hc]

/-- **entries ↔ columns**: summing a function that vanishes on zero values over the entries of a sorted row is summing it over
    all columns with the stored value read by `getRow` -/
theorem rowSum_eq_sum_getRow (n : Nat) (g : Nat → α → α) (hg : ∀ c, g c 0 = 0) (r : Row α) (hs : Sorted r)
    (hlt : ∀ a ∈ r, a.1 < n) : rowSum g r = ∑ j ∈ range n, g j (getRow j r) := by
  induction r with
  | nil => simp [getRow, hg]
  | cons a t ih =>
    obtain ⟨c, x⟩ := a
    have hc : c < n := hlt (c, x) (by simp)
    have ht := ih (sorted_tail hs) (fun a ha => hlt a (by simp [ha]))
    rw [rowSum_cons, ht]
    have hhead := sorted_head_lt hs
    -- split column c off the right-hand sum
    have hsplit : ∀ f : Nat → α, ∑ j ∈ range n, f j = f c + ∑ j ∈ (range n).erase c, f j := by
      intro f; rw [add_comm]; exact (Finset.sum_erase_add _ _ (mem_range.2 hc)).symm
    rw [hsplit (fun j => g j (getRow j ((c, x) :: t))), hsplit (fun j => g j (getRow j t))]
    have h1 : getRow c ((c, x) :: t) = x := by simp [getRow]
    have h2 : getRow c t = 0 := getRow_before_head c t hhead
    simp only [h1, h2, hg, zero_add]
    congr 1
    apply Finset.sum_congr rfl
    intro j hj
    have hjc : j ≠ c := (Finset.mem_erase.1 hj).1
    have : getRow j ((c, x) :: t) = getRow j t := by
      have e : getRow j ((c, x) :: t) = if c = j then x else if j < c then 0 else getRow j t := by
        simp [getRow]
      rw [e, if_neg (fun e => hjc e.symm)]
      by_cases hlt' : j < c
      · rw [if_pos hlt']
        exact (getRow_before_head j t (fun a ha => lt_trans hlt' (hhead a ha))).symm
      · rw [if_neg hlt']
    rw [this]

/-- the scatter of the entries after the diagonal one -/
theorem vget_foldl_rest (X : Array α) (i : Nat) (rest : Row α) (Y : Array α) (k : Nat) (hi : i < Y.size)
    (hlt : ∀ a ∈ rest, a.1 < Y.size) :
    vget (rest.foldl (fun Y cx => vadd (vadd Y i (cx.2 * vget X cx.1)) cx.1 (cx.2 * vget X i)) Y) k =
      vget Y k + rowSum (fun c x => (if k = i then x * vget X c else 0) + (if k = c then x * vget X i else 0)) rest := by
  induction rest generalizing Y with
  | nil => simp
  | cons a t ih =>
    obtain ⟨c, x⟩ := a
    have hc : c < Y.size := hlt (c, x) (by simp)
    simp only [List.foldl_cons, rowSum_cons]
    rw [ih _ (by rw [vadd_size, vadd_size]; exact hi)
      (fun a ha => by rw [vadd_size, vadd_size]; exact hlt a (by simp [ha]))]
    rw [vget_vadd _ _ _ _ (by rw [vadd_size]; exact hc), vget_vadd _ _ _ _ hi]
    ring

/-- one row of `MultA` -/
theorem vget_multARow (n : Nat) (X Y : Array α) (i : Nat) (r : Row α) (k : Nat) (hY : Y.size = n) (hi : i < n)
    (hr : RowOk n i r) :
    vget (multARow X Y i r) k =
      vget Y k + rowSum (fun c x => (if k = i then x * vget X c else 0) + (if k = c ∧ c ≠ i then x * vget X i else 0)) r := by
  obtain ⟨d, rest, rfl⟩ := hr.head
  unfold multARow
  rw [vget_foldl_rest X i rest _ k (by rw [vadd_size, hY]; exact hi)
    (fun a ha => by rw [vadd_size, hY]; exact hr.lt a (by simp [ha]))]
  rw [vget_vadd _ _ _ _ (by rw [hY]; exact hi), rowSum_cons]
  -- the entries after the diagonal have columns beyond `i`
  have hgt : ∀ t : Row α, (∀ a ∈ t.head?, i < a.1) → Sorted t → ∀ a ∈ t, i < a.1 := by
    intro t
    induction t with
    | nil => simp
    | cons b t ih =>
      intro hh hs a ha
      have hb : i < b.1 := hh b (by simp)
      rcases List.mem_cons.1 ha with rfl | ha'
      · exact hb
      · exact ih (fun a' ha' => lt_trans hb (sorted_head_lt (c := b.1) (x := b.2) hs a' ha')) (sorted_tail hs) a ha'
  have hrest := hgt rest (sorted_head_lt hr.sorted) (sorted_tail hr.sorted)
  have hsum : rowSum (fun c x => (if k = i then x * vget X c else 0) + (if k = c then x * vget X i else 0)) rest =
      rowSum (fun c x => (if k = i then x * vget X c else 0) + (if k = c ∧ c ≠ i then x * vget X i else 0)) rest := by
    unfold rowSum
    congr 1
    apply List.map_congr_left
    intro a ha
    have : a.1 ≠ i := Nat.ne_of_gt (hrest a ha)
    simp [this]
  rw [hsum]
  simp
  ring

/-- a list of rows -/
theorem vget_foldl_rows (M : LinProb α) (X : Array α) (k : Nat) (L : List Nat) (Y : Array α) (hY : Y.size = M.n)
    (hL : ∀ i ∈ L, i < M.n) (hM : RowsOk M) :
    vget (L.foldl (fun Y i => multARow X Y i (M.rows.getD i [])) Y) k =
      vget Y k + (L.map (fun i => rowSum (fun c x => (if k = i then x * vget X c else 0) +
        (if k = c ∧ c ≠ i then x * vget X i else 0)) (M.rows.getD i []))).sum := by
  induction L generalizing Y with
  | nil => simp
  | cons i t ih =>
    have hi : i < M.n := hL i (by simp)
    have hsz : (multARow X Y i (M.rows.getD i [])).size = M.n := by
      obtain ⟨d, rest, hr⟩ := (hM i hi).head
      rw [hr]; unfold multARow
      have : ∀ (l : Row α) (Z : Array α), (l.foldl (fun Y cx => vadd (vadd Y i (cx.2 * vget X cx.1)) cx.1 (cx.2 * vget X i)) Z).size = Z.size := by
        intro l; induction l with
        | nil => intro Z; rfl
        | cons a l ihl => intro Z; simp only [List.foldl_cons]; rw [ihl, vadd_size, vadd_size]
      rw [this, vadd_size, hY]
    simp only [List.foldl_cons, List.map_cons, List.sum_cons]
    rw [ih _ hsz (fun j hj => hL j (by simp [hj])), vget_multARow M.n X Y i _ k hY hi (hM i hi)]
    ring

theorem list_range_sum (n : Nat) (f : Nat → α) : ((List.range n).map f).sum = ∑ i ∈ range n, f i := by
  induction n with
  | zero => simp
  | succ m ih => rw [List.range_succ, List.map_append, List.sum_append, ih, Finset.sum_range_succ]; simp

/-- **`MultA` is the product with the stored symmetric matrix** -/
theorem vget_multA (M : LinProb α) (hM : RowsOk M) (X : Array α) (k : Nat) (hk : k < M.n) :
    vget (multA M X) k = ∑ j ∈ range M.n, get M k j * vget X j := by
  unfold multA
  rw [vget_foldl_rows M X k (List.range M.n) _ (by simp) (fun i hi => List.mem_range.1 hi) hM, list_range_sum]
  have h0 : vget (Array.replicate M.n (0 : α)) k = 0 := by simp [vget, hk]
  rw [h0, zero_add]
  -- entries → columns, row by row
  have hrow : ∀ i ∈ range M.n,
      rowSum (fun c x => (if k = i then x * vget X c else 0) + (if k = c ∧ c ≠ i then x * vget X i else 0)) (M.rows.getD i []) =
        ∑ j ∈ range M.n, ((if k = i then getRow j (M.rows.getD i []) * vget X j else 0) +
          (if k = j ∧ j ≠ i then getRow j (M.rows.getD i []) * vget X i else 0)) := by
    intro i hi
    have hr := hM i (mem_range.1 hi)
    exact rowSum_eq_sum_getRow M.n _ (by intro c; simp) _ hr.sorted hr.lt
  rw [Finset.sum_congr rfl hrow]
  -- first parts: only row k; second parts: only column k
  have e1 : ∑ i ∈ range M.n, ∑ j ∈ range M.n, (if k = i then getRow j (M.rows.getD i []) * vget X j else 0) =
      ∑ j ∈ range M.n, getRow j (M.rows.getD k []) * vget X j := by
    rw [Finset.sum_eq_single k]
    · simp
    · intro i _ hik
      have : ¬ k = i := fun e => hik e.symm
      simp [this]
    · intro h; exact absurd (mem_range.2 hk) h
  have e2 : ∑ i ∈ range M.n, ∑ j ∈ range M.n, (if k = j ∧ j ≠ i then getRow j (M.rows.getD i []) * vget X i else 0) =
      ∑ i ∈ range M.n, (if k ≠ i then getRow k (M.rows.getD i []) * vget X i else 0) := by
    apply Finset.sum_congr rfl
    intro i _
    rw [Finset.sum_eq_single k]
    · by_cases h : k = i <;> simp [h]
    · intro j _ hjk
      have : ¬ k = j := fun e => hjk e.symm
      simp [this]
    · intro h; exact absurd (mem_range.2 hk) h
  simp only [Finset.sum_add_distrib]
  rw [e1, e2, ← Finset.sum_add_distrib]
  apply Finset.sum_congr rfl
  intro j hj
  have hjn := mem_range.1 hj
  -- `get` reads the upper triangle
  unfold get ord
  by_cases hjk : j < k
  · -- below the diagonal: the entry lives in row j, column k; row k does not store column j
    have hz : getRow j (M.rows.getD k []) = 0 := by
      obtain ⟨d, rest, hr⟩ := (hM k hk).head
      rw [hr]; exact getRow_before_head j _ (by simpa using hjk)
    simp only [hjk, if_true, hz, zero_mul, zero_add]
    rw [if_pos (by omega)]
  · have hkj : k ≤ j := Nat.le_of_not_lt hjk
    simp only [hjk, if_false]
    by_cases he : k = j
    · subst he; simp
    · have hz : getRow k (M.rows.getD j []) = 0 := by
        obtain ⟨d, rest, hr⟩ := (hM j hjn).head
        rw [hr]; exact getRow_before_head k _ (by simp; omega)
      rw [if_pos he, hz, zero_mul, add_zero]

/-! ### the stored form is what `Create` establishes and `Put` keeps -/

theorem create_rowsOk (d bw : Nat) : RowsOk (create (α := α) d bw) := by
  intro p hp
  have hp' : p < d := hp
  have : (create (α := α) d bw).rows.getD p [] = [(p, (0 : α))] := by
    simp [create, hp']
  rw [this]
  exact ⟨⟨0, [], rfl⟩, trivial, by intro a ha; simp at ha; subst ha; exact hp⟩

theorem putRow_mem_lt (n q : Nat) (hq : q < n) (v : α) (r : Row α) (h : ∀ a ∈ r, a.1 < n) :
    ∀ a ∈ putRow q v r, a.1 < n := by
  induction r with
  | nil => intro a ha; simp [putRow] at ha; subst ha; exact hq
  | cons b t ih =>
    obtain ⟨c, x⟩ := b
    intro a ha
    unfold putRow at ha
    split at ha
    · rcases List.mem_cons.1 ha with rfl | h'
      · exact h (c, x) (by simp)
      · exact h a (by simp [h'])
    · split at ha
      · rcases List.mem_cons.1 ha with rfl | h'
        · exact hq
        · exact h a h'
      · rcases List.mem_cons.1 ha with rfl | h'
        · exact h (c, x) (by simp)
        · exact ih (fun a ha => h a (by simp [ha])) a h'

theorem putRow_rowOk (n p q : Nat) (hpq : p ≤ q) (hq : q < n) (v : α) (r : Row α) (hr : RowOk n p r) :
    RowOk n p (putRow q v r) := by
  obtain ⟨d, rest, rfl⟩ := hr.head
  obtain ⟨x', t', e⟩ := putRow_head p q hpq v d rest
  exact ⟨⟨x', t', e⟩, putRow_sorted q v _ hr.sorted, putRow_mem_lt n q hq v _ hr.lt⟩

/-- `Put` inside the matrix keeps the stored form -/
theorem put_rowsOk (M : LinProb α) (hW : WF M) (hM : RowsOk M) (v : α) (p q : Nat) (hp : p < M.n) (hq : q < M.n) :
    RowsOk (put M v p q) := by
  intro r hr
  have hr' : r < M.n := hr
  show RowOk M.n r ((put M v p q).rows.getD r [])
  unfold put
  rcases ord_cases p q with ⟨e, hle⟩ | ⟨e, hlt⟩
  · rw [e]; simp only
    rw [getD_modify _ _ _ _ rfl]
    split
    · rename_i h; obtain ⟨rfl, _⟩ := h
      exact putRow_rowOk M.n p q hle hq v _ (hM p hp)
    · exact hM r hr'
  · rw [e]; simp only
    rw [getD_modify _ _ _ _ rfl]
    split
    · rename_i h; obtain ⟨rfl, _⟩ := h
      exact putRow_rowOk M.n q p (Nat.le_of_lt hlt) hp v _ (hM q hq)
    · exact hM r hr'

theorem addTo_rowsOk (M : LinProb α) (hW : WF M) (hM : RowsOk M) (v : α) (p q : Nat) (hp : p < M.n) (hq : q < M.n) :
    RowsOk (addTo M v p q) := put_rowsOk M hW hM _ p q hp hq

theorem setB_rowsOk (M : LinProb α) (hM : RowsOk M) (i : Nat) (v : α) : RowsOk (setB M i v) := hM

end XfemmVerif.Sparse
