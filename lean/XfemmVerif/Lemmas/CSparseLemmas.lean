import XfemmVerif.Model.CSparse
import XfemmVerif.Lemmas.ComplexField
import XfemmVerif.Lemmas.SparseConstraints
/-!
# The complex solver's constraint operations are the generic ones over the field `Cx K`

`CSparse.setValueRow`, `periodicRow`, `periodicity`, `antiPeriodicity` — written with the mixed complex / real operators of the
C++ — equal the generic `Sparse` functions instantiated at the field `Cx K` (`Lemmas/ComplexField.lean`), so every theorem about
those transfers.  `SetValue` has its own scan window in `cspars.cpp`; `setValue_view_rows` is the `get` view for any row list.
-/
set_option linter.unusedSectionVars false
namespace XfemmVerif.Sparse
variable {α : Type} [Field α] [DecidableEq α]

/-- `SetValue` over an arbitrary list of visited rows `L` that covers the non-zeros of column `i` -/
theorem setValue_view_rows (M : LinProb α) (hM : WF M) (i : Nat) (hi : i < M.n) (x : α) (L : List Nat) (hL : L.Nodup)
    (hLn : ∀ k ∈ L, k < M.n) (hcover : ∀ k, k < M.n → get M k i ≠ 0 → k ∈ L) :
    let M1 := L.foldl (setValueRow i x) M
    let M' := setB M1 i (get M1 i i * x)
    WF M' ∧ M'.n = M.n ∧
    (∀ a b, a < M.n → b < M.n → get M' a b =
      if a = i ∨ b = i then (if a = b then get M i i else 0) else get M a b) ∧
    (∀ c, c < M.n → getB M' c =
      if c = i then get M i i * x else getB M c - get M c i * x) := by
  obtain ⟨w, hn, hg, hb⟩ := setValue_fold i x L hL M hM hi hLn
  have hzero : ∀ k, k < M.n → k ∉ L → get M k i = 0 := by
    intro k hkn hk
    by_contra hne
    exact hk (hcover k hkn hne)
  have hn' : (List.foldl (setValueRow i x) M L).n = M.n := hn
  refine ⟨setB_wf _ w _ _, by simpa using hn', ?_, ?_⟩
  · intro a b han hbn
    rw [get_setB, hg]
    by_cases ha : a = i <;> by_cases hb' : b = i
    · subst ha; subst hb'; simp
    · subst ha
      have hab : ¬ a = b := fun h => hb' h.symm
      rw [if_pos (Or.inl rfl), if_neg hab]
      by_cases hbL : b ∈ L
      · rw [if_pos (Or.inr ⟨hbL, rfl, hb'⟩)]
      · rw [if_neg (by rintro (⟨_, h, _⟩ | ⟨h, _, _⟩) <;> [exact hb' h; exact hbL h])]
        rw [get_symm]; exact hzero b hbn hbL
    · subst hb'
      rw [if_pos (Or.inr rfl), if_neg ha]
      by_cases haL : a ∈ L
      · rw [if_pos (Or.inl ⟨haL, rfl, ha⟩)]
      · rw [if_neg (by rintro (⟨h, _, _⟩ | ⟨_, h, _⟩) <;> [exact haL h; exact ha h])]
        exact hzero a han haL
    · rw [if_neg (by rintro (⟨_, h, _⟩ | ⟨_, h, _⟩) <;> [exact hb' h; exact ha h]),
        if_neg (by rintro (h | h) <;> [exact ha h; exact hb' h])]
  · intro c hcn
    rw [hg]
    by_cases hc : c = i
    · subst hc
      rw [getB_setB _ w _ (by rw [hn']; exact hi)]
      simp
    · rw [getB_setB _ w _ (by rw [hn']; exact hi), if_neg hc, if_neg hc, hb]
      split
      · rfl
      · rename_i h; rw [hzero c hcn h]; ring

end XfemmVerif.Sparse

namespace XfemmVerif.CSparse
open XfemmVerif XfemmVerif.Sparse XfemmVerif.Cx
variable {K : Type} [Field K] [LinearOrder K] [IsStrictOrderedRing K] [AbsGt K] [LawfulAbsGt K]

theorem ne0_eq (z : Cx K) : z.ne0 = (z != 0) := by
  rw [Bool.eq_iff_iff, ne0_iff]; simp [bne_iff_ne]

theorem setValueRow_eq (i : Nat) (x : Cx K) :
    CSparse.setValueRow i x = Sparse.setValueRow i x := by
  funext M k
  unfold CSparse.setValueRow Sparse.setValueRow
  simp only [ne0_eq]

theorem periodicRow_eq (anti : Bool) (i j : Nat) :
    CSparse.periodicRow (α := K) anti i j = Sparse.periodicRow anti i j := by
  funext M k
  unfold CSparse.periodicRow Sparse.periodicRow
  simp only [ne0_eq, divR_two]

theorem periodicity_eq (M : CLinProb K) (i j : Nat) : CSparse.periodicity M i j = Sparse.periodicity M i j := by
  unfold CSparse.periodicity Sparse.periodicity
  simp only [periodicRow_eq, divR_two, rmul_half]

theorem antiPeriodicity_eq (M : CLinProb K) (i j : Nat) : CSparse.antiPeriodicity M i j = Sparse.antiPeriodicity M i j := by
  unfold CSparse.antiPeriodicity Sparse.antiPeriodicity
  simp only [periodicRow_eq, rmul_half]

theorem setValueRows_nodup (n bdw numNodes i : Nat) : (setValueRows n bdw numNodes i).Nodup := by
  unfold setValueRows
  split
  · exact List.nodup_range
  · simp only
    split
    · exact List.nodup_range' ..
    · split
      · exact List.nodup_range' ..
      · rw [List.nodup_append]
        refine ⟨List.nodup_range' .., List.nodup_range' .., ?_⟩
        intro a ha b hb
        rw [List.mem_range'_1] at ha hb
        omega

theorem setValueRows_lt (n bdw numNodes i : Nat) : ∀ k ∈ setValueRows n bdw numNodes i, k < n := by
  unfold setValueRows
  intro k
  split
  · simp
  · simp only
    split
    · rw [List.mem_range'_1]; omega
    · split
      · rw [List.mem_range'_1]; omega
      · rw [List.mem_append, List.mem_range'_1, List.mem_range'_1]; omega

/-- membership in the rows `SetValue` scans: the band `[i-bdw, min(i+bdw, NumNodes))` plus every row from `NumNodes` on -/
theorem mem_setValueRows (n bdw numNodes i k : Nat) (hk : k < n) (hnn : numNodes ≤ n) :
    k ∈ setValueRows n bdw numNodes i ↔ (bdw = 0 ∨ (i - bdw ≤ k ∧ (k < i + bdw ∨ numNodes ≤ k))) := by
  unfold setValueRows
  split
  · simp [*]
  · simp only
    split
    · rw [List.mem_range'_1]; omega
    · split
      · rw [List.mem_range'_1]; omega
      · rw [List.mem_append, List.mem_range'_1, List.mem_range'_1]; omega

end XfemmVerif.CSparse
