/-
Lemmas about `Model/EditGeom.lean`: the point maps of the copy / move commands over `Cx K` (a field for every ordered field `K`):
a reflection reverses orientation and keeps distances, a rotation by a unit complex number and a translation keep both.
-/
import XfemmVerif.Model.EditGeom
import XfemmVerif.Lemmas.ComplexField
import Mathlib.Tactic.LinearCombination
namespace XfemmVerif.EditGeomLemmas
open XfemmVerif XfemmVerif.EditGeom XfemmVerif.Cx

variable {K : Type} [Field K] [LinearOrder K] [IsStrictOrderedRing K] [AbsGt K] [LawfulAbsGt K]

theorem conj_mul (a b : Cx K) : Cx.conj (a * b) = Cx.conj a * Cx.conj b := by
  apply Cx.ext' <;> simp [Cx.conj] <;> ring

/-- for a unit vector the inverse is the conjugate -/
theorem inv_unit (p : Cx K) (hp : p.re * p.re + p.im * p.im = 1) : p⁻¹ = Cx.conj p := by
  have hne : p ≠ 0 := by
    intro h; rw [h] at hp; simp at hp
  have h1 : p * Cx.conj p = 1 := by
    apply Cx.ext' <;> simp [Cx.conj]
    · linarith [hp]
    · ring
  exact (eq_inv_of_mul_eq_one_right h1).symm

/-- the reflection written out: `M y - x = p² · conj (y - x)` -/
theorem mirror_eq (x p y : Cx K) (hp : p.re * p.re + p.im * p.im = 1) : mirror x p y = p * p * Cx.conj (y - x) + x := by
  unfold mirror
  rw [div_eq_mul_inv, inv_unit p hp, conj_mul]
  have : Cx.conj (Cx.conj p) = p := by apply Cx.ext' <;> simp [Cx.conj]
  rw [this]; ring

/-- **a reflection reverses orientation**: the signed area of every triangle changes sign -/
theorem mirror_reverses_orientation (x p a b c : Cx K) (hp : p.re * p.re + p.im * p.im = 1) :
    cross (mirror x p b - mirror x p a) (mirror x p c - mirror x p a) = - cross (b - a) (c - a) := by
  rw [mirror_eq x p a hp, mirror_eq x p b hp, mirror_eq x p c hp]
  simp only [cross, Cx.conj]
  have h2 : (p.re * p.re + p.im * p.im) ^ 2 = 1 := by rw [hp]; ring
  simp
  linear_combination ((b.re - a.re) * (c.im - a.im) - (b.im - a.im) * (c.re - a.re)) * (-1) * h2 + 0

/-- ... and keeps every distance -/
theorem mirror_keeps_distance (x p a b : Cx K) (hp : p.re * p.re + p.im * p.im = 1) :
    absq (mirror x p b - mirror x p a) = absq (b - a) := by
  rw [mirror_eq x p a hp, mirror_eq x p b hp]
  simp only [absq, Cx.conj]
  have h2 : (p.re * p.re + p.im * p.im) ^ 2 = 1 := by rw [hp]; ring
  simp
  linear_combination ((b.re - a.re) ^ 2 + (b.im - a.im) ^ 2) * h2

/-- a rotation by a unit complex number keeps orientation -/
theorem rotate_keeps_orientation (c z a b d : Cx K) (hz : z.re * z.re + z.im * z.im = 1) :
    cross (rotate c z b - rotate c z a) (rotate c z d - rotate c z a) = cross (b - a) (d - a) := by
  simp only [rotate, cross]
  simp
  linear_combination ((b.re - a.re) * (d.im - a.im) - (b.im - a.im) * (d.re - a.re)) * hz

/-- ... and every distance -/
theorem rotate_keeps_distance (c z a b : Cx K) (hz : z.re * z.re + z.im * z.im = 1) :
    absq (rotate c z b - rotate c z a) = absq (b - a) := by
  simp only [rotate, absq]
  simp
  linear_combination ((b.re - a.re) ^ 2 + (b.im - a.im) ^ 2) * hz

/-- a translation keeps differences altogether -/
theorem translate_keeps_differences (d a b : Cx K) : translate d b - translate d a = b - a := by
  apply Cx.ext' <;> simp [translate]

end XfemmVerif.EditGeomLemmas
