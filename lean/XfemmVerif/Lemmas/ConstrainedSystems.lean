import XfemmVerif.Lemmas.SparseConstraints
import Mathlib.Algebra.BigOperators.Group.Finset.Basic
import Mathlib.Algebra.BigOperators.Ring.Finset
import Mathlib.Algebra.BigOperators.Field
import Mathlib.Tactic.Linarith
import Mathlib.Tactic.LinearCombination
/-!
Abstract linear algebra behind C09/C07: what the systems produced by `SetValue` and by
`Periodicity` / `AntiPeriodicity` mean, on matrices as functions `ℕ → ℕ → α` over any field.
-/
open Finset
namespace XfemmVerif.Sparse
variable {α : Type} [Field α]

/-- product of the leading `n × n` block with a vector -/
def mulVec (n : ℕ) (A : ℕ → ℕ → α) (y : ℕ → α) (k : ℕ) : α := ∑ l ∈ range n, A k l * y l

/-- `y` solves the `n × n` system `A y = b` -/
def Solves (n : ℕ) (A : ℕ → ℕ → α) (b y : ℕ → α) : Prop := ∀ k < n, mulVec n A y k = b k

theorem mulVec_congr {n : ℕ} {A B : ℕ → ℕ → α} (y : ℕ → α) {k : ℕ} (hk : k < n)
    (h : ∀ a b, a < n → b < n → A a b = B a b) : mulVec n A y k = mulVec n B y k := by
  unfold mulVec
  exact sum_congr rfl (fun l hl => by rw [h k l hk (mem_range.1 hl)])

/-! ### fixing a value -/

def setA (A : ℕ → ℕ → α) (i : ℕ) : ℕ → ℕ → α := fun k l =>
  if k = i ∨ l = i then (if k = l then A i i else 0) else A k l

def setBv (A : ℕ → ℕ → α) (b : ℕ → α) (i : ℕ) (x : α) : ℕ → α := fun k =>
  if k = i then A i i * x else b k - A k i * x

theorem setA_mulVec {n : ℕ} (A : ℕ → ℕ → α) (y : ℕ → α) {i : ℕ} (hi : i < n) (k : ℕ) :
    mulVec n (setA A i) y k = if k = i then A i i * y i else mulVec n A y k - A k i * y i := by
  unfold mulVec
  have hi' : i ∈ range n := mem_range.2 hi
  rw [← add_sum_erase _ _ hi', ← add_sum_erase _ (fun l => A k l * y l) hi']
  by_cases hk : k = i
  · subst hk
    rw [if_pos rfl]
    have : ∑ l ∈ (range n).erase k, setA A k k l * y l = 0 := by
      apply sum_eq_zero
      intro l hl
      have hne : l ≠ k := (mem_erase.1 hl).1
      simp [setA, hne.symm]
    rw [this]; simp [setA]
  · rw [if_neg hk]
    have : ∑ l ∈ (range n).erase i, setA A i k l * y l = ∑ l ∈ (range n).erase i, A k l * y l := by
      apply sum_congr rfl
      intro l hl
      have hne : l ≠ i := (mem_erase.1 hl).1
      simp [setA, hk, hne]
    rw [this]; simp [setA, hk]

theorem setValue_abstract {n : ℕ} (A : ℕ → ℕ → α) (b y : ℕ → α) {i : ℕ} (hi : i < n) (x : α)
    (hd : A i i ≠ 0) :
    Solves n (setA A i) (setBv A b i x) y ↔
      (y i = x ∧ ∀ k < n, k ≠ i → mulVec n A y k = b k) := by
  unfold Solves
  constructor
  · intro h
    have hyi : y i = x := by
      have := h i hi
      rw [setA_mulVec A y hi] at this
      simp only [setBv, if_true] at this
      exact mul_left_cancel₀ hd this
    refine ⟨hyi, ?_⟩
    intro k hk hki
    have := h k hk
    rw [setA_mulVec A y hi] at this
    simp only [setBv, if_neg hki] at this
    rw [hyi] at this
    exact sub_left_inj.mp this
  · rintro ⟨hyi, h⟩ k hk
    rw [setA_mulVec A y hi]
    by_cases hki : k = i
    · simp [setBv, hki, hyi]
    · simp only [setBv, if_neg hki]
      rw [h k hk hki, hyi]

/-! ### tying two unknowns: `y i = s · y j`, `s = ±1` -/

theorem tieA_mulVec [CharZero α] {n : ℕ} (s : α) (hs : s * s = 1) (A : ℕ → ℕ → α) (hA : ∀ k l, A k l = A l k)
    (y : ℕ → α) {i j : ℕ} (hij : i ≠ j) (hi : i < n) (hj : j < n) (hy : y i = s * y j) (k : ℕ) :
    mulVec n (tieA s A i j) y k =
      if k = i then (mulVec n A y i + s * mulVec n A y j) / 2
      else if k = j then (mulVec n A y j + s * mulVec n A y i) / 2
      else mulVec n A y k := by
  have hyj : y j = s * y i := by rw [hy, ← mul_assoc, hs, one_mul]
  unfold mulVec
  have hi' : i ∈ range n := mem_range.2 hi
  have hj' : j ∈ (range n).erase i := mem_erase.2 ⟨hij.symm, mem_range.2 hj⟩
  have split : ∀ f : ℕ → α, ∑ l ∈ range n, f l = f i + (f j + ∑ l ∈ ((range n).erase i).erase j, f l) := by
    intro f
    rw [← add_sum_erase _ _ hi', ← add_sum_erase _ _ hj']
  have hrest : ∀ l ∈ ((range n).erase i).erase j, l ≠ i ∧ l ≠ j := by
    intro l hl
    have h1 := mem_erase.1 hl
    have h2 := mem_erase.1 h1.2
    exact ⟨h2.1, h1.1⟩
  have hji : ¬ j = i := fun h => hij h.symm
  by_cases hki : k = i
  · subst hki
    rw [if_pos rfl, split, split (fun l => A k l * y l), split (fun l => A j l * y l)]
    have hsum : ∑ l ∈ ((range n).erase k).erase j, tieA s A k j k l * y l
        = ∑ l ∈ ((range n).erase k).erase j, ((A k l * y l + s * (A j l * y l)) / 2) := by
      apply sum_congr rfl
      intro l hl
      obtain ⟨h1, h2⟩ := hrest l hl
      simp only [tieA, other, true_or, if_true, h1, h2, or_self, if_false]
      rw [hA l k, hA l j]; ring
    rw [hsum, ← sum_div, sum_add_distrib, ← mul_sum]
    simp only [tieA, true_or, or_true, if_true, hij, if_false]
    rw [hA j k]
    linear_combination (A j j / 2) * hy + (A k j / 2) * hyj
  by_cases hkj : k = j
  · subst hkj
    rw [if_neg hki, if_pos rfl, split, split (fun l => A k l * y l), split (fun l => A i l * y l)]
    have hsum : ∑ l ∈ ((range n).erase i).erase k, tieA s A i k k l * y l
        = ∑ l ∈ ((range n).erase i).erase k, ((A k l * y l + s * (A i l * y l)) / 2) := by
      apply sum_congr rfl
      intro l hl
      obtain ⟨h1, h2⟩ := hrest l hl
      simp only [tieA, other, or_true, if_true, h1, h2, or_self, if_false, hki]
      rw [hA l k, hA l i]; ring
    rw [hsum, ← sum_div, sum_add_distrib, ← mul_sum]
    simp only [tieA, true_or, or_true, if_true, hki, if_false]
    rw [hA k i]
    linear_combination (A i i / 2) * hyj + (A i k / 2) * hy
  · rw [if_neg hki, if_neg hkj, split, split (fun l => A k l * y l)]
    have hsum : ∑ l ∈ ((range n).erase i).erase j, tieA s A i j k l * y l
        = ∑ l ∈ ((range n).erase i).erase j, A k l * y l := by
      apply sum_congr rfl
      intro l hl
      obtain ⟨h1, h2⟩ := hrest l hl
      simp only [tieA, hki, hkj, h1, h2, or_self, if_false]
    rw [hsum]
    simp only [tieA, other, hki, hkj, or_self, if_false, true_or, or_true, if_true, hji]
    linear_combination (s * A k j / 2) * hy + (s * A k i / 2) * hyj + (A k i * y i / 2 + A k j * y j / 2) * hs

/-- **tying two unknowns** (`s = 1` periodic, `s = -1` antiperiodic): for vectors that satisfy the tie,
    the averaged system is equivalent to the constrained one — every other row unchanged, the two
    tied rows replaced by their signed sum -/
theorem tie_abstract [CharZero α] {n : ℕ} (s : α) (hs : s * s = 1) (A : ℕ → ℕ → α)
    (hA : ∀ k l, A k l = A l k) (b y : ℕ → α) {i j : ℕ} (hij : i ≠ j) (hi : i < n) (hj : j < n)
    (hy : y i = s * y j) :
    Solves n (tieA s A i j) (tieB s b i j) y ↔
      ((∀ k < n, k ≠ i → k ≠ j → mulVec n A y k = b k) ∧
        mulVec n A y i + s * mulVec n A y j = b i + s * b j) := by
  unfold Solves
  have hji : ¬ j = i := fun h => hij h.symm
  constructor
  · intro h
    refine ⟨?_, ?_⟩
    · intro k hk hki hkj
      have := h k hk
      rw [tieA_mulVec s hs A hA y hij hi hj hy] at this
      simpa [tieB, hki, hkj] using this
    · have := h i hi
      rw [tieA_mulVec s hs A hA y hij hi hj hy] at this
      simp only [tieB, if_true] at this
      field_simp at this
      exact this
  · rintro ⟨h1, h2⟩ k hk
    rw [tieA_mulVec s hs A hA y hij hi hj hy]
    by_cases hki : k = i
    · simp only [tieB, if_pos hki]; rw [h2]
    · by_cases hkj : k = j
      · simp only [tieB, if_neg hki, if_pos hkj]
        have e : mulVec n A y j + s * mulVec n A y i = s * (mulVec n A y i + s * mulVec n A y j) := by
          linear_combination (-(mulVec n A y j)) * hs
        have e' : b j + s * b i = s * (b i + s * b j) := by
          linear_combination (-(b j)) * hs
        rw [e, e', h2]
      · simp only [tieB, if_neg hki, if_neg hkj]
        exact h1 k hk hki hkj

/-- one CG-type update keeps the recurrence residual equal to the true residual, whatever the step
    length and whatever the preconditioner did (shared by PCG, PBCG, PCGSQStart) -/
theorem cg_residual_step {n : ℕ} (A : ℕ → ℕ → α) (b V R P : ℕ → α) (del : α)
    (hR : ∀ k < n, R k = b k - mulVec n A V k) :
    ∀ k < n, (R k - del * mulVec n A P k) = b k - mulVec n A (fun l => V l + del * P l) k := by
  intro k hk
  rw [hR k hk]
  unfold mulVec
  have : ∑ l ∈ range n, A k l * (V l + del * P l)
      = ∑ l ∈ range n, A k l * V l + del * ∑ l ∈ range n, A k l * P l := by
    rw [mul_sum, ← sum_add_distrib]
    apply sum_congr rfl; intro l _; ring
  rw [this]; ring

end XfemmVerif.Sparse
