import XfemmVerif.Model.Sparse
/-!
Helper lemmas about `Model/Sparse.lean` (core Lean only): the `get`-view of the linked-row storage.
Everything later (constraint operations, assembly) is proved through these few laws, exactly as the
C++ writes `SetValue` / `Periodicity` only in terms of `Get` / `Put` / `b[]`.
-/
namespace XfemmVerif.Sparse

variable {α : Type}

/-! ### rows -/

theorem getRow_putRow_same [OfNat α 0] (q : Nat) (v : α) (r : Row α) :
    getRow q (putRow q v r) = v := by
  fun_induction putRow q v r <;> simp_all [getRow] <;> omega

theorem getRow_putRow_other [OfNat α 0] (q q' : Nat) (hq : q' ≠ q) (v : α) (r : Row α) :
    getRow q' (putRow q v r) = getRow q' r := by
  fun_induction putRow q v r <;> simp_all [getRow] <;> grind

/-- strictly increasing columns -/
def Sorted : Row α → Prop
  | [] => True
  | [_] => True
  | (c, _) :: (d, y) :: rest => c < d ∧ Sorted ((d, y) :: rest)

theorem put_head_ge (q : Nat) (v : α) (r : Row α) (m : Nat) (hq : m ≤ q)
    (h : ∀ a ∈ r.head?, m ≤ a.1) : ∀ a ∈ (putRow q v r).head?, m ≤ a.1 := by
  cases r with
  | nil => simp [putRow]; exact hq
  | cons b t =>
    obtain ⟨c, x⟩ := b
    unfold putRow
    split
    · simpa using h
    · split
      · simp; exact hq
      · simpa using h

theorem sorted_cons (c : Nat) (x : α) (r : Row α) (hs : Sorted r)
    (h : ∀ a ∈ r.head?, c < a.1) : Sorted ((c, x) :: r) := by
  cases r with
  | nil => trivial
  | cons b t =>
    obtain ⟨d, y⟩ := b
    exact ⟨by simpa using h, hs⟩

theorem sorted_tail {a : Nat × α} {r : Row α} (h : Sorted (a :: r)) : Sorted r := by
  cases r with
  | nil => trivial
  | cons b t => obtain ⟨c, x⟩ := a; obtain ⟨d, y⟩ := b; exact h.2

theorem sorted_head_lt {c : Nat} {x : α} {r : Row α} (h : Sorted ((c, x) :: r)) :
    ∀ a ∈ r.head?, c < a.1 := by
  cases r with
  | nil => simp
  | cons b t => obtain ⟨d, y⟩ := b; simpa using h.1

theorem putRow_sorted (q : Nat) (v : α) (r : Row α) (hs : Sorted r) :
    Sorted (putRow q v r) := by
  induction r with
  | nil => trivial
  | cons b t ih =>
    obtain ⟨c, x⟩ := b
    unfold putRow
    split
    · exact sorted_cons c v t (sorted_tail hs) (sorted_head_lt hs)
    · split
      · exact sorted_cons q v _ hs (by simpa)
      · have hlt : c < q := by omega
        exact sorted_cons c x _ (ih (sorted_tail hs))
          (put_head_ge q v t (c + 1) hlt (fun a ha => sorted_head_lt hs a ha))

/-- the head (diagonal) entry of a row is never displaced by a put at or right of it -/
theorem putRow_head (p q : Nat) (hq : p ≤ q) (v x : α) (t : Row α) :
    ∃ x' t', putRow q v ((p, x) :: t) = (p, x') :: t' := by
  unfold putRow
  split
  · exact ⟨v, t, rfl⟩
  · split
    · omega
    · exact ⟨x, _, rfl⟩

/-! ### matrix -/

/-- sizes agree with `n` (what `Create` establishes and every operation keeps) -/
structure WF (M : LinProb α) : Prop where
  rows : M.rows.size = M.n
  b : M.b.size = M.n

theorem getD_modify (a : Array (Row α)) (i j : Nat) (f : Row α → Row α) (_hf : f [] = f [] ) :
    (a.modify i f).getD j [] = if i = j ∧ j < a.size then f (a.getD j []) else a.getD j [] := by
  simp only [Array.getD_eq_getD_getElem?, Array.getElem?_modify]
  split <;> rename_i h
  · subst h
    by_cases hj : i < a.size <;> simp [hj]
  · simp [h]

theorem ord_symm (p q : Nat) : ord p q = ord q p := by
  unfold ord; split <;> split <;> simp_all <;> omega

theorem ord_le (p q : Nat) : (ord p q).1 ≤ (ord p q).2 := by
  unfold ord; split <;> simp <;> omega

theorem ord_cases (p q : Nat) : ord p q = (p, q) ∧ p ≤ q ∨ ord p q = (q, p) ∧ q < p := by
  unfold ord; split <;> simp_all <;> omega

/-- **symmetry of storage**: `Get(p,q) = Get(q,p)` for every matrix state -/
theorem get_symm [OfNat α 0] (M : LinProb α) (p q : Nat) : get M p q = get M q p := by
  unfold get; rw [ord_symm]

theorem ord_eq_iff (p q p' q' : Nat) :
    ord p' q' = ord p q ↔ (p' = p ∧ q' = q) ∨ (p' = q ∧ q' = p) := by
  unfold ord; split <;> split <;> simp only [Prod.mk.injEq] <;> omega

/-- the unordered-pair view of `Put` followed by `Get` -/
theorem get_put [OfNat α 0] (M : LinProb α) (hM : WF M) (v : α) (p q p' q' : Nat)
    (hp : p < M.n) (hq : q < M.n) :
    get (put M v p q) p' q' =
      if (p' = p ∧ q' = q) ∨ (p' = q ∧ q' = p) then v else get M p' q' := by
  have hlt : (ord p q).1 < M.rows.size := by
    rw [hM.rows]; unfold ord; split <;> simp <;> omega
  simp only [← ord_eq_iff]
  unfold get put
  generalize ord p q = a at *
  generalize ord p' q' = a' at *
  obtain ⟨a1, a2⟩ := a
  obtain ⟨b1, b2⟩ := a'
  simp only [getD_modify _ _ _ _ rfl]
  by_cases h : (b1, b2) = (a1, a2)
  · simp only [Prod.mk.injEq] at h
    obtain ⟨rfl, rfl⟩ := h
    simp only at hlt
    simp [hlt, getRow_putRow_same]
  · rw [if_neg h]
    simp only [Prod.mk.injEq] at h
    split
    · rename_i h2
      obtain ⟨rfl, _⟩ := h2
      rw [getRow_putRow_other _ _ (by omega)]
    · rfl

theorem put_wf [OfNat α 0] (M : LinProb α) (hM : WF M) (v : α) (p q : Nat) : WF (put M v p q) := by
  unfold put; exact ⟨by simp [hM.rows], hM.b⟩

@[simp] theorem put_n [OfNat α 0] (M : LinProb α) (v : α) (p q : Nat) : (put M v p q).n = M.n := rfl
@[simp] theorem put_b [OfNat α 0] (M : LinProb α) (v : α) (p q : Nat) : (put M v p q).b = M.b := rfl
@[simp] theorem put_bdw [OfNat α 0] (M : LinProb α) (v : α) (p q : Nat) : (put M v p q).bdw = M.bdw := rfl

theorem getB_put [OfNat α 0] (M : LinProb α) (v : α) (p q k : Nat) : getB (put M v p q) k = getB M k := rfl

theorem setB_wf [OfNat α 0] (M : LinProb α) (hM : WF M) (i : Nat) (v : α) : WF (setB M i v) := by
  unfold setB; exact ⟨hM.rows, by simp [hM.b]⟩

@[simp] theorem setB_n [OfNat α 0] (M : LinProb α) (i : Nat) (v : α) : (setB M i v).n = M.n := rfl

theorem get_setB [OfNat α 0] (M : LinProb α) (i : Nat) (v : α) (p q : Nat) :
    get (setB M i v) p q = get M p q := rfl

theorem getB_setB [OfNat α 0] (M : LinProb α) (hM : WF M) (i : Nat) (hi : i < M.n) (v : α) (k : Nat) :
    getB (setB M i v) k = if k = i then v else getB M k := by
  unfold getB setB
  simp only [Array.getD_eq_getD_getElem?, Array.getElem?_setIfInBounds, hM.b, hi, if_true]
  split
  · rename_i h; subst h; simp
  · rename_i h; rw [if_neg (by omega)]

theorem create_wf [OfNat α 0] (d bw : Nat) : WF (create (α := α) d bw) := by
  unfold create; exact ⟨by simp, by simp⟩

theorem get_create [OfNat α 0] (d bw p q : Nat) : get (create (α := α) d bw) p q = 0 := by
  unfold get create
  generalize ord p q = a
  obtain ⟨a1, a2⟩ := a
  simp only [Array.getD_eq_getD_getElem?, Array.getElem?_ofFn]
  split <;> simp [getRow]

/-- `AddTo` in the `get` view -/
theorem get_addTo [OfNat α 0] [Add α] (M : LinProb α) (hM : WF M) (v : α) (p q p' q' : Nat)
    (hp : p < M.n) (hq : q < M.n) :
    get (addTo M v p q) p' q' =
      if (p' = p ∧ q' = q) ∨ (p' = q ∧ q' = p) then get M p q + v else get M p' q' := by
  unfold addTo; rw [get_put M hM _ p q p' q' hp hq]

theorem addTo_wf [OfNat α 0] [Add α] (M : LinProb α) (hM : WF M) (v : α) (p q : Nat) :
    WF (addTo M v p q) := put_wf M hM _ p q

end XfemmVerif.Sparse
