import XfemmVerif.Model.Complex
import Mathlib.Algebra.Order.Field.Basic
import Mathlib.Algebra.Order.Ring.Abs
import Mathlib.Algebra.Field.Rat
import Mathlib.Algebra.Order.Ring.Rat
import Mathlib.Algebra.CharZero.Defs
import Mathlib.Tactic.Ring
import Mathlib.Tactic.FieldSimp
import Mathlib.Tactic.Linarith
import Mathlib.Tactic.Positivity
/-!
# `Cx K` with the arithmetic of `CComplex` is a field

For an ordered field `K` whose `AbsGt` instance decides `|a| > |b|`, the operations of `Model/Complex.lean` — the C++
product, the scaled division that branches on `fabs(re) > fabs(im)` — make `Cx K` a field of characteristic zero, and the mixed
complex-by-real forms are the field operations with the embedded real.  Every theorem stated over a field about the generic
sparse model therefore holds for the complex solver's model.
-/
set_option linter.unusedSectionVars false
namespace XfemmVerif

/-- the `AbsGt` instance decides `|a| > |b|` -/
class LawfulAbsGt (K : Type) [Field K] [LinearOrder K] [AbsGt K] : Prop where
  spec : ∀ a b : K, AbsGt.absGt a b = true ↔ |b| < |a|

instance : LawfulAbsGt Rat where
  spec a b := by
    show decide (_ > _) = true ↔ _
    rw [decide_eq_true_iff]
    have ha : (if a < 0 then -a else a) = |a| := by
      split
      · rw [abs_of_neg ‹_›]
      · rw [abs_of_nonneg (not_lt.1 ‹_›)]
    have hb : (if b < 0 then -b else b) = |b| := by
      split
      · rw [abs_of_neg ‹_›]
      · rw [abs_of_nonneg (not_lt.1 ‹_›)]
    rw [ha, hb]

namespace Cx
variable {K : Type} [Field K] [LinearOrder K] [IsStrictOrderedRing K] [AbsGt K] [LawfulAbsGt K]

theorem ext' {x y : Cx K} (h1 : x.re = y.re) (h2 : x.im = y.im) : x = y := by
  cases x; cases y; simp_all

@[simp] theorem add_re (x y : Cx K) : (x + y).re = x.re + y.re := rfl
@[simp] theorem add_im (x y : Cx K) : (x + y).im = x.im + y.im := rfl
@[simp] theorem sub_re (x y : Cx K) : (x - y).re = x.re - y.re := rfl
@[simp] theorem sub_im (x y : Cx K) : (x - y).im = x.im - y.im := rfl
@[simp] theorem neg_re (x : Cx K) : (-x).re = -x.re := rfl
@[simp] theorem neg_im (x : Cx K) : (-x).im = -x.im := rfl
@[simp] theorem mul_re (x y : Cx K) : (x * y).re = x.re * y.re - x.im * y.im := rfl
@[simp] theorem mul_im (x y : Cx K) : (x * y).im = x.re * y.im + x.im * y.re := rfl
@[simp] theorem zero_re : (0 : Cx K).re = 0 := rfl
@[simp] theorem zero_im : (0 : Cx K).im = 0 := rfl

instance : One (Cx K) := ⟨⟨1, 0⟩⟩
@[simp] theorem one_re : (1 : Cx K).re = 1 := rfl
@[simp] theorem one_im : (1 : Cx K).im = 0 := rfl

instance instCommRing : CommRing (Cx K) where
  add := (· + ·)
  zero := 0
  neg := Neg.neg
  sub := (· - ·)
  mul := (· * ·)
  one := 1
  natCast n := ⟨n, 0⟩
  intCast n := ⟨n, 0⟩
  nsmul := nsmulRec
  zsmul := zsmulRec
  npow := npowRec
  add_assoc a b c := ext' (by simp [add_assoc]) (by simp [add_assoc])
  zero_add a := ext' (by simp) (by simp)
  add_zero a := ext' (by simp) (by simp)
  add_comm a b := ext' (by simp [add_comm]) (by simp [add_comm])
  neg_add_cancel a := ext' (by simp) (by simp)
  sub_eq_add_neg a b := ext' (by simp [sub_eq_add_neg]) (by simp [sub_eq_add_neg])
  left_distrib a b c := ext' (by simp; ring) (by simp; ring)
  right_distrib a b c := ext' (by simp; ring) (by simp; ring)
  zero_mul a := ext' (by simp) (by simp)
  mul_zero a := ext' (by simp) (by simp)
  mul_assoc a b c := ext' (by simp; ring) (by simp; ring)
  one_mul a := ext' (by simp) (by simp)
  mul_one a := ext' (by simp) (by simp)
  mul_comm a b := ext' (by simp; ring) (by simp; ring)
  natCast_zero := ext' (by simp) rfl
  natCast_succ n := ext' (by show ((n + 1 : ℕ) : K) = (n : K) + 1; simp) (by show (0 : K) = 0 + 0; simp)
  intCast_ofNat n := ext' (by show ((n : ℤ) : K) = (n : K); simp) rfl
  intCast_negSucc n := ext' (by show ((Int.negSucc n : ℤ) : K) = -((n + 1 : ℕ) : K); simp [Int.cast_negSucc]) (by show (0 : K) = -0; simp)

/-- **the scaled reciprocal of `CComplex` is the reciprocal**: `z · inv z = 1` for every non-zero `z`, in both branches -/
theorem mul_inv_cancel' (z : Cx K) (hz : z ≠ 0) : z * inv z = 1 := by
  unfold inv
  by_cases h : AbsGt.absGt z.re z.im = true
  · rw [if_pos h]
    have hlt := (LawfulAbsGt.spec z.re z.im).1 h
    have hre : z.re ≠ 0 := by
      intro h0; rw [h0, abs_zero] at hlt; exact absurd hlt (not_lt.2 (abs_nonneg _))
    have hpos : (1 : K) + z.im / z.re * (z.im / z.re) ≠ 0 := ne_of_gt (by nlinarith [mul_self_nonneg (z.im / z.re)])
    apply ext'
    · simp only [mul_re, one_re]; field_simp; ring
    · simp only [mul_im, one_im]; field_simp; ring
  · rw [if_neg h]
    have hle : ¬ |z.im| < |z.re| := fun hh => h ((LawfulAbsGt.spec z.re z.im).2 hh)
    have him : z.im ≠ 0 := by
      intro h0
      rw [h0, abs_zero] at hle
      have : z.re = 0 := abs_eq_zero.1 (le_antisymm (not_lt.1 hle) (abs_nonneg _))
      exact hz (ext' this h0)
    have hpos : (1 : K) + z.re / z.im * (z.re / z.im) ≠ 0 := ne_of_gt (by nlinarith [mul_self_nonneg (z.re / z.im)])
    apply ext'
    · simp only [mul_re, one_re]; field_simp; ring
    · simp only [mul_im, one_im]; field_simp; ring

theorem inv_zero' : inv (0 : Cx K) = 0 := by
  unfold inv
  have h : ¬ AbsGt.absGt (0 : Cx K).re (0 : Cx K).im = true := by
    intro hh; have := (LawfulAbsGt.spec _ _).1 hh; simp at this
  rw [if_neg h]
  apply ext' <;> simp

instance instField : Field (Cx K) where
  toCommRing := instCommRing
  inv := inv
  div := (· / ·)
  div_eq_mul_inv _ _ := rfl
  exists_pair_ne := ⟨0, 1, fun h => by have := congrArg Cx.re h; simp at this⟩
  mul_inv_cancel := mul_inv_cancel'
  inv_zero := inv_zero'
  nnqsmul := _
  nnqsmul_def := fun _ _ => rfl
  qsmul := _
  qsmul_def := fun _ _ => rfl

theorem natCast_eq (n : ℕ) : ((n : ℕ) : Cx K) = ⟨n, 0⟩ := rfl

instance : CharZero (Cx K) where
  cast_injective a b h := by
    have := congrArg Cx.re h
    simpa [natCast_eq] using this

/-- **the scaled division of `CComplex` is division**: `(x / z) · z = x` for every non-zero divisor -/
theorem div_mul_cancel' (x z : Cx K) (hz : z ≠ 0) : x / z * z = x := div_mul_cancel₀ x hz

/-! the mixed complex-by-real operators are the field operations with the embedded real -/
theorem mulR_eq (x : Cx K) (r : K) : x.mulR r = x * ofReal r := by
  apply ext' <;> simp [mulR, ofReal]
theorem rmul_eq (r : K) (x : Cx K) : rmul r x = ofReal r * x := by
  apply ext' <;> simp [rmul, ofReal]
theorem ofReal_natCast (n : ℕ) : (ofReal (n : K) : Cx K) = (n : Cx K) := rfl
theorem ofReal_two : (ofReal 2 : Cx K) = 2 := by
  have := ofReal_natCast (K := K) 2
  simpa using this
theorem ofReal_ne_zero {r : K} (hr : r ≠ 0) : (ofReal r : Cx K) ≠ 0 := fun h => hr (by simpa [ofReal] using congrArg Cx.re h)
theorem divR_eq (x : Cx K) (r : K) : x.divR r = x / ofReal r := by
  by_cases hr : r = 0
  · subst hr
    have : (ofReal 0 : Cx K) = 0 := rfl
    rw [this, div_zero]; apply ext' <;> simp [divR]
  · rw [eq_div_iff (ofReal_ne_zero hr)]
    apply ext' <;> simp [divR, ofReal, hr]
theorem divR_two (x : Cx K) : x.divR 2 = x / 2 := by rw [divR_eq, ofReal_two]
theorem ofReal_half : (ofReal ((1 : K) / 2) : Cx K) = 1 / 2 := by
  have h2 : (2 : Cx K) ≠ 0 := by rw [← ofReal_two]; exact ofReal_ne_zero two_ne_zero
  rw [eq_div_iff h2, ← ofReal_two]
  apply ext' <;> simp [ofReal]
theorem rmul_half (x : Cx K) : rmul ((1 : K) / 2) x = (1 / 2 : Cx K) * x := by
  rw [rmul_eq, ofReal_half]

/-! `ofReal` is a field embedding -/
@[simp] theorem ofReal_re (r : K) : (ofReal r : Cx K).re = r := rfl
@[simp] theorem ofReal_im (r : K) : (ofReal r : Cx K).im = 0 := rfl
theorem ofReal_zero : (ofReal 0 : Cx K) = 0 := rfl
theorem ofReal_one : (ofReal 1 : Cx K) = 1 := rfl
theorem ofReal_add (a b : K) : (ofReal (a + b) : Cx K) = ofReal a + ofReal b := by apply ext' <;> simp
theorem ofReal_mul (a b : K) : (ofReal (a * b) : Cx K) = ofReal a * ofReal b := by apply ext' <;> simp
theorem ofReal_neg (a : K) : (ofReal (-a) : Cx K) = -ofReal a := by apply ext' <;> simp
theorem ofReal_sub (a b : K) : (ofReal (a - b) : Cx K) = ofReal a - ofReal b := by apply ext' <;> simp
theorem ofReal_div (a b : K) : (ofReal (a / b) : Cx K) = ofReal a / ofReal b := by
  by_cases hb : b = 0
  · subst hb; rw [div_zero, ofReal_zero, div_zero]
  · rw [eq_div_iff (ofReal_ne_zero hb), ← ofReal_mul, div_mul_cancel₀ a hb]
theorem ofReal_ofNat (n : ℕ) [n.AtLeastTwo] : (ofReal (OfNat.ofNat n : K) : Cx K) = OfNat.ofNat n := by
  have := ofReal_natCast (K := K) n
  rw [← Nat.cast_ofNat (R := K), ← Nat.cast_ofNat (R := Cx K)]
  exact this

theorem ne0_iff [DecidableEq K] (z : Cx K) : z.ne0 = true ↔ z ≠ 0 := by
  unfold ne0
  constructor
  · intro h hz; subst hz; simp at h
  · intro h
    by_contra hh
    simp only [Bool.or_eq_true, bne_iff_ne, ne_eq, not_or, not_not] at hh
    exact h (ext' hh.1 hh.2)

end Cx
end XfemmVerif
