import XfemmVerif.Lemmas.SparseLemmas
import Mathlib.Algebra.Field.Basic
import Mathlib.Tactic.Ring
import Mathlib.Tactic.FieldSimp
/-!
The constraint operations of `Model/Sparse.lean` in the `get` view, over any field:
what `SetValue`, `Periodicity`, `AntiPeriodicity` leave in the matrix and in `b`.
-/
namespace XfemmVerif.Sparse

variable {α : Type} [Field α] [DecidableEq α]

/-! ### SetValue -/

theorem setValueRow_wf (i : Nat) (x : α) (M : LinProb α) (hM : WF M) (k : Nat) :
    WF (setValueRow i x M k) := by
  unfold setValueRow
  simp only
  split
  · split
    · exact put_wf _ (setB_wf _ hM _ _) _ _ _
    · exact setB_wf _ hM _ _
  · exact hM

@[simp] theorem setValueRow_n (i : Nat) (x : α) (M : LinProb α) (k : Nat) :
    (setValueRow i x M k).n = M.n := by
  unfold setValueRow; simp only; split <;> [split; skip] <;> rfl

theorem get_setValueRow (i : Nat) (x : α) (M : LinProb α) (hM : WF M) (k : Nat)
    (hi : i < M.n) (hk : k < M.n) (a b : Nat) :
    get (setValueRow i x M k) a b =
      if k ≠ i ∧ ((a = k ∧ b = i) ∨ (a = i ∧ b = k)) then 0 else get M a b := by
  unfold setValueRow
  simp only [bne_iff_ne, ne_eq]
  by_cases hz : get M k i = 0
  · simp only [hz, not_true_eq_false, if_false]
    split
    · rename_i h
      rcases h with ⟨_, ⟨rfl, rfl⟩ | ⟨rfl, rfl⟩⟩
      · exact hz
      · rw [get_symm]; exact hz
    · rfl
  · simp only [hz, not_false_eq_true, if_true]
    by_cases hik : i = k
    · subst hik; simp [get_setB]
    · have hne : ¬ k = i := fun h => hik h.symm
      simp only [hik, not_false_eq_true, if_true, hne, true_and]
      rw [get_put _ (setB_wf _ hM _ _) _ _ _ _ _ (by simpa using hk) (by simpa using hi)]
      simp only [get_setB]

theorem getB_setValueRow (i : Nat) (x : α) (M : LinProb α) (hM : WF M) (k : Nat)
    (hk : k < M.n) (c : Nat) :
    getB (setValueRow i x M k) c = if c = k then getB M k - get M k i * x else getB M c := by
  unfold setValueRow
  simp only [bne_iff_ne, ne_eq]
  by_cases hz : get M k i = 0
  · simp only [hz, not_true_eq_false, if_false]
    split
    · rename_i h; subst h; simp
    · rfl
  · simp only [hz, not_false_eq_true, if_true]
    split
    · simp only [getB_put]; rw [getB_setB _ hM _ hk]
    · rw [getB_setB _ hM _ hk]

/-- loop invariant of `SetValue` after the rows in `L` have been visited -/
theorem setValue_fold (i : Nat) (x : α) (L : List Nat) (hL : L.Nodup) (M : LinProb α) (hM : WF M)
    (hi : i < M.n) (hLn : ∀ k ∈ L, k < M.n) :
    let M' := L.foldl (setValueRow i x) M
    WF M' ∧ M'.n = M.n ∧
    (∀ a b, get M' a b =
      if (a ∈ L ∧ b = i ∧ a ≠ i) ∨ (b ∈ L ∧ a = i ∧ b ≠ i) then 0 else get M a b) ∧
    (∀ c, getB M' c = if c ∈ L then getB M c - get M c i * x else getB M c) := by
  induction L generalizing M with
  | nil => simp [hM]
  | cons k L ih =>
    have hk : k < M.n := hLn k (by simp)
    have hnd := List.nodup_cons.1 hL
    have hM1 := setValueRow_wf i x M hM k
    have ih' := ih hnd.2 (setValueRow i x M k) hM1 (by simpa using hi)
      (by intro k' hk'; simpa using hLn k' (by simp [hk']))
    simp only [List.foldl_cons]
    obtain ⟨w, hn, hg, hb⟩ := ih'
    refine ⟨w, by simpa using hn, ?_, ?_⟩
    · intro a b
      rw [hg a b, get_setValueRow i x M hM k hi hk]
      simp only [List.mem_cons]
      by_cases h1 : (a ∈ L ∧ b = i ∧ a ≠ i) ∨ (b ∈ L ∧ a = i ∧ b ≠ i)
      · rw [if_pos h1, if_pos]
        rcases h1 with ⟨h, h', h''⟩ | ⟨h, h', h''⟩
        · exact Or.inl ⟨Or.inr h, h', h''⟩
        · exact Or.inr ⟨Or.inr h, h', h''⟩
      · rw [if_neg h1]
        by_cases h2 : k ≠ i ∧ ((a = k ∧ b = i) ∨ (a = i ∧ b = k))
        · rw [if_pos h2, if_pos]
          rcases h2 with ⟨hki, ⟨rfl, rfl⟩ | ⟨rfl, rfl⟩⟩
          · exact Or.inl ⟨Or.inl rfl, rfl, hki⟩
          · exact Or.inr ⟨Or.inl rfl, rfl, hki⟩
        · rw [if_neg h2, if_neg]
          intro h3
          rcases h3 with ⟨h | h, h', h''⟩ | ⟨h | h, h', h''⟩
          · exact h2 ⟨by rw [← h]; exact h'', Or.inl ⟨h, h'⟩⟩
          · exact h1 (Or.inl ⟨h, h', h''⟩)
          · exact h2 ⟨by rw [← h]; exact h'', Or.inr ⟨h', h⟩⟩
          · exact h1 (Or.inr ⟨h, h', h''⟩)
    · intro c
      rw [hb c, getB_setValueRow i x M hM k hk]
      simp only [List.mem_cons]
      by_cases hc : c ∈ L
      · have hck : c ≠ k := fun h => hnd.1 (h ▸ hc)
        rw [if_pos hc, if_pos (Or.inr hc), if_neg hck, get_setValueRow i x M hM k hi hk]
        rw [if_neg]
        rintro ⟨_, ⟨h, _⟩ | ⟨h1, h2⟩⟩
        · exact hck h
        · exact hck (h1.trans h2)
      · rw [if_neg hc]
        by_cases hck : c = k
        · subst hck; simp
        · simp [hck, hc]

end XfemmVerif.Sparse

namespace XfemmVerif.Sparse
variable {α : Type} [Field α] [DecidableEq α]

/-- **`SetValue(i,x)` in the `get` view.**  `hband` is the hypothesis the proof forces: every
    non-zero of column `i` lies inside the window `[i-bdw, i+bdw)` the C++ scans. -/
theorem setValue_view (M : LinProb α) (hM : WF M) (i : Nat) (hi : i < M.n) (x : α)
    (hband : ∀ k, k < M.n → get M k i ≠ 0 →
      (window M.n M.bdw i).1 ≤ k ∧ k < (window M.n M.bdw i).2) :
    WF (setValue M i x) ∧ (setValue M i x).n = M.n ∧
    (∀ a b, a < M.n → b < M.n → get (setValue M i x) a b =
      if a = i ∨ b = i then (if a = b then get M i i else 0) else get M a b) ∧
    (∀ c, c < M.n → getB (setValue M i x) c =
      if c = i then get M i i * x else getB M c - get M c i * x) := by
  unfold setValue
  generalize hw : window M.n M.bdw i = w at hband
  obtain ⟨fst, lst⟩ := w
  have hlst : lst ≤ M.n := by
    unfold window at hw; split at hw <;> simp only [Prod.mk.injEq] at hw <;> omega
  simp only
  have hmem : ∀ k, k ∈ List.range' fst (lst - fst) ↔ fst ≤ k ∧ k < lst := by
    intro k; rw [List.mem_range'_1]; omega
  obtain ⟨w, hn, hg, hb⟩ := setValue_fold i x (List.range' fst (lst - fst)) (List.nodup_range' ..) M hM hi
    (by intro k hk; have := (hmem k).1 hk; omega)
  have hzero : ∀ k, k < M.n → k ∉ List.range' fst (lst - fst) → get M k i = 0 := by
    intro k hkn hk
    by_contra hne
    exact hk ((hmem k).2 (hband k hkn hne))
  have hn' : (List.foldl (setValueRow i x) M (List.range' fst (lst - fst))).n = M.n := hn
  refine ⟨setB_wf _ w _ _, by simpa using hn', ?_, ?_⟩
  · intro a b han hbn
    rw [get_setB, hg]
    by_cases ha : a = i <;> by_cases hb' : b = i
    · subst ha; subst hb'; simp
    · subst ha
      have hab : ¬ a = b := fun h => hb' h.symm
      rw [if_pos (Or.inl rfl), if_neg hab]
      by_cases hbL : b ∈ List.range' fst (lst - fst)
      · rw [if_pos (Or.inr ⟨hbL, rfl, hb'⟩)]
      · rw [if_neg (by rintro (⟨_, h, _⟩ | ⟨h, _, _⟩) <;> [exact hb' h; exact hbL h])]
        rw [get_symm]; exact hzero b hbn hbL
    · subst hb'
      rw [if_pos (Or.inr rfl), if_neg ha]
      by_cases haL : a ∈ List.range' fst (lst - fst)
      · rw [if_pos (Or.inl ⟨haL, rfl, ha⟩)]
      · rw [if_neg (by rintro (⟨h, _, _⟩ | ⟨_, h, _⟩) <;> [exact haL h; exact ha h])]
        exact hzero a han haL
    · rw [if_neg (by rintro (⟨_, h, _⟩ | ⟨_, h, _⟩) <;> [exact hb' h; exact ha h]),
        if_neg (by rintro (h | h) <;> [exact ha h; exact hb' h])]
  · intro c hcn
    rw [hg]
    by_cases hc : c = i
    · subst hc
      rw [getB_setB _ w _ (by rw [hn']; exact hi)]
      simp
    · rw [getB_setB _ w _ (by rw [hn']; exact hi), if_neg hc, if_neg hc, hb]
      split
      · rfl
      · rename_i h; rw [hzero c hcn h]; ring

/-! ### Periodicity / AntiPeriodicity -/

/-- sign of the tie: `+1` periodic, `-1` antiperiodic -/
def sgn (anti : Bool) : α := if anti then -1 else 1

theorem periodicRow_wf (anti : Bool) (i j : Nat) (M : LinProb α) (hM : WF M) (k : Nat) :
    WF (periodicRow anti i j M k) := by
  unfold periodicRow
  simp only
  split
  · split
    · split <;> exact put_wf _ (put_wf _ hM _ _ _) _ _ _
    · exact hM
  · exact hM

@[simp] theorem periodicRow_n (anti : Bool) (i j : Nat) (M : LinProb α) (k : Nat) :
    (periodicRow anti i j M k).n = M.n := by
  unfold periodicRow; simp only; split <;> [(split <;> [split; skip]); skip] <;> rfl

@[simp] theorem periodicRow_b (anti : Bool) (i j : Nat) (M : LinProb α) (k : Nat) :
    (periodicRow anti i j M k).b = M.b := by
  unfold periodicRow; simp only; split <;> [(split <;> [split; skip]); skip] <;> rfl

theorem get_periodicRow (anti : Bool) (i j : Nat) (hij : i ≠ j) (M : LinProb α) (hM : WF M) (k : Nat)
    (hi : i < M.n) (hj : j < M.n) (hk : k < M.n) (a b : Nat) :
    get (periodicRow anti i j M k) a b =
      if k ≠ i ∧ k ≠ j ∧ ((a = k ∧ b = i) ∨ (a = i ∧ b = k)) then (get M k i + sgn anti * get M k j) / 2
      else if k ≠ i ∧ k ≠ j ∧ ((a = k ∧ b = j) ∨ (a = j ∧ b = k)) then
        sgn anti * ((get M k i + sgn anti * get M k j) / 2)
      else get M a b := by
  unfold periodicRow
  simp only [bne_iff_ne, ne_eq, Bool.and_eq_true, decide_eq_true_eq, Bool.or_eq_true]
  by_cases hki : k = i
  · simp [hki]
  by_cases hkj : k = j
  · simp [hkj]
  simp only [hki, hkj, not_false_eq_true, and_self, if_true, true_and]
  by_cases hz : get M k i ≠ 0 ∨ get M k j ≠ 0
  · rw [if_pos hz]
    have hexcl : ¬ (((a = k ∧ b = i) ∨ (a = i ∧ b = k)) ∧ ((a = k ∧ b = j) ∨ (a = j ∧ b = k))) := by
      omega
    cases anti
    · simp only [Bool.false_eq_true, if_false, sgn, one_mul]
      rw [get_put _ (put_wf _ hM _ _ _) _ _ _ _ _ (by simpa using hk) (by simpa using hj),
        get_put _ hM _ _ _ _ _ hk hi]
      by_cases h1 : (a = k ∧ b = i) ∨ (a = i ∧ b = k) <;> by_cases h2 : (a = k ∧ b = j) ∨ (a = j ∧ b = k)
      · exact absurd ⟨h1, h2⟩ hexcl
      · simp only [h1, h2, if_true, if_false]
      · simp only [h1, h2, if_true, if_false]
      · simp only [h1, h2, if_false]
    · simp only [if_true, sgn]
      rw [get_put _ (put_wf _ hM _ _ _) _ _ _ _ _ (by simpa using hk) (by simpa using hj),
        get_put _ hM _ _ _ _ _ hk hi]
      by_cases h1 : (a = k ∧ b = i) ∨ (a = i ∧ b = k) <;> by_cases h2 : (a = k ∧ b = j) ∨ (a = j ∧ b = k)
      · exact absurd ⟨h1, h2⟩ hexcl
      · simp only [h1, h2, if_true, if_false]; ring
      · simp only [h1, h2, if_true, if_false]; ring
      · simp only [h1, h2, if_false]
  · rw [if_neg hz]
    have h0 : get M k i = 0 ∧ get M k j = 0 := by
      constructor <;> by_contra h
      · exact hz (Or.inl h)
      · exact hz (Or.inr h)
    rw [h0.1, h0.2]
    simp only [mul_zero, add_zero, zero_div]
    split
    · rename_i h
      rcases h with ⟨rfl, rfl⟩ | ⟨rfl, rfl⟩
      · exact h0.1
      · rw [get_symm]; exact h0.1
    · split
      · rename_i h
        rcases h with ⟨rfl, rfl⟩ | ⟨rfl, rfl⟩
        · exact h0.2
        · rw [get_symm]; exact h0.2
      · rfl

/-- value left at `(k,c)`, `c ∈ {i,j}`, `k ∉ {i,j}` after the row loop -/
def tieVal (anti : Bool) (G : Nat → Nat → α) (i j k c : Nat) : α :=
  if c = i then (G k i + sgn anti * G k j) / 2 else sgn anti * ((G k i + sgn anti * G k j) / 2)

/-- loop invariant of the row loop of `Periodicity` / `AntiPeriodicity` -/
theorem periodic_fold (anti : Bool) (i j : Nat) (hij : i ≠ j) (L : List Nat) (hL : L.Nodup)
    (M : LinProb α) (hM : WF M) (hi : i < M.n) (hj : j < M.n) (hLn : ∀ k ∈ L, k < M.n) :
    let M' := L.foldl (periodicRow anti i j) M
    WF M' ∧ M'.n = M.n ∧ M'.b = M.b ∧
    (∀ a b, get M' a b =
      if a ∈ L ∧ a ≠ i ∧ a ≠ j ∧ (b = i ∨ b = j) then tieVal anti (get M) i j a b
      else if b ∈ L ∧ b ≠ i ∧ b ≠ j ∧ (a = i ∨ a = j) then tieVal anti (get M) i j b a
      else get M a b) := by
  induction L generalizing M with
  | nil => simp [hM]
  | cons k L ih =>
    have hk : k < M.n := hLn k (by simp)
    have hnd := List.nodup_cons.1 hL
    have hM1 := periodicRow_wf anti i j M hM k
    obtain ⟨w, hn, hb, hg⟩ := ih hnd.2 (periodicRow anti i j M k) hM1 (by simpa using hi) (by simpa using hj)
      (by intro k' hk'; simpa using hLn k' (by simp [hk']))
    simp only [List.foldl_cons]
    refine ⟨w, by simpa using hn, by simpa using hb, ?_⟩
    intro a b
    rw [hg a b]
    have hR := get_periodicRow anti i j hij M hM k hi hj hk
    have hkL : k ∉ L := hnd.1
    -- the row update only touches pairs {k,i}, {k,j}
    have hsame : ∀ x c, x ≠ k → c ≠ k → get (periodicRow anti i j M k) x c = get M x c := by
      intro x c hx hc; rw [hR]
      rw [if_neg (by omega), if_neg (by omega)]
    have hskip : (k = i ∨ k = j) → ∀ x c, get (periodicRow anti i j M k) x c = get M x c := by
      intro h x c; rw [hR]
      rw [if_neg (by omega), if_neg (by omega)]
    have hrowk : k ≠ i → k ≠ j → ∀ c, (c = i ∨ c = j) →
        get (periodicRow anti i j M k) k c = tieVal anti (get M) i j k c ∧
        get (periodicRow anti i j M k) c k = tieVal anti (get M) i j k c := by
      intro h1 h2 c hc
      rw [hR, hR]; unfold tieVal
      rcases hc with rfl | rfl
      · simp [h1, h2]
      · have : ¬ c = i := fun h => hij h.symm
        simp [h1, h2, this]
    have htie : ∀ x, x ≠ k → x ≠ i → x ≠ j → ∀ c,
        tieVal anti (get (periodicRow anti i j M k)) i j x c = tieVal anti (get M) i j x c := by
      intro x hx hxi hxj c
      unfold tieVal
      by_cases hks : k = i ∨ k = j
      · rw [hskip hks, hskip hks]
      · rw [hsame x i hx (by omega), hsame x j hx (by omega)]
    simp only [List.mem_cons]
    by_cases hA : a ≠ i ∧ a ≠ j ∧ (b = i ∨ b = j)
    · obtain ⟨hai, haj, hbc⟩ := hA
      have hbt : ¬ (b ≠ i ∧ b ≠ j) := by omega
      by_cases haL : a ∈ L
      · have hak : a ≠ k := fun h => hkL (h ▸ haL)
        rw [if_pos ⟨haL, hai, haj, hbc⟩, if_pos ⟨Or.inr haL, hai, haj, hbc⟩, htie a hak hai haj]
      · rw [if_neg (fun h => haL h.1), if_neg (fun h => hbt ⟨h.2.1, h.2.2.1⟩)]
        by_cases hak : a = k
        · subst hak
          rw [if_pos ⟨Or.inl rfl, hai, haj, hbc⟩]
          exact (hrowk hai haj b hbc).1
        · rw [if_neg (fun h => by rcases h.1 with h | h <;> [exact hak h; exact haL h]),
            if_neg (fun h => hbt ⟨h.2.1, h.2.2.1⟩)]
          by_cases hks : k = i ∨ k = j
          · exact hskip hks a b
          · exact hsame a b hak (by omega)
    · by_cases hB : b ≠ i ∧ b ≠ j ∧ (a = i ∨ a = j)
      · obtain ⟨hbi, hbj, ha⟩ := hB
        have hat : ¬ (a ≠ i ∧ a ≠ j) := by omega
        rw [if_neg (fun h => hat ⟨h.2.1, h.2.2.1⟩)]
        by_cases hbL : b ∈ L
        · have hbk : b ≠ k := fun h => hkL (h ▸ hbL)
          rw [if_pos ⟨hbL, hbi, hbj, ha⟩, if_neg (fun h => hat ⟨h.2.1, h.2.2.1⟩),
            if_pos ⟨Or.inr hbL, hbi, hbj, ha⟩, htie b hbk hbi hbj]
        · rw [if_neg (fun h => hbL h.1), if_neg (fun h => hat ⟨h.2.1, h.2.2.1⟩)]
          by_cases hbk : b = k
          · subst hbk
            rw [if_pos ⟨Or.inl rfl, hbi, hbj, ha⟩]
            exact (hrowk hbi hbj a ha).2
          · rw [if_neg (fun h => by rcases h.1 with h | h <;> [exact hbk h; exact hbL h])]
            by_cases hks : k = i ∨ k = j
            · exact hskip hks a b
            · exact hsame a b (by omega) hbk
      · rw [if_neg (fun h => hA ⟨h.2.1, h.2.2.1, h.2.2.2⟩), if_neg (fun h => hB ⟨h.2.1, h.2.2.1, h.2.2.2⟩),
          if_neg (fun h => hA ⟨h.2.1, h.2.2.1, h.2.2.2⟩), if_neg (fun h => hB ⟨h.2.1, h.2.2.1, h.2.2.2⟩)]
        by_cases hks : k = i ∨ k = j
        · exact hskip hks a b
        · rw [hR]
          rw [if_neg (by omega), if_neg (by omega)]

end XfemmVerif.Sparse

namespace XfemmVerif.Sparse
variable {α : Type} [Field α] [DecidableEq α]

theorem sgn_mul_self (anti : Bool) : (sgn anti : α) * sgn anti = 1 := by
  cases anti <;> simp [sgn]

/-- the other index of the tied pair -/
def other (i j c : Nat) : Nat := if c = i then j else i

/-- abstract effect of `Periodicity(i,j)` (`s = 1`) / `AntiPeriodicity(i,j)` (`s = -1`) on the matrix -/
def tieA (s : α) (G : Nat → Nat → α) (i j : Nat) : Nat → Nat → α := fun a b =>
  if a = i ∨ a = j then
    (if b = i ∨ b = j then (if a = b then (G i i + G j j) / 2 else G i j)
     else (G b a + s * G b (other i j a)) / 2)
  else (if b = i ∨ b = j then (G a b + s * G a (other i j b)) / 2 else G a b)

/-- … and on the right-hand side -/
def tieB (s : α) (bb : Nat → α) (i j : Nat) : Nat → α := fun c =>
  if c = i then (bb i + s * bb j) / 2 else if c = j then (bb j + s * bb i) / 2 else bb c

theorem tieVal_eq (anti : Bool) (G : Nat → Nat → α) (i j k c : Nat) (hij : i ≠ j) (hc : c = i ∨ c = j) :
    tieVal anti G i j k c = (G k c + sgn anti * G k (other i j c)) / 2 := by
  unfold tieVal other
  rcases hc with rfl | rfl
  · simp
  · have : ¬ c = i := fun h => hij h.symm
    simp only [this, if_false]
    have h2 := sgn_mul_self (α := α) anti
    have e : sgn anti * (G k i + sgn anti * G k c) = G k c + sgn anti * G k i := by
      calc sgn anti * (G k i + sgn anti * G k c)
          = sgn anti * G k i + (sgn anti * sgn anti) * G k c := by ring
        _ = G k c + sgn anti * G k i := by rw [h2]; ring
    rw [← e]; ring

/-- common core of the two operations, for already ordered distinct indices -/
theorem tie_view_core (anti : Bool) (M : LinProb α) (hM : WF M) (i j : Nat) (hij : i ≠ j)
    (hi : i < M.n) (hj : j < M.n) :
    let M1 := (List.range M.n).foldl (periodicRow anti i j) M
    let c := (get M1 i i + get M1 j j) / 2
    let M2 := put (put M1 c i i) c j j
    WF M2 ∧ M2.n = M.n ∧ M2.b = M.b ∧
    (∀ a b, a < M.n → b < M.n → get M2 a b = tieA (sgn anti) (get M) i j a b) := by
  obtain ⟨w, hn, hb, hg⟩ := periodic_fold anti i j hij (List.range M.n) List.nodup_range M hM hi hj
    (by intro k hk; exact List.mem_range.1 hk)
  intro M1 c M2
  have hn1 : M1.n = M.n := hn
  have w1 : WF M1 := w
  have hg1 : ∀ a b, get M1 a b = _ := hg
  have hii : get M1 i i = get M i i := by
    rw [hg1]; simp
  have hjj : get M1 j j = get M j j := by
    rw [hg1]; simp
  refine ⟨put_wf _ (put_wf _ w1 _ _ _) _ _ _, by simpa [M2] using hn1, by simpa [M2] using hb, ?_⟩
  intro a b ha hb'
  have haL : a ∈ List.range M.n := List.mem_range.2 ha
  have hbL : b ∈ List.range M.n := List.mem_range.2 hb'
  show get (put (put M1 c i i) c j j) a b = _
  rw [get_put _ (put_wf _ w1 _ _ _) _ _ _ _ _ (by simpa [hn1] using hj) (by simpa [hn1] using hj),
    get_put _ w1 _ _ _ _ _ (by simpa [hn1] using hi) (by simpa [hn1] using hi), hg1]
  unfold tieA
  simp only [c, hii, hjj, haL, hbL, true_and]
  by_cases hai : a = i <;> by_cases haj : a = j <;> by_cases hbi : b = i <;> by_cases hbj : b = j
  all_goals first
    | omega
    | (subst_vars; simp_all [tieVal_eq, other, get_symm]; done)
    | (subst_vars; simp_all [tieVal_eq, other]; try rw [get_symm]) 

end XfemmVerif.Sparse

namespace XfemmVerif.Sparse
variable {α : Type} [Field α] [DecidableEq α]

theorem tieA_swap (s : α) (G : Nat → Nat → α) (hG : ∀ a b, G a b = G b a) (i j : Nat) (hij : i ≠ j) :
    tieA s G j i = tieA s G i j := by
  funext a b
  unfold tieA other
  by_cases hai : a = i <;> by_cases haj : a = j <;> by_cases hbi : b = i <;> by_cases hbj : b = j <;>
    first
    | omega
    | (subst_vars; simp_all [add_comm]; done)
    | (subst_vars; simp_all [add_comm]; rw [hG])

theorem tieB_swap (s : α) (bb : Nat → α) (i j : Nat) (hij : i ≠ j) :
    tieB s bb j i = tieB s bb i j := by
  funext c
  unfold tieB
  by_cases hci : c = i <;> by_cases hcj : c = j <;> first | omega | simp_all

/-- **`Periodicity` / `AntiPeriodicity` in the `get` view**, for ordered indices -/
theorem tie_view_ord (anti : Bool) (M : LinProb α) (hM : WF M) (i j : Nat) (hij : i ≠ j)
    (hi : i < M.n) (hj : j < M.n) (hord : ord i j = (i, j)) :
    let M' := if anti then antiPeriodicity M i j else periodicity M i j
    WF M' ∧ M'.n = M.n ∧
    (∀ a b, a < M.n → b < M.n → get M' a b = tieA (sgn anti) (get M) i j a b) ∧
    (∀ c, c < M.n → getB M' c = tieB (sgn anti) (getB M) i j c) := by
  obtain ⟨w, hn, hb, hg⟩ := tie_view_core anti M hM i j hij hi hj
  cases anti
  · simp only [Bool.false_eq_true, if_false]
    unfold periodicity
    simp only [hord]
    refine ⟨setB_wf _ (setB_wf _ w _ _) _ _, by simpa using hn, ?_, ?_⟩
    · intro a b ha hb'
      rw [get_setB, get_setB]
      exact hg a b ha hb'
    · intro c hc
      have hn1 : (List.foldl (periodicRow false i j) M (List.range M.n)).n = M.n := hn
      rw [getB_setB _ (setB_wf _ w _ _) _ (by show j < (List.foldl _ M _).n; rw [hn1]; exact hj),
        getB_setB _ w _ (by show i < (List.foldl _ M _).n; rw [hn1]; exact hi)]
      have e : ∀ k, getB (put (put (List.foldl (periodicRow false i j) M (List.range M.n))
          ((get (List.foldl (periodicRow false i j) M (List.range M.n)) i i +
            get (List.foldl (periodicRow false i j) M (List.range M.n)) j j) / 2) i i)
          ((get (List.foldl (periodicRow false i j) M (List.range M.n)) i i +
            get (List.foldl (periodicRow false i j) M (List.range M.n)) j j) / 2) j j) k = getB M k := by
        intro k; unfold getB; rw [hb]
      simp only [e, tieB, sgn, Bool.false_eq_true, if_false, one_mul]
      by_cases hci : c = i <;> by_cases hcj : c = j
      · omega
      · simp [hci, hij]; ring
      · simp [hcj, hij.symm]; ring
      · simp [hci, hcj]
  · simp only [if_true]
    unfold antiPeriodicity
    simp only [hord]
    have hc2 : ∀ x : α, (1 / 2 : α) * x = x / 2 := by intro x; ring
    simp only [hc2]
    refine ⟨setB_wf _ (setB_wf _ w _ _) _ _, by simpa using hn, ?_, ?_⟩
    · intro a b ha hb'
      rw [get_setB, get_setB]
      exact hg a b ha hb'
    · intro c hc
      have hn1 : (List.foldl (periodicRow true i j) M (List.range M.n)).n = M.n := hn
      rw [getB_setB _ (setB_wf _ w _ _) _ (by show j < (List.foldl _ M _).n; rw [hn1]; exact hj),
        getB_setB _ w _ (by show i < (List.foldl _ M _).n; rw [hn1]; exact hi)]
      have e : ∀ k, getB (put (put (List.foldl (periodicRow true i j) M (List.range M.n))
          ((get (List.foldl (periodicRow true i j) M (List.range M.n)) i i +
            get (List.foldl (periodicRow true i j) M (List.range M.n)) j j) / 2) i i)
          ((get (List.foldl (periodicRow true i j) M (List.range M.n)) i i +
            get (List.foldl (periodicRow true i j) M (List.range M.n)) j j) / 2) j j) k = getB M k := by
        intro k; unfold getB; rw [hb]
      simp only [e, tieB, sgn, if_true]
      by_cases hci : c = i <;> by_cases hcj : c = j
      · omega
      · simp [hci, hij]; ring
      · simp [hcj, hij.symm]; ring
      · simp [hci, hcj]

/-- **`Periodicity` / `AntiPeriodicity` in the `get` view**, any argument order -/
theorem tie_view (anti : Bool) (M : LinProb α) (hM : WF M) (i j : Nat) (hij : i ≠ j)
    (hi : i < M.n) (hj : j < M.n) :
    let M' := if anti then antiPeriodicity M i j else periodicity M i j
    WF M' ∧ M'.n = M.n ∧
    (∀ a b, a < M.n → b < M.n → get M' a b = tieA (sgn anti) (get M) i j a b) ∧
    (∀ c, c < M.n → getB M' c = tieB (sgn anti) (getB M) i j c) := by
  rcases ord_cases i j with ⟨h, _⟩ | ⟨h, hlt⟩
  · exact tie_view_ord anti M hM i j hij hi hj h
  · have hji : ord j i = (j, i) := by rw [ord_symm]; exact h
    have key := tie_view_ord anti M hM j i hij.symm hj hi hji
    have e1 : periodicity M i j = periodicity M j i := by unfold periodicity; rw [ord_symm]
    have e2 : antiPeriodicity M i j = antiPeriodicity M j i := by unfold antiPeriodicity; rw [ord_symm]
    rw [e1, e2, ← tieA_swap _ _ (get_symm M) i j hij, ← tieB_swap _ _ i j hij]
    exact key

end XfemmVerif.Sparse
