/-
Lemmas about `Model/Cuthill.lean` (libfemm/cuthill.cpp): the invariant of the numbering loop, two pigeonhole arguments, the body of
the `do … while` loop never reaches the states in which the C++ would read outside its arrays or find no unvisited node, the loop
ends within `N` passes, and the numbering it ends with is a bijection of the node indices.
-/
import XfemmVerif.Model.Cuthill
import Mathlib.Data.Fintype.Card
import Mathlib.Data.Fintype.Fin
import Mathlib.Data.List.Basic
namespace XfemmVerif.CuthillLemmas
open XfemmVerif.Cuthill

theorem bubblePass_perm (key : Nat → Nat) (l : List Nat) : (bubblePass key l).Perm l := by
  fun_induction bubblePass key l with
  | case1 a b rest h ih => exact (List.Perm.cons b ih).trans (List.Perm.swap a b rest)
  | case2 a b rest h ih => exact List.Perm.cons a ih
  | case3 l h => exact List.Perm.refl _

theorem repeat_perm (f : List Nat → List Nat) (hf : ∀ l, (f l).Perm l) (n : Nat) (l : List Nat) : (Nat.repeat f n l).Perm l := by
  induction n with
  | zero => exact List.Perm.refl _
  | succ n ih => exact (hf _).trans ih

theorem sortAdj_perm (key : Nat → Nat) (l : List Nat) : (sortAdj key l).Perm l := repeat_perm _ (bubblePass_perm key) _ _


theorem getD_set (a : Array (Option Nat)) (i j : Nat) (v : Option Nat) :
    (a.setIfInBounds i v)[j]?.getD none = if i = j ∧ i < a.size then v else a[j]?.getD none := by
  simp only [Array.getElem?_setIfInBounds]
  by_cases h : i = j
  · subst h; by_cases h2 : i < a.size <;> simp [h2]
  · simp [h]

/-- the invariant of the numbering loop -/
structure CInv (N : Nat) (s : St) : Prop where
  sz1 : s.newnum.size = N
  sz2 : s.nxtnum.size = N
  le : s.n ≤ N
  fwd : ∀ i k, s.newnum[i]?.getD none = some k → k < s.n ∧ s.nxtnum[k]?.getD none = some i
  bwd : ∀ k i, s.nxtnum[k]?.getD none = some i → k < s.n ∧ i < N ∧ s.newnum[i]?.getD none = some k
  tot : ∀ k, k < s.n → ∃ i, s.nxtnum[k]?.getD none = some i

theorem visit1_inv (N : Nat) (s : St) (c : Nat) (hc : c < N) (h : CInv N s) (hroom : s.newnum[c]?.getD none = none → s.n < N) : CInv N (visit1 s c) := by
  unfold visit1
  simp only [Array.getD_eq_getD_getElem?]
  split
  · exact h
  · rename_i hnone
    have hn := hroom hnone
    constructor
    · simp [h.sz1]
    · simp [h.sz2]
    · simp; omega
    · intro i k hik
      simp only [getD_set, h.sz1, h.sz2] at hik ⊢
      by_cases hci : c = i
      · subst hci
        simp [hc] at hik
        subst hik
        simp [hn]
      · simp [hci] at hik
        have := h.fwd i k hik
        refine ⟨by omega, ?_⟩
        have hk : s.n ≠ k := by omega
        simp [hk, this.2]
    · intro k i hki
      simp only [getD_set, h.sz1, h.sz2] at hki ⊢
      by_cases hk : s.n = k
      · subst hk
        simp [hn] at hki
        subst hki
        simp [hc]
      · simp [hk] at hki
        have := h.bwd k i hki
        refine ⟨by omega, this.2.1, ?_⟩
        have hci : c ≠ i := by
          intro e; subst e; rw [hnone] at this; simp at this
        simp [hci, this.2.2]
    · intro k hk
      simp only [getD_set, h.sz2]
      by_cases hk2 : s.n = k
      · subst hk2; exact ⟨c, by simp [hn]⟩
      · simp at hk
        obtain ⟨i, hi⟩ := h.tot k (by omega)
        exact ⟨i, by simp [hk2, hi]⟩

/-- pigeonhole: while a node is still unnumbered, fewer than `N` numbers have been given out -/
theorem room (N : Nat) (s : St) (c : Nat) (hc : c < N) (h : CInv N s) (hnone : s.newnum[c]?.getD none = none) : s.n < N := by
  rcases Nat.lt_or_ge s.n N with hlt | hge
  · exact hlt
  · exfalso
    have hn : s.n = N := Nat.le_antisymm h.le hge
    have tot : ∀ k : Fin N, ∃ i : Fin N, s.nxtnum[k.val]?.getD none = some i.val := by
      intro k
      obtain ⟨i, hi⟩ := h.tot k.val (by omega)
      exact ⟨⟨i, (h.bwd _ _ hi).2.1⟩, hi⟩
    choose f hf using tot
    have inj : Function.Injective f := by
      intro a b hab
      have h1 := (h.bwd _ _ (hf a)).2.2
      have h2 := (h.bwd _ _ (hf b)).2.2
      rw [hab, h2] at h1
      exact Fin.ext (by simpa using h1.symm)
    obtain ⟨k, hk⟩ := Finite.surjective_of_injective inj ⟨c, hc⟩
    have := (h.bwd _ _ (hf k)).2.2
    rw [hk] at this
    simp at this
    rw [hnone] at this
    exact absurd this (by simp)

theorem visit1_keeps (s : St) (c i k : Nat) (h : s.newnum[i]?.getD none = some k) : (visit1 s c).newnum[i]?.getD none = some k := by
  unfold visit1
  simp only [Array.getD_eq_getD_getElem?]
  split
  · exact h
  · rename_i hnone
    simp only [getD_set]
    by_cases hci : c = i
    · subst hci; rw [hnone] at h; simp at h
    · simp [hci, h]

theorem visit1_n0 (s : St) (c : Nat) : (visit1 s c).n0 = s.n0 := by
  unfold visit1; split <;> rfl

theorem visit1_mono (s : St) (c : Nat) : s.n ≤ (visit1 s c).n := by
  unfold visit1; split <;> simp

theorem visit_inv (N : Nat) (nbrs : List Nat) (hn : ∀ c ∈ nbrs, c < N) (s : St) (h : CInv N s) : CInv N (visit s nbrs) := by
  induction nbrs generalizing s with
  | nil => exact h
  | cons c rest ih =>
    simp only [visit, List.foldl_cons]
    exact ih (fun x hx => hn x (List.mem_cons_of_mem _ hx)) _
      (visit1_inv N s c (hn c List.mem_cons_self) h (room N s c (hn c List.mem_cons_self) h))

theorem visit_keeps (nbrs : List Nat) (s : St) (i k : Nat) (h : s.newnum[i]?.getD none = some k) :
    (visit s nbrs).newnum[i]?.getD none = some k := by
  induction nbrs generalizing s with
  | nil => exact h
  | cons c rest ih => simp only [visit, List.foldl_cons]; exact ih _ (visit1_keeps s c i k h)

theorem visit_n0 (nbrs : List Nat) (s : St) : (visit s nbrs).n0 = s.n0 := by
  induction nbrs generalizing s with
  | nil => rfl
  | cons c rest ih => simp only [visit, List.foldl_cons]; exact (ih _).trans (visit1_n0 s c)

theorem visit_mono (nbrs : List Nat) (s : St) : s.n ≤ (visit s nbrs).n := by
  induction nbrs generalizing s with
  | nil => exact Nat.le_refl _
  | cons c rest ih => simp only [visit, List.foldl_cons]; exact Nat.le_trans (visit1_mono s c) (ih _)

/-- the other pigeonhole: while fewer than `N` numbers are given out, some node is unnumbered -/
theorem exists_unvisited (N : Nat) (s : St) (h : CInv N s) (hlt : s.n < N) : ∃ i, i < N ∧ s.newnum[i]?.getD none = none := by
  apply Classical.byContradiction
  intro hno
  have all : ∀ i : Fin N, ∃ k : Fin N, s.newnum[i.val]?.getD none = some k.val := by
    intro i
    cases hv : s.newnum[i.val]?.getD none with
    | none => exact absurd ⟨i.val, i.isLt, hv⟩ hno
    | some k => exact ⟨⟨k, by have := (h.fwd _ _ hv).1; omega⟩, rfl⟩
  choose g hg using all
  have inj : Function.Injective g := by
    intro a b hab
    have h1 := (h.fwd _ _ (hg a)).2
    have h2 := (h.fwd _ _ (hg b)).2
    rw [hab, h2] at h1
    exact Fin.ext (by simpa using h1.symm)
  obtain ⟨i, hi⟩ := Finite.surjective_of_injective inj ⟨s.n, hlt⟩
  have := (h.fwd _ _ (hg i)).1
  rw [hi] at this
  simp at this

theorem restartScan_spec (N : Nat) (nn : Array (Option Nat)) (nc : Array Nat) (l : List Nat) (hl : ∀ i ∈ l, i < N) (j n0 : Nat)
    (h0 : n0 < N ∧ nn[n0]?.getD none = none) :
    restartScan nn nc l j n0 < N ∧ nn[restartScan nn nc l j n0]?.getD none = none := by
  induction l generalizing j n0 with
  | nil => exact h0
  | cons i rest ih =>
    have hi := hl i List.mem_cons_self
    have hrest : ∀ x ∈ rest, x < N := fun x hx => hl x (List.mem_cons_of_mem _ hx)
    have key : ∀ a b, (b < N ∧ nn[b]?.getD none = none) →
        (if a = 2 then b else restartScan nn nc rest a b) < N ∧ nn[if a = 2 then b else restartScan nn nc rest a b]?.getD none = none := by
      intro a b hb
      by_cases h2 : a = 2
      · simp only [h2, if_true]; exact hb
      · simp only [h2, if_false]; exact ih hrest a b hb
    unfold restartScan
    simp only [Array.getD_eq_getD_getElem?]
    by_cases hc : ((nn[i]?.getD none).isNone && decide (nc[i]?.getD 0 < j)) = true
    · have hnone : nn[i]?.getD none = none := by
        simp only [Bool.and_eq_true] at hc
        cases hv : nn[i]?.getD none with
        | none => rfl
        | some k => rw [hv] at hc; simp at hc
      simp only [hc, if_true]
      exact key _ _ ⟨hi, hnone⟩
    · simp only [hc]
      exact key _ _ h0

theorem firstUnvisited_some (N : Nat) (nn : Array (Option Nat)) (hex : ∃ i, i < N ∧ nn[i]?.getD none = none) :
    ∃ i0, firstUnvisited nn N = some i0 ∧ i0 < N ∧ nn[i0]?.getD none = none := by
  obtain ⟨i, hi, hn⟩ := hex
  unfold firstUnvisited
  simp only [Array.getD_eq_getD_getElem?]
  cases hf : (List.range N).find? (fun i => (nn[i]?.getD none).isNone) with
  | none =>
    rw [List.find?_eq_none] at hf
    have := hf i (List.mem_range.mpr hi)
    simp [hn] at this
  | some i0 =>
    have hm := List.mem_of_find?_eq_some hf
    have hp := List.find?_some hf
    refine ⟨i0, rfl, List.mem_range.mp hm, ?_⟩
    cases hv : nn[i0]?.getD none with
    | none => rfl
    | some k => rw [hv] at hp; simp at hp

structure LInv (N : Nat) (s : St) (k : Nat) : Prop where
  inv : CInv N s
  n0lt : s.n0 < N
  cur : s.newnum[s.n0]?.getD none = some k

theorem step_spec (N : Nat) (nc : Array Nat) (oc : Array (List Nat)) (hadj : ∀ a, ∀ c ∈ oc.getD a [], c < N)
    (s : St) (k : Nat) (h : LInv N s k) (hlt : s.n < N) :
    ∃ s', step nc oc N s = some s' ∧ LInv N s' (k + 1) := by
  have inv1 := visit_inv N (oc.getD s.n0 []) (hadj s.n0) s h.inv
  have cur1 := visit_keeps (oc.getD s.n0 []) s s.n0 k h.cur
  have mono := visit_mono (oc.getD s.n0 []) s
  have hk : k < s.n := (h.inv.fwd _ _ h.cur).1
  unfold step
  simp only [Array.getD_eq_getD_getElem?] at cur1 inv1 mono ⊢
  generalize hs1 : visit s (oc[s.n0]?.getD []) = s1 at inv1 cur1 mono ⊢
  simp only [cur1]
  cases hnx : s1.nxtnum[k + 1]?.getD none with
  | some m =>
    have b := inv1.bwd _ _ hnx
    exact ⟨_, rfl, ⟨⟨inv1.sz1, inv1.sz2, inv1.le, inv1.fwd, inv1.bwd, inv1.tot⟩, b.2.1, b.2.2⟩⟩
  | none =>
    have hn1 : s1.n = k + 1 := by
      have h1 : k < s1.n := (inv1.fwd _ _ cur1).1
      rcases Nat.lt_or_ge (k + 1) s1.n with hlt2 | hge
      · obtain ⟨i, hi⟩ := inv1.tot (k + 1) hlt2
        rw [hnx] at hi; simp at hi
      · omega
    have hlt1 : s1.n < N := by omega
    obtain ⟨i0, hf, hi0, hnone0⟩ := firstUnvisited_some N s1.newnum (exists_unvisited N s1 inv1 hlt1)
    simp only [hf]
    have hm := restartScan_spec N s1.newnum nc (List.range N) (fun i hi => List.mem_range.mp hi) (nc[i0]?.getD 0) i0 ⟨hi0, hnone0⟩
    generalize restartScan s1.newnum nc (List.range N) (nc[i0]?.getD 0) i0 = m at hm ⊢
    have e : visit1 s1 m = { s1 with newnum := s1.newnum.setIfInBounds m (some s1.n), nxtnum := s1.nxtnum.setIfInBounds s1.n (some m), n := s1.n + 1 } := by
      unfold visit1
      simp only [Array.getD_eq_getD_getElem?, hm.2]
    have iv := visit1_inv N s1 m hm.1 inv1 (fun _ => hlt1)
    rw [e] at iv
    refine ⟨_, rfl, ⟨⟨iv.sz1, iv.sz2, iv.le, iv.fwd, iv.bwd, iv.tot⟩, hm.1, ?_⟩⟩
    simp only [getD_set, inv1.sz1, hm.1, and_self, if_true, hn1]

theorem loop_total (N : Nat) (nc : Array Nat) (oc : Array (List Nat)) (hadj : ∀ a, ∀ c ∈ oc.getD a [], c < N) :
    ∀ fuel s k, LInv N s k → s.n < N → N ≤ fuel + k + 1 → ∃ s', loop nc oc N fuel s = some s' ∧ CInv N s' ∧ s'.n = N := by
  intro fuel
  induction fuel with
  | zero =>
    intro s k h hlt hf
    have : k < s.n := (h.inv.fwd _ _ h.cur).1
    omega
  | succ f ih =>
    intro s k h hlt hf
    obtain ⟨s', hs, h'⟩ := step_spec N nc oc hadj s k h hlt
    unfold loop
    simp only [hs]
    by_cases hc : s'.n < N
    · simp only [hc, if_true]
      exact ih s' (k + 1) h' hc (by omega)
    · simp only [hc, if_false]
      exact ⟨s', rfl, h'.inv, Nat.le_antisymm h'.inv.le (Nat.le_of_not_lt hc)⟩

theorem init_linv (N n0 : Nat) (hN : 2 ≤ N) (h0 : n0 < N) : LInv N (initSt N n0) 0 := by
  have g : ∀ (i j : Nat) (v : Option Nat), ((Array.replicate N (none : Option Nat)).setIfInBounds i v)[j]?.getD none = if i = j ∧ i < N then v else none := by
    intro i j v
    rw [getD_set]
    simp only [Array.size_replicate, Array.getElem?_replicate]
    by_cases hj : j < N <;> simp [hj]
  refine ⟨⟨by simp [initSt], by simp [initSt], by simp [initSt]; omega, ?_, ?_, ?_⟩, h0, ?_⟩
  · intro i k hik
    simp only [initSt, g] at hik ⊢
    by_cases hi : n0 = i ∧ n0 < N
    · rw [if_pos hi] at hik
      cases hik
      exact ⟨by omega, by simp [show 0 < N by omega, hi.1]⟩
    · rw [if_neg hi] at hik; cases hik
  · intro k i hki
    simp only [initSt, g] at hki ⊢
    by_cases hk : 0 = k ∧ 0 < N
    · rw [if_pos hk] at hki
      cases hki
      exact ⟨by omega, h0, by simp [h0, hk.1.symm]⟩
    · rw [if_neg hk] at hki; cases hki
  · intro k hk
    simp only [initSt] at hk
    have : k = 0 := by omega
    subst this
    exact ⟨n0, by simp only [initSt, g]; simp; omega⟩
  · simp only [initSt, g]; simp [h0]

/-- the numbering the loop ends with is a bijection of the node indices -/
theorem numbering_bijective (N : Nat) (nc : Array Nat) (oc : Array (List Nat)) (hadj : ∀ a, ∀ c ∈ oc.getD a [], c < N)
    (n0 : Nat) (hN : 2 ≤ N) (h0 : n0 < N) :
    ∃ s, loop nc oc N N (initSt N n0) = some s ∧ s.newnum.size = N ∧
      (∀ (i : Nat), i < N → ∃ k, k < N ∧ s.newnum[i]?.getD none = some k) ∧
      (∀ (i i' k : Nat), s.newnum[i]?.getD none = some k → s.newnum[i']?.getD none = some k → i = i') := by
  obtain ⟨s, hs, inv, hn⟩ := loop_total N nc oc hadj N (initSt N n0) 0 (init_linv N n0 hN h0) (by simp [initSt]; omega) (by omega)
  refine ⟨s, hs, inv.sz1, ?_, ?_⟩
  · intro i hi
    cases hv : s.newnum[i]?.getD none with
    | none => have := room N s i hi inv hv; omega
    | some k => exact ⟨k, by have := (inv.fwd _ _ hv).1; omega, rfl⟩
  · intro i i' k h1 h2
    have a := (inv.fwd _ _ h1).2
    have b := (inv.fwd _ _ h2).2
    rw [a] at b
    simpa using b

/-! ### the whole function: adjacency lists of a well-formed edge file, start node, `Cuthill()`; `SortElements` -/

theorem getD_setL {α : Type} (a : Array α) (i j : Nat) (v d : α) :
    (a.setIfInBounds i v)[j]?.getD d = if i = j ∧ i < a.size then v else a[j]?.getD d := by
  simp only [Array.getElem?_setIfInBounds]
  by_cases h : i = j
  · subst h; by_cases h2 : i < a.size <;> simp [h2]
  · simp [h]

def AdjOk (N : Nat) (o : Array (List Nat)) : Prop := ∀ (a : Nat), ∀ c ∈ o[a]?.getD [], c < N

theorem pushAdj_ok (N : Nat) (o : Array (List Nat)) (i v : Nat) (hv : v < N) (h : AdjOk N o) : AdjOk N (pushAdj o i v) := by
  intro a c hc
  unfold pushAdj at hc
  simp only [Array.getD_eq_getD_getElem?, getD_setL] at hc
  split at hc
  · rename_i hia
    rw [List.mem_append] at hc
    rcases hc with hc | hc
    · exact h i c hc
    · simp at hc; omega
  · exact h a c hc

theorem ocon_ok (N : Nat) (es : List (Nat × Nat)) (hes : ∀ e ∈ es, e.1 < N ∧ e.2 < N) : AdjOk N (ocon N es) := by
  unfold ocon
  have base : AdjOk N (Array.replicate N ([] : List Nat)) := by
    intro a c hc
    simp only [Array.getElem?_replicate] at hc
    split at hc <;> simp at hc
  generalize Array.replicate N ([] : List Nat) = o at base
  induction es generalizing o with
  | nil => exact base
  | cons e rest ih =>
    simp only [List.foldl_cons]
    have he := hes e List.mem_cons_self
    exact ih (fun x hx => hes x (List.mem_cons_of_mem _ hx)) _ (pushAdj_ok N _ _ _ he.1 (pushAdj_ok N _ _ _ he.2 base))

theorem sorted_ok (N : Nat) (o : Array (List Nat)) (key : Nat → Nat) (h : AdjOk N o) :
    ∀ a, ∀ c ∈ (o.map (sortAdj key)).getD a [], c < N := by
  intro a c hc
  simp only [Array.getD_eq_getD_getElem?, Array.getElem?_map] at hc
  cases ho : o[a]? with
  | none => simp [ho] at hc
  | some l =>
    simp only [ho, Option.map_some, Option.getD_some] at hc
    have : c ∈ l := (sortAdj_perm key l).mem_iff.mp hc
    exact h a c (by simp [ho, this])

theorem startLoop_lt (nc : Array Nat) (N nl : Nat) : ∀ fuel i j n0, n0 < N → startLoop nc N nl fuel i j n0 < N := by
  intro fuel
  induction fuel with
  | zero => intro i j n0 h; exact h
  | succ f ih =>
    intro i j n0 h
    unfold startLoop
    split
    · rename_i hi
      apply ih
      split <;> simp_all
    · exact h

/-- `Cuthill()` as a whole: for every `.edge` list over at least two nodes whose end points are node indices, the function returns,
    every node gets a number below `N`, no two nodes the same -/
theorem cuthill_perm (N : Nat) (es : List (Nat × Nat)) (hN : 2 ≤ N) (hes : ∀ e ∈ es, e.1 < N ∧ e.2 < N) :
    ∃ r, cuthill N es = some r ∧ r.newnum.size = N ∧
      (∀ (i : Nat), i < N → r.newnum[i]?.getD 0 < N) ∧
      (∀ (i j : Nat), i < N → j < N → r.newnum[i]?.getD 0 = r.newnum[j]?.getD 0 → i = j) := by
  have hadj := sorted_ok N (ocon N es) (fun c => (numcon N es).getD c 0) (ocon_ok N es hes)
  have h0 : startNode (numcon N es) N es.length < N := startLoop_lt _ _ _ _ _ _ _ (by omega)
  obtain ⟨s, hs, hsz, hall, hinj⟩ := numbering_bijective N (numcon N es) _ hadj _ hN h0
  have val : ∀ (i : Nat) (k : Nat), s.newnum[i]?.getD none = some k → (s.newnum.map (fun o => o.getD 0))[i]?.getD 0 = k := by
    intro i k hk
    simp only [Array.getElem?_map]
    cases hx : s.newnum[i]? with
    | none => rw [hx] at hk; simp at hk
    | some x => rw [hx] at hk; simp at hk; simp [hk]
  obtain ⟨r, hr, hrn⟩ : ∃ r, cuthill N es = some r ∧ r.newnum = s.newnum.map (fun o => o.getD 0) := by
    unfold cuthill
    simp only [hs]
    exact ⟨_, rfl, rfl⟩
  refine ⟨r, hr, ?_, ?_, ?_⟩
  · rw [hrn]; simp [hsz]
  · intro i hi
    obtain ⟨k, hk, hv⟩ := hall i hi
    rw [hrn, val i k hv]; exact hk
  · intro i j hi hj he
    obtain ⟨k, _, hv⟩ := hall i hi
    obtain ⟨k', _, hv'⟩ := hall j hj
    rw [hrn, val i k hv, val j k' hv'] at he
    subst he
    exact hinj i j k hv hv'

theorem swapIB_perm {α : Type} (a : Array α) (i j : Nat) : (a.swapIfInBounds i j).Perm a := by
  rw [Array.swapIfInBounds_def]
  split
  · split
    · exact Array.swap_perm _ _
    · exact Array.Perm.refl _
  · exact Array.Perm.refl _

theorem combPass_perm (a : Array (Nat × Elem)) (gap : Nat) : (combPass a gap).1.Perm a := by
  unfold combPass
  generalize List.range (a.size - gap) = l
  have : ∀ (st : Array (Nat × Elem) × Bool), st.1.Perm a →
      (l.foldl (fun (st : Array (Nat × Elem) × Bool) j =>
        match st.1[j]?, st.1[j + gap]? with
        | some x, some y => if x.1 > y.1 then (st.1.swapIfInBounds j (j + gap), true) else st
        | _, _ => st) st).1.Perm a := by
    induction l with
    | nil => intro st h; exact h
    | cons j rest ih =>
      intro st h
      simp only [List.foldl_cons]
      apply ih
      split
      · split
        · exact (swapIB_perm _ _ _).trans h
        · exact h
      · exact h
  exact this (a, false) (Array.Perm.refl _)

theorem combLoop_perm : ∀ (fuel : Nat) (a : Array (Nat × Elem)) (gap : Nat), (combLoop fuel a gap).Perm a := by
  intro fuel
  induction fuel with
  | zero => intro a gap; exact Array.Perm.refl _
  | succ f ih =>
    intro a gap
    unfold combLoop
    simp only []
    split
    · exact (ih _ _).trans (combPass_perm a _)
    · exact combPass_perm a _

/-- `SortElements` only reorders the elements (it is not a complete sort, but nothing is lost or duplicated) -/
theorem sortElements_perm (els : List Elem) : (sortElements els).Perm els := by
  unfold sortElements
  simp only []
  have h := combLoop_perm ((els.map (fun e => (score e, e))).toArray.size + 2) (els.map (fun e => (score e, e))).toArray
    (els.map (fun e => (score e, e))).toArray.size
  rw [Array.perm_iff_toList_perm] at h
  have h2 := h.map (·.2)
  simpa [List.map_map, Function.comp_def] using h2

/-! ### `SortNodes`: placement, termination, and the chain `Cuthill` + `SortNodes` -/


theorem settle_perm {β : Type} : ∀ (fuel i : Nat) (a a' : Array (Nat × β)), settle fuel i a = some a' → a'.Perm a := by
  intro fuel
  induction fuel with
  | zero => intro i a a' h; simp [settle] at h
  | succ f ih =>
    intro i a a' h
    unfold settle at h
    split at h
    · cases h; exact Array.Perm.refl _
    · split at h
      · cases h; exact Array.Perm.refl _
      · split at h
        · exact (ih _ _ _ h).trans (swapIB_perm _ _ _)
        · cases h

/-- when the inner loop ends, position `i` holds its own number -/
theorem settle_fixed {β : Type} : ∀ (fuel i : Nat) (a a' : Array (Nat × β)), settle fuel i a = some a' → i < a.size →
    ∃ x, a'[i]? = some (i, x) := by
  intro fuel
  induction fuel with
  | zero => intro i a a' h; simp [settle] at h
  | succ f ih =>
    intro i a a' h hi
    unfold settle at h
    split at h
    · rename_i hn; simp at hn; omega
    · rename_i j x hs
      split at h
      · rename_i hj; cases h; subst hj; exact ⟨x, hs⟩
      · split at h
        · exact ih _ _ _ h (by simpa using hi)
        · cases h

def tr (i j k : Nat) : Nat := if j = k then i else if i = k then j else k

theorem tr_invol (i j k : Nat) : tr i j (tr i j k) = k := by
  unfold tr; split <;> split <;> (try split) <;> omega

theorem swapIB_get {β : Type} (a : Array β) (i j k : Nat) (hi : i < a.size) (hj : j < a.size) :
    (a.swapIfInBounds i j)[k]? = a[tr i j k]? := by
  rw [Array.swapIfInBounds_def]
  simp only [hi, hj, dite_true, Array.getElem?_swap, tr]
  split
  · simp [hi]
  · split
    · simp [hj]
    · rfl

def Distinct {β : Type} (a : Array (Nat × β)) : Prop :=
  ∀ (p q : Nat) (u v : Nat × β), a[p]? = some u → a[q]? = some v → u.1 = v.1 → p = q

theorem distinct_swap {β : Type} (a : Array (Nat × β)) (i j : Nat) (hi : i < a.size) (hj : j < a.size) (h : Distinct a) :
    Distinct (a.swapIfInBounds i j) := by
  intro p q u v hp hq huv
  rw [swapIB_get a i j _ hi hj] at hp hq
  have := h _ _ u v hp hq huv
  have e := congrArg (tr i j) this
  rwa [tr_invol, tr_invol] at e

theorem settle_distinct {β : Type} : ∀ (fuel i : Nat) (a a' : Array (Nat × β)), settle fuel i a = some a' → Distinct a → Distinct a' := by
  intro fuel
  induction fuel with
  | zero => intro i a a' h; simp [settle] at h
  | succ f ih =>
    intro i a a' h hd
    unfold settle at h
    split at h
    · cases h; exact hd
    · rename_i j x hs
      split at h
      · cases h; exact hd
      · split at h
        · rename_i hj
          have hi : i < a.size := by
            by_contra hc
            have : a[i]? = none := by simp; omega
            rw [this] at hs; cases hs
          exact ih _ _ _ h (distinct_swap a i j hi hj hd)
        · cases h

/-- positions that already hold their own number are not disturbed by the loop at another position -/
theorem settle_keeps {β : Type} : ∀ (fuel i : Nat) (a a' : Array (Nat × β)), settle fuel i a = some a' → Distinct a →
    ∀ (p : Nat) (x : β), p ≠ i → a[p]? = some (p, x) → a'[p]? = some (p, x) := by
  intro fuel
  induction fuel with
  | zero => intro i a a' h; simp [settle] at h
  | succ f ih =>
    intro i a a' h hd p x hpi hp
    unfold settle at h
    split at h
    · cases h; exact hp
    · rename_i j y hs
      split at h
      · cases h; exact hp
      · rename_i hji
        split at h
        · rename_i hj
          have hi : i < a.size := by
            by_contra hc
            have : a[i]? = none := by simp; omega
            rw [this] at hs; cases hs
          have hpj : p ≠ j := by
            intro e
            subst e
            exact hpi (hd i p (p, y) (p, x) hs hp rfl).symm
          apply ih _ _ _ h (distinct_swap a i j hi hj hd) p x hpi
          rw [swapIB_get a i j p hi hj]
          have : tr i j p = p := by unfold tr; split <;> (try split) <;> omega
          rw [this]; exact hp
        · cases h

theorem settle_size {β : Type} : ∀ (fuel i : Nat) (a a' : Array (Nat × β)), settle fuel i a = some a' → a'.size = a.size := by
  intro fuel i a a' h
  have := (settle_perm fuel i a a' h)
  rw [Array.perm_iff_toList_perm] at this
  simpa using this.length_eq

def Fixed {β : Type} (a : Array (Nat × β)) (S : List Nat) : Prop := ∀ p ∈ S, ∃ x, a[p]? = some (p, x)

theorem fold_inv {β : Type} (F : Nat) : ∀ (l : List Nat) (done : List Nat) (a a' : Array (Nat × β)),
    l.foldlM (fun a i => settle F i a) a = some a' → Distinct a → Fixed a done → (∀ i ∈ l, i < a.size) →
    a'.Perm a ∧ Distinct a' ∧ Fixed a' (done ++ l) := by
  intro l
  induction l with
  | nil =>
    intro done a a' h hd hf _
    simp only [List.foldlM_nil] at h
    cases h
    exact ⟨Array.Perm.refl _, hd, by simpa using hf⟩
  | cons i rest ih =>
    intro done a a' h hd hf hl
    simp only [List.foldlM_cons] at h
    cases hs : settle F i a with
    | none => rw [hs] at h; simp at h
    | some a1 =>
      rw [hs] at h
      simp only [Option.bind_eq_bind, Option.bind_some] at h
      have hi : i < a.size := hl i List.mem_cons_self
      have hsz := settle_size F i a a1 hs
      have hd1 := settle_distinct F i a a1 hs hd
      have hf1 : Fixed a1 (done ++ [i]) := by
        intro p hp
        rw [List.mem_append] at hp
        by_cases hpi : p = i
        · subst hpi; exact settle_fixed F p a a1 hs hi
        · rcases hp with hp | hp
          · obtain ⟨x, hx⟩ := hf p hp
            exact ⟨x, settle_keeps F i a a1 hs hd p x hpi hx⟩
          · simp at hp; exact absurd hp hpi
      obtain ⟨hp2, hd2, hf2⟩ := ih (done ++ [i]) a1 a' h hd1 hf1 (fun j hj => by rw [hsz]; exact hl j (List.mem_cons_of_mem _ hj))
      refine ⟨hp2.trans (settle_perm F i a a1 hs), hd2, ?_⟩
      simpa [List.append_assoc] using hf2

/-- `SortNodes` puts every node where `newnum` says: whenever the loop ends (it does when the numbers are a permutation of the positions,
    `sortNodesLoop_total`), the array is a rearrangement of the original (number, node) pairs in which every pair sits at the position
    of its number - for any node type -/
theorem sortNodesLoop_places {β : Type} (a a' : Array (Nat × β)) (hd : Distinct a) (h : sortNodesLoop a = some a') :
    a'.Perm a ∧ ∀ (u : Nat × β), u ∈ a → a'[u.1]? = some u := by
  unfold sortNodesLoop at h
  obtain ⟨hp, _, hf⟩ := fold_inv (a.size + 1) (List.range a.size) [] a a' h hd (by intro p hp; cases hp)
    (fun i hi => List.mem_range.mp hi)
  refine ⟨hp, ?_⟩
  intro u hu
  have hu' : u ∈ a' := hp.symm.mem_iff.mp hu
  obtain ⟨p, hp1, hp2⟩ := Array.mem_iff_getElem.mp hu'
  have hsz : a'.size = a.size := by
    have := hp; rw [Array.perm_iff_toList_perm] at this; simpa using this.length_eq
  obtain ⟨x, hx⟩ := hf p (by simp; omega)
  have e : a'[p]? = some u := by rw [Array.getElem?_eq_getElem hp1, hp2]
  rw [hx] at e
  cases e
  exact hx

/-- position `p` does not (yet) hold its own number -/
def unfixed {β : Type} (a : Array (Nat × β)) (p : Nat) : Bool := decide ((a[p]?.map (·.1)) ≠ some p)

def nf {β : Type} (a : Array (Nat × β)) : Nat := ((List.range a.size).filter (unfixed a)).length

theorem filter_lt {l : List Nat} {p q : Nat → Bool} (hpq : ∀ x, p x = true → q x = true) (j : Nat) (hj : j ∈ l)
    (hq : q j = true) (hp : p j = false) : (l.filter p).length < (l.filter q).length := by
  have hs : List.Sublist (l.filter p) (l.filter q) := List.monotone_filter_right l hpq
  rcases Nat.lt_or_ge (l.filter p).length (l.filter q).length with h | h
  · exact h
  · exfalso
    have e := hs.eq_of_length_le h
    have : j ∈ l.filter q := List.mem_filter.mpr ⟨hj, hq⟩
    rw [← e] at this
    have := (List.mem_filter.mp this).2
    rw [hp] at this
    cases this

theorem nf_swap {β : Type} (a : Array (Nat × β)) (i j : Nat) (x : β) (hi : i < a.size) (hj : j < a.size) (hij : j ≠ i)
    (hs : a[i]? = some (j, x)) (hd : Distinct a) : nf (a.swapIfInBounds i j) < nf a := by
  unfold nf
  rw [Array.size_swapIfInBounds]
  apply filter_lt (j := j)
  · intro k hk
    unfold unfixed at hk ⊢
    simp only [decide_eq_true_eq] at hk ⊢
    rw [swapIB_get a i j k hi hj] at hk
    intro hfix
    apply hk
    unfold tr
    by_cases h1 : j = k
    · subst h1; simp [hs]
    · by_cases h2 : i = k
      · subst h2
        -- a[i] has number j ≠ i, contradiction with hfix
        rw [hs] at hfix; simp at hfix; exact absurd hfix hij
      · simp [h1, h2, hfix]
  · exact List.mem_range.mpr hj
  · unfold unfixed
    simp only [decide_eq_true_eq]
    intro hfix
    cases hv : a[j]? with
    | none => rw [hv] at hfix; simp at hfix
    | some v =>
      rw [hv] at hfix
      simp at hfix
      exact hij (hd i j (j, x) v hs hv (by simpa using hfix.symm)).symm
  · unfold unfixed
    rw [swapIB_get a i j j hi hj]
    have : tr i j j = i := by unfold tr; simp
    rw [this, hs]
    simp

def InRange {β : Type} (a : Array (Nat × β)) : Prop := ∀ (u : Nat × β), u ∈ a → u.1 < a.size

theorem inrange_perm {β : Type} (a b : Array (Nat × β)) (hp : b.Perm a) (h : InRange a) : InRange b := by
  intro u hu
  have hsz : b.size = a.size := by
    have := hp; rw [Array.perm_iff_toList_perm] at this; simpa using this.length_eq
  rw [hsz]
  exact h u (hp.mem_iff.mp hu)

theorem nf_le {β : Type} (a : Array (Nat × β)) : nf a ≤ a.size := by
  unfold nf
  have := List.length_filter_le (unfixed a) (List.range a.size)
  simpa using this

theorem settle_total {β : Type} : ∀ (fuel i : Nat) (a : Array (Nat × β)), nf a < fuel → Distinct a → InRange a →
    ∃ a', settle fuel i a = some a' := by
  intro fuel
  induction fuel with
  | zero => intro i a h; omega
  | succ f ih =>
    intro i a hnf hd hr
    unfold settle
    cases hs : a[i]? with
    | none => exact ⟨a, rfl⟩
    | some u =>
      obtain ⟨j, x⟩ := u
      simp only []
      by_cases hji : j = i
      · simp [hji]
      · have hi : i < a.size := by
          by_contra hc
          have : a[i]? = none := by simp; omega
          rw [this] at hs; cases hs
        have hj : j < a.size := hr (j, x) (Array.mem_of_getElem? hs)
        simp only [hji, if_false, hj, if_true]
        apply ih
        · have := nf_swap a i j x hi hj hji hs hd; omega
        · exact distinct_swap a i j hi hj hd
        · exact inrange_perm a _ (swapIB_perm a i j) hr

theorem fold_total {β : Type} (N : Nat) : ∀ (l : List Nat) (b : Array (Nat × β)), Distinct b → InRange b → b.size = N →
    ∃ a', l.foldlM (fun b i => settle (N + 1) i b) b = some a' := by
  intro l
  induction l with
  | nil => intro b _ _ _; exact ⟨b, rfl⟩
  | cons i rest ih =>
    intro b hd hr hsz
    obtain ⟨b1, h1⟩ := settle_total (N + 1) i b (by have := nf_le b; omega) hd hr
    simp only [List.foldlM_cons, h1, Option.bind_eq_bind, Option.bind_some]
    exact ih b1 (settle_distinct _ _ _ _ h1 hd) (inrange_perm b b1 (settle_perm _ _ _ _ h1) hr)
      (by rw [settle_size _ _ _ _ h1]; exact hsz)

/-- `SortNodes` ends: when the numbers are pairwise distinct and all below the number of nodes (a permutation of the positions -
    what `cuthill_is_permutation` establishes for `newnum`) every `while` loop is left within `N + 1` passes -/
theorem sortNodesLoop_total {β : Type} (a : Array (Nat × β)) (hd : Distinct a) (hr : InRange a) :
    ∃ a', sortNodesLoop a = some a' := by
  unfold sortNodesLoop
  exact fold_total a.size (List.range a.size) a hd hr rfl

/-- the chain every solver runs before assembling, for every mesh graph: `Cuthill()` returns a numbering, `SortNodes` ends, and node `i`
    of the mesh is found at position `newnum[i]` of the reordered node list (which is what the solution file lists) -/
theorem renumbering_chain {β : Type} (N : Nat) (es : List (Nat × Nat)) (nodes : Array β) (hN : 2 ≤ N)
    (hes : ∀ e ∈ es, e.1 < N ∧ e.2 < N) (hnd : nodes.size = N) :
    ∃ r out, cuthill N es = some r ∧ sortNodes r.newnum nodes = some out ∧ out.size = N ∧
      ∀ (i : Nat), i < N → out[r.newnum[i]?.getD 0]? = nodes[i]? := by
  obtain ⟨r, hr, hsz, hlt, hinj⟩ := cuthill_perm N es hN hes
  have hd : Distinct (r.newnum.zip nodes) := by
    intro p q u v hp hq huv
    rw [Array.getElem?_zip_eq_some] at hp hq
    have hpN : p < N := by
      by_contra hc
      have : r.newnum[p]? = none := by simp; omega
      rw [this] at hp; cases hp.1
    have hqN : q < N := by
      by_contra hc
      have : r.newnum[q]? = none := by simp; omega
      rw [this] at hq; cases hq.1
    apply hinj p q hpN hqN
    rw [hp.1, hq.1]; simpa using huv
  have hzs : (r.newnum.zip nodes).size = N := by simp [Array.size_zip, hsz, hnd]
  have hrng : InRange (r.newnum.zip nodes) := by
    intro u hu
    obtain ⟨p, hp1, hp2⟩ := Array.mem_iff_getElem.mp hu
    have e : (r.newnum.zip nodes)[p]? = some u := by rw [Array.getElem?_eq_getElem hp1, hp2]
    rw [Array.getElem?_zip_eq_some] at e
    rw [hzs]
    have hpN : p < N := by rw [hzs] at hp1; exact hp1
    have := hlt p hpN
    rw [e.1] at this
    simpa using this
  obtain ⟨a', ha'⟩ := sortNodesLoop_total _ hd hrng
  obtain ⟨hperm, hplace⟩ := sortNodesLoop_places _ a' hd ha'
  have hsz' : a'.size = N := by
    have := hperm; rw [Array.perm_iff_toList_perm] at this
    have := this.length_eq
    simp at this; omega
  refine ⟨r, a'.map (·.2), hr, ?_, by simp [hsz'], ?_⟩
  · unfold sortNodes; rw [ha']; rfl
  · intro i hi
    have hi1 : i < r.newnum.size := by omega
    have hi2 : i < nodes.size := by omega
    have hu : (r.newnum.zip nodes)[i]? = some (r.newnum[i], nodes[i]) := by
      rw [Array.getElem?_zip_eq_some]; simp [hi1, hi2]
    have hmem : (r.newnum[i], nodes[i]) ∈ r.newnum.zip nodes := Array.mem_of_getElem? hu
    have := hplace _ hmem
    simp only [Array.getElem?_eq_getElem hi1, Option.getD_some, Array.getElem?_map, this, Option.map_some,
      Array.getElem?_eq_getElem hi2]

/-! ### the band width -/

theorem foldl_max_ge_init (f : Nat → Nat) (l : List Nat) (w : Nat) : w ≤ l.foldl (fun w c => max w (f c)) w := by
  induction l generalizing w with
  | nil => exact Nat.le_refl _
  | cons c rest ih => simp only [List.foldl_cons]; exact Nat.le_trans (Nat.le_max_left _ _) (ih _)

theorem foldl_max_ge_mem (f : Nat → Nat) (l : List Nat) (w : Nat) (c : Nat) (hc : c ∈ l) : f c ≤ l.foldl (fun w c => max w (f c)) w := by
  induction l generalizing w with
  | nil => cases hc
  | cons d rest ih =>
    simp only [List.foldl_cons]
    rcases List.mem_cons.mp hc with h | h
    · subst h; exact Nat.le_trans (Nat.le_max_right _ _) (foldl_max_ge_init f rest _)
    · exact ih _ h

/-- the double loop that computes the band width dominates the distance of the new numbers of every node and each of its listed neighbours -/
theorem wide_ge (N : Nat) (oc : Array (List Nat)) (g : Nat → Nat → Nat) (a c : Nat) (ha : a < N) (hc : c ∈ oc.getD a []) :
    g a c ≤ (List.range N).foldl (fun w a => (oc.getD a []).foldl (fun w c => max w (g a c)) w) 0 := by
  have key : ∀ (l : List Nat) (w : Nat), a ∈ l → g a c ≤ l.foldl (fun w a => (oc.getD a []).foldl (fun w c => max w (g a c)) w) w := by
    intro l
    induction l with
    | nil => intro w h; cases h
    | cons b rest ih =>
      intro w h
      simp only [List.foldl_cons]
      rcases List.mem_cons.mp h with e | e
      · subst e
        have h1 := foldl_max_ge_mem (g a) (oc.getD a []) w c hc
        have h2 : ∀ (l : List Nat) (w : Nat), w ≤ l.foldl (fun w a => (oc.getD a []).foldl (fun w c => max w (g a c)) w) w := by
          intro l
          induction l with
          | nil => intro w; exact Nat.le_refl _
          | cons b rest ih2 => intro w; simp only [List.foldl_cons]; exact Nat.le_trans (foldl_max_ge_init _ _ _) (ih2 _)
        exact Nat.le_trans h1 (h2 rest _)
      · exact ih _ e
  exact key (List.range N) 0 (List.mem_range.mpr ha)

theorem pushAdj_mem (o : Array (List Nat)) (i v a c : Nat) (h : c ∈ o[a]?.getD []) : c ∈ (pushAdj o i v)[a]?.getD [] := by
  unfold pushAdj
  simp only [Array.getD_eq_getD_getElem?, getD_setL]
  split
  · rename_i hia; rw [hia.1]; exact List.mem_append_left _ h
  · exact h

theorem pushAdj_new (o : Array (List Nat)) (i v : Nat) (hi : i < o.size) : v ∈ (pushAdj o i v)[i]?.getD [] := by
  unfold pushAdj
  simp only [Array.getD_eq_getD_getElem?, getD_setL, hi, and_self, if_true]
  simp

theorem pushAdj_size (o : Array (List Nat)) (i v : Nat) : (pushAdj o i v).size = o.size := by
  unfold pushAdj; simp

/-- every line of the edge file puts each end point into the adjacency list of the other -/
theorem ocon_mem (N : Nat) (es : List (Nat × Nat)) (e : Nat × Nat) (he : e ∈ es) (h1 : e.1 < N) (h2 : e.2 < N) :
    e.2 ∈ (ocon N es)[e.1]?.getD [] ∧ e.1 ∈ (ocon N es)[e.2]?.getD [] := by
  unfold ocon
  have key : ∀ (l : List (Nat × Nat)) (o : Array (List Nat)), o.size = N →
      (e ∈ l ∨ (e.2 ∈ o[e.1]?.getD [] ∧ e.1 ∈ o[e.2]?.getD [])) →
      e.2 ∈ (l.foldl (fun o e => pushAdj (pushAdj o e.1 e.2) e.2 e.1) o)[e.1]?.getD [] ∧
      e.1 ∈ (l.foldl (fun o e => pushAdj (pushAdj o e.1 e.2) e.2 e.1) o)[e.2]?.getD [] := by
    intro l
    induction l with
    | nil => intro o _ h; rcases h with h | h; cases h; exact h
    | cons d rest ih =>
      intro o hsz h
      simp only [List.foldl_cons]
      apply ih _ (by rw [pushAdj_size, pushAdj_size]; exact hsz)
      rcases h with h | h
      · rcases List.mem_cons.mp h with e1 | e1
        · subst e1
          right
          exact ⟨pushAdj_mem _ _ _ _ _ (pushAdj_new o e.1 e.2 (by omega)), pushAdj_new _ e.2 e.1 (by rw [pushAdj_size]; omega)⟩
        · left; exact e1
      · right
        exact ⟨pushAdj_mem _ _ _ _ _ (pushAdj_mem _ _ _ _ _ h.1), pushAdj_mem _ _ _ _ _ (pushAdj_mem _ _ _ _ _ h.2)⟩
  exact key es _ (by simp) (Or.inl he)

/-- `BandWidth` is a true bound: for every line of the edge file the new numbers of its end points differ by less than the band width the
    solver hands to `CBigLinProb::Create` - the hypothesis under which `SetValue` may restrict its scan to the band (C09
    `setValue_solves_constrained`, `hband`) -/
theorem cuthill_bandwidth (N : Nat) (es : List (Nat × Nat)) (r : Result) (hr : cuthill N es = some r)
    (hes : ∀ e ∈ es, e.1 < N ∧ e.2 < N) (e : Nat × Nat) (he : e ∈ es) :
    absDiff (r.newnum.getD e.1 0) (r.newnum.getD e.2 0) < r.bandwidth := by
  unfold cuthill at hr
  simp only [] at hr
  split at hr
  · cases hr
  · rename_i s hs
    cases hr
    simp only []
    have hmem := (ocon_mem N es e he (hes e he).1 (hes e he).2).1
    have hsorted : e.2 ∈ ((ocon N es).map (sortAdj (fun c => (numcon N es).getD c 0))).getD e.1 [] := by
      simp only [Array.getD_eq_getD_getElem?, Array.getElem?_map]
      cases ho : (ocon N es)[e.1]? with
      | none => rw [ho] at hmem; simp at hmem
      | some l =>
        rw [ho] at hmem
        simp only [Option.map_some, Option.getD_some] at hmem ⊢
        exact (sortAdj_perm _ l).mem_iff.mpr hmem
    have := wide_ge N _ (fun a c => absDiff ((s.newnum.map (fun o => o.getD 0)).getD a 0) ((s.newnum.map (fun o => o.getD 0)).getD c 0))
      e.1 e.2 (hes e he).1 hsorted
    omega

end XfemmVerif.CuthillLemmas
