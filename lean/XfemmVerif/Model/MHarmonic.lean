import XfemmVerif.Model.MSolver
import XfemmVerif.Model.CSparse
/-
Model of the FIRST pass (`Iter == 0`) of `FSolver::Harmonic2D` (cfemm/fsolver/harmonic2d.cpp): planar time-harmonic magnetics
with linear materials, successive-approximation solver setting (`ACSolver == 0`), no air-gap elements, no previous solution,
up to the call of `PBCGSolveMod`: complex circuit integrals and the three circuit cases (a-priori voltage gradient, flat current
density, unknown voltage gradient with its extra row), the complex effective permeabilities (hysteresis lag, laminations with the
`tanh(K)/K` skin-effect factor, the proximity-effect permeability of stranded regions, taken from the label), element matrices,
the consistent-mass eddy term `-j a ω σ c / 12`, mixed and small-skin-depth boundary terms, source and circuit current densities,
the extra rows and columns of case-2 circuits, point currents, prescribed complex potentials (cartesian and polar prescription
with phase), the diagonal fix of circuit rows that are known a priori, (anti)periodic ties.  Every expression keeps the operator
overloads of the C++ (`CComplex * double`, `double * CComplex`, `int * CComplex`, complex by complex, the scaled division), so
the `Float` instance is compared bit for bit with the system the real solver hands to `PBCGSolveMod` (hook dump).
Core Lean only.
-/
namespace XfemmVerif.MHarmonic
open XfemmVerif XfemmVerif.Sparse XfemmVerif.ESolver XfemmVerif.CSparse

structure HConsts (α : Type) where
  /-- `c = PI*4.e-05` -/
  c : α
  deg : α
  pi : α
  /-- `units[LengthUnits]` -/
  ucm : α
  /-- `w = Frequency*2.*PI` -/
  w : α
  sqrt : α → α
  sq : α → α
  atan2 : α → α → α
  F : Cx.RealFuns α

structure HPointProp (α : Type) where
  J : Cx α
  A : Cx α

structure HBdryProp (α : Type) where
  fmt : Nat
  A0 : α
  A1 : α
  A2 : α
  phi : α
  mu : α
  sig : α
  c0 : Cx α
  c1 : Cx α

structure HBlockProp (α : Type) where
  mux : α
  muy : α
  lamType : Nat
  lamFill : α
  lamD : α
  thetaHx : α
  thetaHy : α
  J : Cx α
  cduct : α

structure HCirc (α : Type) where
  typ : Nat
  amps : Cx α
  dvolts : Cx α

structure HLabel (α : Type) where
  inCircuit : Int
  wound : Bool
  proximityMu : Cx α

structure HProblem (α : Type) where
  polar : Bool
  nodeProps : Array (HPointProp α)
  lineProps : Array (HBdryProp α)
  blockProps : Array (HBlockProp α)
  circProps : Array (HCirc α)
  labels : Array (HLabel α)
  nodes : Array (Node α)
  els : Array Elem
  pbc : Array (Nat × Nat × Nat)
  bandwidth : Nat

variable {α : Type} [OfNat α 0] [OfNat α 1] [OfNat α 2] [OfNat α 3] [OfNat α 4] [OfNat α 6] [OfNat α 12] [OfNat α 100]
  [Add α] [Sub α] [Mul α] [Div α] [Neg α] [BEq α] [AbsGt α] [LT α] [DecidableLT α]

/-- what `Harmonic2D` decides for a circuit: `(Case, J, dV)`; `c001 = 0.01` -/
def circuitCase (c001 : α) (cp : HCirc α) (int1 int2 int3 : Cx α) : Nat × Cx α × Cx α :=
  if cp.typ == 0 then
    if int2.isZero then
      if int1.isZero then (1, 0, 0)
      else (1, Cx.rmul c001 (Cx.ofParts cp.amps.re cp.amps.im - int3) / int1, 0)
    else (2, 0, 0)
  else (0, 0, Cx.ofParts cp.dvolts.re cp.dvolts.im)

/-- `exp(-I*theta*DEG)` -/
def lag (k : HConsts α) (theta : α) : Cx α := Cx.cexp k.F (((-Cx.I : Cx α).mulR theta).mulR k.deg)

/-- effective complex permeabilities `Mu[k][0]`, `Mu[k][1]` of a block type; `c04 = 0.4`, `c0001 = 0.001` -/
def blockMu (k : HConsts α) (c04 c0001 : α) (bp : HBlockProp α) : Cx α × Cx α :=
  if bp.lamType == 0 then
    let m0 := Cx.rmul bp.mux (lag k bp.thetaHx)
    let m1 := Cx.rmul bp.muy (lag k bp.thetaHy)
    if bp.lamD != 0 then
      if bp.cduct != 0 then
        let deg45 : Cx α := Cx.radd 1 Cx.I
        let one (m : Cx α) (theta mu : α) : Cx α :=
          let halflag := Cx.cexp k.F ((((-Cx.I : Cx α).mulR theta).mulR k.deg).divR 2)
          let ds := k.sqrt (2 / (c04 * k.pi * k.w * bp.cduct * mu))
          let K := (((halflag * deg45).mulR bp.lamD).mulR c0001).divR (2 * ds)
          (((m * Cx.ctanh k.F K) / K).mulR bp.lamFill).addR (1 - bp.lamFill)
        (one m0 bp.thetaHx bp.mux, one m1 bp.thetaHy bp.muy)
      else
        ((m0.mulR bp.lamFill).addR (1 - bp.lamFill), (m1.mulR bp.lamFill).addR (1 - bp.lamFill))
    else (m0, m1)
  else (Cx.ofReal 1, Cx.ofReal 1)

/-- prescribed complex potential along a segment at `(x, y)` (solver units): `(a/c) * exp(I*phi*DEG)` -/
def prescribedA (k : HConsts α) (polar : Bool) (lp : HBdryProp α) (x y : α) : Cx α :=
  let ph := Cx.cexp k.F (((Cx.I : Cx α).mulR lp.phi).mulR k.deg)
  if !polar then
    let xs := x / k.ucm
    let ys := y / k.ucm
    let a := lp.A0 + xs * lp.A1 + ys * lp.A2
    Cx.rmul (a / k.c) ph
  else
    let r := k.sqrt (x * x + y * y)
    let t := if x == 0 && y == 0 then 0 else k.atan2 y x / k.deg
    let rs := r / k.ucm
    let a := lp.A0 + rs * lp.A1 + t * lp.A2
    Cx.rmul (a / k.c) ph

/-- the consistent-mass eddy coefficient of an element: `-I*a*w*Cduct*c/12.`, zero in laminated and wound regions -/
def eddyK (k : HConsts α) (bp : HBlockProp α) (wound : Bool) (a : α) : Cx α :=
  if (bp.lamType == 0 && (0 : α) < bp.lamD) || wound then 0
  else (((((-Cx.I : Cx α).mulR a).mulR k.w).mulR bp.cduct).mulR k.c).divR 12

/-- the element matrix after the eddy-current loop: `Me[j][k] += K; Me[k][j] += K` for `k ≥ j`, from zero -/
def eddyMe (Ke : Cx α) : Array (Cx α) := Id.run do
  let cz : Cx α := 0
  let mut me : Array (Cx α) := Array.replicate 9 cz
  let mg (m : Array (Cx α)) (a b : Nat) : Cx α := m.getD (a * 3 + b) cz
  for j in [0, 1, 2] do
    for kk in [0, 1, 2] do
      if j ≤ kk then
        me := me.setIfInBounds (j * 3 + kk) (mg me j kk + Ke)
        me := me.setIfInBounds (kk * 3 + j) (mg me kk j + Ke)
  return me

/-- the three Allaire matrices of an element: `Mx[j][k] = K p_j p_k`, `My[j][k] = K q_j q_k`, `Mxy[j][k] = K (p_j q_k + p_k q_j)`, each
    accumulated from zero over the upper triangle and mirrored -/
def harmMx (K : Cx α) (p : V3 α) : M3 (Cx α) := fun j kk =>
  (0 : Cx α) + (K.mulR (p (if j.val ≤ kk.val then j else kk))).mulR (p (if j.val ≤ kk.val then kk else j))
def harmMxy (K : Cx α) (p q : V3 α) : M3 (Cx α) := fun j kk =>
  (0 : Cx α) + K.mulR (p (if j.val ≤ kk.val then j else kk) * q (if j.val ≤ kk.val then kk else j) +
    p (if j.val ≤ kk.val then kk else j) * q (if j.val ≤ kk.val then j else kk))

/-- what the combination loop adds to `Me[j][k]`: `Mx/mu2 + My/mu1 + Mxy*v12` -/
def harmStiff (K mu1 mu2 v12 : Cx α) (p q : V3 α) (j kk : Fin 3) : Cx α :=
  harmMx K p j kk / mu2 + harmMx K q j kk / mu1 + harmMxy K p q j kk * v12

def assembleHarm (k : HConsts α) (c001 c0001 c00001 c04 : α) (P : HProblem α) : CLinProb α × Nat := Id.run do
  let nn := P.nodes.size
  let zero : α := 0
  let cz : Cx α := 0
  let node (i : Nat) : Node α := P.nodes.getD i { x := zero, y := zero, bm := -1, cond := -1 }
  let lineProp (i : Int) : HBdryProp α := P.lineProps.getD i.toNat
    { fmt := 99, A0 := zero, A1 := zero, A2 := zero, phi := zero, mu := zero, sig := zero, c0 := cz, c1 := cz }
  let blk (i : Nat) : HBlockProp α := P.blockProps.getD i
    { mux := 1, muy := 1, lamType := 0, lamFill := 1, lamD := zero, thetaHx := zero, thetaHy := zero, J := cz, cduct := zero }
  let lab (i : Nat) : HLabel α := P.labels.getD i { inCircuit := -1, wound := false, proximityMu := Cx.ofReal 1 }
  let nc := P.circProps.size
  -- circuit integrals
  let mut int1 : Array (Cx α) := Array.replicate nc cz
  let mut int2 : Array (Cx α) := Array.replicate nc cz
  let mut int3 : Array (Cx α) := Array.replicate nc cz
  for el in P.els do
    let lb := lab el.lbl
    if lb.inCircuit != -1 then
      let n : Fin 3 → Nat := getn el.p
      let xs : V3 α := fun j => (node (n j)).x
      let ys : V3 α := fun j => (node (n j)).y
      let p := shapeP ys
      let q := shapeQ xs
      let a := area p q
      let bp := blk el.blk
      let cduct := if lb.wound then zero else bp.cduct
      let ci := lb.inCircuit.toNat
      int1 := int1.setIfInBounds ci ((int1.getD ci cz).addR a)
      int2 := int2.setIfInBounds ci ((int2.getD ci cz).addR (a * cduct))
      int3 := int3.setIfInBounds ci (int3.getD ci cz + ((Cx.ofParts bp.J.re bp.J.im).mulR a).mulR 100)
  let cases : Array (Nat × Cx α × Cx α) := Array.ofFn (n := nc) (fun i =>
    circuitCase c001 (P.circProps.getD i.val { typ := 1, amps := cz, dvolts := cz }) (int1.getD i.val cz) (int2.getD i.val cz) (int3.getD i.val cz))
  let mus : Array (Cx α × Cx α) := P.blockProps.map (blockMu k c04 c0001)
  let mut L : CLinProb α := create (nn + nc) P.bandwidth
  for el in P.els do
    let n : Fin 3 → Nat := getn el.p
    let xs : V3 α := fun j => (node (n j)).x
    let ys : V3 α := fun j => (node (n j)).y
    let p := shapeP ys
    let q := shapeQ xs
    let l : V3 α := fun j =>
      let kk := nxt j
      k.sqrt (k.sq (xs kk - xs j) + k.sq (ys kk - ys j))
    let a := area p q
    let K : Cx α := Cx.ofReal (-1 / (4 * a))
    let lb := lab el.lbl
    let bp := blk el.blk
    -- eddy currents
    let Ke := eddyK k bp lb.wound a
    let mut me : Array (Cx α) := eddyMe Ke
    let mut be : Array (Cx α) := Array.replicate 3 cz
    let mg (m : Array (Cx α)) (a b : Nat) : Cx α := m.getD (a * 3 + b) cz
    -- derivative boundary conditions
    for j in [(0 : Fin 3), 1, 2] do
      let e := geti el.e j
      if e ≥ 0 then
        let lp := lineProp e
        let kk := nxt j
        if lp.fmt == 2 then
          let Kb := ((Cx.rmul (-c00001 * k.c) lp.c0).mulR (l j)).divR 6
          me := me.setIfInBounds (j.val * 3 + j.val) (mg me j.val j.val + Cx.rmul 2 Kb)
          me := me.setIfInBounds (kk.val * 3 + kk.val) (mg me kk.val kk.val + Cx.rmul 2 Kb)
          me := me.setIfInBounds (j.val * 3 + kk.val) (mg me j.val kk.val + Kb)
          me := me.setIfInBounds (kk.val * 3 + j.val) (mg me kk.val j.val + Kb)
          let K2 := ((lp.c1.mulR (l j)).divR 2).mulR c00001
          be := be.setIfInBounds j.val (be.getD j.val cz + K2)
          be := be.setIfInBounds kk.val (be.getD kk.val cz + K2)
        if lp.fmt == 1 then
          let ds := k.sqrt (2 / (c04 * k.pi * k.w * lp.sig * lp.mu))
          let deg45 : Cx α := Cx.radd 1 Cx.I
          let Kb := (deg45.divR (-ds * lp.mu * 100)).mulR (l j / 6)
          me := me.setIfInBounds (j.val * 3 + j.val) (mg me j.val j.val + Cx.rmul 2 Kb)
          me := me.setIfInBounds (kk.val * 3 + kk.val) (mg me kk.val kk.val + Cx.rmul 2 Kb)
          me := me.setIfInBounds (j.val * 3 + kk.val) (mg me j.val kk.val + Kb)
          me := me.setIfInBounds (kk.val * 3 + j.val) (mg me kk.val j.val + Kb)
    -- current density
    let (cs, cj, cdv) : Nat × Cx α × Cx α :=
      if lb.inCircuit ≥ 0 then cases.getD lb.inCircuit.toNat (0, cz, cz) else (3, cz, cz)
    let crow := nn + lb.inCircuit.toNat
    for j in [0, 1, 2] do
      let mut Jv : Cx α := 0
      if lb.inCircuit ≥ 0 then
        if cs == 1 then Jv := cj
        if cs == 0 then Jv := (-cdv).mulR bp.cduct
      let Kj := ((-(Cx.ofParts bp.J.re bp.J.im + Jv)).mulR a).divR 3
      be := be.setIfInBounds j (be.getD j cz + Kj)
      if lb.inCircuit ≥ 0 && cs == 2 then
        L := setB L crow (getB L crow + Kj)
    -- the extra row and column of a circuit whose voltage gradient is an unknown
    if lb.inCircuit ≥ 0 && cs == 2 then
      let Kc := ((((-Cx.I : Cx α).mulR a).mulR k.w).mulR bp.cduct).mulR k.c
      for j in [(0 : Fin 3), 1, 2] do
        L := put L (get L (n j) crow + Kc.divR 3) (n j) crow
      L := put L (get L crow crow + Kc) crow crow
    -- permeabilities of the first pass
    let (m1, m2) := mus.getD el.blk (Cx.ofReal 1, Cx.ofReal 1)
    let (mu1, mu2) : Cx α × Cx α := if bp.lamType > 2 then (lb.proximityMu, lb.proximityMu) else (m1, m2)
    let v12 : Cx α := 0
    for j in [(0 : Fin 3), 1, 2] do
      for kk in [(0 : Fin 3), 1, 2] do
        me := me.setIfInBounds (j.val * 3 + kk.val) (mg me j.val kk.val + harmStiff K mu1 mu2 v12 p q j kk)
        be := be.setIfInBounds j.val (be.getD j.val cz + cz * cz)
    for j in [(0 : Fin 3), 1, 2] do
      for kk in [(0 : Fin 3), 1, 2] do
        if j.val ≤ kk.val then
          L := addTo L (mg me j.val kk.val) (n j) (n kk)
      L := setB L (n j) (getB L (n j) + be.getD j.val cz)
  -- point currents
  for i in [0:nn] do
    let nd := node i
    if nd.bm ≥ 0 then
      let pp := P.nodeProps.getD nd.bm.toNat { J := cz, A := cz }
      L := setB L i (getB L i + (-(Cx.rmul c001 (Cx.ofParts pp.J.re pp.J.im))))
  -- total current constraints of case-2 circuits
  for i in [0:nc] do
    let (cs, _, _) := cases.getD i (0, cz, cz)
    if cs == 2 then
      let cp := P.circProps.getD i { typ := 1, amps := cz, dvolts := cz }
      L := setB L (nn + i) (getB L (nn + i) + Cx.rmul c001 (Cx.ofParts cp.amps.re cp.amps.im))
  -- prescribed potentials at points
  for i in [0:nn] do
    let nd := node i
    if nd.bm ≥ 0 then
      let pp := P.nodeProps.getD nd.bm.toNat { J := cz, A := cz }
      if pp.J.re == 0 && pp.J.im == 0 then
        L := CSparse.setValue nn L i ((Cx.ofParts pp.A.re pp.A.im).divR k.c)
  -- prescribed potentials along segments
  for el in P.els do
    for j in [(0 : Fin 3), 1, 2] do
      let kk := nxt j
      let e := geti el.e j
      if e ≥ 0 then
        let lp := lineProp e
        if lp.fmt == 0 then
          let n0 := getn el.p j
          let n1 := getn el.p kk
          L := CSparse.setValue nn L n0 (prescribedA k P.polar lp (node n0).x (node n0).y)
          L := CSparse.setValue nn L n1 (prescribedA k P.polar lp (node n1).x (node n1).y)
  -- diagonal of circuit rows that carry no unknown
  for j in [0:nc] do
    let (cs, _, _) := cases.getD j (0, cz, cz)
    if cs < 2 then L := put L (get L 0 0) (nn + j) (nn + j)
  for (a, b, t) in P.pbc do
    if t == 0 then L := CSparse.periodicity L a b
    if t == 1 then L := CSparse.antiPeriodicity L a b
  return (L, nn)

end XfemmVerif.MHarmonic
