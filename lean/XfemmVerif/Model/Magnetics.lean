/-
Model of the linear-material logic of `FSolver::Static2D` (cfemm/fsolver/static2d.cpp): effective
permeabilities of (laminated) linear materials and the current density a circuit applies to its
regions.  The element matrix is `Mx/μ₂ + My/μ₁` with `Mx`, `My` the Allaire matrices of `ESolver.stiff`
(unit depth, unit coefficient).  Core Lean only, generic scalar.
-/
namespace XfemmVerif.Magnetics

variable {α : Type} [Add α] [Sub α] [Mul α] [Div α] [OfNat α 1]

/-- `(mu1, mu2)` for `LamType` 0, 1, 2 (first pass, linear materials); other types give `(1,1)` -/
def lamMu (lamType : Nat) (fill mux muy : α) : α × α :=
  match lamType with
  | 0 => (mux * fill + (1 - fill), muy * fill + (1 - fill))
  | 1 => (mux * fill + (1 - fill), mux / (fill + mux * (1 - fill)))
  | 2 => (muy / (fill + muy * (1 - fill)), muy * fill + (1 - fill))
  | _ => (1, 1)

/-- Case 1 (no conducting region in the circuit): flat current density, in the solver's units:
    `J = 0.01*(Amps - CircInt3)/CircInt1` — `hundredth` is the double `0.01` -/
def circuitJ (hundredth amps int3 int1 : α) : α := hundredth * (amps - int3) / int1

/-- Case 0 (conducting): voltage gradient `dV = -0.01*(Amps - CircInt3)/CircInt2` -/
def circuitDV [Neg α] (hundredth amps int3 int2 : α) : α := -hundredth * (amps - int3) / int2

end XfemmVerif.Magnetics
