/-
Model of how the mesher subdivides the two partners of an (anti)periodic boundary condition identically and lists
their nodes pairwise (`cfemm/fmesher/writepoly.cpp`, second pass of the periodic triangulation):
* straight partners: the `j`-th interior node of each is `p0 + (p1 − p0)·(j+1)/k`, created alternately (first partner,
  second partner) at the end of the node list, and listed as one pair; the end points are listed first;
* arc partners: the `j`-th interior node is the previous one turned about the arc's centre by the `k`-th part of the span.
Core Lean only, generic scalar.
-/
namespace XfemmVerif.Periodic

variable {α : Type} [Add α] [Sub α] [Mul α] [Div α] [NatCast α]

/-- `a0 + (a1 − a0)·(j+1)/k`, coordinate by coordinate (`CComplex` arithmetic with real factors) -/
def linePoint (a0 a1 : α × α) (j k : Nat) : α × α :=
  (a0.1 + (a1.1 - a0.1) * ((j + 1 : Nat) : α) / (k : α), a0.2 + (a1.2 - a0.2) * ((j + 1 : Nat) : α) / (k : α))

/-- interior nodes created for a pair of straight partners subdivided `k` times: `k − 1` on each -/
def lineNodes (a0 a1 b0 b1 : α × α) (k : Nat) : List ((α × α) × (α × α)) :=
  (List.range (k - 1)).map (fun j => (linePoint a0 a1 j k, linePoint b0 b1 j k))

/-- the pair list written for one (anti)periodic condition: end points first, then the interior nodes in order of creation;
    `base` is the length of the node list before the interior nodes are appended (first partner gets `base + 2j`, second
    `base + 2j + 1`) -/
def pairIndices (k base a0 a1 b0 b1 : Nat) : List (Nat × Nat) :=
  (a0, b0) :: (a1, b1) :: (List.range (k - 1)).map (fun j => (base + 2 * j, base + 2 * j + 1))

/-- node chain of the first / second partner after subdivision, from its first to its last point -/
def chainA (k base a0 a1 : Nat) : List Nat := a0 :: (List.range (k - 1)).map (fun j => base + 2 * j) ++ [a1]
def chainB (k base b0 b1 : Nat) : List Nat := b0 :: (List.range (k - 1)).map (fun j => base + 2 * j + 1) ++ [b1]

/-- one step of the arc subdivision: turn `p` about `c` by the unit complex number `d = (dc, ds)` -/
def turn (c d p : α × α) : α × α :=
  let x := p.1 - c.1
  let y := p.2 - c.2
  (x * d.1 - y * d.2 + c.1, x * d.2 + y * d.1 + c.2)

/-- the first `m` interior nodes of an arc starting at `p` -/
def arcNodes (c d : α × α) : Nat → α × α → List (α × α)
  | 0, _ => []
  | m + 1, p => let q := turn c d p; q :: arcNodes c d m q

/-- a rigid motion of the plane that keeps orientation: `z ↦ r·z + t` with `r = (rc, rs)` -/
def motion (r t p : α × α) : α × α := (r.1 * p.1 - r.2 * p.2 + t.1, r.2 * p.1 + r.1 * p.2 + t.2)

end XfemmVerif.Periodic
