/-
Model of property references in `FemmProblem` as the Lua commands manipulate them (C15):
property lists are vectors, entities store *(index, name)* (`BoundaryMarker`/`BoundaryMarkerName`, …),
`update*Map` maps a name to the LAST index carrying it, the file is saved by index.
One property kind is modelled; the four kinds (point, boundary, material, circuit/conductor) are four
independent copies of this state machine (an operation on one kind touches only that kind's list and
the slots referring to that kind).  Core Lean only.

`P.id` and `Slot.bound` are ghost fields (not in the C++): the identity of a property and the
identity a slot was bound to by its last assignment — they let the theorems talk about "the same
property" across renames and renumbering.
-/
namespace XfemmVerif.Refs

structure P where
  id : Nat
  name : String
  deriving Repr, DecidableEq

structure Slot where
  /-- `BoundaryMarker` / `InConductor` / `BlockType` / `InCircuit`: index or `none` (-1) -/
  idx : Option Nat
  /-- `…Name` -/
  name : String
  /-- ghost: id of the property the last assignment resolved to -/
  bound : Option Nat
  deriving Repr, DecidableEq

structure St where
  props : List P
  slots : List Slot
  next : Nat
  deriving Repr

inductive Op where
  | add (name : String)
  | del (name : String)
  | rename (old new : String)
  /-- `set*prop` on the selected entity; `none` = nil / no property -/
  | assign (slot : Nat) (name : Option String)
  deriving Repr

/-- `update*Map` followed by a map lookup: index of the LAST property with that name -/
def lookup (props : List P) (n : String) : Option Nat :=
  let rec go : List P → Nat → Option Nat → Option Nat
    | [], _, acc => acc
    | p :: r, i, acc => go r (i + 1) (if p.name = n then some i else acc)
  go props 0 none

/-- rename the FIRST property called `old` (the modify commands `break` at the first match) -/
def renameFirst (old new : String) : List P → List P
  | [] => []
  | p :: r => if p.name = old then { p with name := new } :: r else p :: renameFirst old new r

/-- a property survives `delete n` -/
def keep (n : String) (q : P) : Bool := !(q.name == n)

/-- new index of the property at old index `i` after erasing every property called `n`;
    `none` if that property is itself erased (or `i` is out of range) -/
def newIndex (props : List P) (n : String) (i : Nat) : Option Nat :=
  match props[i]? with
  | none => none
  | some p => if keep n p then some ((props.take i).countP (keep n)) else none

/-- slot update on delete: `renumber = true` is the repaired code (indices follow their property,
    references to an erased property are released); `false` is the code as it was (indices untouched) -/
def delSlot (renumber : Bool) (props : List P) (n : String) (s : Slot) : Slot :=
  if renumber then
    match s.idx with
    | none => s
    | some i =>
      match newIndex props n i with
      | some j => { s with idx := some j }
      | none => { s with idx := none, name := "<None>" }
  else s

def step (renumber : Bool) (s : St) : Op → St
  | .add n => { s with props := s.props ++ [{ id := s.next, name := n }], next := s.next + 1 }
  | .del n => { s with props := s.props.filter (keep n),
                       slots := s.slots.map (delSlot renumber s.props n) }
  | .rename old new => { s with props := renameFirst old new s.props }
  | .assign k none =>
    { s with slots := s.slots.modify k (fun _ => { idx := none, name := "<None>", bound := none }) }
  | .assign k (some n) =>
    let i := lookup s.props n
    { s with slots := s.slots.modify k (fun _ =>
        { idx := i, name := n, bound := i.bind (fun j => (s.props[j]?).map (·.id)) }) }

def run (renumber : Bool) (s : St) (ops : List Op) : St := ops.foldl (step renumber) s

def init (nslots : Nat) : St :=
  { props := [], slots := List.replicate nslots { idx := none, name := "<None>", bound := none }, next := 0 }

/-- what `writeProblemDescription` stores for a slot: `index + 1`, `0` for none -/
def savedIndex (s : Slot) : Nat := match s.idx with | some i => i + 1 | none => 0

/-- identity of the property a saved slot designates when the file is read back -/
def target (st : St) (s : Slot) : Option Nat := s.idx.bind (fun i => (st.props[i]?).map (·.id))

/-- the `consistencyCheckOK` gate of analysis for one slot -/
def slotConsistent (st : St) (s : Slot) : Bool :=
  match s.idx with
  | none => true
  | some i => match st.props[i]? with
    | none => false
    | some p => p.name == s.name

end XfemmVerif.Refs
