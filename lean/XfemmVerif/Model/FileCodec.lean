/-
Model of the problem-file codec of `libfemm` at the level where its round-trip is decided:
* a property block is a list of `<key> = value` lines; `toStream` writes one line per entry of its WRITE map
  (key ↦ member), `fromStream` stores the value of every line whose key is in its READ map into the mapped member,
  and the parsed object reaches the problem through the class's copy constructor (COPY map: member ↦ source member);
* a string literal is written between double quotes and read back as everything between the first quote and the
  LAST quote of the line (`parseString`);
The three maps of every class are not written here: `Generated/FileKeys.lean` is regenerated from the C++ on every run.
Core Lean only.
-/
namespace XfemmVerif.FileCodec

/-- an object as far as the file is concerned: member ↦ text of its value -/
abbrev Rec := String → String

def setField (r : Rec) (f v : String) : Rec := fun g => if g = f then v else r g

/-- `toStream`: one line per entry of the write map -/
def printBlock (writes : List (String × String)) (r : Rec) : List (String × String) :=
  writes.map (fun kf => (kf.1, r kf.2))

/-- `fromStream`: start from the default-constructed object; a line with a known key stores into the mapped member,
    any other line is skipped (with a message) -/
def parseBlock (reads : List (String × String)) (dflt : Rec) (lines : List (String × String)) : Rec :=
  lines.foldl (fun r kv => match reads.lookup kv.1 with
    | some f => setField r f kv.2
    | none => r) dflt

/-- copy construction: a member listed with a source takes that member of the original, a member the copy
    constructor leaves out keeps its default value -/
def copyRec (copy : List (String × String)) (dflt r : Rec) : Rec := fun f =>
  match copy.lookup f with
  | some s => if s = "" then dflt f else r s
  | none => dflt f

/-- what ends up in the problem when a block is loaded -/
def loadBlock (reads copy : List (String × String)) (dflt : Rec) (lines : List (String × String)) : Rec :=
  copyRec copy dflt (parseBlock reads dflt lines)

/-! ### decidable conditions on the generated maps -/

/-- every written key is read back into the member it was written from -/
def writesAreRead (reads writes : List (String × String)) : Bool :=
  writes.all (fun kf => reads.lookup kf.1 == some kf.2)

/-- no member is written under two keys and no key twice -/
def writesDistinct (writes : List (String × String)) : Bool :=
  (writes.map (·.1)).Nodup ∧ (writes.map (·.2)).Nodup

/-- every member the reader can store is written -/
def readsAreWritten (reads writes : List (String × String)) : Bool :=
  reads.all (fun kf => (writes.map (·.2)).contains kf.2)

/-- the copy constructors carry every member the reader stores, from the member of the same name -/
def copyFaithful (reads copy : List (String × String)) : Bool :=
  reads.all (fun kf => copy.lookup kf.2 == some kf.2) && copy.all (fun fs => fs.1 != "")

/-! ### string literals -/

/-- everything before the last double quote; `none` when there is no quote -/
def beforeLastQuote (l : List Char) : Option (List Char) :=
  match l.reverse.dropWhile (fun c => c != '"') with
  | [] => none
  | _ :: rest => some rest.reverse

/-- the characters `std::ws` skips in the "C" locale -/
def isSpace (c : Char) : Bool :=
  c == ' ' || c == '\t' || c == '\n' || c == '\x0b' || c == '\x0c' || c == '\r'

/-- `parseString(istream&, …)`: skip white space, expect a quote, take the rest of the line up to its last quote -/
def parseStr (l : List Char) : Option (List Char) :=
  match l.dropWhile isSpace with
  | '"' :: rest => beforeLastQuote rest
  | _ => none

/-- the writers put a name between quotes -/
def writeStr (s : List Char) : List Char := '"' :: s ++ ['"']

end XfemmVerif.FileCodec
