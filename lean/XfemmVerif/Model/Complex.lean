/-
Model of `CComplex` (cfemm/libfemm/liblua/femmcomplex.cpp): a pair of scalars with the arithmetic of the C++ operators, in
the same order of floating-point operations — in particular the scaled division (`operator/`: branch on `fabs(re) > fabs(im)`,
inverse first, then a product) and the mixed complex-by-real forms, which act component-wise.  Generic in the real scalar:
the `Float` instance is compared bit for bit with the C++, the theorems (`Properties/C09.lean`) are over an ordered field.
Core Lean only.
-/
namespace XfemmVerif

/-- `fabs(a) > fabs(b)` -/
class AbsGt (α : Type) where
  absGt : α → α → Bool

instance : AbsGt Float := ⟨fun a b => Float.abs a > Float.abs b⟩
instance : AbsGt Rat := ⟨fun a b => (if a < 0 then -a else a) > (if b < 0 then -b else b)⟩

structure Cx (α : Type) where
  re : α
  im : α
  deriving Repr, DecidableEq

namespace Cx
variable {α : Type}

/-- `CComplex(double x)` -/
def ofReal [OfNat α 0] (x : α) : Cx α := ⟨x, 0⟩

instance [OfNat α 0] : OfNat (Cx α) 0 := ⟨⟨0, 0⟩⟩
instance [Add α] : Add (Cx α) := ⟨fun x y => ⟨x.re + y.re, x.im + y.im⟩⟩
instance [Sub α] : Sub (Cx α) := ⟨fun x y => ⟨x.re - y.re, x.im - y.im⟩⟩
instance [Neg α] : Neg (Cx α) := ⟨fun x => ⟨-x.re, -x.im⟩⟩
/-- `operator*(CComplex, CComplex)` -/
instance [Add α] [Sub α] [Mul α] : Mul (Cx α) := ⟨fun x y => ⟨x.re * y.re - x.im * y.im, x.re * y.im + x.im * y.re⟩⟩

/-- `conj` -/
def conj [Neg α] (x : Cx α) : Cx α := ⟨x.re, -x.im⟩
/-- `CComplex * double` -/
def mulR [Mul α] (x : Cx α) (z : α) : Cx α := ⟨x.re * z, x.im * z⟩
/-- `double * CComplex` -/
def rmul [Mul α] (z : α) (x : Cx α) : Cx α := ⟨z * x.re, z * x.im⟩
/-- `CComplex / double` -/
def divR [Div α] (x : Cx α) (z : α) : Cx α := ⟨x.re / z, x.im / z⟩
/-- `z != 0` -/
def ne0 [OfNat α 0] [BEq α] (z : Cx α) : Bool := z.re != 0 || z.im != 0
/-- `(re==0) && (im==0)` -/
def isZero [OfNat α 0] [BEq α] (z : Cx α) : Bool := z.re == 0 && z.im == 0

/-- `CComplex::Inv` / the first half of every `operator/` with a complex divisor -/
def inv [OfNat α 1] [Add α] [Mul α] [Div α] [Neg α] [AbsGt α] (z : Cx α) : Cx α :=
  if AbsGt.absGt z.re z.im then
    let c := z.im / z.re
    let yre := (1 : α) / (z.re * (1 + c * c))
    ⟨yre, (-c) * yre⟩
  else
    let c := z.re / z.im
    let yim := (-(1 : α)) / (z.im * (1 + c * c))
    ⟨(-c) * yim, yim⟩

/-- `operator/(CComplex, CComplex)`: `x * inv z` -/
instance [OfNat α 1] [Add α] [Sub α] [Mul α] [Div α] [Neg α] [AbsGt α] : Div (Cx α) := ⟨fun x z => x * inv z⟩

/-- `operator/(double, CComplex)`: `x * inv z` with the real-by-complex product -/
def rdiv [OfNat α 1] [Add α] [Mul α] [Div α] [Neg α] [AbsGt α] (x : α) (z : Cx α) : Cx α := rmul x (inv z)

/-- `double + CComplex` -/
def radd [Add α] (r : α) (x : Cx α) : Cx α := ⟨r + x.re, x.im⟩
/-- `CComplex + double` -/
def addR [Add α] (x : Cx α) (r : α) : Cx α := ⟨x.re + r, x.im⟩
/-- `double - CComplex` (also `int - CComplex`) -/
def rsub [Sub α] [Neg α] (r : α) (x : Cx α) : Cx α := ⟨r - x.re, -x.im⟩
/-- `CComplex - double` -/
def subR [Sub α] (x : Cx α) (r : α) : Cx α := ⟨x.re - r, x.im⟩
/-- the macro `I` = `CComplex(0,1)` -/
def I [OfNat α 0] [OfNat α 1] : Cx α := ⟨0, 1⟩
/-- `re + I*im` as the solvers write it: `I*im` is `CComplex * double`, then `double + CComplex` -/
def ofParts [OfNat α 0] [OfNat α 1] [Add α] [Mul α] (re im : α) : Cx α := radd re (mulR I im)

/-- the real functions of the C library a complex function is built from -/
structure RealFuns (α : Type) where
  exp : α → α
  sin : α → α
  cos : α → α

/-- `exp(const CComplex&)`: `exp(re)`, `sincos(im)` -/
def cexp [Mul α] (F : RealFuns α) (x : Cx α) : Cx α :=
  let e := F.exp x.re
  ⟨F.cos x.im * e, F.sin x.im * e⟩

/-- `tanh(const CComplex&)` -/
def ctanh [OfNat α 0] [OfNat α 1] [OfNat α 2] [Add α] [Sub α] [Mul α] [Div α] [Neg α] [AbsGt α] [LT α] [DecidableLT α]
    (F : RealFuns α) (x : Cx α) : Cx α :=
  if (0 : α) < x.re then
    let e := cexp F (rmul (-2) x)
    rsub 1 e / radd 1 e
  else
    let e := cexp F (rmul 2 x)
    subR e 1 / addR e 1

end Cx
end XfemmVerif
