/-
Model of how a Lua add-property command reaches the problem file (C17): the handler decodes argument `i` into a
member of the new property object (`Generated/LuaCmds.lean`, translated from the C++), and `toStream` writes that
member under a key (`Generated/FileKeys.lean`, translated from the C++).  The composition is the file key under which
argument `i` of the command appears when the problem is saved.  Core Lean only.
-/
namespace XfemmVerif.LuaSpec

/-- key under which `toStream` writes a member; a complex member is found under the key of its real part -/
def keyOfMember (writes : List (String × String)) (m : String) : Option String :=
  match writes.find? (fun kf => kf.2 == m) with
  | some kf => some kf.1
  | none => (writes.find? (fun kf => kf.2 == m ++ ".re")).map (·.1)

/-- file key of every decoded argument of a command -/
def argKeys (argMap : List (Nat × String)) (writes : List (String × String)) : List (Nat × Option String) :=
  argMap.map (fun am => (am.1, keyOfMember writes am.2))

/-- command names are handled as their lists of bytes -/
abbrev Name := List Nat

def bytes (s : String) : Name := s.toList.map Char.toNat

/-- a name registered with underscores after its `xi_` / `xo_` prefix, squeezed (95 = '_') -/
def squeeze : Name → Name
  | a :: b :: 95 :: rest => a :: b :: 95 :: rest.filter (· != 95)
  | n => n

/-- `mi_…`, `mo_…`, `ei_…`, `eo_…`, `hi_…`, `ho_…` (109 m, 101 e, 104 h, 105 i, 111 o) -/
def isCommand : Name → Bool
  | a :: b :: 95 :: _ => (a == 109 || a == 101 || a == 104) && (b == 105 || b == 111)
  | _ => false

/-- a name as one numeral (base 256) -/
def code (n : Name) : Nat := n.foldl (fun a b => a * 256 + b) 0

/-- the index the translator pre-computes, group by group: (code name, code (squeeze name), handler) -/
def index (regs : List (String × List (Name × Nat))) : List (String × List (Nat × Nat × Nat)) :=
  regs.map (fun g => (g.1, g.2.map (fun r => (code r.1, code (squeeze r.1), r.2))))

def lookupCode (idx : List (Nat × Nat × Nat)) (c : Nat) : Option Nat :=
  (idx.find? (fun e => e.1 == c)).map (·.2.2)

/-- both spellings of every command: whatever is registered with underscores is registered squeezed (necessarily in the same
    prefix group), with the same handler; for a name without underscores the lookup finds the entry itself -/
def bothSpellings (idx : List (String × List (Nat × Nat × Nat))) : Bool :=
  idx.all (fun g => g.2.all (fun e => lookupCode g.2 e.2.1 == some e.2.2))

/-- `prefix_cmd` is registered (prefix "mi", "ho", …) -/
def registered (idx : List (String × List (Nat × Nat × Nat))) (pre cmd : String) : Bool :=
  match idx.lookup pre with
  | some g => (lookupCode g (code (bytes (pre ++ "_" ++ cmd)))).isSome
  | none => false

end XfemmVerif.LuaSpec
