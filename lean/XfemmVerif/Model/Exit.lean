import XfemmVerif.Generated.ExitTable
/-
Model of the exit-status logic of the command-line tools (C20): `main()` of fsolver / esolver / hsolver,
`runSolver`, the guarded `fopen`s of `LoadMesh`, the previous-solution guard, and fmesher's `main()`.
The tables (exit codes, order of the file guards, returned values) are regenerated from the source by
`tools/translate_exit.py` on every run; this file only says how `main` combines them.
-/
namespace XfemmVerif.Exit
open XfemmVerif.Generated.ExitTable

/-- what a run of a solver finds (each `Bool`: present, readable and well formed) -/
structure Inputs where
  problem : Bool
  node : Bool
  pbc : Bool
  ele : Bool
  edge : Bool
  /-- every region has a material (no `MISSINGMATPROPS`) -/
  materials : Bool
  /-- the problem references a previous solution -/
  prevNeeded : Bool
  prevOk : Bool
  /-- the output file can be written -/
  writable : Bool
  deriving DecidableEq, Repr

def Inputs.file (i : Inputs) (ext : String) : Bool :=
  if ext = "node" then i.node else if ext = "pbc" then i.pbc else if ext = "ele" then i.ele
  else if ext = "edge" then i.edge else true

def Inputs.ok (t : SolverTable) (i : Inputs) : Bool :=
  i.problem && i.node && i.pbc && i.ele && i.edge && i.materials && (!(t.hasPrev && i.prevNeeded) || i.prevOk) && i.writable

inductive Outcome where
  /-- process exit status and whether a (fresh) solution file was written -/
  | exit (code : Int) (wrote : Bool)
  /-- execution continues past a failed step without any guard: behaviour undefined (crash / garbage) -/
  | undefined
  deriving DecidableEq, Repr

/-- value returned by `runSolver` (an `int` converted to `bool` by `main`) and whether output was written -/
def runSolver (t : SolverTable) (i : Inputs) : Option (Int × Bool) :=
  match t.loadMesh.find? (fun p => !i.file p.1) with
  | some _ => some (t.runOnLoadMeshErr, false)
  | none =>
    if !i.materials then some (t.runOnLoadMeshErr, false)
    else if t.hasPrev && i.prevNeeded && !i.prevOk then
      match t.runOnPrevFail with
      | some v => some (v, false)
      | none => none
    else if !i.writable then some ((t.runOnWriteFail.getD 0), false)
    else some (t.runFinal, true)

/-- `main()` of a solver -/
def solverMain (t : SolverTable) (i : Inputs) : Outcome :=
  if !i.problem then .exit t.exitLoadProblemFailed false
  else match runSolver t i with
    | none => .undefined
    | some (v, wrote) => if v != 0 then .exit t.exitOk wrote else .exit t.exitRunFailed wrote

/-- every mesh file the solver needs is guarded, with an error that is not `NOERROR` -/
def guardsAllMeshFiles (t : SolverTable) : Bool :=
  ["node", "pbc", "ele", "edge"].all (fun ext =>
    t.loadMesh.any (fun p => p.1 == ext && p.2 != "NOERROR" && loadMeshErr.contains p.2))

/-- `main()` of fmesher: parse status (position in `enum ParserResult`), then triangulation status -/
def mesherMain (parseStatus : Nat) (periodic triOk : Bool) : Int :=
  if parseStatus != 0 then (parseStatus : Int)
  else if triOk then 0
  else if periodic then fmesherExitPeriodicFailed else fmesherExitNonPeriodicFailed

end XfemmVerif.Exit
