/-
Model of the nonlinear B-H curve of `CMMaterialProp` / `CMSolverMaterialProp`
(`cfemm/libfemm/CMaterialProp.cpp`): the piecewise cubic Hermite evaluation of H(|B|) (`GetH`), of its
slope (`GetdHdB`), of the stored energy (`GetEnergy`), of the reluctivity pair (`GetBHProps`), the spline
equations that `GetSlopes` solves, its test for "bad" segments, the 3-point smoothing repair and the
fill-factor transformation of the table, for the magnetostatic case (`omega = 0`).
Written once over a generic scalar; constants are casts of naturals.  Core Lean only.
-/
namespace XfemmVerif.BHCurve

variable {α : Type} [Add α] [Sub α] [Mul α] [Div α] [Neg α] [NatCast α] [LE α] [DecidableLE α] [LT α] [DecidableLT α]
  [BEq α]

/-- numeric literal of the C++ source -/
@[reducible] def k (n : Nat) : α := (n : α)

/-- cubic on one segment: `l` its length, `z ∈ [0,1]` the local coordinate (`GetH`) -/
def segH (l z h0 h1 s0 s1 : α) : α :=
  let z2 := z * z
  (k 1 - k 3 * z2 + k 2 * z2 * z) * h0 + z * (k 1 - k 2 * z + z2) * l * s0 + z2 * (k 3 - k 2 * z) * h1 +
    z2 * (z - k 1) * l * s1

/-- reported slope on one segment (`GetdHdB`) -/
def segDH (l z h0 h1 s0 s1 : α) : α :=
  k 6 * z * (z - k 1) * h0 / l + (k 1 - k 4 * z + k 3 * z * z) * s0 + k 6 * z * (k 1 - z) * h1 / l +
    z * (k 3 * z - k 2) * s1

/-- energy accumulated inside the segment that contains the point (`GetEnergy`, first branch) -/
def segEnergy (l z h0 h1 s0 s1 : α) : α :=
  let z2 := z * z
  (s0 * l * l * (k 6 + z * (-(k 8) + k 3 * z)) * z2) / k 12 + (h0 * l * z * (k 2 + (-(k 2) + z) * z2)) / k 2 -
    (h1 * l * (-(k 2) + z) * z2 * z) / k 2 + (s1 * l * l * (-(k 4) + k 3 * z) * z2 * z) / k 12

/-- energy to pass through a whole segment (`GetEnergy`, else branch) -/
def segEnergyFull (b0 b1 h0 h1 s0 s1 : α) : α :=
  ((b0 - b1) * ((b0 - b1) * (s0 - s1) - k 6 * (h0 + h1))) / k 12

/-- energy beyond the last table point (`GetEnergy`, after the loop) -/
def tailEnergy (b b0 h0 s0 : α) : α :=
  ((b - b0) * (b * s0 - b0 * s0 + k 2 * h0)) / k 2

/-- a table row: `(Bdata[i], Hdata[i], slope[i])` -/
abbrev Row (α : Type) := α × α × α

/-- scan of segments as the C++ loops do: first `i` with `B_i ≤ b ≤ B_{i+1}`; `0` on fall-through -/
def scanH (b : α) : List (Row α) → α
  | (b0, h0, s0) :: (b1, h1, s1) :: rest =>
    if b0 ≤ b ∧ b ≤ b1 then segH (b1 - b0) ((b - b0) / (b1 - b0)) h0 h1 s0 s1
    else scanH b ((b1, h1, s1) :: rest)
  | _ => k 0

def scanDH (b : α) : List (Row α) → α
  | (b0, h0, s0) :: (b1, h1, s1) :: rest =>
    if b0 ≤ b ∧ b ≤ b1 then segDH (b1 - b0) ((b - b0) / (b1 - b0)) h0 h1 s0 s1
    else scanDH b ((b1, h1, s1) :: rest)
  | _ => k 0

/-- `CMSolverMaterialProp::GetH(b)` for `b = |B|` and a non-empty table -/
def getH (tab : List (Row α)) (b : α) : α :=
  match tab.getLast? with
  | none => k 0
  | some (bn, hn, sn) => if bn < b then hn + sn * (b - bn) else scanH b tab

/-- `CMMaterialProp::GetdHdB(b)` -/
def getDH (tab : List (Row α)) (b : α) : α :=
  match tab.getLast? with
  | none => k 0
  | some (bn, _, sn) => if bn < b then sn else scanDH b tab

/-- `CMMaterialProp::GetEnergy(b)`: `acc` is the energy of the segments already passed -/
def energyFrom (b : α) (acc : α) : List (Row α) → α
  | (b0, h0, s0) :: (b1, h1, s1) :: rest =>
    if b0 ≤ b ∧ b ≤ b1 then acc + segEnergy (b1 - b0) ((b - b0) / (b1 - b0)) h0 h1 s0 s1
    else energyFrom b (acc + segEnergyFull b0 b1 h0 h1 s0 s1) ((b1, h1, s1) :: rest)
  | [(bn, hn, sn)] => acc + tailEnergy b bn hn sn
  | [] => acc

def getEnergy (tab : List (Row α)) (b : α) : α := energyFrom b (k 0) tab

/-- `GetBHProps(b)`: `(v, dv) = (H/b, (dH/b² − H/b³)/2)`; at `b = 0` the first slope and `0` -/
def getBHProps (tab : List (Row α)) (b : α) : α × α :=
  if b == k 0 then ((tab.head?.map (fun r => r.2.2)).getD (k 0), k 0)
  else
    let h := getH tab b
    let dh := getDH tab b
    (h / b, (dh / (b * b) - h / (b * b * b)) / k 2)

/-! ### `GetSlopes`: the spline equations, the test for bad segments, the repair -/

/-- residual of the natural end condition on the left: `4/l·s0 + 2/l·s1 − 6(H1−H0)/l²` -/
def resLeft (b0 b1 h0 h1 s0 s1 : α) : α :=
  let l := b1 - b0
  k 4 / l * s0 + k 2 / l * s1 - k 6 * (h1 - h0) / (l * l)

/-- residual of an interior row -/
def resMid (b0 b1 b2 h0 h1 h2 s0 s1 s2 : α) : α :=
  let l1 := b1 - b0
  let l2 := b2 - b1
  k 2 / l1 * s0 + k 4 * (l1 + l2) / (l1 * l2) * s1 + k 2 / l2 * s2 -
    (k 6 * (h1 - h0) / (l1 * l1) + k 6 * (h2 - h1) / (l2 * l2))

/-- residual of the natural end condition on the right -/
def resRight (b0 b1 h0 h1 s0 s1 : α) : α :=
  let l := b1 - b0
  k 4 / l * s1 + k 2 / l * s0 - k 6 * (h1 - h0) / (l * l)

/-- residuals of all rows of the spline system for a table with slopes -/
def residuals : List (Row α) → List α
  | tab@((b0, h0, s0) :: (b1, h1, s1) :: _) =>
    let rec mids : List (Row α) → List α
      | (a0, g0, t0) :: (a1, g1, t1) :: (a2, g2, t2) :: rest =>
        resMid a0 a1 a2 g0 g1 g2 t0 t1 t2 :: mids ((a1, g1, t1) :: (a2, g2, t2) :: rest)
      | [(a0, g0, t0), (a1, g1, t1)] => [resRight a0 a1 g0 g1 t0 t1]
      | _ => []
    resLeft b0 b1 h0 h1 s0 s1 :: mids tab
  | _ => []

/-- coefficients of the slope polynomial `c0 + c1·x + c2·x²` on a segment of length `L` in the local
    coordinate `x ∈ [0, L]`, as the test in `GetSlopes` computes them -/
def slopeCoeffs (L u0 u1 d0 d1 : α) : α × α × α :=
  (d0, -(k 2 * (k 2 * d0 * L + d1 * L + k 3 * u0 - k 3 * u1)) / (L * L),
   (k 3 * (d0 * L + d1 * L + k 2 * u0 - k 2 * u1)) / (L * L * L))

/-- the test for a "bad" segment: the slope polynomial has a root in `[0, L]` (roots by the closed formula) -/
def segBad (sqrt : α → α) (L u0 u1 d0 d1 : α) : Bool :=
  let (c0, c1, c2) := slopeCoeffs L u0 u1 d0 d1
  let disc := c1 * c1 - k 4 * c0 * c2
  let inRange (x : α) : Bool := decide (k 0 ≤ x) && decide (x ≤ L)
  if c2 == k 0 then
    if c1 == k 0 then false else inRange (-c0 / c1)
  else if k 0 < disc then
    let r := sqrt disc
    inRange (-(c1 + r) / (k 2 * c2)) || inRange ((-c1 + r) / (k 2 * c2))
  else false

/-- `CurveOK` of one pass: no bad segment -/
def curveOK (sqrt : α → α) : List (Row α) → Bool
  | (b0, h0, s0) :: (b1, h1, s1) :: rest =>
    !(segBad sqrt (b1 - b0) h0 h1 s0 s1) && curveOK sqrt ((b1, h1, s1) :: rest)
  | _ => true

/-- the repair: 3-point moving average of the interior points (end points stay) -/
def smooth : List (α × α) → List (α × α)
  | p0 :: rest =>
    let rec go : α × α → List (α × α) → List (α × α)
      | prev, cur :: nxt :: more =>
        ((prev.1 + cur.1 + nxt.1) / k 3, (prev.2 + cur.2 + nxt.2) / k 3) :: go cur (nxt :: more)
      | _, last => last
    p0 :: go p0 rest
  | [] => []

/-- the fill-factor transformation of the table for laminations in-plane (`LamType == 0`, `LamFill ≠ 1`);
    the first point (the origin) is left alone -/
def fillTransform (abs : α → α) (muo fill : α) : List (α × α) → List (α × α)
  | p0 :: rest => p0 :: rest.map (fun (b, h) =>
      let mu := fill * b / h + (k 1 - fill) * muo
      let b' := abs (mu * h)
      (b', b' / mu))
  | [] => []

/-- Thomas elimination for the tridiagonal spline system (the C++ uses a dense Gauss solve of the same system) -/
def thomas (sub diag sup rhs : List α) : List α :=
  -- forward sweep
  let rec fwd : List α → List α → List α → List α → α → α → List (α × α) → List (α × α)
    | a :: as, d :: ds, c :: cs, r :: rs, cp, rp, acc =>
      let m := d - a * cp
      let c' := c / m
      let r' := (r - a * rp) / m
      fwd as ds cs rs c' r' ((c', r') :: acc)
    | _, _, _, _, _, _, acc => acc
  let rev := fwd sub diag sup rhs (k 0) (k 0) []
  -- back substitution over the reversed list
  let rec back : List (α × α) → α → List α → List α
    | (c', r') :: rest, xn, acc => let x := r' - c' * xn; back rest x (x :: acc)
    | [], _, acc => acc
  back rev (k 0) []

/-- spline slopes of a table of points -/
def splineSlopes (pts : List (α × α)) : List α :=
  let n := pts.length
  let B (i : Nat) : α := (pts[i]?.map (·.1)).getD (k 0)
  let H (i : Nat) : α := (pts[i]?.map (·.2)).getD (k 0)
  let idx := List.range n
  let sub := idx.map (fun i => if i = 0 then k 0 else k 2 / (B i - B (i - 1)))
  let sup := idx.map (fun i => if i + 1 = n then k 0 else k 2 / (B (i + 1) - B i))
  let diag := idx.map (fun i =>
    if i = 0 then k 4 / (B 1 - B 0)
    else if i + 1 = n then k 4 / (B i - B (i - 1))
    else k 4 * ((B i - B (i - 1)) + (B (i + 1) - B i)) / ((B i - B (i - 1)) * (B (i + 1) - B i)))
  let rhs := idx.map (fun i =>
    if i = 0 then k 6 * (H 1 - H 0) / ((B 1 - B 0) * (B 1 - B 0))
    else if i + 1 = n then k 6 * (H i - H (i - 1)) / ((B i - B (i - 1)) * (B i - B (i - 1)))
    else k 6 * (H i - H (i - 1)) / ((B i - B (i - 1)) * (B i - B (i - 1))) +
         k 6 * (H (i + 1) - H i) / ((B (i + 1) - B i) * (B (i + 1) - B i)))
  thomas sub diag sup rhs

def withSlopes (pts : List (α × α)) (s : List α) : List (Row α) :=
  (pts.zip s).map (fun (p, sl) => (p.1, p.2, sl))

/-- the `while(CurveOK != true)` loop of `GetSlopes(0)`: returns the final table and the number of smoothing
    passes; `none` when the fuel runs out (the C++ loop has no bound) -/
def getSlopes (sqrt abs : α → α) (muo fill : α) (lamInPlane : Bool) :
    Nat → Bool → Nat → List (α × α) → Option (List (Row α) × Nat)
  | 0, _, _, _ => none
  | fuel + 1, processedLams, passes, pts =>
    let tab := withSlopes pts (splineSlopes pts)
    if curveOK sqrt tab then
      if !processedLams && lamInPlane && !(fill == k 1) then
        getSlopes sqrt abs muo fill lamInPlane fuel true passes (fillTransform abs muo fill pts)
      else some (tab, passes)
    else getSlopes sqrt abs muo fill lamInPlane fuel processedLams (passes + 1) (smooth pts)

end XfemmVerif.BHCurve
