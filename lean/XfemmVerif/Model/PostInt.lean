/-
Model of block selection and extensive block integrals of the post-processors
(`PostProcessor::selectBlocklabel` / `toggleSelectionForGroup`: toggle semantics; `blockIntegral`: sum of a
per-element quantity over the elements whose block label is selected).  Core Lean only.
-/
namespace XfemmVerif.PostInt

/-- selection state: one flag per block label -/
abbrev Sel := List Bool

inductive Cmd where
  | block (l : Nat)                 -- `xo_selectblock(x,y)` with the point in label `l`
  | group (g : Nat)                 -- `xo_groupselectblock(g)` ; `g = 0` toggles every label
  | clear                           -- `xo_clearblock()`
  deriving Repr

def toggle (s : Sel) (l : Nat) : Sel := s.modify l (fun b => !b)

def step (groups : List Nat) (s : Sel) : Cmd → Sel
  | .block l => toggle s l
  | .group g => s.zipIdx.map (fun (b, i) => if g = 0 ∨ groups.getD i 0 = g then !b else b)
  | .clear => s.map (fun _ => false)

def run (groups : List Nat) (n : Nat) (cmds : List Cmd) : Sel := cmds.foldl (step groups) (List.replicate n false)

variable {α : Type} [Add α] [OfNat α 0]

/-- extensive block integral: elements are (label, contribution) -/
def blockIntegral (els : List (Nat × α)) (sel : Nat → Bool) : α :=
  els.foldl (fun acc e => if sel e.1 then acc + e.2 else acc) 0

end XfemmVerif.PostInt
