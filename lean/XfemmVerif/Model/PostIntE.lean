import XfemmVerif.Model.PostInt
/-
Model of the per-element quantities behind the electrostatic block integrals (`ElectrostaticsPostProcessor::getElementD`,
`E`, `blockIntegral` types 0 stored energy, 1 cross-section area, 2 volume; `PostProcessor::ElmArea`;
cfemm/epproc/epproc.cpp) for elements outside the axisymmetric external region (`AECF = 1`).  The integral itself is the fold
`PostInt.blockIntegral` over the elements in mesh order.  Same generic scalar and order of floating-point operations as the C++.
Core Lean only.
-/
namespace XfemmVerif.PostIntE

variable {α : Type} [OfNat α 0] [OfNat α 2] [OfNat α 3] [Add α] [Sub α] [Mul α] [Div α] [Neg α]

structure Tri (α : Type) where
  x0 : α
  y0 : α
  x1 : α
  y1 : α
  x2 : α
  y2 : α
  v0 : α
  v1 : α
  v2 : α

/-- `PostProcessor::ElmArea` (drawing units squared) -/
def elmArea (t : Tri α) : α :=
  let b0 := t.y1 - t.y2
  let b1 := t.y2 - t.y0
  let c0 := t.x2 - t.x1
  let c1 := t.x0 - t.x2
  (b0 * c1 - b1 * c0) / 2

/-- the element's field intensity as `getElementD` accumulates it: `E -= V_i (b_i + i c_i)/(da·lc)` -/
def elemE (lc : α) (t : Tri α) : α × α :=
  let b0 := t.y1 - t.y2
  let b1 := t.y2 - t.y0
  let b2 := t.y0 - t.y1
  let c0 := t.x2 - t.x1
  let c1 := t.x0 - t.x2
  let c2 := t.x1 - t.x0
  let da := b0 * c1 - b1 * c0
  let d := da * lc
  (((0 - t.v0 * b0 / d) - t.v1 * b1 / d) - t.v2 * b2 / d, ((0 - t.v0 * c0 / d) - t.v1 * c1 / d) - t.v2 * c2 / d)

/-- flux density stored with the element: `D = eo (E_x ex + i E_y ey)` -/
def elemD (eo ex ey : α) (e : α × α) : α × α := (eo * (e.1 * ex + 0), eo * (0 + e.2 * ey))

/-- `E(elem)`: the field recovered from the stored `D` -/
def fieldFromD (eo ex ey : α) (d : α × α) : α × α := ((d.1 / ex + 0) / eo, (0 + d.2 / ey) / eo)

/-- `Re(D · conj(E))` with the complex product of `CComplex` -/
def reDconjE (d e : α × α) : α := d.1 * e.1 - d.2 * (-e.2)

/-- volume factor of an element: depth (planar) or `2π R` with `R` the mean radius in metres -/
def volFactor (axi : Bool) (depth pi lc : α) (t : Tri α) : α :=
  if axi then
    let R := (t.x0 * lc + t.x1 * lc + t.x2 * lc) / 3
    2 * pi * R
  else depth

/-- contribution of one element to block integral `typ` ∈ {0 energy, 1 area, 2 volume} -/
def contribution (typ : Nat) (axi : Bool) (depth pi lc eo ex ey : α) (t : Tri α) : α :=
  let a := elmArea t * (lc * lc)
  match typ with
  | 0 =>
    let a' := a * volFactor axi depth pi lc t
    let d := elemD eo ex ey (elemE lc t)
    a' * reDconjE d (fieldFromD eo ex ey d) / 2
  | 1 => a
  | _ => a * volFactor axi depth pi lc t

end XfemmVerif.PostIntE
