import XfemmVerif.Model.Periodic
/-
Model of how the mesher turns the drawing into the planar straight-line graph it hands to Triangle
(`cfemm/fmesher/writepoly.cpp`: `discretizeInputSegments`, `discretizeInputArcSegments`,
`TriangulateHelper::initHolesAndRegions`; `FemmProblem::getCircle`):
drawn points keep their index and coordinates; a line with a maximum side length is cut into `k` equal parts, an arc into
`k` equal chords by turning its first point about the centre; the new points go to the end of the node list and the pieces
form a chain from the first to the second end point; a block label gets the user's area, the default, or the forced default.
Core Lean only, generic scalar.
-/
namespace XfemmVerif.Discretize
open XfemmVerif.Periodic

variable {α : Type} [Add α] [Sub α] [Mul α] [Div α] [NatCast α]

/-- interior points of a line cut into `k` parts (`k − 1` points) -/
def linePoints (a0 a1 : α × α) (k : Nat) : List (α × α) :=
  (List.range (k - 1)).map (fun j => linePoint a0 a1 j k)

/-- interior points of an arc cut into `k` chords: successive turns of the first end point about the centre -/
def arcPoints (c d n0 : α × α) (k : Nat) : List (α × α) := arcNodes c d (k - 1) n0

/-- the chain of pieces for an entity from node `n0` to node `n1` whose `k − 1` new points were appended at index `base`:
    `(n0, base), (base, base+1), …, (base+k−2, n1)`; a single piece `(n0, n1)` when `k ≤ 1` -/
def chain (n0 n1 base : Nat) (k : Nat) : List (Nat × Nat) :=
  if k ≤ 1 then [(n0, n1)]
  else (n0, base) :: ((List.range (k - 2)).map (fun j => (base + j, base + j + 1)) ++ [(base + (k - 2), n1)])

/-- `FemmProblem::getCircle`: centre of the circle through `a0`, `a1` with swept angle `tta` (radians); `d = |a1 − a0|` -/
def circleCentre [Neg α] (sqrt sin : α → α) (a0 a1 : α × α) (d tta : α) : (α × α) × α :=
  let t : α × α := ((a1.1 - a0.1) / d, (a1.2 - a0.2) / d)
  let R := d / (((2 : Nat) : α) * sin (tta / ((2 : Nat) : α)))
  let h := sqrt (R * R - d * d / ((4 : Nat) : α))
  let u := d / ((2 : Nat) : α)
  -- (u + i h)·t
  ((a0.1 + (u * t.1 - h * t.2), a0.2 + (u * t.2 + h * t.1)), R)

/-- area constraint given to Triangle for a block label (`initHolesAndRegions`) -/
def areaConstraint [LE α] [LT α] [DecidableLE α] [DecidableLT α] (userArea dflt : α) (zero : α) (force : Bool) : α :=
  if userArea ≤ zero then dflt
  else if dflt < userArea ∧ force then dflt
  else userArea

/-- complex product, for composing turns -/
def cmul (d e : α × α) : α × α := (d.1 * e.1 - d.2 * e.2, d.1 * e.2 + d.2 * e.1)

end XfemmVerif.Discretize
