/-
Model of the marker encoding in `fmesher/writepoly.cpp` (`TriangulateHelper::initPointsWithMarkers`,
`initSegmentsWithMarkers`, `initHolesAndRegions`) and of the decoding in the three solvers' `LoadMesh`
(`esolver.cpp`, `hsolver.cpp`: masked; `fsolver.cpp`: unmasked).  Core Lean only.
C++ `int` is modelled by `Int`; the guard under which no 32-bit overflow / field collision occurs is
explicit in the theorems (`Properties/C02.lean`).
-/
namespace XfemmVerif.Markers

/-- index of the LAST property whose name matches (the C++ loops overwrite `t` on every match) -/
def lookupLast (names : List String) (name : String) : Option Nat :=
  (List.range names.length).foldl (fun acc j => if names.getD j "" = name then some j else acc) none

/-- the conductor loops ADD `(j+1)*0x10000` for EVERY match -/
def condSum (names : List String) (name : String) : Nat :=
  (List.range names.length).foldl (fun acc j => if names.getD j "" = name then acc + (j + 1) else acc) 0

/-- `initPointsWithMarkers`, index level: point property `prop`, conductor `cond` (`none` = no match) -/
def pointMarker (magnetics : Bool) (prop cond : Option Nat) : Int :=
  let t : Int := match prop with | some j => (j : Int) + 2 | none => 0
  if magnetics then t
  else match cond with
    | some c => t + ((c : Int) + 1) * 0x10000
    | none => t

/-- `initSegmentsWithMarkers` (`SegmentMarkerInfo::FromProblem`), index level -/
def segMarker (magnetics : Bool) (prop cond : Option Nat) : Int :=
  let t : Int := match prop with | some j => -((j : Int) + 2) | none => 0
  if magnetics then t
  else match cond with
    | some c => t - ((c : Int) + 1) * 0x10000
    | none => t

/-- name level, exactly as the loops compute it -/
def pointMarkerN (magnetics : Bool) (propNames circNames : List String) (bname cname : String) : Int :=
  let t : Int := match lookupLast propNames bname with | some j => (j : Int) + 2 | none => 0
  if magnetics then t else t + (condSum circNames cname : Int) * 0x10000

def segMarkerN (magnetics : Bool) (propNames circNames : List String) (bname cname : String) : Int :=
  let t : Int := match lookupLast propNames bname with | some j => -((j : Int) + 2) | none => 0
  if magnetics then t else t - (condSum circNames cname : Int) * 0x10000

/-- first-pass markers of the periodic path (`SegmentMarkerInfo::FromCnt`): `-(cnt+2)` -/
def cntMarker (cnt : Nat) : Int := -((cnt : Int) + 2)

/-- `n & 0xffff` for the non-negative values it is applied to -/
def lo16 (n : Int) : Int := n % 0x10000

/-- node decoding of `ESolver::LoadMesh` / `HSolver::LoadMesh`: `(BoundaryMarker, InConductor)` -/
def decNodeEH (n : Int) : Int × Int :=
  if n > 1 then
    let j := lo16 n - 2
    let j := if j < 0 then -1 else j
    (j, (n - lo16 n) / 0x10000 - 1)
  else (-1, -1)

/-- edge decoding of `ESolver::LoadMesh` / `HSolver::LoadMesh`: `(bc, conductor)`; `-1` = none -/
def decEdgeEH (n : Int) : Int × Int :=
  if n < 0 then
    let n := -n
    let j := lo16 n - 2
    let j := if j < 0 then -1 else j
    (j, (n - lo16 n) / 0x10000 - 1)
  else (-1, -1)

/-- node decoding of `FSolver::LoadMesh` -/
def decNodeM (j : Int) : Int := if j > 1 then j - 2 else -1

/-- edge decoding of `FSolver::LoadMesh`: `some bc` when the marker is negative (the branch that
    searches for the element side); note that `-1` decodes to `some (-1)` which assigns "none" -/
def decEdgeM (j : Int) : Option Int := if j < 0 then some (-(j + 2)) else none

/-- `initHolesAndRegions`: the labels that are not holes, in order, get attributes 1, 2, … -/
def regionAttrs (isHole : List Bool) : List (Option Nat) :=
  let rec go : List Bool → Nat → List (Option Nat)
    | [], _ => []
    | true :: r, k => none :: go r k
    | false :: r, k => some (k + 1) :: go r (k + 1)
  go isHole 0

/-- solver side: `elm.lbl--; if (elm.lbl<0) elm.lbl=defaultLabel;` ; `none` = MISSINGMATPROPS -/
def elemLabel (attr : Int) (defaultLabel : Option Nat) : Option Nat :=
  if attr - 1 < 0 then defaultLabel else some (attr - 1).toNat

/-! ### edge marker → element side -/

structure Elem where
  p0 : Nat
  p1 : Nat
  p2 : Nat
  e0 : Int := -1
  e1 : Int := -1
  e2 : Int := -1
  deriving Repr, DecidableEq

/-- the six comparisons of `LoadMesh` for one element; returns the element and whether a side matched -/
def markElem (el : Elem) (n0 n1 : Nat) (j : Int) : Elem × Bool :=
  let (el, f) := if (el.p0 = n0 ∧ el.p1 = n1) ∨ (el.p0 = n1 ∧ el.p1 = n0) then ({ el with e0 := j }, true) else (el, false)
  let (el, f) := if (el.p1 = n0 ∧ el.p2 = n1) ∨ (el.p1 = n1 ∧ el.p2 = n0) then ({ el with e1 := j }, true) else (el, f)
  if (el.p2 = n0 ∧ el.p0 = n1) ∨ (el.p2 = n1 ∧ el.p0 = n0) then ({ el with e2 := j }, true) else (el, f)

/-- the loop over the elements containing `n0` (in element order).  `onlyFirst` is the E/H "line
    charge on one element only" hack: once a side has matched, the loop stops. -/
def assignEdge (els : List Elem) (n0 n1 : Nat) (j : Int) (onlyFirst : Bool) : List Elem :=
  let rec go : List Elem → Bool → List Elem
    | [], _ => []
    | el :: rest, found =>
      if onlyFirst && found then el :: rest
      else if el.p0 = n0 ∨ el.p1 = n0 ∨ el.p2 = n0 then
        let (el', f) := markElem el n0 n1 j
        el' :: go rest (found || f)
      else el :: go rest found
  go els false

end XfemmVerif.Markers
