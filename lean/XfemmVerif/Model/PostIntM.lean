import XfemmVerif.Model.PostIntE
import XfemmVerif.Model.Complex
/-
Model of the per-element quantities behind the magnetics block integrals of a PLANAR MAGNETOSTATIC solution with linear,
unmagnetised materials (`FPProc::GetElementB`, `GetJA`, `PlnInt`, `CMMaterialProp::DoEnergy`, `FPProc::BlockIntegral` types
0 `A·J`, 1 `∫A`, 2 stored energy, 5 cross-section area, 7 total current, 8 / 9 `∫B`, 10 volume, 17 coenergy; cfemm/fpproc/fpproc.cpp,
cfemm/libfemm/CMaterialProp.cpp): the element flux density as the curl of the nodal potentials, the current density of an element
from the block's source density and the circuit record written with the solution (applied voltage gradient times conductivity, or
applied density; laminated and wound regions carry no bulk conductivity), the quadrature `PlnInt` of a product of two linear
functions, the energy density of linear materials with the three lamination types, and the contribution of an element to each
integral.  Potentials and densities are complex in the C++ (`CComplex` with zero imaginary part in a static problem); the model keeps
them complex, with the operators of `Model/Complex.lean`.  Core Lean only.
-/
namespace XfemmVerif.PostIntM
open XfemmVerif XfemmVerif.PostIntE

variable {α : Type} [OfNat α 0] [OfNat α 1] [OfNat α 2] [OfNat α 3] [OfNat α 12] [Add α] [Sub α] [Mul α] [Div α] [Neg α] [BEq α]

structure MMat (α : Type) where
  mux : α
  muy : α
  lamType : Nat
  lamFill : α
  lamD : α
  J : α
  cduct : α

/-- the circuit data of a block label as `FPProc::OpenDocument` reads it from the solution file -/
structure MLab (α : Type) where
  inCircuit : Bool
  wound : Bool          -- `FillFactor > 0`: more than one turn
  case : Nat            -- 0: applied voltage gradient `dVolts`, otherwise applied density `J`
  value : α

/-- `GetElementB`, planar: `B1 += A_i c_i/(da·lc)`, `B2 -= A_i b_i/(da·lc)` (real parts; the `Tri` holds `A` in `v0 v1 v2`) -/
def elemB (lc : α) (t : Tri α) : α × α :=
  let b0 := t.y1 - t.y2
  let b1 := t.y2 - t.y0
  let b2 := t.y0 - t.y1
  let c0 := t.x2 - t.x1
  let c1 := t.x0 - t.x2
  let c2 := t.x1 - t.x0
  let da := b0 * c1 - b1 * c0
  let d := da * lc
  (((0 + t.v0 * c0 / d) + t.v1 * c1 / d) + t.v2 * c2 / d, ((0 - t.v0 * b0 / d) - t.v1 * b1 / d) - t.v2 * b2 / d)

/-- `GetJA`, static planar: the current density of the element (the same at its three nodes), in A/m² (`mega = 1.e06`) -/
def elemJ (mega : α) (m : MMat α) (l : MLab α) : Cx α :=
  let c : α := if (m.lamD != 0 && m.lamType == 0) || l.wound then 0 else m.cduct
  let j0 : Cx α := Cx.ofReal m.J
  let j1 : Cx α :=
    if l.inCircuit then
      if l.case == 0 then j0 - Cx.rmul c (Cx.ofReal l.value) else j0 + Cx.ofReal l.value
    else j0
  j1.mulR mega

/-- `PlnInt(a,u,v)`: `a/12 · Σ v_i (2 u_i + u_j + u_k)` -/
def plnInt (a : α) (u v : Fin 3 → Cx α) : Cx α :=
  let z0 := (Cx.rmul 2 (u 0) + u 1) + u 2
  let z1 := (u 0 + Cx.rmul 2 (u 1)) + u 2
  let z2 := (u 0 + u 1) + Cx.rmul 2 (u 2)
  let x := (((0 : Cx α) + v 0 * z0) + v 1 * z1) + v 2 * z2
  (Cx.rmul a x).divR 12

/-- `CMMaterialProp::DoEnergy(b1,b2)` of a linear material (`muo` passed in) -/
def doEnergy (muo : α) (m : MMat α) (b1 b2 : α) : α :=
  let t := m.lamFill
  let (h1, h2) : α × α :=
    if m.lamType == 0 then (b1 / ((1 + t * (m.mux - 1)) * muo), b2 / ((1 + t * (m.muy - 1)) * muo))
    else if m.lamType == 1 then (b1 / ((1 + t * (m.mux - 1)) * muo), b2 * (t / (m.muy * muo) + (1 - t) / muo))
    else if m.lamType == 2 then (b1 * (t / (m.mux * muo) + (1 - t) / muo), b2 / ((1 + t * (m.muy - 1)) * muo))
    else (b1 / muo, b2 / muo)
  (h1 * b1 + h2 * b2) / 2

/-- contribution of one element to block integral `typ` (planar magnetostatics, `AECF = 1`) -/
def contribution (typ : Nat) (depth lc muo mega : α) (m : MMat α) (l : MLab α) (t : Tri α) : Cx α :=
  let a := elmArea t * (lc * lc)
  let A : Fin 3 → Cx α := fun i => match i with | 0 => Cx.ofReal t.v0 | 1 => Cx.ofReal t.v1 | 2 => Cx.ofReal t.v2
  let J := elemJ mega m l
  let (B1, B2) := elemB lc t
  match typ with
  | 0 => (plnInt a A (fun _ => J.conj)).mulR depth
  | 1 => (((0 : Cx α) + (Cx.rmul (a * depth) (A 0)).divR 3) + (Cx.rmul (a * depth) (A 1)).divR 3) + (Cx.rmul (a * depth) (A 2)).divR 3
  | 2 => Cx.ofReal (a * depth * doEnergy muo m B1 B2 * 1)
  | 17 => Cx.ofReal (a * depth * doEnergy muo m B1 B2 * 1)
  | 5 => Cx.ofReal a
  | 7 => Cx.rmul a J
  | 8 => Cx.rmul (a * depth) (Cx.ofReal B1)
  | 9 => Cx.rmul (a * depth) (Cx.ofReal B2)
  | _ => Cx.ofReal (a * depth)

end XfemmVerif.PostIntM
