import XfemmVerif.Model.ESolver
import XfemmVerif.Model.Heat
/-
Model of `HSolver::AnalyzeProblem` (cfemm/hsolver/hsolver.cpp) for ONE pass of its nonlinear loop, up to the call of
`PCGSolve`: given the previous iterate `Vo` (all zero in the first pass) it wipes the system, records prescribed values,
builds every element matrix with the conductivity `(GetK(Vo_0)+GetK(Vo_1)+GetK(Vo_2))/3`, the lumped transient term, heat
generation, heat-flux / convection / radiation boundary terms (planar and axisymmetric), eliminates prescribed nodes, folds
floating conductors, adds point sources, (anti)periodic ties and conductor rows.  Same generic scalar and the same order of
floating-point operations as the C++, so the `Float` instance can be compared bit for bit with the system the real solver
hands to `PCGSolve` (hook dump).  Element-level functions are shared with `Model/ESolver.lean`.  Core Lean only.
-/
namespace XfemmVerif.HSolver
open XfemmVerif.Sparse XfemmVerif.ESolver

structure HConsts (α : Type) where
  pi : α
  ksb : α
  sqrt : α → α
  /-- `pow(x, n)` of the C library for `n = 3, 4` -/
  pow : α → Nat → α

structure HBdryProp (α : Type) where
  fmt : Nat
  Tset : α
  qs : α
  beta : α
  h : α
  Tinf : α

structure HBlockProp (α : Type) where
  Kx : α
  Ky : α
  Kt : α
  qv : α
  /-- `(T_i, k_i)` -/
  tab : List (α × α)

structure HNode (α : Type) where
  x : α
  y : α
  bm : Int
  cond : Int
  tprev : α

structure HProblem (α : Type) where
  axi : Bool
  depth : α
  extRo : α
  extRi : α
  extZo : α
  dt : α
  nodeProps : Array (PointProp α)
  lineProps : Array (HBdryProp α)
  blockProps : Array (HBlockProp α)
  circProps : Array (CircProp α)
  labelExternal : Array Bool
  nodes : Array (HNode α)
  els : Array Elem
  pbc : Array (Nat × Nat × Nat)
  bandwidth : Nat

variable {α : Type} [OfNat α 0] [OfNat α 1] [OfNat α 2] [OfNat α 3] [OfNat α 4] [OfNat α 6] [OfNat α 1000]
  [OfNat α 1000000] [OfNat α 1000000000] [Add α] [Sub α] [Mul α] [Div α] [Neg α] [BEq α] [LE α] [DecidableLE α]

/-- `CHMaterialProp::GetK(t)` as the pair (real part, imaginary part) -/
def getKc (bp : HBlockProp α) (t : α) : α × α :=
  match bp.tab with
  | [] => (bp.Kx, bp.Ky)
  | tab => let v := Heat.getK tab bp.Kx t; (v, v)


/-! ### boundary terms (pure) -/

/-- coefficients `(c0, c1)` of the mixed condition `k ∂T/∂n + c0·T + c1 = 0` for heat flux (1), convection (2) and radiation
    linearised about `tlast` (3) -/
def bcCoeffs (k : HConsts α) (lp : HBdryProp α) (tlast : α) : α × α :=
  if lp.fmt == 1 then (0, lp.qs)
  else if lp.fmt == 2 then (lp.h, -lp.h * lp.Tinf)
  else (4 * lp.beta * k.ksb * k.pow tlast 3, -(lp.beta * k.ksb * (k.pow lp.Tinf 4 + 3 * k.pow tlast 4)))

/-- planar edge of length `l`: `K` (matrix: `2K` on the diagonal, `K` off it) and `K2` (added to both right-hand sides) -/
def planarEdgeK (depth c0 l : α) : α := -depth * c0 * l / 6
def planarEdgeK2 (depth c1 l : α) : α := depth * c1 * l / 2

/-- axisymmetric edge between radii `xj`, `xk` -/
def axiEdgeK (pi c0 l : α) : α := -2 * pi * c0 * l / 6
def axiEdgeK2 (pi c1 l : α) : α := 2 * pi * c1 * l / 2
def axiWjj (K xj xk : α) : α := K * 2 * (3 * xj + xk) / 4
def axiWkk (K xj xk : α) : α := K * 2 * (xj + 3 * xk) / 4
def axiWjk (K xj xk : α) : α := K * (xj + xk) / 2
def axiBj (K2 xj xk : α) : α := K2 * (2 * xj + xk) / 3
def axiBk (K2 xj xk : α) : α := K2 * (xj + 2 * xk) / 3

def assembleH (k : HConsts α) (P : HProblem α) (Vo : Array α) : Assembled α := Id.run do
  let nn := P.nodes.size
  let nc := P.circProps.size
  let zero : α := 0
  let node (i : Nat) : HNode α := P.nodes.getD i { x := zero, y := zero, bm := -1, cond := -1, tprev := zero }
  let lineProp (i : Int) : HBdryProp α := P.lineProps.getD i.toNat { fmt := 99, Tset := zero, qs := zero, beta := zero, h := zero, Tinf := zero }
  let circ (i : Int) : CircProp α := P.circProps.getD i.toNat { typ := 99, V := zero, q := zero }
  let vo (i : Nat) : α := Vo.getD i zero
  let mut L : LinProb α := create (nn + nc) P.bandwidth
  let mut V : Array α := Vo ++ Array.replicate (nn + nc - Vo.size) zero
  let mut Q : Array Int := Array.replicate (nn + nc) 0
  for i in [0:nn] do
    Q := Q.setIfInBounds i (-2)
    let nd := node i
    if nd.bm ≥ 0 then
      let pp := P.nodeProps.getD nd.bm.toNat { V := zero, qp := zero }
      if pp.qp == 0 then
        V := V.setIfInBounds i pp.V
        Q := Q.setIfInBounds i (-1)
    if nd.cond ≥ 0 then
      if (circ nd.cond).typ == 1 then
        V := V.setIfInBounds i (circ nd.cond).V
        Q := Q.setIfInBounds i nd.cond
  for el in P.els do
    for j in [(0 : Fin 3), 1, 2] do
      let kk := nxt j
      let e := geti el.e j
      if e ≥ 0 then
        if (lineProp e).fmt == 0 then
          V := V.setIfInBounds (getn el.p j) (lineProp e).Tset
          V := V.setIfInBounds (getn el.p kk) (lineProp e).Tset
          Q := Q.setIfInBounds (getn el.p j) (-1)
          Q := Q.setIfInBounds (getn el.p kk) (-1)
  let mut depth := P.depth
  let mut kludge : α := 1
  for el in P.els do
    let n : Fin 3 → Nat := getn el.p
    let xs : V3 α := fun j => (node (n j)).x
    let ys : V3 α := fun j => (node (n j)).y
    let p := shapeP ys
    let q := shapeQ xs
    let l : V3 α := fun j =>
      let kk := nxt j
      k.sqrt ((xs kk - xs j) * (xs kk - xs j) + (ys kk - ys j) * (ys kk - ys j))
    let a := area p q
    let r := (xs 0 + xs 1 + xs 2) / 3
    let bp := P.blockProps.getD el.blk { Kx := zero, Ky := zero, Kt := zero, qv := zero, tab := [] }
    let g0 := getKc bp (vo (n 0))
    let g1 := getKc bp (vo (n 1))
    let g2 := getKc bp (vo (n 2))
    let knr := (g0.1 + g1.1 + g2.1) / 3
    let kni := (g0.2 + g1.2 + g2.2) / 3
    if P.axi then
      depth := 2 * k.pi * r
      if P.labelExternal.getD el.lbl false then
        let z := (ys 0 + ys 1 + ys 2) / 3 - P.extZo
        kludge := (r * r + z * z) / (P.extRi * P.extRo)
      else kludge := 1
    let me0 := stiff depth knr kni a kludge p q
    let mut me : Array α := Array.ofFn (n := 9) (fun i => me0 ⟨i.val / 3, by omega⟩ ⟨i.val % 3, by omega⟩)
    let mut be : Array α := Array.replicate 3 zero
    let mg (m : Array α) (a b : Nat) : α := m.getD (a * 3 + b) zero
    -- lumped transient term
    if !(P.dt == 0) then
      let K := -depth * bp.Kt * a / (3 * P.dt)
      for j in [0, 1, 2] do
        me := me.setIfInBounds (j * 3 + j) (mg me j j + K)
      be := be.setIfInBounds 0 (be.getD 0 zero + K * (node (n 0)).tprev)
      be := be.setIfInBounds 1 (be.getD 1 zero + K * (node (n 1)).tprev)
      be := be.setIfInBounds 2 (be.getD 2 zero + K * (node (n 2)).tprev)
    -- heat generation
    for j in [0, 1, 2] do
      let K := -depth * bp.qv * a / 3
      be := be.setIfInBounds j (be.getD j zero + K)
    for j in [(0 : Fin 3), 1, 2] do
      let e := geti el.e j
      if e ≥ 0 then
        let kk := nxt j
        if P.axi then depth := k.pi * (xs j + xs kk)
        let lp := lineProp e
        if lp.fmt == 1 || lp.fmt == 2 || lp.fmt == 3 then
          let (c0, c1) : α × α := bcCoeffs k lp ((vo (n j) + vo (n kk)) / 2)
          if P.axi then
            let K := axiEdgeK k.pi c0 (l j)
            me := me.setIfInBounds (j.val * 3 + j.val) (mg me j.val j.val + axiWjj K (xs j) (xs kk))
            me := me.setIfInBounds (kk.val * 3 + kk.val) (mg me kk.val kk.val + axiWkk K (xs j) (xs kk))
            me := me.setIfInBounds (j.val * 3 + kk.val) (mg me j.val kk.val + axiWjk K (xs j) (xs kk))
            me := me.setIfInBounds (kk.val * 3 + j.val) (mg me kk.val j.val + axiWjk K (xs j) (xs kk))
            let K2 := axiEdgeK2 k.pi c1 (l j)
            be := be.setIfInBounds j.val (be.getD j.val zero + axiBj K2 (xs j) (xs kk))
            be := be.setIfInBounds kk.val (be.getD kk.val zero + axiBk K2 (xs j) (xs kk))
          else
            let K := planarEdgeK depth c0 (l j)
            me := me.setIfInBounds (j.val * 3 + j.val) (mg me j.val j.val + K * 2)
            me := me.setIfInBounds (kk.val * 3 + kk.val) (mg me kk.val kk.val + K * 2)
            me := me.setIfInBounds (j.val * 3 + kk.val) (mg me j.val kk.val + K)
            me := me.setIfInBounds (kk.val * 3 + j.val) (mg me kk.val j.val + K)
            let K2 := planarEdgeK2 depth c1 (l j)
            be := be.setIfInBounds j.val (be.getD j.val zero + K2)
            be := be.setIfInBounds kk.val (be.getD kk.val zero + K2)
    for jf in [(0 : Fin 3), 1, 2] do
      let j := jf.val
      if Q.getD (n jf) 0 != -2 then
        let vj := V.getD (n jf) zero
        for kk in [0, 1, 2] do
          if j != kk then
            be := be.setIfInBounds kk (be.getD kk zero - mg me kk j * vj)
            me := me.setIfInBounds (kk * 3 + j) zero
            me := me.setIfInBounds (j * 3 + kk) zero
        be := be.setIfInBounds j (vj * mg me j j)
    let ne : Fin 3 → Nat := fun j =>
      let nd := node (n j)
      if nd.cond ≥ 0 && (circ nd.cond).typ == 0 then nd.cond.toNat + nn else n j
    for j in [(0 : Fin 3), 1, 2] do
      for kk in [(0 : Fin 3), 1, 2] do
        if j.val ≤ kk.val then
          if j != kk && ne j == ne kk then
            L := put L (get L (ne j) (ne kk) - 2 * mg me j.val kk.val) (ne j) (ne kk)
          else
            L := put L (get L (ne j) (ne kk) - mg me j.val kk.val) (ne j) (ne kk)
      L := setB L (ne j) (getB L (ne j) - be.getD j.val zero)
      if ne j != n j then
        L := put L (get L (n j) (n j) - mg me j.val j.val) (n j) (n j)
        L := put L (get L (n j) (ne j) + mg me j.val j.val) (n j) (ne j)
  -- point sources
  for i in [0:nn] do
    let nd := node i
    if nd.bm ≥ 0 && Q.getD i 0 == -2 then
      if P.axi then depth := 2 * k.pi * nd.x
      let pp := P.nodeProps.getD nd.bm.toNat { V := zero, qp := zero }
      L := setB L i (getB L i + depth * pp.qp)
      Q := Q.setIfInBounds i (-1)
    if nd.cond ≥ 0 then Q := Q.setIfInBounds i nd.cond
  for (a, b, t) in P.pbc do
    if t == 0 then L := periodicity L a b
    if t == 1 then L := antiPeriodicity L a b
  for i in [0:nc] do
    let kk := nn + i
    let cp := circ i
    if cp.typ == 1 then
      let K := get L 0 0
      L := put L K kk kk
      L := setB L kk (K * cp.V)
    if cp.typ == 0 then
      let mut K : α := 0
      for j in [0:nn] do
        if (node j).cond == (i : Int) then K := K + get L kk j
      if K != 0 then
        L := put L (get L kk kk - K) kk kk
        L := setB L kk (getB L kk + cp.q)
      else
        L := put L (get L 0 0) kk kk
  return { L := { L with V := V }, Q := Q }

end XfemmVerif.HSolver
