/-
Model of `cfemm/libfemm/spars.cpp` (`CBigLinProb`) — executable, core Lean only.

Rows are the singly linked lists of the C++: row `p` holds the entries `(c, x)` with `c ≥ p` of the
upper triangle in increasing column order, headed by the diagonal entry `(p, x_pp)` that `Create`
allocates.  Every function follows the C++ statement by statement (same branch order, same order of
floating-point operations) so that the `Float` instance reproduces the C++ bit for bit, while the
same definitions are the ones the theorems in `Properties/C09.lean` speak about (over a field).
-/
namespace XfemmVerif.Sparse

abbrev Row (α : Type) := List (Nat × α)

/-- within-row part of `CBigLinProb::Put` after `swap(p,q)`: walk while `e->c < q`,
    overwrite on hit, append after the last entry, otherwise insert before `e`. -/
def putRow {α : Type} (q : Nat) (v : α) : Row α → Row α
  | [] => [(q, v)]
  | (c, x) :: rest =>
    if c = q then (c, v) :: rest
    else if q < c then (q, v) :: (c, x) :: rest
    else (c, x) :: putRow q v rest

/-- within-row part of `CBigLinProb::Get` -/
def getRow {α : Type} [OfNat α 0] (q : Nat) : Row α → α
  | [] => 0
  | (c, x) :: rest => if c = q then x else if q < c then 0 else getRow q rest

structure LinProb (α : Type) where
  n : Nat
  bdw : Nat
  rows : Array (Row α)
  b : Array α
  V : Array α
  deriving Repr

variable {α : Type}

section ops
variable [OfNat α 0]

/-- `CBigLinProb::Create(d,bw)` -/
def create (d bw : Nat) : LinProb α :=
  { n := d, bdw := bw,
    rows := Array.ofFn (n := d) (fun i => [(i.val, (0 : α))]),
    b := Array.replicate d 0, V := Array.replicate d 0 }

def ord (p q : Nat) : Nat × Nat := if q < p then (q, p) else (p, q)

/-- `CBigLinProb::Put(v,p,q)` -/
def put (M : LinProb α) (v : α) (p q : Nat) : LinProb α :=
  let (p, q) := ord p q
  { M with rows := M.rows.modify p (putRow q v) }

/-- `CBigLinProb::Get(p,q)` -/
def get (M : LinProb α) (p q : Nat) : α :=
  let (p, q) := ord p q
  getRow q (M.rows.getD p [])

/-- `CBigLinProb::AddTo(v,p,q)` : `Put(Get(p,q)+v,p,q)` -/
def addTo [Add α] (M : LinProb α) (v : α) (p q : Nat) : LinProb α :=
  put M (get M p q + v) p q

def getB (M : LinProb α) (i : Nat) : α := M.b.getD i 0
def setB (M : LinProb α) (i : Nat) (v : α) : LinProb α := { M with b := M.b.setIfInBounds i v }

/-- `CBigLinProb::Wipe()` -/
def wipe (M : LinProb α) : LinProb α :=
  { M with rows := M.rows.map (fun r => r.map (fun (c, _) => (c, (0 : α)))),
           b := M.b.map (fun _ => 0) }
end ops

section arith
variable [OfNat α 0] [Add α] [Sub α] [Mul α] [Div α] [Neg α]

def vget (X : Array α) (i : Nat) : α := X.getD i 0
def vadd (Y : Array α) (i : Nat) (d : α) : Array α := Y.setIfInBounds i (vget Y i + d)

/-- one row of `MultA`: `Y[i] += d X[i]`, then for every further entry `(c, x)` of the row `Y[i] += x X[c]; Y[c] += x X[i]` -/
def multARow (X Y : Array α) (i : Nat) : Row α → Array α
  | [] => Y
  | (_, d) :: rest =>
    rest.foldl (fun Y cx => vadd (vadd Y i (cx.2 * vget X cx.1)) cx.1 (cx.2 * vget X i)) (vadd Y i (d * vget X i))

/-- `CBigLinProb::MultA(X,Y)`: same accumulation order as the C++ loops (rows in order, entries of a row in order) -/
def multA (M : LinProb α) (X : Array α) : Array α :=
  (List.range M.n).foldl (fun Y i => multARow X Y i (M.rows.getD i [])) (Array.replicate M.n 0)

/-- `CBigLinProb::Dot` -/
def dot (n : Nat) (X Y : Array α) : α := Id.run do
  let mut z : α := 0
  for i in [0:n] do
    z := z + vget X i * vget Y i
  return z

/-- `CBigLinProb::MultPC(X,Y)` — SSOR preconditioner, `Lambda` passed in -/
def multPC [OfNat α 2] (M : LinProb α) (lambda : α) (X : Array α) : Array α := Id.run do
  let c := lambda * ((2 : α) - lambda)
  let n := M.n
  let diag (i : Nat) : α := match M.rows.getD i [] with | [] => 0 | (_, d) :: _ => d
  let tail (i : Nat) : Row α := (M.rows.getD i []).tail
  let mut Y : Array α := Array.ofFn (n := n) (fun i => vget X i.val * c)
  for i in [0:n] do
    Y := Y.setIfInBounds i (vget Y i / diag i)
    for (cc, x) in tail i do
      Y := Y.setIfInBounds cc (vget Y cc - x * vget Y i * lambda)
  for i in [0:n] do
    Y := Y.setIfInBounds i (vget Y i * diag i)
  for k in [0:n] do
    let i := n - 1 - k
    for (cc, x) in tail i do
      Y := Y.setIfInBounds i (vget Y i - x * vget Y cc * lambda)
    Y := Y.setIfInBounds i (vget Y i / diag i)
  return Y

inductive SolveResult (α : Type) where
  | singular (row : Nat)          -- `return 0` : zero diagonal
  | zeroRhs                       -- `res_o == 0` : `return true`, V untouched
  | converged (V : Array α) (iters : Nat)
  | noFuel (V : Array α)          -- model-only: iteration budget exhausted

structure CGState (α : Type) where
  V : Array α
  R : Array α
  P : Array α
  res : α

/-- one pass of the `do … while` body of `PCGSolve`; returns the new state and `res` -/
def pcgStep [OfNat α 2] (M : LinProb α) (lambda : α) (s : CGState α) : CGState α :=
  let n := M.n
  let U := multA M s.P
  let pAp := dot n s.P U
  let del := s.res / pAp
  let V := Array.ofFn (n := n) (fun i => vget s.V i.val + del * vget s.P i.val)
  let R := Array.ofFn (n := n) (fun i => vget s.R i.val - del * vget U i.val)
  let Z := multPC M lambda R
  let resNew := dot n Z R
  let rho := resNew / s.res
  let P := Array.ofFn (n := n) (fun i => vget Z i.val + rho * vget s.P i.val)
  { V := V, R := R, P := P, res := resNew }

/-- `CBigLinProb::PCGSolve(flag)`.  `exitTest res res_o` is the C++ `!(sqrt(res/res_o) > Precision)`;
    it is a parameter because `sqrt` and `>` are not field operations. -/
def pcgSolve [OfNat α 2] [BEq α] (M : LinProb α) (lambda : α) (flag : Bool)
    (exitTest : α → α → Bool) (fuel : Nat) : SolveResult α := Id.run do
  let n := M.n
  for i in [0:n] do
    match M.rows.getD i [] with
    | [] => return .singular i
    | (_, d) :: _ => if d == 0 then return .singular i
  let Z0 := multPC M lambda M.b
  let res0 := dot n Z0 M.b
  if res0 == 0 then return .zeroRhs
  let V0 : Array α := if flag then M.V else Array.replicate n 0
  let AV := multA M V0
  let R0 := Array.ofFn (n := n) (fun i => vget M.b i.val - vget AV i.val)
  let Z := multPC M lambda R0
  let mut s : CGState α := { V := V0, R := R0, P := Z, res := dot n Z R0 }
  for k in [0:fuel] do
    s := pcgStep M lambda s
    if exitTest s.res res0 then return .converged s.V (k + 1)
  return .noFuel s.V

/-- scan window of `SetValue`: `[fst,lst)` -/
def window (n bdw i : Nat) : Nat × Nat :=
  if bdw = 0 then (0, n) else (i - bdw, min (i + bdw) n)

/-- loop body of `SetValue` for row `k` -/
def setValueRow [BEq α] (i : Nat) (x : α) (M : LinProb α) (k : Nat) : LinProb α :=
  let z := get M k i
  if z != 0 then
    let M := setB M k (getB M k - z * x)
    if i != k then put M 0 k i else M
  else M

/-- `CBigLinProb::SetValue(i,x)` -/
def setValue [BEq α] (M : LinProb α) (i : Nat) (x : α) : LinProb α :=
  let (fst, lst) := window M.n M.bdw i
  let M := (List.range' fst (lst - fst)).foldl (setValueRow i x) M
  setB M i (get M i i * x)

/-- loop body of `Periodicity` (`sgn = 1`) / `AntiPeriodicity` (`sgn = -1`) for row `k`;
    the KLUDGE forces `bdw = 0`, so the loop is over all rows and the skip statement is dead -/
def periodicRow [BEq α] [OfNat α 2] (anti : Bool) (i j : Nat) (M : LinProb α) (k : Nat) : LinProb α :=
  if k != i && k != j then
    let v1 := get M k i
    let v2 := get M k j
    if v1 != 0 || v2 != 0 then
      if anti then
        let c := (v1 - v2) / 2
        put (put M c k i) (-c) k j
      else
        let c := (v1 + v2) / 2
        put (put M c k i) c k j
    else M
  else M

/-- `CBigLinProb::Periodicity(i,j)` -/
def periodicity [BEq α] [OfNat α 1] [OfNat α 2] (M : LinProb α) (i j : Nat) : LinProb α :=
  let (i, j) := ord i j
  let M := (List.range M.n).foldl (periodicRow false i j) M
  let c := (get M i i + get M j j) / 2
  let M := put (put M c i i) c j j
  let c := ((1 : α) / 2) * (getB M i + getB M j)
  setB (setB M i c) j c

/-- `CBigLinProb::AntiPeriodicity(i,j)` -/
def antiPeriodicity [BEq α] [OfNat α 1] [OfNat α 2] (M : LinProb α) (i j : Nat) : LinProb α :=
  let (i, j) := ord i j
  let M := (List.range M.n).foldl (periodicRow true i j) M
  let c := ((1 : α) / 2) * (get M i i + get M j j)
  let M := put (put M c i i) c j j
  let c := ((1 : α) / 2) * (getB M i - getB M j)
  setB (setB M i c) j (-c)

end arith

end XfemmVerif.Sparse
