/-
Model of the deletion operations of the drawing (`FemmProblem::deleteSelectedNodes`, `deleteSelectedSegments`,
`deleteSelectedArcSegments`, `deleteSelectedBlockLabels`; `cfemm/libfemm/FemmProblem.cpp`) as far as the list and index
bookkeeping goes.  A point is represented by an opaque payload (its identity / coordinates), a line or arc by the indices of
its two end points and an opaque payload.  How `deleteSelectedNodes` marks the lines and arcs attached to a doomed point —
by TOGGLING their selection or by SETTING it — is not fixed here: it is read from the source on every run
(`Generated/Edit.lean`).  Core Lean only.
-/
namespace XfemmVerif.Edit

structure Node (P : Type) where
  p : P
  sel : Bool

structure Link (Q : Type) where
  n0 : Nat
  n1 : Nat
  q : Q
  sel : Bool

structure State (P Q : Type) where
  nodes : List (Node P)
  segs : List (Link Q)
  arcs : List (Link Q)

variable {P Q : Type}

/-- `deleteSelectedSegments` / `deleteSelectedArcSegments`: erase-remove of the selected ones -/
def dropSelected (l : List (Link Q)) : List (Link Q) := l.filter (fun e => !e.sel)

/-- mark the links attached to point `i` (toggle or set), as `deleteSelectedNodes` does before deleting the selected links -/
def markAttached (toggle : Bool) (i : Nat) (l : List (Link Q)) : List (Link Q) :=
  l.map (fun e => if e.n0 = i ∨ e.n1 = i then { e with sel := if toggle then !e.sel else true } else e)

/-- renumbering after point `i` has been erased -/
def renumber (i : Nat) (l : List (Link Q)) : List (Link Q) :=
  l.map (fun e => { e with n0 := if e.n0 > i then e.n0 - 1 else e.n0, n1 := if e.n1 > i then e.n1 - 1 else e.n1 })

/-- one round of the loop body for a selected point `i` -/
def deleteNodeAt (toggle : Bool) (i : Nat) (s : State P Q) : State P Q :=
  let segs := dropSelected (markAttached toggle i s.segs)
  let arcs := dropSelected (markAttached toggle i s.arcs)
  { nodes := s.nodes.eraseIdx i, segs := renumber i segs, arcs := renumber i arcs }

/-- `deleteSelectedNodes`: scan from the front; a selected point is deleted and the SAME index is examined again -/
def deleteSelectedNodesFrom (toggle : Bool) : Nat → Nat → State P Q → State P Q
  | 0, _, s => s
  | fuel + 1, i, s =>
    match s.nodes[i]? with
    | none => s
    | some nd =>
      if nd.sel then deleteSelectedNodesFrom toggle fuel i (deleteNodeAt toggle i s)
      else deleteSelectedNodesFrom toggle fuel (i + 1) s

def deleteSelectedNodes (toggle : Bool) (s : State P Q) : State P Q :=
  deleteSelectedNodesFrom toggle (2 * s.nodes.length + 1) 0 s

/-- every line / arc joins two distinct existing points -/
def LinksOk (n : Nat) (l : List (Link Q)) : Prop := ∀ e ∈ l, e.n0 < n ∧ e.n1 < n ∧ e.n0 ≠ e.n1

def WF (s : State P Q) : Prop := LinksOk s.nodes.length s.segs ∧ LinksOk s.nodes.length s.arcs

/-- the two points a link joins, as payloads -/
def ends (nodes : List (Node P)) (e : Link Q) : Option P × Option P :=
  ((nodes[e.n0]?).map (·.p), (nodes[e.n1]?).map (·.p))

end XfemmVerif.Edit
