/-
Model of the deletion operations of the drawing (`FemmProblem::deleteSelectedNodes`, `deleteSelectedSegments`,
`deleteSelectedArcSegments`, `deleteSelectedBlockLabels`; `cfemm/libfemm/FemmProblem.cpp`) as far as the list and index
bookkeeping goes.  A point is represented by an opaque payload (its identity / coordinates), a line or arc by the indices of
its two end points and an opaque payload.  How `deleteSelectedNodes` marks the lines and arcs attached to a doomed point —
by TOGGLING their selection or by SETTING it — is not fixed here: it is read from the source on every run
(`Generated/Edit.lean`).  Core Lean only.
-/
namespace XfemmVerif.Edit

structure Node (P : Type) where
  p : P
  sel : Bool

structure Link (Q : Type) where
  n0 : Nat
  n1 : Nat
  q : Q
  sel : Bool

structure State (P Q : Type) where
  nodes : List (Node P)
  segs : List (Link Q)
  arcs : List (Link Q)

variable {P Q : Type}

/-- `deleteSelectedSegments` / `deleteSelectedArcSegments`: erase-remove of the selected ones -/
def dropSelected (l : List (Link Q)) : List (Link Q) := l.filter (fun e => !e.sel)

/-- mark the links attached to point `i` (toggle or set), as `deleteSelectedNodes` does before deleting the selected links -/
def markAttached (toggle : Bool) (i : Nat) (l : List (Link Q)) : List (Link Q) :=
  l.map (fun e => if e.n0 = i ∨ e.n1 = i then { e with sel := if toggle then !e.sel else true } else e)

/-- renumbering after point `i` has been erased -/
def renumber (i : Nat) (l : List (Link Q)) : List (Link Q) :=
  l.map (fun e => { e with n0 := if e.n0 > i then e.n0 - 1 else e.n0, n1 := if e.n1 > i then e.n1 - 1 else e.n1 })

/-- one round of the loop body for a selected point `i` -/
def deleteNodeAt (toggle : Bool) (i : Nat) (s : State P Q) : State P Q :=
  let segs := dropSelected (markAttached toggle i s.segs)
  let arcs := dropSelected (markAttached toggle i s.arcs)
  { nodes := s.nodes.eraseIdx i, segs := renumber i segs, arcs := renumber i arcs }

/-- `deleteSelectedNodes`: scan from the front; a selected point is deleted and the SAME index is examined again -/
def deleteSelectedNodesFrom (toggle : Bool) : Nat → Nat → State P Q → State P Q
  | 0, _, s => s
  | fuel + 1, i, s =>
    match s.nodes[i]? with
    | none => s
    | some nd =>
      if nd.sel then deleteSelectedNodesFrom toggle fuel i (deleteNodeAt toggle i s)
      else deleteSelectedNodesFrom toggle fuel (i + 1) s

def deleteSelectedNodes (toggle : Bool) (s : State P Q) : State P Q :=
  deleteSelectedNodesFrom toggle (2 * s.nodes.length + 1) 0 s

/-- every line / arc joins two distinct existing points -/
def LinksOk (n : Nat) (l : List (Link Q)) : Prop := ∀ e ∈ l, e.n0 < n ∧ e.n1 < n ∧ e.n0 ≠ e.n1

def WF (s : State P Q) : Prop := LinksOk s.nodes.length s.segs ∧ LinksOk s.nodes.length s.arcs

/-- the two points a link joins, as payloads -/
def ends (nodes : List (Node P)) (e : Link Q) : Option P × Option P :=
  ((nodes[e.n0]?).map (·.p), (nodes[e.n1]?).map (·.p))

/-! ### `addNode`: every line that passes within the tolerance of the new point is split there
    `for(i=0,k=linelist.size(); i<k; i++) if (|distance of the point from line i| < d) { segm=clone(line i); line i.n1 = new; segm.n0 = new; push(segm); }`
    (no test whether the pushed half exists already - `addSegment` has one, this loop has not) -/

/-- the line list after the loop: `near i` says that line `i` passes within the tolerance of the new point `new` -/
def splitLinesAt (near : Nat → Bool) (new : Nat) (ls : List (Nat × Nat)) : List (Nat × Nat) :=
  let il := (List.range ls.length).zip ls
  il.map (fun p => if near p.1 then (p.2.1, new) else p.2) ++ (il.filter (fun p => near p.1)).map (fun p => (new, p.2.2))

/-- two entries join the same two points (in either order) -/
def sameLine (a b : Nat × Nat) : Bool := (a.1 == b.1 && a.2 == b.2) || (a.1 == b.2 && a.2 == b.1)

/-- no line is listed twice -/
def noDuplicateLines : List (Nat × Nat) → Bool
  | [] => true
  | a :: rest => !(rest.any (sameLine a)) && noDuplicateLines rest

/-- keep the first of every group of entries that join the same two points -/
def dedupLines : List (Nat × Nat) → List (Nat × Nat)
  | [] => []
  | a :: rest => a :: (dedupLines rest).filter (fun b => !sameLine a b)


end XfemmVerif.Edit
