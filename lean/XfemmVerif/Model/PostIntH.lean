import XfemmVerif.Model.PostIntE
import XfemmVerif.Model.Heat
import XfemmVerif.Model.Complex
/-
Model of the per-element quantities behind the heat-flow block integrals (`HPProc::getElementD`, `E`, `blockIntegral` types
0 average temperature, 1 cross-section area, 2 volume, 3 average temperature gradient `F`, 4 average heat flux density `G`;
cfemm/hpproc/hpproc.cpp) for elements outside the axisymmetric external region (`AECF = 1`): the conductivity pair
`GetK(T) = kx + j ky` of a node temperature (constant, or the clamped piecewise-linear table of `Model/Heat.lean` on both
axes), its element mean, the gradient as `getElementD` accumulates it, the stored flux density, the recovered gradient, the
contribution of an element to each integral and the final division of the averages by the selected volume (a complex
division in the C++).  The integral itself is the fold `PostInt.blockIntegral` over the elements in mesh order at the scalar
`Cx α`.  Core Lean only.
-/
namespace XfemmVerif.PostIntH
open XfemmVerif XfemmVerif.PostIntE

variable {α : Type} [OfNat α 0] [OfNat α 1] [OfNat α 2] [OfNat α 3] [Add α] [Sub α] [Mul α] [Div α] [Neg α] [LE α] [DecidableLE α]

structure HMat (α : Type) where
  kx : α
  ky : α
  tab : List (α × α)

/-- `CHMaterialProp::GetK(t)`: `Kx + I*Ky` without a table, `(1 + I) k(t)` with one -/
def getKc (m : HMat α) (t : α) : Cx α :=
  match m.tab with
  | [] => Cx.radd m.kx (Cx.mulR Cx.I m.ky)
  | tab => let v := Heat.getK tab m.kx t; ⟨v, v⟩

/-- mean conductivity pair of an element: `kn += GetK(T_i)/3.` -/
def elemK (m : HMat α) (t : Tri α) : Cx α :=
  (((0 : Cx α) + (getKc m t.v0).divR 3) + (getKc m t.v1).divR 3) + (getKc m t.v2).divR 3

/-- flux density stored with the element: `D = (E.re*kn.re + I*E.im*kn.im)/AECF`, `AECF = 1` -/
def elemD (kn : Cx α) (e : α × α) : Cx α :=
  (Cx.radd (e.1 * kn.re) ((Cx.mulR Cx.I e.2).mulR kn.im)).divR 1

/-- `E(elem)`: the gradient recovered from the stored `D` -/
def fieldFromD (kn : Cx α) (d : Cx α) : Cx α :=
  (Cx.radd (d.re / kn.re) ((Cx.mulR Cx.I d.im).divR kn.im)).mulR 1

/-- mean temperature of an element: `T += T_i/3.` -/
def elemT (t : Tri α) : α := ((0 + t.v0 / 3) + t.v1 / 3) + t.v2 / 3

/-- contribution of one element to block integral `typ` (before the division of the averages by the volume) -/
def contribution (typ : Nat) (axi : Bool) (depth pi lc : α) (m : HMat α) (t : Tri α) : Cx α :=
  let a := elmArea t * (lc * lc)
  let a' := a * volFactor axi depth pi lc t
  let e := elemE lc t
  match typ with
  | 0 => ⟨a' * elemT t, 0⟩
  | 1 => ⟨a, 0⟩
  | 2 => ⟨a', 0⟩
  | 3 => Cx.rmul a' (elemD (elemK m t) e)
  | _ => Cx.rmul a' (fieldFromD (elemK m t) (elemD (elemK m t) e))

/-- `blockIntegral`'s last step: types 0, 3, 4 are averages over the selected volume -/
def finish [AbsGt α] (typ : Nat) (z vol : Cx α) : Cx α :=
  if typ = 0 ∨ typ = 3 ∨ typ = 4 then z / vol else z

end XfemmVerif.PostIntH
