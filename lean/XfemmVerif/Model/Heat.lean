/-
Model of the heat-flow specifics of `cfemm/hsolver/hsolver.cpp` and `CHMaterialProp::GetK`
(`cfemm/libfemm/CMaterialProp.cpp`): the piecewise-linear clamped conductivity table, the radiation
linearisation, the lumped transient term.  The element stiffness is `ESolver.stiff` with `k(T)` in place
of the permittivity.  Core Lean only, generic scalar.
-/
namespace XfemmVerif.Heat

variable {α : Type} [Add α] [Sub α] [Mul α] [Div α] [LE α] [DecidableLE α]

/-- `CHMaterialProp::GetK(t)` for a non-empty table `(T_i, k_i)`; `dflt` is returned by the fall-through
    `return (Kx+I*Ky)` (reached only for NaN or a table that is not increasing).  The scan of segments
    follows the C++ loop: first segment with `T_i ≤ t ≤ T_j`. -/
def getKSeg (t : α) (dflt : α) : List (α × α) → α
  | (ti, ki) :: (tj, kj) :: rest =>
    if ti ≤ t ∧ t ≤ tj then ki + (kj - ki) * (t - ti) / (tj - ti)
    else getKSeg t dflt ((tj, kj) :: rest)
  | _ => dflt

def getK (tab : List (α × α)) (dflt : α) (t : α) : α :=
  match tab with
  | [] => dflt
  | [(_, k0)] => k0
  | (t0, k0) :: rest =>
    if t ≤ t0 then k0
    else
      let last := (rest.getLast?).getD (t0, k0)
      if last.1 ≤ t then last.2
      else getKSeg t dflt ((t0, k0) :: rest)

end XfemmVerif.Heat
