/-
C08: small models of the C++ rules behind the anchored memory-safety mechanisms.
A `std::vector` is a list with a capacity and a *buffer generation* that changes on every reallocation;
an iterator remembers the generation it was taken from and is valid only while it matches.
-/
namespace XfemmVerif.VecIter

structure Vec where
  items : List Nat
  cap : Nat
  gen : Nat
  deriving Repr, DecidableEq

/-- `push_back`: reallocates (new generation) when the size has reached the capacity -/
def Vec.push (v : Vec) (x : Nat) : Vec :=
  if v.items.length < v.cap then { v with items := v.items ++ [x] }
  else { items := v.items ++ [x], cap := max 1 (2 * v.cap), gen := v.gen + 1 }

/-- outcome of a loop over the elements that copies (pushes) every selected element -/
inductive Outcome where
  | ok (v : Vec)
  | staleDeref (pos : Nat)      -- an iterator of an old buffer generation was dereferenced
  | outOfRange (i : Nat)
  deriving Repr, DecidableEq

/-- the loop shape of `translateCopy` / `mirrorCopy` / `rotateCopy` as it was:
    `for (const auto &x : vec) if (selected x) vec.push_back(copy x)` — the iterator and the end position are taken
    once, from the buffer generation at loop entry -/
def rangeForPush (selected : Nat → Bool) (v : Vec) : Outcome :=
  let g0 := v.gen
  let n0 := v.items.length
  let rec go (pos fuel : Nat) (cur : Vec) : Outcome :=
    match fuel with
    | 0 => .ok cur
    | fuel + 1 =>
      if pos ≥ n0 then .ok cur
      else if cur.gen ≠ g0 then .staleDeref pos
      else
        let x := cur.items.getD pos 0
        go (pos + 1) fuel (if selected x then cur.push x else cur)
  go 0 n0 v

/-- the repaired shape: `for (size_t i = 0, n = vec.size(); i < n; i++) if (selected vec[i]) vec.push_back(copy vec[i])` -/
def indexedPush (selected : Nat → Bool) (v : Vec) : Outcome :=
  let n0 := v.items.length
  let rec go (i fuel : Nat) (cur : Vec) : Outcome :=
    match fuel with
    | 0 => .ok cur
    | fuel + 1 =>
      if i ≥ n0 then .ok cur
      else if i ≥ cur.items.length then .outOfRange i
      else
        let x := cur.items.getD i 0
        go (i + 1) fuel (if selected x then cur.push x else cur)
  go 0 n0 v

/-- cached element index of the point-location search, reset when it does not fit the current mesh -/
def clampIndex (k n : Nat) : Nat := if k < n then k else 0

end XfemmVerif.VecIter
