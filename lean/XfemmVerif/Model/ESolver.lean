import XfemmVerif.Model.Sparse
/-
Model of `ESolver::AnalyzeProblem` (cfemm/esolver/esolver.cpp) up to the call of `PCGSolve`:
bookkeeping of prescribed values, element matrices (Allaire), charge and boundary terms, elimination of
prescribed nodes, floating-conductor folding, point charges, (anti)periodic calls, conductor rows.
Written once over a generic scalar: the `Float` instance follows the C++ operation by operation (same
association, same order of accumulation) so the assembled system can be compared bit for bit with the
system the real solver hands to `PCGSolve` (hook dump); the element-level functions are the ones the
theorems of `Properties/C03.lean` are about.  Core Lean only.
-/
namespace XfemmVerif.ESolver
open XfemmVerif.Sparse

/-- constants as the C++ computed them (passed in as bit patterns by the harness) -/
structure Consts (α : Type) where
  pi : α
  /-- `c = 1e-6/eo` -/
  c : α
  sqrt : α → α

structure Node (α : Type) where
  x : α
  y : α
  bm : Int      -- BoundaryMarker
  cond : Int    -- InConductor

structure Elem where
  p : Nat × Nat × Nat
  lbl : Nat
  blk : Nat
  e : Int × Int × Int

structure PointProp (α : Type) where
  V : α
  qp : α

structure BdryProp (α : Type) where
  fmt : Nat
  V : α
  qs : α
  c0 : α
  c1 : α

structure BlockProp (α : Type) where
  ex : α
  ey : α
  qv : α

structure CircProp (α : Type) where
  typ : Nat
  V : α
  q : α

structure Problem (α : Type) where
  axi : Bool
  /-- `Depth * units[LengthUnits]` -/
  depth : α
  extRo : α
  extRi : α
  extZo : α
  nodeProps : Array (PointProp α)
  lineProps : Array (BdryProp α)
  blockProps : Array (BlockProp α)
  circProps : Array (CircProp α)
  labelExternal : Array Bool
  nodes : Array (Node α)
  els : Array Elem
  pbc : Array (Nat × Nat × Nat)
  bandwidth : Nat

variable {α : Type} [OfNat α 0] [OfNat α 1] [OfNat α 2] [OfNat α 3] [OfNat α 4] [OfNat α 6] [OfNat α 1000]
  [OfNat α 1000000] [OfNat α 1000000000] [Add α] [Sub α] [Mul α] [Div α] [Neg α] [BEq α]

/-! ### element level (pure) -/

/-- 3-vectors and 3×3 matrices as functions of `Fin 3` -/
abbrev V3 (α : Type) := Fin 3 → α
abbrev M3 (α : Type) := Fin 3 → Fin 3 → α

def nxt (j : Fin 3) : Fin 3 := match j with | 0 => 1 | 1 => 2 | 2 => 0

/-- shape parameters `p`, `q` (Allaire's `b`, `c`) and twice-area based `a` -/
def shapeP (y : V3 α) : V3 α := fun j => match j with
  | 0 => y 1 - y 2 | 1 => y 2 - y 0 | 2 => y 0 - y 1
def shapeQ (x : V3 α) : V3 α := fun j => match j with
  | 0 => x 2 - x 1 | 1 => x 0 - x 2 | 2 => x 1 - x 0
def area (p q : V3 α) : α := (p 0 * q 1 - p 1 * q 0) / 2

/-- stiffness part of `Me`: `K_x p_j p_k + K_y q_j q_k` with `K = -Depth*eps/(4a)/kludge`;
    the accumulation order of the C++ (x-contribution first, then y) is kept -/
def stiff (depth ex ey a kludge : α) (p q : V3 α) : M3 α := fun j k =>
  let kx := -depth * ex / (4 * a) / kludge
  let ky := -depth * ey / (4 * a) / kludge
  (0 + kx * p (if j.val ≤ k.val then j else k) * p (if j.val ≤ k.val then k else j))
    + ky * q (if j.val ≤ k.val then j else k) * q (if j.val ≤ k.val then k else j)

/-- volume-charge part of `be` -/
def volCharge (depth c qv a : α) : α := 0 + (-depth * c * qv * a / 3)

/-- eliminate the prescribed nodes of one element ("process any prescribed nodal values"):
    `fixed j = some v` when node `j` holds the value `v`.  Sequential over `j = 0,1,2` as in the C++. -/
def procFixedStep (fixed : Fin 3 → Option α) (j : Fin 3) (st : M3 α × V3 α) : M3 α × V3 α :=
  match fixed j with
  | none => st
  | some v =>
    let (me, be) := st
    let be1 : V3 α := fun k => if k = j then be k else be k - me k j * v
    let me1 : M3 α := fun a b => if (a = j ∨ b = j) ∧ a ≠ b then 0 else me a b
    (me1, fun k => if k = j then v * me1 j j else be1 k)

def procFixed (fixed : Fin 3 → Option α) (st : M3 α × V3 α) : M3 α × V3 α :=
  procFixedStep fixed 2 (procFixedStep fixed 1 (procFixedStep fixed 0 st))

/-! ### the whole assembly (executable) -/

def geti (t : Int × Int × Int) (j : Fin 3) : Int := match j with | 0 => t.1 | 1 => t.2.1 | 2 => t.2.2
def getn (t : Nat × Nat × Nat) (j : Fin 3) : Nat := match j with | 0 => t.1 | 1 => t.2.1 | 2 => t.2.2

structure Assembled (α : Type) where
  L : LinProb α
  Q : Array Int

def assemble (k : Consts α) (P : Problem α) : Assembled α := Id.run do
  let nn := P.nodes.size
  let nc := P.circProps.size
  let zero : α := 0
  let node (i : Nat) : Node α := P.nodes.getD i { x := zero, y := zero, bm := -1, cond := -1 }
  let lineProp (i : Int) : BdryProp α := P.lineProps.getD i.toNat { fmt := 99, V := zero, qs := zero, c0 := zero, c1 := zero }
  let circ (i : Int) : CircProp α := P.circProps.getD i.toNat { typ := 99, V := zero, q := zero }
  let mut L : LinProb α := create (nn + nc) P.bandwidth
  let mut V : Array α := Array.replicate (nn + nc) zero
  let mut Q : Array Int := Array.replicate (nn + nc) 0
  -- prescribed values at points and fixed-voltage conductors
  for i in [0:nn] do
    Q := Q.setIfInBounds i (-2)
    let nd := node i
    if nd.bm ≥ 0 then
      let pp := P.nodeProps.getD nd.bm.toNat { V := zero, qp := zero }
      if pp.qp == 0 then
        V := V.setIfInBounds i pp.V
        Q := Q.setIfInBounds i (-1)
    if nd.cond ≥ 0 then
      if (circ nd.cond).typ == 1 then
        V := V.setIfInBounds i (circ nd.cond).V
        Q := Q.setIfInBounds i nd.cond
  -- fixed boundary conditions along segments
  for el in P.els do
    for j in [(0 : Fin 3), 1, 2] do
      let kk := nxt j
      let e := geti el.e j
      if e ≥ 0 then
        if (lineProp e).fmt == 0 then
          V := V.setIfInBounds (getn el.p j) (lineProp e).V
          V := V.setIfInBounds (getn el.p kk) (lineProp e).V
          Q := Q.setIfInBounds (getn el.p j) (-1)
          Q := Q.setIfInBounds (getn el.p kk) (-1)
  -- element matrices
  for el in P.els do
    let n : Fin 3 → Nat := getn el.p
    let xs : V3 α := fun j => (node (n j)).x
    let ys : V3 α := fun j => (node (n j)).y
    let p := shapeP ys
    let q := shapeQ xs
    let l : V3 α := fun j =>
      let kk := nxt j
      k.sqrt ((xs kk - xs j) * (xs kk - xs j) + (ys kk - ys j) * (ys kk - ys j))
    let a := area p q
    let r := (xs 0 + xs 1 + xs 2) / 3
    let mut depth := P.depth
    let mut kludge : α := 1
    if P.axi then
      depth := 2 * k.pi * r
      if P.labelExternal.getD el.lbl false then
        let z := (ys 0 + ys 1 + ys 2) / 3 - P.extZo
        kludge := (r * r + z * z) / (P.extRi * P.extRo)
      else kludge := 1
    let bp := P.blockProps.getD el.blk { ex := zero, ey := zero, qv := zero }
    let me0 := stiff depth bp.ex bp.ey a kludge p q
    let mut me : Array α := Array.ofFn (n := 9) (fun i => me0 ⟨i.val / 3, by omega⟩ ⟨i.val % 3, by omega⟩)
    let mut be : Array α := Array.replicate 3 (volCharge depth k.c bp.qv a)
    let mg (m : Array α) (a b : Nat) : α := m.getD (a * 3 + b) zero
    for j in [(0 : Fin 3), 1, 2] do
      let e := geti el.e j
      if e ≥ 0 then
        let kk := nxt j
        if P.axi then depth := k.pi * (xs j + xs kk)
        let lp := lineProp e
        if lp.fmt == 1 then
          let K := -1000 * depth * k.c * lp.c0 * l j / 6
          me := me.setIfInBounds (j.val * 3 + j.val) (mg me j.val j.val + K * 2)
          me := me.setIfInBounds (kk.val * 3 + kk.val) (mg me kk.val kk.val + K * 2)
          me := me.setIfInBounds (j.val * 3 + kk.val) (mg me j.val kk.val + K)
          me := me.setIfInBounds (kk.val * 3 + j.val) (mg me kk.val j.val + K)
          let K2 := 1000 * depth * k.c * lp.c1 * l j / 2
          be := be.setIfInBounds j.val (be.getD j.val zero + K2)
          be := be.setIfInBounds kk.val (be.getD kk.val zero + K2)
        if lp.fmt == 2 then
          let K := -1000 * depth * k.c * lp.qs * l j / 2
          be := be.setIfInBounds j.val (be.getD j.val zero + K)
          be := be.setIfInBounds kk.val (be.getD kk.val zero + K)
    -- process any prescribed nodal values
    for jf in [(0 : Fin 3), 1, 2] do
      let j := jf.val
      if Q.getD (n jf) 0 != -2 then
        let vj := V.getD (n jf) zero
        for kk in [0, 1, 2] do
          if j != kk then
            be := be.setIfInBounds kk (be.getD kk zero - mg me kk j * vj)
            me := me.setIfInBounds (kk * 3 + j) zero
            me := me.setIfInBounds (j * 3 + kk) zero
        be := be.setIfInBounds j (vj * mg me j j)
    -- combine block matrices into the global matrix
    let ne : Fin 3 → Nat := fun j =>
      let nd := node (n j)
      if nd.cond ≥ 0 && (circ nd.cond).typ == 0 then nd.cond.toNat + nn else n j
    for j in [(0 : Fin 3), 1, 2] do
      for kk in [(0 : Fin 3), 1, 2] do
        if j.val ≤ kk.val then
          if j != kk && ne j == ne kk then
            L := put L (get L (ne j) (ne kk) - 2 * mg me j.val kk.val) (ne j) (ne kk)
          else
            L := put L (get L (ne j) (ne kk) - mg me j.val kk.val) (ne j) (ne kk)
      L := setB L (ne j) (getB L (ne j) - be.getD j.val zero)
      if ne j != n j then
        L := put L (get L (n j) (n j) - mg me j.val j.val) (n j) (n j)
        L := put L (get L (n j) (ne j) + mg me j.val j.val) (n j) (ne j)
  -- point charges
  for i in [0:nn] do
    let nd := node i
    if nd.bm ≥ 0 && Q.getD i 0 == -2 then
      let depth := if P.axi then 2 * k.pi * nd.x else P.depth
      let pp := P.nodeProps.getD nd.bm.toNat { V := zero, qp := zero }
      L := setB L i (getB L i + 1000000 * depth * k.c * pp.qp)
      Q := Q.setIfInBounds i (-1)
    if nd.cond ≥ 0 then Q := Q.setIfInBounds i nd.cond
  -- (anti)periodic boundary conditions
  for (a, b, t) in P.pbc do
    if t == 0 then L := periodicity L a b
    if t == 1 then L := antiPeriodicity L a b
  -- conductor rows
  for i in [0:nc] do
    let kk := nn + i
    let cp := circ i
    if cp.typ == 1 then
      let K := get L 0 0
      L := put L K kk kk
      L := setB L kk (K * cp.V)
    if cp.typ == 0 then
      let mut K : α := 0
      for j in [0:nn] do
        if (node j).cond == (i : Int) then K := K + get L kk j
      if K != 0 then
        L := put L (get L kk kk - K) kk kk
        L := setB L kk (getB L kk + 1000000000 * k.c * cp.q)
      else
        L := put L (get L 0 0) kk kk
  return { L := { L with V := V }, Q := Q }

end XfemmVerif.ESolver
