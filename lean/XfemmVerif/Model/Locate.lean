/-
Model of point location and interpolation in the post-processors (`PostProcessor::InTriangle`,
`InTriangleTest`, `getPointValues`; same code in `FPProc`).  Core Lean only.
The number of rounds of the outward search is NOT fixed here: it comes from `Generated/Locate.lean`, which the
translator rewrites from the loop header in the current source.
-/
namespace XfemmVerif.Locate

def stepHi (sz hi : Nat) : Nat := if hi + 1 ≥ sz then 0 else hi + 1
def stepLo (sz lo : Nat) : Nat := if lo = 0 then sz - 1 else lo - 1

/-- indices probed by `r` rounds of the loop body, in order (early return ignored) -/
def probesAux (sz : Nat) : Nat → Nat → Nat → List Nat
  | 0, _, _ => []
  | r + 1, hi, lo =>
    let hi' := stepHi sz hi
    let lo' := stepLo sz lo
    hi' :: lo' :: probesAux sz r hi' lo'

/-- the indices probed after the seed `k`, for a loop that runs `rounds` times starting from `hi = lo = k` -/
def probes (rounds sz k : Nat) : List Nat := probesAux sz rounds k k


variable {α : Type} [Add α] [Sub α] [Mul α] [Div α] [LT α] [DecidableLT α] [OfNat α 0]

/-- one side test of `InTriangleTest` for the directed side `j → k` of an element, as the base class writes it:
    the side is always evaluated from its lower-numbered to its higher-numbered node, and the acceptance flips
    with the direction.  Returns `true` when the side does NOT reject the point. -/
def sideAccepts (pj pk : Nat) (xj yj xk yk x y : α) : Bool :=
  if pj < pk then
    let z := (xk - xj) * (y - yj) - (yk - yj) * (x - xj)
    !(z < 0)
  else
    let z := (xj - xk) * (y - yk) - (yj - yk) * (x - xk)
    !(0 < z)

/-- barycentric interpolation exactly as `getPointValues` computes it -/
def interp (x0 y0 x1 y1 x2 y2 v0 v1 v2 x y : α) : α :=
  let a0 := x1 * y2 - x2 * y1
  let a1 := x2 * y0 - x0 * y2
  let a2 := x0 * y1 - x1 * y0
  let b0 := y1 - y2
  let b1 := y2 - y0
  let b2 := y0 - y1
  let c0 := x2 - x1
  let c1 := x0 - x2
  let c2 := x1 - x0
  let da := b0 * c1 - b1 * c0
  0 + v0 * (a0 + b0 * x + c0 * y) / da + v1 * (a1 + b1 * x + c1 * y) / da + v2 * (a2 + b2 * x + c2 * y) / da

end XfemmVerif.Locate
