/-
Model of the point maps of the copy / move commands of `cfemm/libfemm/FemmProblem.cpp` (`mirrorCopy`, `rotateCopy` / `rotateMove`,
`translateCopy` / `translateMove`, `scaleMove`) - executable, core Lean only, over the `CComplex` operators of `Model/Complex.lean`
(so that the `Float` instance reproduces the C++ operation by operation).

  mirror : `y=(y-x)/p; y=p*y.Conj()+x;`   with `p` the unit vector of the mirror line (`p/=abs(p)`)
  rotate : `x=(x-c)*z+c;`                 with `z = exp(I*t*PI/180)`
  translate : `x+=dx; y+=dy;`
  scale : `p=(p-c)*s+c;`                  with a real factor `s`

`Properties/C16.lean` proves, over any ordered field: the reflection reverses the orientation of every triple of points and keeps all
distances, the rotation (|z| = 1) and the translation keep both.  Hence the image of the counter-clockwise arc P0 -> P1 (centre to the
left of the chord) under a reflection is the counter-clockwise arc M(P1) -> M(P0): the copy has to swap the end points (the repair cacda5d),
and keeps their order under rotation and translation.
-/
import XfemmVerif.Model.Complex
namespace XfemmVerif.EditGeom
open XfemmVerif

variable {α : Type} [OfNat α 0] [OfNat α 1] [Add α] [Sub α] [Mul α] [Div α] [Neg α] [AbsGt α]

/-- `mirrorCopy`: `y=(y-x)/p; y=p*y.Conj()+x;` -/
def mirror (x p y : Cx α) : Cx α := p * Cx.conj ((y - x) / p) + x

/-- `rotateCopy` / `rotateMove`: `x=(x-c)*z+c;` -/
def rotate (c z y : Cx α) : Cx α := (y - c) * z + c

/-- `translateCopy` / `translateMove` -/
def translate (d y : Cx α) : Cx α := ⟨y.re + d.re, y.im + d.im⟩

/-- `scaleMove`: `p=(p-c)*s+c;` with a real factor -/
def scale (c : Cx α) (s : α) (y : Cx α) : Cx α := Cx.mulR (y - c) s + c

/-- twice the signed area of the triangle 0, a, b: positive when b is to the left of a -/
def cross (a b : Cx α) : α := a.re * b.im - a.im * b.re

/-- squared length -/
def absq (a : Cx α) : α := a.re * a.re + a.im * a.im

/-- the unit vector of the mirror line as `mirrorCopy` computes it: `p/=abs(p)` with the scaled `abs` of `femmcomplex.cpp` -/
def unitVec (sqrt : α → α) (absf : α → α) (p : Cx α) : Cx α :=
  let a := if AbsGt.absGt p.re p.im then absf p.re * sqrt (1 + (p.im / p.re) * (p.im / p.re))
           else absf p.im * sqrt (1 + (p.re / p.im) * (p.re / p.im))
  Cx.divR p a

end XfemmVerif.EditGeom
