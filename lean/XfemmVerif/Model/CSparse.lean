import XfemmVerif.Model.Sparse
import XfemmVerif.Model.Complex
/-
Model of `cfemm/libfemm/cspars.cpp` (`CBigComplexLinProb`) without auxiliary Newton matrices (`bNewton == false`, which is
the state in every linear time-harmonic problem): the storage (`Put`, `Get`, `AddTo`, `Wipe`, `MultA`, `Dot`) is the real
solver's model at the scalar `Cx α`; `SetValue` (its own scan window: rows beyond `NumNodes` are always visited),
`Periodicity`, `AntiPeriodicity`, the SSOR preconditioner, `MultAPPA`, `ConjDot`, the three normal-equation passes of
`PCGSQStart` and the complex-symmetric `PBCGSolve` follow the C++ statement by statement with the mixed complex / real
operators it uses.  Core Lean only.
-/
namespace XfemmVerif.CSparse
open XfemmVerif XfemmVerif.Sparse

variable {α : Type} [OfNat α 0] [OfNat α 1] [OfNat α 2] [Add α] [Sub α] [Mul α] [Div α] [Neg α] [BEq α] [AbsGt α]

abbrev CLinProb (α : Type) := LinProb (Cx α)

/-- rows visited by the scan loop of `SetValue(i, ·)`: `for(k=fst;k<n;k++){ if (k==lst) k=NumNodes; … }` -/
def setValueRows (n bdw numNodes i : Nat) : List Nat :=
  if bdw = 0 then List.range n
  else
    let fst := i - bdw
    let lst := min (i + bdw) numNodes
    if lst < fst then List.range' fst (n - fst)
    else if n ≤ lst then List.range' fst (n - fst)
    else List.range' fst (lst - fst) ++ List.range' numNodes (n - numNodes)

/-- loop body of `SetValue` for row `k` -/
def setValueRow (i : Nat) (x : Cx α) (M : CLinProb α) (k : Nat) : CLinProb α :=
  let z := get M k i
  if z.ne0 then
    let M := setB M k (getB M k - z * x)
    if i != k then put M 0 k i else M
  else M

/-- `CBigComplexLinProb::SetValue(i,x)` -/
def setValue (numNodes : Nat) (M : CLinProb α) (i : Nat) (x : Cx α) : CLinProb α :=
  let M := (setValueRows M.n M.bdw numNodes i).foldl (setValueRow i x) M
  setB M i (get M i i * x)

/-- loop body of `Periodicity` / `AntiPeriodicity` for row `k` (the KLUDGE forces `bdw = 0`: every row is visited) -/
def periodicRow (anti : Bool) (i j : Nat) (M : CLinProb α) (k : Nat) : CLinProb α :=
  if k != i && k != j then
    let v1 := get M k i
    let v2 := get M k j
    if v1.ne0 || v2.ne0 then
      if anti then
        let c := (v1 - v2).divR 2
        put (put M c k i) (-c) k j
      else
        let c := (v1 + v2).divR 2
        put (put M c k i) c k j
    else M
  else M

/-- `CBigComplexLinProb::Periodicity(i,j)` -/
def periodicity (M : CLinProb α) (i j : Nat) : CLinProb α :=
  let (i, j) := ord i j
  let M := (List.range M.n).foldl (periodicRow false i j) M
  let c := (get M i i + get M j j).divR 2
  let M := put (put M c i i) c j j
  let c := Cx.rmul ((1 : α) / 2) (getB M i + getB M j)
  setB (setB M i c) j c

/-- `CBigComplexLinProb::AntiPeriodicity(i,j)` -/
def antiPeriodicity (M : CLinProb α) (i j : Nat) : CLinProb α :=
  let (i, j) := ord i j
  let M := (List.range M.n).foldl (periodicRow true i j) M
  let c := Cx.rmul ((1 : α) / 2) (get M i i + get M j j)
  let M := put (put M c i i) c j j
  let c := Cx.rmul ((1 : α) / 2) (getB M i - getB M j)
  setB (setB M i c) j (-c)

/-- `ConjDot` -/
def conjDot (n : Nat) (X Y : Array (Cx α)) : Cx α := Id.run do
  let mut z : Cx α := 0
  for i in [0:n] do
    z := z + (vget X i).conj * vget Y i
  return z

/-- `CBigComplexLinProb::MultPC(X,Y)` — SSOR preconditioner with the real relaxation factor `Lambda` -/
def multPC (M : CLinProb α) (lambda : α) (X : Array (Cx α)) : Array (Cx α) := Id.run do
  let c : Cx α := Cx.ofReal (lambda * ((2 : α) - lambda))
  let n := M.n
  let diag (i : Nat) : Cx α := match M.rows.getD i [] with | [] => 0 | (_, d) :: _ => d
  let tail (i : Nat) : Row (Cx α) := (M.rows.getD i []).tail
  let mut Y : Array (Cx α) := Array.ofFn (n := n) (fun i => vget X i.val * c)
  for i in [0:n] do
    Y := Y.setIfInBounds i (vget Y i / diag i)
    for (cc, x) in tail i do
      Y := Y.setIfInBounds cc (vget Y cc - (x * vget Y i).mulR lambda)
  for i in [0:n] do
    Y := Y.setIfInBounds i (vget Y i * diag i)
  for k in [0:n] do
    let i := n - 1 - k
    for (cc, x) in tail i do
      Y := Y.setIfInBounds i (vget Y i - (x * vget Y cc).mulR lambda)
    Y := Y.setIfInBounds i (vget Y i / diag i)
  return Y

def conjVec (X : Array (Cx α)) : Array (Cx α) := X.map Cx.conj

/-- `MultAPPA(X,Y)`: `conj(A · PC(conj(PC(A X))))` -/
def multAPPA (M : CLinProb α) (lambda : α) (X : Array (Cx α)) : Array (Cx α) :=
  let Z := multA M X
  let Y := conjVec (multPC M lambda Z)
  let Z := multPC M lambda Y
  conjVec (multA M Z)

structure BState (α : Type) where
  V : Array (Cx α)
  R : Array (Cx α)
  P : Array (Cx α)
  res : Cx α

/-- `PCGSQStart`: `none` when the singular flag trips, else the iterate `V` after the three passes -/
def pcgsqStart (M : CLinProb α) (lambda : α) : Option (Array (Cx α)) := Id.run do
  let n := M.n
  for i in [0:n] do
    match M.rows.getD i [] with
    | [] => return none
    | (_, d) :: _ => if d.isZero then return none
  let Z := conjVec (multPC M lambda M.b)
  let P := multPC M lambda Z
  let Z := multA M P
  let P := conjVec Z
  let V0 : Array (Cx α) := Array.replicate n 0
  let R0 := multAPPA M lambda V0
  let R := Array.ofFn (n := n) (fun i => vget P i.val - vget R0 i.val)
  let mut s : BState α := { V := V0, R := R, P := R, res := conjDot n R R }
  for _ in [0:3] do
    let U := multAPPA M lambda s.P
    let pAp := conjDot n s.P U
    let del := s.res / pAp
    let V := Array.ofFn (n := n) (fun i => vget s.V i.val + del * vget s.P i.val)
    let R := Array.ofFn (n := n) (fun i => vget s.R i.val - del * vget U i.val)
    let resNew := conjDot n R R
    let rho := resNew / s.res
    let P := Array.ofFn (n := n) (fun i => vget R i.val + rho * vget s.P i.val)
    s := { V := V, R := R, P := P, res := resNew }
  return some s.V

/-- one pass of the `do … while` body of `PBCGSolve` -/
def pbcgStep (M : CLinProb α) (lambda : α) (s : BState α) : BState α :=
  let n := M.n
  let U := multA M s.P
  let pAp := dot n s.P U
  let del := s.res / pAp
  let V := Array.ofFn (n := n) (fun i => vget s.V i.val + del * vget s.P i.val)
  let R := Array.ofFn (n := n) (fun i => vget s.R i.val - del * vget U i.val)
  let Z := multPC M lambda R
  let resNew := dot n Z R
  let rho := resNew / s.res
  let P := Array.ofFn (n := n) (fun i => vget Z i.val + rho * vget s.P i.val)
  { V := V, R := R, P := P, res := resNew }

inductive CSolveResult (α : Type) where
  | singular
  | converged (V : Array (Cx α)) (iters : Nat)
  | noFuel (V : Array (Cx α))

/-- `PBCGSolve(flag)` from the iterate `V0`.  `leave nrmR2 nrmB2` is the C++ `!(sqrt(Re(R^H R))/sqrt(Re(b^H b)) > Precision)`,
    a parameter because `sqrt` and `>` are not field operations. -/
def pbcgSolve (M : CLinProb α) (lambda : α) (V0 : Array (Cx α)) (leave : α → α → Bool) (fuel : Nat) : CSolveResult α := Id.run do
  let n := M.n
  let AV := multA M V0
  let R0 := Array.ofFn (n := n) (fun i => vget M.b i.val - vget AV i.val)
  let nb := (conjDot n M.b M.b).re
  let Z := multPC M lambda R0
  let mut s : BState α := { V := V0, R := R0, P := Z, res := dot n Z R0 }
  for k in [0:fuel] do
    s := pbcgStep M lambda s
    if leave (conjDot n s.R s.R).re nb then return .converged s.V (k + 1)
  return .noFuel s.V

/-- `PBCGSolveMod(flag)` for `bNewton == false` -/
def pbcgSolveMod (M : CLinProb α) (lambda : α) (flag : Bool) (leave : α → α → Bool) (fuel : Nat) : CSolveResult α :=
  -- a zero right-hand side has the zero solution (the iterations would divide by its norm)
  if (conjDot M.n M.b M.b).re == 0 then .converged (Array.replicate M.n 0) 0
  else if flag then pbcgSolve M lambda M.V leave fuel
  else
    match pcgsqStart M lambda with
    | none => .singular
    | some V0 => pbcgSolve M lambda V0 leave fuel

end XfemmVerif.CSparse
