import XfemmVerif.Model.ESolver
/-
Model of the FIRST pass (`Iter == 0`) of `FSolver::Static2D` (cfemm/fsolver/static2d.cpp), planar magnetostatics without
air-gap elements and without a previous solution, up to the call of `PCGSolve`: circuit integrals and the decision between
an applied voltage gradient and a flat current density, element matrices `Mx`, `My`, `Mxy`, mixed boundary terms, current
density and magnetisation sources, the permeabilities of the first pass (lamination types), accumulation with `AddTo`,
point currents, prescribed potentials at points and along segments (cartesian and polar prescription) through `SetValue`,
(anti)periodic ties.  Same generic scalar and order of floating-point operations as the C++: the `Float` instance is compared
bit for bit with the system the real solver hands to `PCGSolve` (hook dump).  Core Lean only.
-/
namespace XfemmVerif.MSolver
open XfemmVerif.Sparse XfemmVerif.ESolver

structure MConsts (α : Type) where
  /-- `c = PI*4.e-05` -/
  c : α
  /-- `DEG` -/
  deg : α
  pi : α
  /-- `units[LengthUnits]` (centimetres per drawing unit) -/
  ucm : α
  sqrt : α → α
  /-- `pow(x, 2.)` of the C library -/
  sq : α → α
  cos : α → α
  sin : α → α
  atan2 : α → α → α

structure MPointProp (α : Type) where
  Jre : α
  Jim : α
  Are : α

structure MBdryProp (α : Type) where
  fmt : Nat
  A0 : α
  A1 : α
  A2 : α
  phi : α
  c0 : α
  c1 : α

structure MBlockProp (α : Type) where
  mux : α
  muy : α
  lamType : Nat
  lamFill : α
  Jre : α
  cduct : α
  Hc : α

structure MCirc (α : Type) where
  typ : Nat
  amps : α
  dvolts : α

structure MLabel (α : Type) where
  inCircuit : Int
  wound : Bool
  magDir : α

structure MProblem (α : Type) where
  polar : Bool
  nodeProps : Array (MPointProp α)
  lineProps : Array (MBdryProp α)
  blockProps : Array (MBlockProp α)
  circProps : Array (MCirc α)
  labels : Array (MLabel α)
  nodes : Array (Node α)
  els : Array Elem
  pbc : Array (Nat × Nat × Nat)
  bandwidth : Nat

variable {α : Type} [OfNat α 0] [OfNat α 1] [OfNat α 2] [OfNat α 3] [OfNat α 4] [OfNat α 6] [OfNat α 100] [OfNat α 180]
  [Add α] [Sub α] [Mul α] [Div α] [Neg α] [BEq α]

/-- what `Static2D` decides for a circuit: `(Case, J, dV)` -/
def circuitCase (c001 : α) (cp : MCirc α) (int1 int2 int3 : α) : Nat × α × α :=
  if cp.typ == 0 then
    if int2 == 0 then
      if int1 == 0 then (1, 0, 0) else (1, c001 * (cp.amps - int3) / int1, 0)
    else (0, 0, -c001 * (cp.amps - int3) / int2)
  else (0, 0, cp.dvolts)

/-- permeabilities of the first pass -/
def firstPassMu (bp : MBlockProp α) : α × α :=
  let t := bp.lamFill
  if bp.lamType == 0 then (bp.mux * t + (1 - t), bp.muy * t + (1 - t))
  else if bp.lamType == 1 then (bp.mux * t + (1 - t), bp.mux / (t + bp.mux * (1 - t)))
  else if bp.lamType == 2 then (bp.muy / (t + bp.muy * (1 - t)), bp.muy * t + (1 - t))
  else (1, 1)

/-- prescribed potential along a segment at the point `(x, y)` (solver units) -/
def prescribedA (k : MConsts α) (polar : Bool) (lp : MBdryProp α) (x y : α) : α :=
  if !polar then
    let xs := x / k.ucm
    let ys := y / k.ucm
    let a := lp.A0 + xs * lp.A1 + ys * lp.A2
    a * k.cos (lp.phi * k.deg) / k.c
  else
    let r := k.sqrt (x * x + y * y)
    let t := if x == 0 && y == 0 then 0 else k.atan2 y x / k.deg
    let rs := r / k.ucm
    let a := lp.A0 + rs * lp.A1 + t * lp.A2
    a * k.cos (lp.phi * k.deg) / k.c

/-- what the combination loop of `Static2D` adds to `Me[j][k]` in the first pass: `Mx/mu2 + My/mu1 + Mxy*v12 + Mn` with `v12 = 0`, `Mn = 0`;
    `Mx[j][k] = K p_j p_k`, `My[j][k] = K q_j q_k`, `Mxy[j][k] = K (p_j q_k + p_k q_j)`, each accumulated from zero over the upper triangle
    and mirrored -/
def magStiff (K mu1 mu2 : α) (p q : V3 α) (j kk : Fin 3) : α :=
  let lo : Fin 3 := if j.val ≤ kk.val then j else kk
  let hi : Fin 3 := if j.val ≤ kk.val then kk else j
  (0 + K * p lo * p hi) / mu2 + (0 + K * q lo * q hi) / mu1 + (0 + K * (p lo * q hi + p hi * q lo)) * 0 + 0

def assembleM (k : MConsts α) (c001 c0001 : α) (P : MProblem α) : LinProb α := Id.run do
  let nn := P.nodes.size
  let zero : α := 0
  let node (i : Nat) : Node α := P.nodes.getD i { x := zero, y := zero, bm := -1, cond := -1 }
  let lineProp (i : Int) : MBdryProp α := P.lineProps.getD i.toNat { fmt := 99, A0 := zero, A1 := zero, A2 := zero, phi := zero, c0 := zero, c1 := zero }
  let blk (i : Nat) : MBlockProp α := P.blockProps.getD i { mux := 1, muy := 1, lamType := 0, lamFill := 1, Jre := zero, cduct := zero, Hc := zero }
  let lab (i : Nat) : MLabel α := P.labels.getD i { inCircuit := -1, wound := false, magDir := zero }
  -- circuit integrals
  let nc := P.circProps.size
  let mut int1 : Array α := Array.replicate nc zero
  let mut int2 : Array α := Array.replicate nc zero
  let mut int3 : Array α := Array.replicate nc zero
  for el in P.els do
    let lb := lab el.lbl
    if lb.inCircuit != -1 then
      let n : Fin 3 → Nat := getn el.p
      let xs : V3 α := fun j => (node (n j)).x
      let ys : V3 α := fun j => (node (n j)).y
      let p := shapeP ys
      let q := shapeQ xs
      let a := area p q
      let bp := blk el.blk
      let cduct := if lb.wound then zero else bp.cduct
      let ci := lb.inCircuit.toNat
      int1 := int1.setIfInBounds ci (int1.getD ci zero + a)
      int2 := int2.setIfInBounds ci (int2.getD ci zero + a * cduct)
      int3 := int3.setIfInBounds ci (int3.getD ci zero + bp.Jre * a * 100)
  let cases : Array (Nat × α × α) := Array.ofFn (n := nc) (fun i =>
    circuitCase c001 (P.circProps.getD i.val { typ := 1, amps := zero, dvolts := zero }) (int1.getD i.val zero) (int2.getD i.val zero) (int3.getD i.val zero))
  let mut L : LinProb α := create nn P.bandwidth
  for el in P.els do
    let n : Fin 3 → Nat := getn el.p
    let xs : V3 α := fun j => (node (n j)).x
    let ys : V3 α := fun j => (node (n j)).y
    let p := shapeP ys
    let q := shapeQ xs
    let l : V3 α := fun j =>
      let kk := nxt j
      k.sqrt (k.sq (xs kk - xs j) + k.sq (ys kk - ys j))
    let a := area p q
    let K : α := -1 / (4 * a)
    let mut me : Array α := Array.replicate 9 zero
    let mut be : Array α := Array.replicate 3 zero
    let mg (m : Array α) (a b : Nat) : α := m.getD (a * 3 + b) zero
    for j in [(0 : Fin 3), 1, 2] do
      let e := geti el.e j
      if e ≥ 0 then
        let lp := lineProp e
        if lp.fmt == 2 then
          let kk := nxt j
          let Kb := -c0001 * k.c * lp.c0 * l j / 6
          me := me.setIfInBounds (j.val * 3 + j.val) (mg me j.val j.val + Kb * 2)
          me := me.setIfInBounds (kk.val * 3 + kk.val) (mg me kk.val kk.val + Kb * 2)
          me := me.setIfInBounds (j.val * 3 + kk.val) (mg me j.val kk.val + Kb)
          me := me.setIfInBounds (kk.val * 3 + j.val) (mg me kk.val j.val + Kb)
          let K2 := (lp.c1 * l j / 2) * c0001
          be := be.setIfInBounds j.val (be.getD j.val zero + K2)
          be := be.setIfInBounds kk.val (be.getD kk.val zero + K2)
    -- current density
    let lb := lab el.lbl
    let bp := blk el.blk
    let mut t : α := 0
    if lb.inCircuit ≥ 0 then
      let (cs, cj, cdv) := cases.getD lb.inCircuit.toNat (0, zero, zero)
      if cs == 1 then t := cj
      if cs == 0 then t := -cdv * bp.cduct
    for j in [0, 1, 2] do
      let Kj := -(bp.Jre + t) * a / 3
      be := be.setIfInBounds j (be.getD j zero + Kj)
    -- magnetisation
    let md := lb.magDir
    for j in [(0 : Fin 3), 1, 2] do
      let kk := nxt j
      let Km := c0001 * bp.Hc * (k.cos (md * k.pi / 180) * (xs kk - xs j) + k.sin (md * k.pi / 180) * (ys kk - ys j)) / 2
      be := be.setIfInBounds j.val (be.getD j.val zero + Km)
      be := be.setIfInBounds kk.val (be.getD kk.val zero + Km)
    let (mu1, mu2) := firstPassMu bp
    -- combine
    for j in [(0 : Fin 3), 1, 2] do
      for kk in [(0 : Fin 3), 1, 2] do
        me := me.setIfInBounds (j.val * 3 + kk.val) (mg me j.val kk.val + magStiff K mu1 mu2 p q j kk)
        be := be.setIfInBounds j.val (be.getD j.val zero + 0 * 0)
    for j in [(0 : Fin 3), 1, 2] do
      for kk in [(0 : Fin 3), 1, 2] do
        if j.val ≤ kk.val then
          L := addTo L (-(mg me j.val kk.val)) (n j) (n kk)
      L := setB L (n j) (getB L (n j) - be.getD j.val zero)
  -- point currents
  for i in [0:nn] do
    let nd := node i
    if nd.bm ≥ 0 then
      let pp := P.nodeProps.getD nd.bm.toNat { Jre := zero, Jim := zero, Are := zero }
      L := setB L i (getB L i + c001 * pp.Jre)
  -- prescribed potentials at points
  for i in [0:nn] do
    let nd := node i
    if nd.bm ≥ 0 then
      let pp := P.nodeProps.getD nd.bm.toNat { Jre := zero, Jim := zero, Are := zero }
      if pp.Jre == 0 && pp.Jim == 0 then
        L := setValue L i (pp.Are / k.c)
  -- prescribed potentials along segments
  for el in P.els do
    for j in [(0 : Fin 3), 1, 2] do
      let kk := nxt j
      let e := geti el.e j
      if e ≥ 0 then
        let lp := lineProp e
        if lp.fmt == 0 then
          let n0 := getn el.p j
          let n1 := getn el.p kk
          L := setValue L n0 (prescribedA k P.polar lp (node n0).x (node n0).y)
          L := setValue L n1 (prescribedA k P.polar lp (node n1).x (node n1).y)
  for (a, b, t) in P.pbc do
    if t == 0 then L := periodicity L a b
    if t == 1 then L := antiPeriodicity L a b
  return L


/-! ### axisymmetric magnetostatics: first pass of `FSolver::StaticAxisymmetric` (cfemm/fsolver/staticaxi.cpp) -/

structure AxiExtra (α : Type) where
  log : α → α
  abs : α → α
  /-- the ABSOLUTE threshold `1.e-06` (centimetres) of the on-axis and degenerate-shape tests -/
  tiny : α
  extRo : α
  extRi : α
  extZo : α
  /-- `IsExternal` per block label -/
  external : Array Bool

section Axi
variable [LT α] [DecidableLT α]

/-- the radius `R_hat` of the `Mz` term: the closed forms of `∫ dA / r` over the element, with their special cases for nodes
    on the axis and for element sides parallel to the axis — selected by ABSOLUTE thresholds -/
def rHat (x : AxiExtra α) (rn q : V3 α) (R : α) : α :=
  let onAxis (j : Fin 3) : Bool := decide (rn j < x.tiny)
  let flag := (if onAxis 0 then 1 else 0) + (if onAxis 1 then 1 else 0) + (if onAxis 2 then 1 else 0)
  if flag == 2 then R
  else if flag == 1 then
    let pick (a b : Fin 3) : α :=
      if x.abs (rn a - rn b) < x.tiny then rn b / 2 else (rn a - rn b) / (2 * x.log (rn a) - 2 * x.log (rn b))
    if onAxis 2 then pick 0 1 else if onAxis 1 then pick 2 0 else pick 1 2
  else
    if x.abs (q 0) < x.tiny then (q 1 * q 1) / (2 * (-q 1 + rn 0 * x.log (rn 0 / rn 2)))
    else if x.abs (q 1) < x.tiny then (q 2 * q 2) / (2 * (-q 2 + rn 1 * x.log (rn 1 / rn 0)))
    else if x.abs (q 2) < x.tiny then (q 0 * q 0) / (2 * (-q 0 + rn 2 * x.log (rn 2 / rn 1)))
    else -(q 0 * q 1 * q 2) / (2 * (q 0 * rn 0 * x.log (rn 0) + q 1 * rn 1 * x.log (rn 1) + q 2 * rn 2 * x.log (rn 2)))

/-- permeabilities of the first pass in the axisymmetric solver -/
def firstPassMuAxi (bp : MBlockProp α) : α × α :=
  let t := bp.lamFill
  if bp.lamType == 0 then (bp.mux * t + (1 - t), bp.muy * t + (1 - t))
  else if bp.lamType == 1 then (bp.mux * t + (1 - t), bp.mux / (t + bp.mux * (1 - t)))
  else if bp.lamType == 2 then (bp.muy / (t + bp.muy * (1 - t)), bp.muy * t + (1 - t))
  else (1, 1)

def assembleMAxi (k : MConsts α) (x : AxiExtra α) (c001 c0001 : α) (P : MProblem α) : LinProb α := Id.run do
  let nn := P.nodes.size
  let zero : α := 0
  let node (i : Nat) : Node α := P.nodes.getD i { x := zero, y := zero, bm := -1, cond := -1 }
  let lineProp (i : Int) : MBdryProp α := P.lineProps.getD i.toNat { fmt := 99, A0 := zero, A1 := zero, A2 := zero, phi := zero, c0 := zero, c1 := zero }
  let blk (i : Nat) : MBlockProp α := P.blockProps.getD i { mux := 1, muy := 1, lamType := 0, lamFill := 1, Jre := zero, cduct := zero, Hc := zero }
  let lab (i : Nat) : MLabel α := P.labels.getD i { inCircuit := -1, wound := false, magDir := zero }
  let nc := P.circProps.size
  let mut int1 : Array α := Array.replicate nc zero
  let mut int2 : Array α := Array.replicate nc zero
  let mut int3 : Array α := Array.replicate nc zero
  for el in P.els do
    let lb := lab el.lbl
    if lb.inCircuit != -1 then
      let n : Fin 3 → Nat := getn el.p
      let xs : V3 α := fun j => (node (n j)).x
      let ys : V3 α := fun j => (node (n j)).y
      let p := shapeP ys
      let q := shapeQ xs
      let a := area p q
      let r := (xs 0 + xs 1 + xs 2) / 3
      let bp := blk el.blk
      let cduct := if lb.wound then zero else bp.cduct
      let ci := lb.inCircuit.toNat
      int1 := int1.setIfInBounds ci (int1.getD ci zero + a)
      int2 := int2.setIfInBounds ci (int2.getD ci zero + 100 * a * cduct / r)
      int3 := int3.setIfInBounds ci (int3.getD ci zero + bp.Jre * a * 100)
  let cases : Array (Nat × α × α) := Array.ofFn (n := nc) (fun i =>
    circuitCase c001 (P.circProps.getD i.val { typ := 1, amps := zero, dvolts := zero }) (int1.getD i.val zero) (int2.getD i.val zero) (int3.getD i.val zero))
  let mut L : LinProb α := create nn P.bandwidth
  for el in P.els do
    let n : Fin 3 → Nat := getn el.p
    let xs : V3 α := fun j => (node (n j)).x
    let ys : V3 α := fun j => (node (n j)).y
    let rn := xs
    let p := shapeP ys
    let q := shapeQ xs
    let g : V3 α := fun j => match j with
      | 0 => (xs 2 + xs 1) / 2 | 1 => (xs 0 + xs 2) / 2 | 2 => (xs 1 + xs 0) / 2
    let l : V3 α := fun j =>
      let kk := nxt j
      k.sqrt (k.sq (xs kk - xs j) + k.sq (ys kk - ys j))
    let a := area p q
    let R := (xs 0 + xs 1 + xs 2) / 3
    let aHat := ((0 + rn 0 * rn 0 * p 0 / (4 * R)) + rn 1 * rn 1 * p 1 / (4 * R)) + rn 2 * rn 2 * p 2 / (4 * R)
    let Rh := rHat x rn q R
    -- upper triangles
    let Kx : α := -1 / (2 * aHat * R)
    let mut mx : Array α := Array.replicate 9 zero
    for j in [(0 : Fin 3), 1, 2] do
      for kk in [(0 : Fin 3), 1, 2] do
        if j.val ≤ kk.val then
          mx := mx.setIfInBounds (j.val * 3 + kk.val) (0 + Kx * p j * rn j * p kk * rn kk)
    let mg (m : Array α) (a b : Nat) : α := m.getD (a * 3 + b) zero
    for j in [(0 : Fin 3), 1, 2] do
      if rn j < x.tiny then
        mx := mx.setIfInBounds (j.val * 3 + j.val) (mg mx j.val j.val + (mg mx 0 0 + mg mx 1 1 + mg mx 2 2))
    let Ky : α := -1 / (2 * aHat * Rh)
    let mut my : Array α := Array.replicate 9 zero
    let mut mxy : Array α := Array.replicate 9 zero
    for j in [(0 : Fin 3), 1, 2] do
      for kk in [(0 : Fin 3), 1, 2] do
        if j.val ≤ kk.val then
          my := my.setIfInBounds (j.val * 3 + kk.val) (0 + Ky * (q j * rn j) * (q kk * rn kk) * (g j / R) * (g kk / R))
          mxy := mxy.setIfInBounds (j.val * 3 + kk.val)
            (0 + (Ky * ((q j * rn j) * (g j / R)) * (p kk * rn kk) + Ky * ((q kk * rn kk) * (g kk / R)) * (p j * rn j)))
    for (a, b) in [(1, 0), (2, 0), (2, 1)] do
      mx := mx.setIfInBounds (a * 3 + b) (mg mx b a)
      my := my.setIfInBounds (a * 3 + b) (mg my b a)
      mxy := mxy.setIfInBounds (a * 3 + b) (mg mxy b a)
    let mut me : Array α := Array.replicate 9 zero
    let mut be : Array α := Array.replicate 3 zero
    for j in [(0 : Fin 3), 1, 2] do
      let e := geti el.e j
      if e ≥ 0 then
        let lp := lineProp e
        if lp.fmt == 2 then
          let kk := nxt j
          let r := (xs j + xs kk) / 2
          let Kb := -c0001 * k.c * 2 * r * lp.c0 * l j / 6
          me := me.setIfInBounds (j.val * 3 + j.val) (mg me j.val j.val + Kb * 2)
          me := me.setIfInBounds (kk.val * 3 + kk.val) (mg me kk.val kk.val + Kb * 2)
          me := me.setIfInBounds (j.val * 3 + kk.val) (mg me j.val kk.val + Kb)
          me := me.setIfInBounds (kk.val * 3 + j.val) (mg me kk.val j.val + Kb)
          let K2 := (lp.c1 * l j / 2) * c0001 * 2 * r
          be := be.setIfInBounds j.val (be.getD j.val zero + K2)
          be := be.setIfInBounds kk.val (be.getD kk.val zero + K2)
    let lb := lab el.lbl
    let bp := blk el.blk
    let mut t : α := 0
    if lb.inCircuit ≥ 0 then
      let (cs, cj, cdv) := cases.getD lb.inCircuit.toNat (0, zero, zero)
      if cs == 1 then t := cj
      if cs == 0 then t := -100 * cdv * bp.cduct / R
    for j in [0, 1, 2] do
      let Kj := -2 * R * (bp.Jre + t) * a / 3
      be := be.setIfInBounds j (be.getD j zero + Kj)
    let md := lb.magDir
    for j in [(0 : Fin 3), 1, 2] do
      let kk := nxt j
      let r := (xs j + xs kk) / 2
      let Km := -c0001 * r * bp.Hc * (k.cos (md * k.pi / 180) * (xs kk - xs j) + k.sin (md * k.pi / 180) * (ys kk - ys j))
      be := be.setIfInBounds j.val (be.getD j.val zero + Km)
      be := be.setIfInBounds kk.val (be.getD kk.val zero + Km)
    let (m1, m2) := firstPassMuAxi bp
    let (mu1, mu2) : α × α :=
      if x.external.getD el.lbl false then
        let Z := (ys 0 + ys 1 + ys 2) / 3 - x.extZo
        let kl := (R * R + Z * Z) * x.extRi / (x.extRo * x.extRo * x.extRo)
        (m1 / kl, m2 / kl)
      else (m1, m2)
    for j in [(0 : Fin 3), 1, 2] do
      for kk in [(0 : Fin 3), 1, 2] do
        me := me.setIfInBounds (j.val * 3 + kk.val)
          (mg me j.val kk.val + (mg mx j.val kk.val / mu2 + mg my j.val kk.val / mu1 + mg mxy j.val kk.val * 0 + 0))
        be := be.setIfInBounds j.val (be.getD j.val zero + 0 * 0)
    for j in [(0 : Fin 3), 1, 2] do
      for kk in [(0 : Fin 3), 1, 2] do
        if j.val ≤ kk.val then
          L := put L (get L (n j) (n kk) - mg me j.val kk.val) (n j) (n kk)
      L := setB L (n j) (getB L (n j) - be.getD j.val zero)
  for i in [0:nn] do
    let nd := node i
    if nd.bm ≥ 0 then
      let pp := P.nodeProps.getD nd.bm.toNat { Jre := zero, Jim := zero, Are := zero }
      L := setB L i (getB L i + c001 * pp.Jre * 2 * nd.x)
  for i in [0:nn] do
    let nd := node i
    if x.abs nd.x < k.ucm * x.tiny then L := setValue L i 0
    else if nd.bm ≥ 0 then
      let pp := P.nodeProps.getD nd.bm.toNat { Jre := zero, Jim := zero, Are := zero }
      if pp.Jre == 0 && pp.Jim == 0 then
        L := setValue L i (pp.Are / k.c)
  for el in P.els do
    for j in [(0 : Fin 3), 1, 2] do
      let kk := nxt j
      let e := geti el.e j
      if e ≥ 0 then
        let lp := lineProp e
        if lp.fmt == 0 then
          let n0 := getn el.p j
          let n1 := getn el.p kk
          if !((node n0).x == 0) then L := setValue L n0 (prescribedA k P.polar lp (node n0).x (node n0).y)
          if !((node n1).x == 0) then L := setValue L n1 (prescribedA k P.polar lp (node n1).x (node n1).y)
  for (a, b, t) in P.pbc do
    if t == 0 then L := periodicity L a b
    if t == 1 then L := antiPeriodicity L a b
  return L

end Axi

end XfemmVerif.MSolver
