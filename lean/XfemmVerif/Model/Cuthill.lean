/-
Model of `cfemm/libfemm/cuthill.cpp` (`FEASolver::Cuthill`, `FEASolver::SortElements`; shared by fsolver, esolver and
hsolver) — executable, core Lean only.

The C++ reads the `.edge` file twice (degree count, then adjacency in file order), bubble-sorts every adjacency list by
the degree of the neighbour, picks a start node of smallest degree (with its early exit at degree two), numbers the nodes
breadth first (restarting at an unvisited node of smallest degree when a component is exhausted), computes the band width,
renumbers the elements, permutes the nodes (`SortNodes`) and comb-sorts the elements by the sum of their node numbers.

`-1` ("not numbered yet") is `none`.  Every function follows the C++ statement by statement; the places where the C++
would read outside its arrays or spin are the `none` results of `step` / `loop`, which `Properties/C03.lean` proves
unreachable for every edge list over at least two nodes (`cuthill_total`), together with: the numbering is a bijection
on the node indices (`cuthill_perm`).
-/
namespace XfemmVerif.Cuthill

/-- `numcon[i]++` -/
def bump (a : Array Nat) (i : Nat) : Array Nat := a.setIfInBounds i (a.getD i 0 + 1)

/-- first pass over the `.edge` file: the number of connections of every node -/
def numcon (n : Nat) (es : List (Nat × Nat)) : Array Nat :=
  es.foldl (fun a e => bump (bump a e.1) e.2) (Array.replicate n 0)

/-- `ocon[i][nxtnum[i]] = v; nxtnum[i]++` -/
def pushAdj (o : Array (List Nat)) (i v : Nat) : Array (List Nat) := o.setIfInBounds i (o.getD i [] ++ [v])

/-- second pass: the adjacency lists in file order -/
def ocon (n : Nat) (es : List (Nat × Nat)) : Array (List Nat) :=
  es.foldl (fun o e => pushAdj (pushAdj o e.1 e.2) e.2 e.1) (Array.replicate n [])

/-- one sweep `for(j=1;j<m;j++) if(key[l[j]]<key[l[j-1]]) swap` of the bubble sort -/
def bubblePass (key : Nat → Nat) : List Nat → List Nat
  | a :: b :: rest =>
    if key b < key a then b :: bubblePass key (a :: rest) else a :: bubblePass key (b :: rest)
  | l => l
termination_by l => l.length

/-- the `m - 1` sweeps (`for(i=1;i<m;i++)`) -/
def sortAdj (key : Nat → Nat) (l : List Nat) : List Nat := Nat.repeat (bubblePass key) (l.length - 1) l

/-- the search for a start node: `j=numcon[0]; n0=0; for(i=1;i<N;i++){ if(numcon[i]<j){j=numcon[i];n0=i;} if(j==2) i=n_lines; }`
    (the assignment `i = n_lines` leaves the loop only when the file has at least as many lines as there are nodes - true of every
    triangulation; with fewer lines the C++ resumes at `n_lines + 1`, and the fuel of the model ends what would not end there) -/
def startLoop (nc : Array Nat) (N nlines : Nat) : Nat → Nat → Nat → Nat → Nat
  | 0, _, _, n0 => n0
  | fuel + 1, i, j, n0 =>
    if i < N then
      let jn := if nc.getD i 0 < j then (nc.getD i 0, i) else (j, n0)
      startLoop nc N nlines fuel (if jn.1 = 2 then nlines + 1 else i + 1) jn.1 jn.2
    else n0

def startNode (nc : Array Nat) (N nlines : Nat) : Nat := startLoop nc N nlines N 1 (nc.getD 0 0) 0

structure St where
  newnum : Array (Option Nat)
  nxtnum : Array (Option Nat)
  n : Nat
  n0 : Nat

/-- `if (newnum[c]<0){ newnum[c]=n; nxtnum[n]=c; n++; }` -/
def visit1 (s : St) (c : Nat) : St :=
  match s.newnum.getD c none with
  | some _ => s
  | none => { s with newnum := s.newnum.setIfInBounds c (some s.n), nxtnum := s.nxtnum.setIfInBounds s.n (some c), n := s.n + 1 }

/-- the neighbours of the current node, in order of increasing connectivity -/
def visit (s : St) (nbrs : List Nat) : St := nbrs.foldl visit1 s

/-- `for(i=0;i<N;i++) if(newnum[i]<0){ j=numcon[i]; n0=i; break; }` -/
def firstUnvisited (nn : Array (Option Nat)) (N : Nat) : Option Nat :=
  (List.range N).find? (fun i => (nn.getD i none).isNone)

/-- `for(i=0;i<N;i++){ if((newnum[i]<0)&&(numcon[i]<j)){ j=numcon[i]; n0=i; } if(j==2) break; }` -/
def restartScan (nn : Array (Option Nat)) (nc : Array Nat) : List Nat → Nat → Nat → Nat
  | [], _, n0 => n0
  | i :: rest, j, n0 =>
    let jn := if (nn.getD i none).isNone && nc.getD i 0 < j then (nc.getD i 0, i) else (j, n0)
    if jn.1 = 2 then jn.2 else restartScan nn nc rest jn.1 jn.2

/-- one pass of the body of `do { … } while(n<NumNodes)`; `none` = the C++ would read an unnumbered `newnum[n0]` or find no
    unvisited node (proved unreachable) -/
def step (nc : Array Nat) (oc : Array (List Nat)) (N : Nat) (s : St) : Option St :=
  let s1 := visit s (oc.getD s.n0 [])
  match s1.newnum.getD s.n0 none with
  | none => none
  | some k =>
    match s1.nxtnum.getD (k + 1) none with
    | some m => some { s1 with n0 := m }
    | none =>
      match firstUnvisited s1.newnum N with
      | none => none
      | some i0 =>
        let m := restartScan s1.newnum nc (List.range N) (nc.getD i0 0) i0
        some { newnum := s1.newnum.setIfInBounds m (some s1.n), nxtnum := s1.nxtnum.setIfInBounds s1.n (some m),
               n := s1.n + 1, n0 := m }

/-- the `do … while(n<N)` loop; the fuel is the number of nodes (every pass advances the number of the current node) -/
def loop (nc : Array Nat) (oc : Array (List Nat)) (N : Nat) : Nat → St → Option St
  | 0, _ => none
  | fuel + 1, s =>
    match step nc oc N s with
    | none => none
    | some s' => if s'.n < N then loop nc oc N fuel s' else some s'

/-- state before the loop: `newnum[n0]=0; n=1; nxtnum[0]=n0` -/
def initSt (N n0 : Nat) : St :=
  { newnum := (Array.replicate N none).setIfInBounds n0 (some 0), nxtnum := (Array.replicate N none).setIfInBounds 0 (some n0),
    n := 1, n0 := n0 }

structure Result where
  newnum : Array Nat
  bandwidth : Nat

def absDiff (a b : Nat) : Nat := if a < b then b - a else a - b

/-- `Cuthill()` up to the band width: the new number of every node and `BandWidth` -/
def cuthill (N : Nat) (es : List (Nat × Nat)) : Option Result :=
  let nc := numcon N es
  let oc := (ocon N es).map (sortAdj (fun c => nc.getD c 0))
  let n0 := startNode nc N es.length
  match loop nc oc N N (initSt N n0) with
  | none => none
  | some s =>
    let nn := s.newnum.map (fun o => o.getD 0)
    let wide := (List.range N).foldl (fun w a => (oc.getD a []).foldl (fun w c => max w (absDiff (nn.getD a 0) (nn.getD c 0))) w) 0
    some { newnum := nn, bandwidth := wide + 1 }

/-! ### elements: renumbering and `SortElements` (comb sort on the sum of the node numbers) -/

structure Elem where
  p0 : Nat
  p1 : Nat
  p2 : Nat
  lbl : Int
  deriving Repr, BEq, DecidableEq

def renumber (nn : Array Nat) (e : Elem) : Elem :=
  { e with p0 := nn.getD e.p0 0, p1 := nn.getD e.p1 0, p2 := nn.getD e.p2 0 }

def score (e : Elem) : Nat := e.p0 + e.p1 + e.p2

/-- a single comb over the list with the given gap; the flag says whether anything was swapped -/
def combPass (a : Array (Nat × Elem)) (gap : Nat) : Array (Nat × Elem) × Bool :=
  (List.range (a.size - gap)).foldl (fun (st : Array (Nat × Elem) × Bool) j =>
    match st.1[j]?, st.1[j + gap]? with
    | some x, some y => if x.1 > y.1 then (st.1.swapIfInBounds j (j + gap), true) else st
    | _, _ => st) (a, false)

def nextGap (gap : Nat) : Nat :=
  if gap > 1 then (let g := gap * 10 / 13; if g = 10 ∨ g = 9 then 11 else g) else gap

/-- `do { … } while((gap>1)&&(i>0))` — NOT a complete sort: it stops after the first comb without a swap, and after the single
    comb with gap one; the elements come out as a permutation, roughly ordered -/
def combLoop : Nat → Array (Nat × Elem) → Nat → Array (Nat × Elem)
  | 0, a, _ => a
  | fuel + 1, a, gap =>
    let g := nextGap gap
    let r := combPass a g
    if g > 1 ∧ r.2 then combLoop fuel r.1 g else r.1

def sortElements (els : List Elem) : List Elem :=
  let a := (els.map (fun e => (score e, e))).toArray
  ((combLoop (a.size + 2) a a.size).toList).map (·.2)

/-- the element list the solver works with (and writes to the solution file) -/
def elements (nn : Array Nat) (els : List Elem) : List Elem := sortElements (els.map (renumber nn))

/-! ### `SortNodes(newnum)` (one copy per solver, identical): the nodes are moved to their new positions in place, by following
    the cycles of `newnum`:
    `for(i=0;i<N;i++) while(newnum[i]!=i){ j=newnum[i]; swap(newnum[i],newnum[j]); swap(meshnode[i],meshnode[j]); }`
    Both arrays are swapped at the same two positions, so the model keeps one array of (new number, node) pairs. -/

/-- the `while` loop at position `i`; `none` = the fuel is used up, where the C++ would not leave the loop (or, for a number outside
    the array, would write outside it) -/
def settle {β : Type} : Nat → Nat → Array (Nat × β) → Option (Array (Nat × β))
  | 0, _, _ => none
  | fuel + 1, i, a =>
    match a[i]? with
    | none => some a
    | some (j, _) => if j = i then some a else if j < a.size then settle fuel i (a.swapIfInBounds i j) else none

/-- the `for` loop over all positions -/
def sortNodesLoop {β : Type} (a : Array (Nat × β)) : Option (Array (Nat × β)) :=
  (List.range a.size).foldlM (fun b i => settle (a.size + 1) i b) a

/-- `SortNodes`: the node list after the permutation, `none` if the loop does not end -/
def sortNodes {β : Type} (newnum : Array Nat) (nodes : Array β) : Option (Array β) :=
  (sortNodesLoop (newnum.zip nodes)).map (fun a => a.map (·.2))

end XfemmVerif.Cuthill
