import XfemmVerif.Model.Heat
import XfemmVerif.Properties.C03
import Mathlib.Algebra.Order.Field.Basic
import Mathlib.Tactic.Ring
import Mathlib.Tactic.Linarith
import Mathlib.Tactic.FieldSimp
/-!
# C04 — the heat-flow solution satisfies the discrete conduction equations and heat balance

The heat assembler shares its element matrix with the electrostatic one (`ESolver.stiff` with the
conductivities in place of the permittivities: theorems of `Properties/C03.lean` apply verbatim) and
its elimination / accumulation logic.  Proved here, over any ordered field: the conductivity table
`GetK` is clamped outside the table, exact at its knots, continuous across knots and bounded by its
neighbouring knot values; the radiation boundary linearisation is exact at a fixed point of the
iteration; the lumped transient term vanishes for a stationary field.
Decided per run by the independent nonlinear SI oracle on the real `.anh` (labelled partial):
the global statement for all boundary types incl. Picard convergence.
-/
namespace XfemmVerif.C04
open XfemmVerif.Heat

variable {α : Type} [Field α] [LinearOrder α] [IsStrictOrderedRing α]

/-- below the table the first conductivity is used -/
theorem getK_clamped_low (t0 k0 : α) (rest : List (α × α)) (dflt t : α) (h : t ≤ t0) :
    getK ((t0, k0) :: rest) dflt t = k0 := by
  cases rest with
  | nil => rfl
  | cons b r => simp [getK, h]

/-- above the table the last conductivity is used -/
theorem getK_clamped_high (t0 k0 : α) (b : α × α) (r : List (α × α)) (dflt t : α)
    (hlow : ¬ t ≤ t0) (h : (((b :: r).getLast?).getD (t0, k0)).1 ≤ t) :
    getK ((t0, k0) :: b :: r) dflt t = (((b :: r).getLast?).getD (t0, k0)).2 := by
  simp [getK, hlow, h]

/-- on a segment the value is the linear interpolant -/
theorem getKSeg_head (ti ki tj kj : α) (rest : List (α × α)) (dflt t : α) (h1 : ti ≤ t) (h2 : t ≤ tj) :
    getKSeg t dflt ((ti, ki) :: (tj, kj) :: rest) = ki + (kj - ki) * (t - ti) / (tj - ti) := by
  simp [getKSeg, h1, h2]

/-- **exact at knots and continuous across them**: approaching a knot `T_j` from the segment on its left
    gives `k_j`, and the segment on its right starts at `k_j` -/
theorem interp_at_right_knot (ti ki tj kj : α) (h : ti < tj) :
    ki + (kj - ki) * (tj - ti) / (tj - ti) = kj := by
  have : tj - ti ≠ 0 := by
    intro h0; have : tj = ti := by linarith
    rw [this] at h; exact lt_irrefl _ h
  field_simp
  ring

theorem interp_at_left_knot (ti ki tj kj : α) :
    ki + (kj - ki) * (ti - ti) / (tj - ti) = ki := by
  simp

/-- **bounded by the neighbouring knot values** (no overshoot): for `T_i ≤ t ≤ T_j` the interpolant lies
    between `k_i` and `k_j` -/
theorem interp_between (ti ki tj kj t : α) (hij : ti < tj) (h1 : ti ≤ t) (h2 : t ≤ tj) :
    min ki kj ≤ ki + (kj - ki) * (t - ti) / (tj - ti) ∧ ki + (kj - ki) * (t - ti) / (tj - ti) ≤ max ki kj := by
  have hd : 0 < tj - ti := by linarith
  set s := (t - ti) / (tj - ti) with hs
  have hs0 : 0 ≤ s := div_nonneg (by linarith) hd.le
  have hs1 : s ≤ 1 := by rw [hs, div_le_one hd]; linarith
  have e : ki + (kj - ki) * (t - ti) / (tj - ti) = (1 - s) * ki + s * kj := by
    rw [hs]; field_simp; ring
  rw [e]
  constructor
  · have h1' : min ki kj ≤ ki := min_le_left _ _
    have h2' : min ki kj ≤ kj := min_le_right _ _
    nlinarith [mul_le_mul_of_nonneg_left h1' (by linarith : 0 ≤ 1 - s), mul_le_mul_of_nonneg_left h2' hs0]
  · have h1' : ki ≤ max ki kj := le_max_left _ _
    have h2' : kj ≤ max ki kj := le_max_right _ _
    nlinarith [mul_le_mul_of_nonneg_left h1' (by linarith : 0 ≤ 1 - s), mul_le_mul_of_nonneg_left h2' hs0]

/-- **radiation**: with the linearisation point `Tl` equal to the temperature itself (fixed point of the
    iteration) the linearised boundary term `c0·T + c1` is the Stefan–Boltzmann flux `βσ(T⁴ − T∞⁴)` -/
theorem radiation_fixed_point (beta ksb Tl Tinf : α) :
    (4 * beta * ksb * Tl ^ 3) * Tl + (-(beta * ksb * (Tinf ^ 4 + 3 * Tl ^ 4))) = beta * ksb * (Tl ^ 4 - Tinf ^ 4) := by
  ring

/-- convection as the special mixed condition `c0 = h`, `c1 = -h·T∞`: `c0·T + c1 = h (T − T∞)` -/
theorem convection_term (h T Tinf : α) : h * T + (-h * Tinf) = h * (T - Tinf) := by ring

/-- **transient term**: the lumped contribution `K·T − K·T_prev` (with `K = Depth·C·a/(3Δt)`) vanishes
    for a field that did not change, so a stationary solution solves the transient equations -/
theorem transient_term_stationary (K T : α) : K * T - K * T = 0 := by ring

/-! non-vacuity -/
example : getK [((250 : ℚ), 1), (300, 2), (400, 5)] 0 275 = 3 / 2 := by
  unfold getK getKSeg; norm_num
example : getK [((250 : ℚ), 1), (300, 2), (400, 5)] 0 500 = 5 := by
  unfold getK; norm_num

end XfemmVerif.C04
