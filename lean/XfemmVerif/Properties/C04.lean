import XfemmVerif.Model.Heat
import XfemmVerif.Model.HSolver
import XfemmVerif.Properties.C03
import Mathlib.Algebra.Order.Field.Basic
import Mathlib.Tactic.Ring
import Mathlib.Tactic.Linarith
import Mathlib.Tactic.FieldSimp
/-!
# C04 — the heat-flow solution satisfies the discrete conduction equations and heat balance

The heat assembler shares its element matrix with the electrostatic one (`ESolver.stiff` with the
conductivities in place of the permittivities: theorems of `Properties/C03.lean` apply verbatim) and
its elimination / accumulation logic.  Proved here, over any ordered field: the conductivity table
`GetK` is clamped outside the table, exact at its knots, continuous across knots and bounded by its
neighbouring knot values; the radiation boundary linearisation is exact at a fixed point of the
iteration; the lumped transient term vanishes for a stationary field.
The whole assembly of one pass (`Model/HSolver.lean`: conductivity averaging, transient term, heat generation, flux /
convection / radiation edges planar and axisymmetric, elimination, floating conductors, point sources, ties, conductor rows)
is compared bit for bit with the system the real `HSolver::AnalyzeProblem` hands to `PCGSolve`; its boundary-term functions are
proved here to balance at the ambient temperature, to carry the exact edge integrals, and to reproduce the Stefan-Boltzmann law.
Decided per run by the independent nonlinear SI oracle on the real `.anh` (labelled partial):
the global statement for all boundary types incl. Picard convergence.
-/
namespace XfemmVerif.C04
open XfemmVerif.Heat

variable {α : Type} [Field α] [LinearOrder α] [IsStrictOrderedRing α]

/-- below the table the first conductivity is used -/
theorem getK_clamped_low (t0 k0 : α) (rest : List (α × α)) (dflt t : α) (h : t ≤ t0) :
    getK ((t0, k0) :: rest) dflt t = k0 := by
  cases rest with
  | nil => rfl
  | cons b r => simp [getK, h]

/-- above the table the last conductivity is used -/
theorem getK_clamped_high (t0 k0 : α) (b : α × α) (r : List (α × α)) (dflt t : α)
    (hlow : ¬ t ≤ t0) (h : (((b :: r).getLast?).getD (t0, k0)).1 ≤ t) :
    getK ((t0, k0) :: b :: r) dflt t = (((b :: r).getLast?).getD (t0, k0)).2 := by
  simp [getK, hlow, h]

/-- on a segment the value is the linear interpolant -/
theorem getKSeg_head (ti ki tj kj : α) (rest : List (α × α)) (dflt t : α) (h1 : ti ≤ t) (h2 : t ≤ tj) :
    getKSeg t dflt ((ti, ki) :: (tj, kj) :: rest) = ki + (kj - ki) * (t - ti) / (tj - ti) := by
  simp [getKSeg, h1, h2]

/-- **exact at knots and continuous across them**: approaching a knot `T_j` from the segment on its left
    gives `k_j`, and the segment on its right starts at `k_j` -/
theorem interp_at_right_knot (ti ki tj kj : α) (h : ti < tj) :
    ki + (kj - ki) * (tj - ti) / (tj - ti) = kj := by
  have : tj - ti ≠ 0 := by
    intro h0; have : tj = ti := by linarith
    rw [this] at h; exact lt_irrefl _ h
  field_simp
  ring

theorem interp_at_left_knot (ti ki tj kj : α) :
    ki + (kj - ki) * (ti - ti) / (tj - ti) = ki := by
  simp

/-- **bounded by the neighbouring knot values** (no overshoot): for `T_i ≤ t ≤ T_j` the interpolant lies
    between `k_i` and `k_j` -/
theorem interp_between (ti ki tj kj t : α) (hij : ti < tj) (h1 : ti ≤ t) (h2 : t ≤ tj) :
    min ki kj ≤ ki + (kj - ki) * (t - ti) / (tj - ti) ∧ ki + (kj - ki) * (t - ti) / (tj - ti) ≤ max ki kj := by
  have hd : 0 < tj - ti := by linarith
  set s := (t - ti) / (tj - ti) with hs
  have hs0 : 0 ≤ s := div_nonneg (by linarith) hd.le
  have hs1 : s ≤ 1 := by rw [hs, div_le_one hd]; linarith
  have e : ki + (kj - ki) * (t - ti) / (tj - ti) = (1 - s) * ki + s * kj := by
    rw [hs]; field_simp; ring
  rw [e]
  constructor
  · have h1' : min ki kj ≤ ki := min_le_left _ _
    have h2' : min ki kj ≤ kj := min_le_right _ _
    nlinarith [mul_le_mul_of_nonneg_left h1' (by linarith : 0 ≤ 1 - s), mul_le_mul_of_nonneg_left h2' hs0]
  · have h1' : ki ≤ max ki kj := le_max_left _ _
    have h2' : kj ≤ max ki kj := le_max_right _ _
    nlinarith [mul_le_mul_of_nonneg_left h1' (by linarith : 0 ≤ 1 - s), mul_le_mul_of_nonneg_left h2' hs0]

/-- **radiation**: with the linearisation point `Tl` equal to the temperature itself (fixed point of the
    iteration) the linearised boundary term `c0·T + c1` is the Stefan–Boltzmann flux `βσ(T⁴ − T∞⁴)` -/
theorem radiation_fixed_point (beta ksb Tl Tinf : α) :
    (4 * beta * ksb * Tl ^ 3) * Tl + (-(beta * ksb * (Tinf ^ 4 + 3 * Tl ^ 4))) = beta * ksb * (Tl ^ 4 - Tinf ^ 4) := by
  ring

/-- convection as the special mixed condition `c0 = h`, `c1 = -h·T∞`: `c0·T + c1 = h (T − T∞)` -/
theorem convection_term (h T Tinf : α) : h * T + (-h * Tinf) = h * (T - Tinf) := by ring

/-- **transient term**: the lumped contribution `K·T − K·T_prev` (with `K = Depth·C·a/(3Δt)`) vanishes
    for a field that did not change, so a stationary solution solves the transient equations -/
theorem transient_term_stationary (K T : α) : K * T - K * T = 0 := by ring

/-! non-vacuity -/
example : getK [((250 : ℚ), 1), (300, 2), (400, 5)] 0 275 = 3 / 2 := by
  unfold getK getKSeg; norm_num
example : getK [((250 : ℚ), 1), (300, 2), (400, 5)] 0 500 = 5 := by
  unfold getK; norm_num


/-! ### boundary terms of the assembly model (`Model/HSolver.lean`, compared bit for bit with the real `HSolver::AnalyzeProblem`) -/
section BoundaryTerms
open XfemmVerif.HSolver
variable {β : Type} [Field β] [CharZero β] [DecidableEq β]

/-- **a surface at the ambient temperature exchanges no heat** (planar convection edge): with `c0 = h`, `c1 = −h·T∞` the row of
    the edge matrix `[2K K; K 2K]` applied to the uniform temperature `T∞` equals the edge's right-hand side -/
theorem planar_convection_equilibrium (depth h Tinf l : β) :
    (planarEdgeK depth h l * 2 + planarEdgeK depth h l) * Tinf = planarEdgeK2 depth (-h * Tinf) l := by
  simp only [planarEdgeK, planarEdgeK2]; ring

/-- the same for an axisymmetric edge between radii `xj`, `xk`: both rows -/
theorem axi_convection_equilibrium (pi h Tinf l xj xk : β) :
    (axiWjj (axiEdgeK pi h l) xj xk + axiWjk (axiEdgeK pi h l) xj xk) * Tinf = axiBj (axiEdgeK2 pi (-h * Tinf) l) xj xk ∧
    (axiWkk (axiEdgeK pi h l) xj xk + axiWjk (axiEdgeK pi h l) xj xk) * Tinf = axiBk (axiEdgeK2 pi (-h * Tinf) l) xj xk := by
  simp only [axiWjj, axiWkk, axiWjk, axiBj, axiBk, axiEdgeK, axiEdgeK2]
  constructor <;> ring

/-- row sums of the axisymmetric edge matrix are `−2π·c0` times the exact integrals `∫ N_j r ds = l (2 x_j + x_k)/6` of the
    shape functions against the radius — the weights a revolved edge must carry -/
theorem axi_edge_row_sums (pi c0 l xj xk : β) :
    axiWjj (axiEdgeK pi c0 l) xj xk + axiWjk (axiEdgeK pi c0 l) xj xk = -2 * pi * c0 * (l * (2 * xj + xk) / 6) ∧
    axiWkk (axiEdgeK pi c0 l) xj xk + axiWjk (axiEdgeK pi c0 l) xj xk = -2 * pi * c0 * (l * (xj + 2 * xk) / 6) := by
  simp only [axiWjj, axiWkk, axiWjk, axiEdgeK]
  constructor <;> ring

/-- the planar edge matrix has the row sum `−depth·c0·l/2` (exact integral of a shape function over the edge) -/
theorem planar_edge_row_sum (depth c0 l : β) : planarEdgeK depth c0 l * 2 + planarEdgeK depth c0 l = -depth * c0 * (l / 2) := by
  simp only [planarEdgeK]; ring

/-- **radiation**: the coefficients the model (and, bit for bit, the code) uses for a radiating edge, evaluated at the
    linearisation point itself, give back the Stefan–Boltzmann law `βσ(T⁴ − T∞⁴)` -/
theorem radiation_coefficients_exact (k : HConsts β) (lp : HBdryProp β) (T : β) (hf : lp.fmt = 3)
    (hpow : ∀ x n, k.pow x n = x ^ n) :
    (bcCoeffs k lp T).1 * T + (bcCoeffs k lp T).2 = lp.beta * k.ksb * (T ^ 4 - lp.Tinf ^ 4) := by
  simp only [bcCoeffs, hf, hpow]
  norm_num
  ring

/-- heat-flux and convection edges get the documented coefficients -/
theorem flux_coefficients (k : HConsts β) (lp : HBdryProp β) (T : β) (hf : lp.fmt = 1) : bcCoeffs k lp T = (0, lp.qs) := by
  simp [bcCoeffs, hf]

theorem convection_coefficients (k : HConsts β) (lp : HBdryProp β) (T : β) (hf : lp.fmt = 2) :
    bcCoeffs k lp T = (lp.h, -lp.h * lp.Tinf) := by
  simp [bcCoeffs, hf]

end BoundaryTerms

end XfemmVerif.C04
