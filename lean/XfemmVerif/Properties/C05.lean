import XfemmVerif.Model.Magnetics
import XfemmVerif.Model.MSolver
import XfemmVerif.Model.MHarmonic
import XfemmVerif.Lemmas.ComplexField
import XfemmVerif.Properties.C03
import Mathlib.Tactic.Ring
import Mathlib.Tactic.FieldSimp
import Mathlib.Algebra.Field.Basic
import Mathlib.Algebra.CharZero.Defs
/-!
# C05 — static and time-harmonic magnetic solutions satisfy the discrete field equations

Proved here over any field: the laminated-material permeabilities are the parallel (along the sheets)
and series (across the sheets) combinations of iron and air and reduce to the bulk values at fill 1;
the current density a circuit applies reproduces the circuit current exactly, for stranded regions
(flat density) and for conducting regions (density proportional to conductivity); the reluctivity
element matrix `Mx/μ₂ + My/μ₁` is the Galerkin form of the curl–curl operator (through the element
theorems of C03); the consistent-mass eddy matrix is symmetric with row sums `a/3`.
The whole first pass of `Static2D` and of `StaticAxisymmetric` (`Model/MSolver.lean`: circuit integrals and cases, element matrices,
mixed boundary terms, current and magnetisation sources, first-pass permeabilities, accumulation, point currents, prescribed
potentials through `SetValue`, ties) is compared bit for bit with the system the real solver hands to `PCGSolve`; its
permeability, circuit and prescription functions are related here to the ones the theorems above are about.
The whole first pass of `Harmonic2D` (`Model/MHarmonic.lean`, complex scalar `Cx α` with the `CComplex` operators) is compared the
same way with the system handed to `PBCGSolveMod`; proved about it (section `Harmonic`): the flat density of a stranded circuit
reproduces the complex circuit current, a circuit with conducting regions gets its own unknown (case 2), the eddy coefficient is
`−j a ω σ c / 12` in solid regions and zero in laminated and wound ones, the complex permeability reduces to the static
laminated permeability when there is no lag and no conductivity, a prescribed potential is `(a/c)(cos φ + j sin φ)`; at element level the
eddy block is `−jωσc` times the consistent mass matrix, the stiffness part is complex-symmetric, is the reluctivity form and annihilates
constants.
Decided per run by the independent SI oracle on the real `.ans` (labelled partial): the global
statement incl. prescribed-A boundaries, magnets, the time-harmonic system and its circuit unknowns.
-/
namespace XfemmVerif.C05
open XfemmVerif.Magnetics XfemmVerif.ESolver XfemmVerif.C03

variable {α : Type} [Field α]

/-- solid material (`LamType 0`, fill 1): the bulk permeabilities -/
theorem lamMu_solid (mux muy : α) : lamMu 0 1 mux muy = (mux, muy) := by
  simp [lamMu]

/-- laminated in x (`LamType 1`): along the sheets iron and air act in parallel, across them in series:
    `μ₁ = t μ + (1−t)` and `1/μ₂ = t/μ + (1−t)` -/
theorem lamMu_type1 (t mu : α) (hmu : mu ≠ 0) (hden : t + mu * (1 - t) ≠ 0) :
    (lamMu 1 t mu mu).1 = t * mu + (1 - t) ∧ 1 / (lamMu 1 t mu mu).2 = t / mu + (1 - t) := by
  constructor
  · simp [lamMu]; ring
  · simp only [lamMu]
    field_simp

/-- laminated in y (`LamType 2`): the roles of the axes swap -/
theorem lamMu_type2 (t mu : α) (hmu : mu ≠ 0) (hden : t + mu * (1 - t) ≠ 0) :
    (lamMu 2 t mu mu).2 = t * mu + (1 - t) ∧ 1 / (lamMu 2 t mu mu).1 = t / mu + (1 - t) := by
  constructor
  · simp [lamMu]; ring
  · simp only [lamMu]
    field_simp

/-- at fill factor 1 every lamination type gives the bulk permeability of its axis -/
theorem lamMu_fill_one (mu : α) (hmu : mu ≠ 0) :
    lamMu 1 1 mu mu = (mu, mu) ∧ lamMu 2 1 mu mu = (mu, mu) := by
  constructor <;> simp [lamMu]

/-- **stranded circuit**: the flat density `J = (I − ∫J_b)/A` added to the block density carries exactly
    the circuit current `I` through the region of area `A` (`∫(J_b + J) = I`).  In the solver's units the
    factor `0.01` and its inverse `100` cancel: `100·J·A + Int3 = Amps`. -/
theorem circuit_J_reproduced (h100 hundredth amps int3 int1 : α) (hA : int1 ≠ 0)
    (hc : h100 * hundredth = 1) :
    h100 * circuitJ hundredth amps int3 int1 * int1 + int3 = amps := by
  unfold circuitJ
  field_simp
  linear_combination (amps - int3) * hc

/-- **conducting circuit**: the density `−σ_e·dV` integrated over the elements (`Σ a_e σ_e = Int2`) plus the
    block currents is the circuit current -/
theorem circuit_dV_reproduced (h100 hundredth amps int3 int2 : α) (hA : int2 ≠ 0)
    (hc : h100 * hundredth = 1) :
    h100 * (-(circuitDV hundredth amps int3 int2)) * int2 + int3 = amps := by
  unfold circuitDV
  field_simp
  linear_combination (amps - int3) * hc

/-- the reluctivity element matrix `Mx/μ₂ + My/μ₁` is `ESolver.stiff` with unit depth and the
    reluctivities as coefficients: all element theorems of C03 (Galerkin form, symmetry, zero row sums,
    exactness for affine potentials) apply -/
theorem reluctivity_element_is_stiff (mu1 mu2 a : α) (p q : V3 α) (j k : Fin 3) :
    stiff 1 (1 / mu2) (1 / mu1) a 1 p q j k =
      (-1 / (4 * a)) * p j * p k / mu2 + (-1 / (4 * a)) * q j * q k / mu1 := by
  rw [stiff_entry]; ring

/-- consistent-mass matrix of the eddy-current term `jωσ·a·(2,1,1;1,2,1;1,1,2)/12`: symmetric, rows sum to `a/3` -/
def mass (a : α) (j k : Fin 3) : α := if j = k then 2 * a / 12 else a / 12

theorem mass_symm (a : α) (j k : Fin 3) : mass a j k = mass a k j := by
  unfold mass; by_cases h : j = k
  · simp [h]
  · have : ¬ k = j := fun h' => h h'.symm
    simp [h, this]

theorem mass_rowsum [CharZero α] (a : α) (j : Fin 3) : sum3 (fun k => mass a j k) = a / 3 := by
  unfold sum3 mass
  have h12 : (12 : α) ≠ 0 := Ne.symm (OfNat.zero_ne_ofNat 12)
  have h3 : (3 : α) ≠ 0 := Ne.symm (OfNat.zero_ne_ofNat 3)
  fin_cases j <;> simp <;> field_simp <;> ring

/-! non-vacuity -/
example : lamMu 1 (1/2 : ℚ) 100 100 = (101/2, 200/101) := by
  unfold lamMu; norm_num
example : (100 : ℚ) * circuitJ (1/100) 5 1 2 * 2 + 1 = 5 := by
  unfold circuitJ; norm_num


/-! ### the assembly model of the first pass (`Model/MSolver.lean`, compared bit for bit with the real `FSolver::Static2D`) -/
section Assembly
open XfemmVerif.MSolver
variable {β : Type} [Field β] [DecidableEq β]

/-- the permeabilities the assembly model gives an element are the laminated-material permeabilities proved above -/
theorem firstPassMu_eq_lamMu (bp : MBlockProp β) :
    firstPassMu bp = lamMu bp.lamType bp.lamFill bp.mux bp.muy := by
  unfold firstPassMu lamMu
  rcases h : bp.lamType with _ | _ | _ | n
  · simp
  · simp
  · simp
  · simp

/-- **the element the planar magnetostatic assembly model adds** (`MSolver.magStiff`, inside the model that is compared bit for bit
    with `Static2D`) **is the shared element** `ESolver.stiff` with unit depth and the reluctivities as coefficients — so symmetry, zero
    row sums, the Galerkin form and the patch property (C03, C06) are statements about the assembled magnetostatic system -/
theorem magStiff_eq_stiff (a mu1 mu2 : β) (p q : V3 β) (j k : Fin 3) :
    magStiff (-1 / (4 * a)) mu1 mu2 p q j k = stiff 1 (1 / mu2) (1 / mu1) a 1 p q j k := by
  rw [reluctivity_element_is_stiff]
  fin_cases j <;> fin_cases k <;> simp [magStiff] <;> ring

/-- a current-driven circuit without conducting regions gets the flat current density `circuitJ` … -/
theorem circuitCase_flat (c001 : β) (cp : MCirc β) (int1 int3 : β) (ht : cp.typ = 0) (h1 : int1 ≠ 0) :
    circuitCase c001 cp int1 0 int3 = (1, circuitJ c001 cp.amps int3 int1, 0) := by
  simp [circuitCase, circuitJ, ht, h1]

/-- … one with conducting regions the voltage gradient `circuitDV`, and the density it induces in a region of conductivity
    `σ` is `−dV·σ` (so that the theorems `circuit_J_reproduced` / `circuit_dV_reproduced` above apply to the model) -/
theorem circuitCase_gradient (c001 : β) (cp : MCirc β) (int1 int2 int3 : β) (ht : cp.typ = 0) (h2 : int2 ≠ 0) :
    circuitCase c001 cp int1 int2 int3 = (0, 0, circuitDV c001 cp.amps int3 int2) := by
  simp [circuitCase, circuitDV, ht, h2]

/-- a voltage-driven ("parallel") circuit applies its prescribed gradient -/
theorem circuitCase_voltage (c001 : β) (cp : MCirc β) (int1 int2 int3 : β) (ht : cp.typ ≠ 0) :
    circuitCase c001 cp int1 int2 int3 = (0, 0, cp.dvolts) := by
  simp [circuitCase, ht]

/-- the potential prescribed along a segment in cartesian form is `(A0 + A1·x + A2·y)·cos φ` in drawing units, scaled by `1/c` -/
theorem prescribedA_cartesian (k : MConsts β) (lp : MBdryProp β) (x y : β) :
    prescribedA k false lp x y = (lp.A0 + x / k.ucm * lp.A1 + y / k.ucm * lp.A2) * k.cos (lp.phi * k.deg) / k.c := by
  simp [prescribedA]

end Assembly


/-! ### axisymmetric assembly model: the absolute thresholds of `R_hat` -/
section AxiThresholds
open XfemmVerif.MSolver
variable {γ : Type} [Field γ] [LinearOrder γ] [DecidableEq γ]

/-- **two radii below the absolute threshold `tiny` (1e-6 cm) select the on-axis closed form `R_hat = R`** — whatever the
    element's true position: a small element drawn in micrometres, none of whose nodes is on the axis, is treated as if two of
    its nodes were.  This is the mechanism behind the known finding of C10 (axisymmetric magnetics in micrometres), stated on the
    model that is compared bit for bit with `StaticAxisymmetric`. -/
theorem rHat_two_below_threshold (x : AxiExtra γ) (rn q : V3 γ) (R : γ)
    (h0 : rn 0 < x.tiny) (h1 : rn 1 < x.tiny) (h2 : ¬ rn 2 < x.tiny) : rHat x rn q R = R := by
  simp [rHat, h0, h1, h2]

/-- with no radius below the threshold and no side (nearly) parallel to the axis the general closed form is used -/
theorem rHat_general (x : AxiExtra γ) (rn q : V3 γ) (R : γ)
    (h0 : ¬ rn 0 < x.tiny) (h1 : ¬ rn 1 < x.tiny) (h2 : ¬ rn 2 < x.tiny)
    (g0 : ¬ x.abs (q 0) < x.tiny) (g1 : ¬ x.abs (q 1) < x.tiny) (g2 : ¬ x.abs (q 2) < x.tiny) :
    rHat x rn q R = -(q 0 * q 1 * q 2) /
      (2 * (q 0 * rn 0 * x.log (rn 0) + q 1 * rn 1 * x.log (rn 1) + q 2 * rn 2 * x.log (rn 2))) := by
  simp [rHat, h0, h1, h2, g0, g1, g2]

/-- the axisymmetric solver gives every lamination type the same permeabilities as the planar one, hence the laminated-material
    laws `lamMu` — since the repairs of `staticaxi.cpp`: it used to drop the air term `1 − t` of in-plane laminations (found by the
    vanishing-frequency pairs of C11) and to give laminations parallel to y the orientation of those parallel to x (found by the
    energy identity of C13 on laminated problems) -/
theorem firstPassMuAxi_eq_planar (bp : MBlockProp γ) : firstPassMuAxi bp = firstPassMu bp := by
  unfold firstPassMuAxi firstPassMu
  rfl

theorem firstPassMuAxi_eq_lamMu (bp : MBlockProp γ) :
    firstPassMuAxi bp = lamMu bp.lamType bp.lamFill bp.mux bp.muy := by
  rw [firstPassMuAxi_eq_planar]; exact firstPassMu_eq_lamMu bp

end AxiThresholds

/-! ### the time-harmonic assembly model (`Model/MHarmonic.lean`) -/
section Harmonic
set_option linter.unusedSectionVars false
open XfemmVerif XfemmVerif.MHarmonic XfemmVerif.Cx
variable {K : Type} [Field K] [LinearOrder K] [IsStrictOrderedRing K] [AbsGt K] [LawfulAbsGt K]

/-- `re + I*im` as the solvers write it is the complex number with those parts -/
theorem ofParts_eq (re im : K) : (Cx.ofParts re im : Cx K) = ⟨re, im⟩ := by
  simp [Cx.ofParts, Cx.radd, Cx.mulR, Cx.I]

/-- a current-driven circuit whose regions do not conduct gets a flat complex density that **reproduces the circuit current**:
    `J · ∫dA = 0.01 (I − ∫J_block dA)` -/
theorem harmonic_circuit_flat (c001 : K) (cp : HCirc K) (int1 int3 : Cx K) (ht : cp.typ = 0) (h1 : int1 ≠ 0) :
    ∃ J, MHarmonic.circuitCase c001 cp int1 0 int3 = (1, J, 0) ∧
      J * int1 = Cx.rmul c001 ((⟨cp.amps.re, cp.amps.im⟩ : Cx K) - int3) := by
  have hz : (0 : Cx K).isZero = true := by simp [Cx.isZero]
  have hn : int1.isZero = false := by
    by_contra h
    have h' : int1.isZero = true := by simpa using h
    simp only [Cx.isZero, Bool.and_eq_true, beq_iff_eq] at h'
    exact h1 (Cx.ext' h'.1 h'.2)
  refine ⟨Cx.rmul c001 (Cx.ofParts cp.amps.re cp.amps.im - int3) / int1, by simp [MHarmonic.circuitCase, ht, hz, hn], ?_⟩
  rw [ofParts_eq]
  exact div_mul_cancel₀ _ h1

/-- a current-driven circuit with conducting regions gets an extra unknown (case 2: its voltage gradient is solved for) -/
theorem harmonic_circuit_unknown (c001 : K) (cp : HCirc K) (int1 int2 int3 : Cx K) (ht : cp.typ = 0) (h2 : int2 ≠ 0) :
    MHarmonic.circuitCase c001 cp int1 int2 int3 = (2, 0, 0) := by
  have hn : int2.isZero = false := by
    by_contra h
    have h' : int2.isZero = true := by simpa using h
    simp only [Cx.isZero, Bool.and_eq_true, beq_iff_eq] at h'
    exact h2 (Cx.ext' h'.1 h'.2)
  simp [MHarmonic.circuitCase, ht, hn]

/-- **the eddy coefficient of a solid, unlaminated region is `−j a ω σ c / 12`** (consistent mass `a/12 · [2 1 1; 1 2 1; 1 1 2]`
    once added as the assembly adds it: twice on the diagonal, once off it) -/
theorem eddyK_solid (k : HConsts K) (bp : HBlockProp K) (a : K) (h : ¬ (bp.lamType = 0 ∧ 0 < bp.lamD)) :
    eddyK k bp false a = ⟨0, -(a * k.w * bp.cduct * k.c / 12)⟩ := by
  have : (bp.lamType == 0 && decide ((0 : K) < bp.lamD) || false) = false := by
    simp only [Bool.or_false, Bool.and_eq_false_iff, beq_eq_false_iff_ne, ne_eq, decide_eq_false_iff_not]
    by_cases h0 : bp.lamType = 0
    · exact Or.inr (fun hh => h ⟨h0, hh⟩)
    · exact Or.inl h0
  unfold eddyK
  rw [if_neg (by simpa using this)]
  apply Cx.ext' <;> simp [Cx.mulR, Cx.divR, Cx.I] <;> ring

/-- in laminated and in wound regions the eddy term is absent (their eddy currents live in the complex permeability / the
    strands carry no bulk current) -/
theorem eddyK_laminated (k : HConsts K) (bp : HBlockProp K) (wound : Bool) (a : K) (h0 : bp.lamType = 0) (hd : 0 < bp.lamD) :
    eddyK k bp wound a = 0 := by
  simp [eddyK, h0, hd]
theorem eddyK_wound (k : HConsts K) (bp : HBlockProp K) (a : K) : eddyK k bp true a = 0 := by
  simp [eddyK]

/-- no lag angle, no lag: `exp(-j·0) = 1` for any exponential / sine / cosine with the values at zero -/
theorem lag_zero (k : HConsts K) (he : k.F.exp 0 = 1) (hc : k.F.cos 0 = 1) (hs : k.F.sin 0 = 0) : lag k 0 = ⟨1, 0⟩ := by
  simp [lag, Cx.cexp, Cx.mulR, Cx.I, he, hc, hs]

/-- **static limit of the complex permeability**: without hysteresis lag and without conductivity a laminated block
    (`LamType 0`, `Lam_d ≠ 0`) has the real parallel-combination permeability of the static solver -/
theorem blockMu_static_limit (k : HConsts K) (c04 c0001 : K) (bp : HBlockProp K)
    (he : k.F.exp 0 = 1) (hc : k.F.cos 0 = 1) (hs : k.F.sin 0 = 0)
    (h0 : bp.lamType = 0) (hx : bp.thetaHx = 0) (hy : bp.thetaHy = 0) (hd : bp.lamD ≠ 0) (hcd : bp.cduct = 0) :
    blockMu k c04 c0001 bp =
      (⟨(lamMu 0 bp.lamFill bp.mux bp.muy).1, 0⟩, ⟨(lamMu 0 bp.lamFill bp.mux bp.muy).2, 0⟩) := by
  have hl := lag_zero k he hc hs
  unfold blockMu
  simp only [h0, hx, hy, hl, hcd, beq_self_eq_true, if_true, bne_self_eq_false, Bool.false_eq_true, if_false]
  have hdn : (bp.lamD != 0) = true := by simpa using hd
  rw [if_pos hdn]
  simp [Cx.rmul, Cx.mulR, Cx.addR, lamMu]

/-- an unlaminated block (`Lam_d = 0`) without lag has its bulk permeabilities, whatever its conductivity (its eddy currents
    are in the mass term) -/
theorem blockMu_solid (k : HConsts K) (c04 c0001 : K) (bp : HBlockProp K)
    (he : k.F.exp 0 = 1) (hc : k.F.cos 0 = 1) (hs : k.F.sin 0 = 0)
    (h0 : bp.lamType = 0) (hx : bp.thetaHx = 0) (hy : bp.thetaHy = 0) (hd : bp.lamD = 0) :
    blockMu k c04 c0001 bp = (⟨bp.mux, 0⟩, ⟨bp.muy, 0⟩) := by
  have hl := lag_zero k he hc hs
  unfold blockMu
  simp [h0, hx, hy, hl, hd, Cx.rmul]

/-- the complex potential prescribed along a segment (cartesian form) is `(A0 + A1 x + A2 y)/c · (cos φ + j sin φ)` -/
theorem harmonic_prescribedA_cartesian (k : HConsts K) (lp : HBdryProp K) (x y : K) (he : k.F.exp 0 = 1) :
    MHarmonic.prescribedA k false lp x y =
      ⟨(lp.A0 + x / k.ucm * lp.A1 + y / k.ucm * lp.A2) / k.c * k.F.cos (lp.phi * k.deg),
       (lp.A0 + x / k.ucm * lp.A1 + y / k.ucm * lp.A2) / k.c * k.F.sin (lp.phi * k.deg)⟩ := by
  simp [MHarmonic.prescribedA, Cx.cexp, Cx.mulR, Cx.rmul, Cx.I, he]

/-! #### the element matrix of the time-harmonic model -/

/-- the eddy-current loop leaves `2K` on the diagonal and `K` off it -/
theorem eddyMe_entries (Ke : Cx K) (j k : Fin 3) :
    (eddyMe Ke).getD (j.val * 3 + k.val) 0 = if j = k then Ke + Ke else Ke := by
  fin_cases j <;> fin_cases k <;> simp [eddyMe]

/-- **the eddy block of a solid region is `−jωσc` times the consistent mass matrix `a/12 · [2 1 1; 1 2 1; 1 1 2]`** -/
theorem eddy_block_is_consistent_mass (k : HConsts K) (bp : HBlockProp K) (a : K) (h : ¬ (bp.lamType = 0 ∧ 0 < bp.lamD))
    (i j : Fin 3) :
    (eddyMe (eddyK k bp false a)).getD (i.val * 3 + j.val) 0 =
      ⟨0, -(k.w * bp.cduct * k.c * (a / 12 * (if i = j then 2 else 1)))⟩ := by
  rw [eddyMe_entries, eddyK_solid k bp a h]
  by_cases hij : i = j
  · simp only [hij, if_true]; apply Cx.ext' <;> simp <;> ring
  · simp only [hij, if_false]; apply Cx.ext' <;> simp <;> ring

/-- the stiffness part is complex-symmetric … -/
theorem harmStiff_symm (Kc mu1 mu2 v12 : Cx K) (p q : V3 K) (i j : Fin 3) :
    harmStiff Kc mu1 mu2 v12 p q i j = harmStiff Kc mu1 mu2 v12 p q j i := by
  have hx : ∀ r : V3 K, harmMx Kc r i j = harmMx Kc r j i := by
    intro r; fin_cases i <;> fin_cases j <;> simp [harmMx]
  have hxy : harmMxy Kc p q i j = harmMxy Kc p q j i := by
    fin_cases i <;> fin_cases j <;> simp [harmMxy]
  simp only [harmStiff, hx, hxy]

/-- … it is the reluctivity form `K (p_i p_j / μ₂ + q_i q_j / μ₁) + K (p_i q_j + p_j q_i) ν₁₂` … -/
theorem harmStiff_form (Kc mu1 mu2 v12 : Cx K) (p q : V3 K) (i j : Fin 3) :
    harmStiff Kc mu1 mu2 v12 p q i j =
      Kc * Cx.ofReal (p i * p j) / mu2 + Kc * Cx.ofReal (q i * q j) / mu1 + Kc * Cx.ofReal (p i * q j + p j * q i) * v12 := by
  have hm : ∀ (z : Cx K) (r : K), z.mulR r = z * Cx.ofReal r := Cx.mulR_eq
  have ho : ∀ a b : K, (Cx.ofReal (a * b) : Cx K) = Cx.ofReal a * Cx.ofReal b := by
    intro a b; apply Cx.ext' <;> simp [Cx.ofReal]
  fin_cases i <;> fin_cases j <;> simp [harmStiff, harmMx, harmMxy, hm, ho] <;> ring

/-- … and annihilates constants: **a uniform potential produces no flux**, whatever the (complex, anisotropic) permeabilities -/
theorem harmStiff_rowsum_zero (Kc mu1 mu2 v12 : Cx K) (p q : V3 K) (hp : p 0 + p 1 + p 2 = 0) (hq : q 0 + q 1 + q 2 = 0) (i : Fin 3) :
    harmStiff Kc mu1 mu2 v12 p q i 0 + harmStiff Kc mu1 mu2 v12 p q i 1 + harmStiff Kc mu1 mu2 v12 p q i 2 = 0 := by
  simp only [harmStiff_form]
  have ho : ∀ a b : K, (Cx.ofReal (a * b) : Cx K) = Cx.ofReal a * Cx.ofReal b := by
    intro a b; apply Cx.ext' <;> simp [Cx.ofReal]
  have hoa : ∀ a b : K, (Cx.ofReal (a + b) : Cx K) = Cx.ofReal a + Cx.ofReal b := by
    intro a b; apply Cx.ext' <;> simp [Cx.ofReal]
  have hP : (Cx.ofReal (p 0) : Cx K) + Cx.ofReal (p 1) + Cx.ofReal (p 2) = 0 := by
    rw [← hoa, ← hoa, hp]; rfl
  have hQ : (Cx.ofReal (q 0) : Cx K) + Cx.ofReal (q 1) + Cx.ofReal (q 2) = 0 := by
    rw [← hoa, ← hoa, hq]; rfl
  simp only [ho, hoa]
  have e1 : Kc * (Cx.ofReal (p i) * Cx.ofReal (p 0)) / mu2 + Kc * (Cx.ofReal (p i) * Cx.ofReal (p 1)) / mu2 +
      Kc * (Cx.ofReal (p i) * Cx.ofReal (p 2)) / mu2 = Kc * Cx.ofReal (p i) / mu2 * (Cx.ofReal (p 0) + Cx.ofReal (p 1) + Cx.ofReal (p 2)) := by ring
  have e2 : Kc * (Cx.ofReal (q i) * Cx.ofReal (q 0)) / mu1 + Kc * (Cx.ofReal (q i) * Cx.ofReal (q 1)) / mu1 +
      Kc * (Cx.ofReal (q i) * Cx.ofReal (q 2)) / mu1 = Kc * Cx.ofReal (q i) / mu1 * (Cx.ofReal (q 0) + Cx.ofReal (q 1) + Cx.ofReal (q 2)) := by ring
  have e3 : Kc * (Cx.ofReal (p i) * Cx.ofReal (q 0) + Cx.ofReal (p 0) * Cx.ofReal (q i)) * v12 +
      Kc * (Cx.ofReal (p i) * Cx.ofReal (q 1) + Cx.ofReal (p 1) * Cx.ofReal (q i)) * v12 +
      Kc * (Cx.ofReal (p i) * Cx.ofReal (q 2) + Cx.ofReal (p 2) * Cx.ofReal (q i)) * v12 =
      Kc * v12 * (Cx.ofReal (p i) * (Cx.ofReal (q 0) + Cx.ofReal (q 1) + Cx.ofReal (q 2)) +
        Cx.ofReal (q i) * (Cx.ofReal (p 0) + Cx.ofReal (p 1) + Cx.ofReal (p 2))) := by ring
  calc _ = (Kc * (Cx.ofReal (p i) * Cx.ofReal (p 0)) / mu2 + Kc * (Cx.ofReal (p i) * Cx.ofReal (p 1)) / mu2 +
        Kc * (Cx.ofReal (p i) * Cx.ofReal (p 2)) / mu2) +
      (Kc * (Cx.ofReal (q i) * Cx.ofReal (q 0)) / mu1 + Kc * (Cx.ofReal (q i) * Cx.ofReal (q 1)) / mu1 +
        Kc * (Cx.ofReal (q i) * Cx.ofReal (q 2)) / mu1) +
      (Kc * (Cx.ofReal (p i) * Cx.ofReal (q 0) + Cx.ofReal (p 0) * Cx.ofReal (q i)) * v12 +
        Kc * (Cx.ofReal (p i) * Cx.ofReal (q 1) + Cx.ofReal (p 1) * Cx.ofReal (q i)) * v12 +
        Kc * (Cx.ofReal (p i) * Cx.ofReal (q 2) + Cx.ofReal (p 2) * Cx.ofReal (q i)) * v12) := by ring
    _ = 0 := by rw [e1, e2, e3, hP, hQ]; ring

/-- the shape parameters the assembly uses do sum to zero -/
theorem shape_sums (x y : V3 K) :
    shapeP y 0 + shapeP y 1 + shapeP y 2 = 0 ∧ shapeQ x 0 + shapeQ x 1 + shapeQ x 2 = 0 := by
  constructor <;> simp [shapeP, shapeQ] <;> ring

end Harmonic

end XfemmVerif.C05
