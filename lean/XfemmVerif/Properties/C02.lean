import XfemmVerif.Model.Markers
/-!
# C02 — the mesh carries materials, boundary conditions and conductors to the right places

Theorems about `Model/Markers.lean` (marker encoding of the mesher, decoding of the three solvers).
The geometric half of the property (each marked edge lies on its entity, each element lies in the
region of its label) is decided per run by the exact geometric oracle on the real mesher's output
(`checks/C02.py`); these theorems settle the codec for every index.
-/
namespace XfemmVerif.C02
open XfemmVerif.Markers

/-- the guard under which the codec is faithful: the property index fits the low 16 bits -/
def PropOk (p : Nat) : Prop := p + 2 < 0x10000

/-- **vertex codec round-trip** (electrostatics / heat): every (point property, conductor) pair,
    present or absent, is recovered exactly -/
theorem node_codec_roundtrip (prop cond : Option Nat) (hp : ∀ p, prop = some p → PropOk p) :
    decNodeEH (pointMarker false prop cond) =
      ((match prop with | some p => (p : Int) | none => -1),
       (match cond with | some c => (c : Int) | none => -1)) := by
  unfold decNodeEH pointMarker lo16
  cases prop with
  | none =>
    cases cond with
    | none => simp
    | some c =>
      simp only [Bool.false_eq_true, if_false]
      have h1 : (0 : Int) + ((c : Int) + 1) * 0x10000 > 1 := by omega
      rw [if_pos h1]
      have : ((0 : Int) + ((c : Int) + 1) * 0x10000) % 0x10000 = 0 := by omega
      simp only [this]
      refine Prod.ext ?_ ?_ <;> simp <;> omega
  | some p =>
    have hp' := hp p rfl
    unfold PropOk at hp'
    cases cond with
    | none =>
      simp only [Bool.false_eq_true, if_false]
      have h1 : ((p : Int) + 2) > 1 := by omega
      rw [if_pos h1]
      have : ((p : Int) + 2) % 0x10000 = (p : Int) + 2 := by omega
      simp only [this]
      refine Prod.ext ?_ ?_ <;> simp <;> omega
    | some c =>
      simp only [Bool.false_eq_true, if_false]
      have h1 : ((p : Int) + 2) + ((c : Int) + 1) * 0x10000 > 1 := by omega
      rw [if_pos h1]
      have : (((p : Int) + 2) + ((c : Int) + 1) * 0x10000) % 0x10000 = (p : Int) + 2 := by omega
      simp only [this]
      refine Prod.ext ?_ ?_ <;> simp <;> omega

/-- **edge codec round-trip** (electrostatics / heat) -/
theorem edge_codec_roundtrip (prop cond : Option Nat) (hp : ∀ p, prop = some p → PropOk p)
    (hsome : prop.isSome ∨ cond.isSome) :
    decEdgeEH (segMarker false prop cond) =
      ((match prop with | some p => (p : Int) | none => -1),
       (match cond with | some c => (c : Int) | none => -1)) := by
  unfold decEdgeEH segMarker lo16
  cases prop with
  | none =>
    cases cond with
    | none => simp at hsome
    | some c =>
      simp only [Bool.false_eq_true, if_false]
      have h1 : (0 : Int) - ((c : Int) + 1) * 0x10000 < 0 := by omega
      rw [if_pos h1]
      have : (-((0 : Int) - ((c : Int) + 1) * 0x10000)) % 0x10000 = 0 := by omega
      simp only [this]
      refine Prod.ext ?_ ?_ <;> simp <;> omega
  | some p =>
    have hp' := hp p rfl
    unfold PropOk at hp'
    cases cond with
    | none =>
      simp only [Bool.false_eq_true, if_false]
      have h1 : -((p : Int) + 2) < 0 := by omega
      rw [if_pos h1]
      have : (- -((p : Int) + 2)) % 0x10000 = (p : Int) + 2 := by omega
      simp only [this]
      refine Prod.ext ?_ ?_ <;> simp <;> omega
    | some c =>
      simp only [Bool.false_eq_true, if_false]
      have h1 : -((p : Int) + 2) - ((c : Int) + 1) * 0x10000 < 0 := by omega
      rw [if_pos h1]
      have : (-(-((p : Int) + 2) - ((c : Int) + 1) * 0x10000)) % 0x10000 = (p : Int) + 2 := by omega
      simp only [this]
      refine Prod.ext ?_ ?_ <;> simp <;> omega

/-- an entity with no assignment gets marker 0 — and only such an entity does -/
theorem marker_zero_iff_none (magnetics : Bool) (prop cond : Option Nat) :
    pointMarker magnetics prop cond = 0 ↔ (prop = none ∧ (magnetics = true ∨ cond = none)) := by
  unfold pointMarker
  cases prop <;> cases cond <;> cases magnetics <;> simp <;> omega

theorem seg_marker_zero_iff_none (magnetics : Bool) (prop cond : Option Nat) :
    segMarker magnetics prop cond = 0 ↔ (prop = none ∧ (magnetics = true ∨ cond = none)) := by
  unfold segMarker
  cases prop <;> cases cond <;> cases magnetics <;> simp <;> omega

/-- markers Triangle itself produces carry no assignment: vertices get 0, 1 (boundary) or a copied
    *negative* segment marker; edges get 0 or 1 — all of these decode to "none" in every solver -/
theorem triangle_markers_decode_none (n : Int) :
    (n ≤ 1 → decNodeEH n = (-1, -1)) ∧ (n ≤ 1 → decNodeM n = -1) ∧
    (0 ≤ n → decEdgeEH n = (-1, -1)) ∧ (0 ≤ n → decEdgeM n = none) := by
  unfold decNodeEH decNodeM decEdgeEH decEdgeM
  refine ⟨?_, ?_, ?_, ?_⟩ <;> intro h <;> simp <;> omega

/-- **magnetics codec round-trip** (vertices and edges) -/
theorem magnetics_codec_roundtrip (p : Nat) :
    decNodeM (pointMarker true (some p) none) = p ∧ decEdgeM (segMarker true (some p) none) = some (p : Int) := by
  unfold decNodeM decEdgeM pointMarker segMarker
  constructor
  · simp; omega
  · simp; omega

/-- a boundary edge without BC (Triangle marker `-1` cannot occur; marker 1 is "plain boundary") and the
    magnetics decoder: every negative marker `-(p+2)` gives `p`, nothing else is negative -/
theorem magnetics_edge_none : decEdgeM (segMarker true none none) = none := by
  unfold decEdgeM segMarker; simp

/-! ### names → indices -/

theorem lookupLast_fold (names : List String) (name : String) (l : List Nat) (acc : Option Nat) :
    (l.foldl (fun acc j => if names.getD j "" = name then some j else acc) acc = none) ↔
      (acc = none ∧ ∀ j ∈ l, names.getD j "" ≠ name) := by
  induction l generalizing acc with
  | nil => simp
  | cons a l ih =>
    simp only [List.foldl_cons, List.mem_cons, forall_eq_or_imp]
    rw [ih]
    by_cases h : names.getD a "" = name
    · rw [if_pos h]; constructor
      · intro hh; exact absurd hh.1 (by simp)
      · intro hh; exact absurd h hh.2.1
    · rw [if_neg h]; constructor
      · intro hh; exact ⟨hh.1, h, hh.2⟩
      · intro hh; exact ⟨hh.1, hh.2.2⟩

/-- a name that matches no property yields "none" -/
theorem lookupLast_none_iff (names : List String) (name : String) :
    lookupLast names name = none ↔ ∀ j < names.length, names.getD j "" ≠ name := by
  unfold lookupLast
  rw [lookupLast_fold]
  simp

theorem lookupLast_sound_aux (names : List String) (name : String) (l : List Nat) (acc : Option Nat) (r : Nat)
    (h : l.foldl (fun acc j => if names.getD j "" = name then some j else acc) acc = some r)
    (hacc : ∀ a, acc = some a → names.getD a "" = name) : names.getD r "" = name := by
  induction l generalizing acc with
  | nil => exact hacc r (by simpa using h)
  | cons a l ih =>
    simp only [List.foldl_cons] at h
    apply ih _ h
    intro a' ha'
    by_cases hm : names.getD a "" = name
    · rw [if_pos hm] at ha'; cases ha'; exact hm
    · rw [if_neg hm] at ha'; exact hacc a' ha'

/-- whatever index the lookup returns carries the requested name -/
theorem lookupLast_sound (names : List String) (name : String) (r : Nat)
    (h : lookupLast names name = some r) : names.getD r "" = name :=
  lookupLast_sound_aux names name _ none r h (by simp)

/-! ### region attributes ↔ solver label index -/

theorem regionAttrs_go_length (l : List Bool) (k : Nat) : (regionAttrs.go l k).length = l.length := by
  induction l generalizing k with
  | nil => rfl
  | cons b r ih => cases b <;> simp [regionAttrs.go, ih]

/-- the attribute given to the `i`-th label is (1 + number of non-hole labels before it): exactly the
    1-based position of that label in the `[NumBlockLabels]` section the solver reads, so that the
    solver's `lbl-1` indexes the same label -/
theorem regionAttrs_go_spec (l : List Bool) (k i : Nat) (hi : i < l.length) :
    (regionAttrs.go l k).getD i none =
      if l.getD i true then none else some (k + ((l.take i).filter (· == false)).length + 1) := by
  induction l generalizing k i with
  | nil => simp at hi
  | cons b r ih =>
    cases i with
    | zero => cases b <;> simp [regionAttrs.go]
    | succ i =>
      have hi' : i < r.length := by simpa using hi
      cases b
      · simp only [regionAttrs.go, List.getD_cons_succ, List.take_succ_cons, List.filter_cons]
        rw [ih (k + 1) i hi']
        simp only [beq_self_eq_true, if_true, List.length_cons]
        split
        · rfl
        · congr 1; omega
      · simp only [regionAttrs.go, List.getD_cons_succ, List.take_succ_cons, List.filter_cons]
        rw [ih k i hi']
        simp

theorem region_attr_matches_solver_index (isHole : List Bool) (i : Nat) (hi : i < isHole.length)
    (hnot : isHole.getD i true = false) :
    ∃ a, (regionAttrs isHole).getD i none = some a ∧
      elemLabel (a : Int) none = some (((isHole.take i).filter (· == false)).length) := by
  unfold regionAttrs
  rw [regionAttrs_go_spec isHole 0 i hi, hnot]
  refine ⟨0 + ((isHole.take i).filter (· == false)).length + 1, by simp, ?_⟩
  unfold elemLabel
  have : ¬ (((0 + ((isHole.take i).filter (· == false)).length + 1 : Nat) : Int) - 1 < 0) := by omega
  rw [if_neg this]
  congr 1
  omega

/-- an element with attribute 0 (region without label) takes the default label, or is an error -/
theorem attr_zero_uses_default (d : Option Nat) : elemLabel 0 d = d := by
  unfold elemLabel; simp

/-! ### outside the guard the codec is NOT faithful (why `PropOk` is a hypothesis) -/

theorem codec_collision_witness :
    decNodeEH (pointMarker false (some 65534) none) = (-1, 0) := by
  decide +kernel

/-! ### non-vacuity -/
example : PropOk 3 ∧ decNodeEH (pointMarker false (some 3) (some 2)) = (3, 2) := by
  refine ⟨by unfold PropOk; omega, by decide +kernel⟩
example : regionAttrs [false, true, false] = [some 1, none, some 2] := by decide +kernel

end XfemmVerif.C02
