import XfemmVerif.Model.Edit
import XfemmVerif.Generated.Edit
import XfemmVerif.Lemmas.EditGeomLemmas
import Mathlib.Tactic.Linarith
/-!
# C16 — geometry edits keep the drawing a proper planar line graph (deletion and renumbering)

`Model/Edit.lean` models `deleteSelectedNodes` / `deleteSelectedSegments` / `deleteSelectedArcSegments` as list
operations; how the lines and arcs attached to a doomed point are marked (TOGGLE or SET) is translated from the C++ on every
run (`Generated/Edit.lean`).  Proved for every drawing and every selection, when the mark SETS the selection:

* `deleteNodeAt_wf`, `deleteSelectedNodes_wf` — after deleting any set of selected points every remaining line and arc still
  joins two DISTINCT EXISTING points;
* `deleteNodeAt_keeps_ends` — and the SAME two points (payloads) as before: the renumbering is faithful;
* `dropSelected_none_selected`, `deleteSelectedNodes_none_selected` — nothing of the deleted kind remains selected (the scan's
  fuel suffices to reach the end of the point list, for either marking).

`toggle_breaks_wf` exhibits, for the TOGGLE variant, a three-point drawing in which deleting a selected point whose attached
line is also selected leaves a line joining a point with itself — the witness replayed on the real code by checks/C16.py.
`delete_nodes_keeps_drawing_wellformed` is the property for the variant the CURRENT source uses.

The geometric clauses (snapping, splitting at crossings, labels off lines, exact copies) are decided per run by the
exact-arithmetic oracle of checks/C16.py on the drawings the real tool saves after every operation (PARTIAL).
-/
namespace XfemmVerif.C16
open XfemmVerif.Edit

variable {P Q : Type}

theorem mem_dropSelected {l : List (Link Q)} {e : Link Q} : e ∈ dropSelected l ↔ e ∈ l ∧ e.sel = false := by
  simp [dropSelected]

/-- nothing of the deleted kind remains selected -/
theorem dropSelected_none_selected (l : List (Link Q)) : ∀ e ∈ dropSelected l, e.sel = false :=
  fun _ h => (mem_dropSelected.mp h).2

/-- with the SET mark, what survives `dropSelected ∘ markAttached` is an original link not attached to `i` -/
theorem survivor_of_set_mark (i : Nat) (l : List (Link Q)) (e : Link Q)
    (h : e ∈ dropSelected (markAttached false i l)) : e ∈ l ∧ e.n0 ≠ i ∧ e.n1 ≠ i := by
  obtain ⟨hm, hs⟩ := mem_dropSelected.mp h
  simp only [markAttached, List.mem_map] at hm
  obtain ⟨e0, he0, rfl⟩ := hm
  by_cases hatt : e0.n0 = i ∨ e0.n1 = i
  · simp [hatt] at hs
  · simp only [hatt, if_false] at hs ⊢
    rw [not_or] at hatt
    exact ⟨he0, hatt.1, hatt.2⟩

theorem renumber_index (i a n : Nat) (han : a < n) (hai : a ≠ i) (hin : i < n) :
    (if a > i then a - 1 else a) < n - 1 := by
  split <;> omega

theorem renumber_injective (i a b : Nat) (hai : a ≠ i) (hbi : b ≠ i) (hab : a ≠ b) :
    (if a > i then a - 1 else a) ≠ (if b > i then b - 1 else b) := by
  split <;> split <;> omega

theorem linksOk_after (i n : Nat) (hin : i < n) (l : List (Link Q)) (h : LinksOk n l) :
    LinksOk (n - 1) (renumber i (dropSelected (markAttached false i l))) := by
  intro e he
  simp only [renumber, List.mem_map] at he
  obtain ⟨e0, he0, rfl⟩ := he
  obtain ⟨hmem, h0, h1⟩ := survivor_of_set_mark i l e0 he0
  obtain ⟨a, b, c⟩ := h e0 hmem
  exact ⟨renumber_index i e0.n0 n a h0 hin, renumber_index i e0.n1 n b h1 hin, renumber_injective i e0.n0 e0.n1 h0 h1 c⟩

/-- **one deleted point**: every remaining line and arc joins two distinct existing points -/
theorem deleteNodeAt_wf (i : Nat) (s : State P Q) (hs : WF s) (hi : i < s.nodes.length) :
    WF (deleteNodeAt false i s) := by
  unfold WF deleteNodeAt
  simp only [List.length_eraseIdx, hi, if_true]
  exact ⟨linksOk_after i _ hi _ hs.1, linksOk_after i _ hi _ hs.2⟩

/-- **the renumbering is faithful**: a surviving link joins the same two points as before -/
theorem deleteNodeAt_keeps_ends (i : Nat) (nodes : List (Node P)) (e : Link Q) (h0 : e.n0 ≠ i) (h1 : e.n1 ≠ i) :
    ends (nodes.eraseIdx i)
      { e with n0 := if e.n0 > i then e.n0 - 1 else e.n0, n1 := if e.n1 > i then e.n1 - 1 else e.n1 } = ends nodes e := by
  have key : ∀ a : Nat, a ≠ i → (nodes.eraseIdx i)[if a > i then a - 1 else a]? = nodes[a]? := by
    intro a ha
    rw [List.getElem?_eraseIdx]
    split
    · rename_i hgt
      have : ¬ (a - 1 < i) := by omega
      simp only [this, if_false]
      congr 1; omega
    · rename_i hle
      have : a < i := by omega
      simp [this]
  simp only [ends, key e.n0 h0, key e.n1 h1]

/-- **any set of selected points**: the scan keeps the drawing well formed -/
theorem deleteSelectedNodesFrom_wf : ∀ (fuel i : Nat) (s : State P Q), WF s → WF (deleteSelectedNodesFrom false fuel i s)
  | 0, _, _, h => h
  | fuel + 1, i, s, h => by
    unfold deleteSelectedNodesFrom
    cases hn : s.nodes[i]? with
    | none => exact h
    | some nd =>
      simp only
      have hi : i < s.nodes.length := by
        by_contra hc
        have := List.getElem?_eq_none (Nat.le_of_not_lt hc)
        rw [this] at hn; cases hn
      split
      · exact deleteSelectedNodesFrom_wf fuel i _ (deleteNodeAt_wf i s h hi)
      · exact deleteSelectedNodesFrom_wf fuel (i + 1) s h

theorem deleteSelectedNodes_wf (s : State P Q) (h : WF s) : WF (deleteSelectedNodes false s) :=
  deleteSelectedNodesFrom_wf _ _ s h

/-- **nothing of the deleted kind remains selected**: the scan has enough fuel to reach the end of the point list, and every
    point it leaves behind is unselected (either marking) -/
theorem scan_none_selected (toggle : Bool) : ∀ (fuel i : Nat) (s : State P Q),
    i ≤ s.nodes.length → 2 * s.nodes.length - i < fuel →
    (∀ j, j < i → ∀ nd, s.nodes[j]? = some nd → nd.sel = false) →
    ∀ nd ∈ (deleteSelectedNodesFrom toggle fuel i s).nodes, nd.sel = false
  | 0, i, s, _, hf, _ => by omega
  | fuel + 1, i, s, hi, hf, hpre => by
    unfold deleteSelectedNodesFrom
    cases hn : s.nodes[i]? with
    | none =>
      simp only
      intro nd hnd
      obtain ⟨j, hj, hjn⟩ := List.getElem_of_mem hnd
      have hlen : s.nodes.length ≤ i := by
        by_contra hc
        have : i < s.nodes.length := Nat.lt_of_not_le hc
        rw [List.getElem?_eq_getElem this] at hn; cases hn
      exact hpre j (by omega) nd (by rw [List.getElem?_eq_getElem hj, hjn])
    | some nd0 =>
      simp only
      have hilt : i < s.nodes.length := by
        by_contra hc
        rw [List.getElem?_eq_none (Nat.le_of_not_lt hc)] at hn; cases hn
      split
      · -- delete: the list shrinks, the examined prefix is untouched
        apply scan_none_selected toggle fuel i (deleteNodeAt toggle i s)
        · simp only [deleteNodeAt, List.length_eraseIdx, hilt, if_true]; omega
        · simp only [deleteNodeAt, List.length_eraseIdx, hilt, if_true]; omega
        · intro j hj nd hnd
          simp only [deleteNodeAt] at hnd
          rw [List.getElem?_eraseIdx] at hnd
          simp only [hj, if_true] at hnd
          exact hpre j hj nd hnd
      · rename_i hsel
        apply scan_none_selected toggle fuel (i + 1) s (by omega) (by omega)
        intro j hj nd hnd
        by_cases hji : j = i
        · subst hji
          rw [hn] at hnd
          cases hnd
          simpa using hsel
        · exact hpre j (by omega) nd hnd

theorem deleteSelectedNodes_none_selected (toggle : Bool) (s : State P Q) :
    ∀ nd ∈ (deleteSelectedNodes toggle s).nodes, nd.sel = false := by
  apply scan_none_selected toggle _ 0 s (Nat.zero_le _) (by omega)
  intro j hj; omega

/-! ### the TOGGLE variant is not safe -/

def linksOkB (n : Nat) (l : List (Link Unit)) : Bool := l.all (fun e => e.n0 < n && e.n1 < n && e.n0 != e.n1)

/-- three points, two lines; the first line and its first end point are selected -/
def witness : State Nat Unit :=
  { nodes := [⟨10, true⟩, ⟨11, false⟩, ⟨12, false⟩], segs := [⟨0, 1, (), true⟩, ⟨1, 2, (), false⟩], arcs := [] }

/-- with the TOGGLE mark, deleting the selected point un-selects its (selected) line instead of deleting it, and the
    renumbering turns it into a line from point 0 to point 0 -/
theorem toggle_breaks_wf :
    linksOkB witness.nodes.length witness.segs = true ∧
    linksOkB (deleteSelectedNodes true witness).nodes.length (deleteSelectedNodes true witness).segs = false ∧
    linksOkB (deleteSelectedNodes false witness).nodes.length (deleteSelectedNodes false witness).segs = true := by
  decide

/-! ### the property for the variant the current source uses -/

/-- **deleting selected points keeps every line and arc joining two distinct existing points** — for the marking the CURRENT
    source of `FemmProblem::deleteSelectedNodes` uses (translated on every run) -/
theorem delete_nodes_keeps_drawing_wellformed (s : State P Q) (h : WF s) :
    WF (deleteSelectedNodes Generated.Edit.attachedMarkToggles s) := by
  have hv : Generated.Edit.attachedMarkToggles = false := by decide
  rw [hv]
  exact deleteSelectedNodes_wf s h


/-! ### "Copies land at exactly the transformed coordinates" - the point maps of the copy / move commands (`Model/EditGeom.lean`)

The model applies the `CComplex` operators in the order of `mirrorCopy`, `rotateCopy`, `translateCopy`; its `Float` instance is compared
bit for bit with the end points of copied arcs in drawings saved by the real femmcli (arc-copy family of `checks/C16.py`).  Over any
ordered field: -/
section copies
open XfemmVerif XfemmVerif.EditGeom XfemmVerif.EditGeomLemmas
variable {K : Type} [Field K] [LinearOrder K] [IsStrictOrderedRing K] [AbsGt K] [LawfulAbsGt K]

/-- A reflection about a line with unit direction `p` reverses the orientation of every triple of points: the signed area changes sign.
    So the centre of the counter-clockwise arc P0 -> P1, which lies to the left of the chord, is mapped to the RIGHT of M(P0) -> M(P1) and to
    the left of M(P1) -> M(P0): the mirror copy of an arc has to swap its end points (the defect repaired in cacda5d kept their order). -/
theorem mirror_copy_reverses_orientation (x p a b c : Cx K) (hp : p.re * p.re + p.im * p.im = 1) :
    cross (mirror x p b - mirror x p a) (mirror x p c - mirror x p a) = - cross (b - a) (c - a) :=
  mirror_reverses_orientation x p a b c hp

/-- ... and is an isometry -/
theorem mirror_copy_keeps_distances (x p a b : Cx K) (hp : p.re * p.re + p.im * p.im = 1) :
    absq (mirror x p b - mirror x p a) = absq (b - a) := mirror_keeps_distance x p a b hp

/-- a rotation copy (z = exp(i t) has modulus one) keeps orientation - the copy of an arc keeps the order of its end points - -/
theorem rotate_copy_keeps_orientation (c z a b d : Cx K) (hz : z.re * z.re + z.im * z.im = 1) :
    cross (rotate c z b - rotate c z a) (rotate c z d - rotate c z a) = cross (b - a) (d - a) :=
  rotate_keeps_orientation c z a b d hz

/-- ... and distances -/
theorem rotate_copy_keeps_distances (c z a b : Cx K) (hz : z.re * z.re + z.im * z.im = 1) :
    absq (rotate c z b - rotate c z a) = absq (b - a) := rotate_keeps_distance c z a b hz

/-- a translation copy keeps every difference of positions, hence orientation, distances and angles -/
theorem translate_copy_keeps_differences (d a b : Cx K) : translate d b - translate d a = b - a :=
  translate_keeps_differences d a b

/-- non-vacuity: the direction (3/5, 4/5) is a unit vector over the rationals -/
example : ((3 : ℚ) / 5) * (3 / 5) + (4 / 5) * (4 / 5) = 1 := by norm_num
end copies


/-! ### the mechanism of the known finding `pslg:duplicate-among-arcs:scale` -/
section splitting
open XfemmVerif.Edit
/-- Two lines that share an end point and both pass within the tolerance of a new point (they overlap within the tolerance - the state a
    scale or move can leave when points are merged) are both split by `addNode`, and the list then holds the piece from the new point to the
    shared end TWICE although it held no duplicate before: witness lines 0-2 and 1-2, new point 3. -/
theorem addNode_split_of_overlapping_lines_duplicates :
    noDuplicateLines [(0, 2), (1, 2)] = true ∧
    noDuplicateLines (splitLinesAt (fun _ => true) 3 [(0, 2), (1, 2)]) = false := by decide

/-- when at most one line is near the new point the split creates no duplicate in this example (the ordinary case) -/
example : noDuplicateLines (splitLinesAt (fun i => i == 0) 3 [(0, 2), (1, 2)]) = true := by decide

theorem any_filter_false (a : Nat × Nat) (l : List (Nat × Nat)) : (l.filter (fun b => !sameLine a b)).any (sameLine a) = false := by
  induction l with
  | nil => rfl
  | cons b rest ih =>
    simp only [List.filter_cons]
    split
    · rename_i h
      simp only [List.any_cons, ih, Bool.or_false]
      simpa using h
    · exact ih

theorem noDup_filter (p : Nat × Nat → Bool) (l : List (Nat × Nat)) (h : noDuplicateLines l = true) : noDuplicateLines (l.filter p) = true := by
  induction l with
  | nil => rfl
  | cons a rest ih =>
    simp only [noDuplicateLines, Bool.and_eq_true, Bool.not_eq_true'] at h
    simp only [List.filter_cons]
    split
    · simp only [noDuplicateLines, Bool.and_eq_true, Bool.not_eq_true']
      refine ⟨?_, ih h.2⟩
      -- no element of the filtered rest equals a
      have : rest.any (sameLine a) = false := h.1
      rw [List.any_eq_false] at this ⊢
      intro x hx
      exact this x (List.mem_filter.mp hx).1
    · exact ih h.2

/-- ... whereas the split followed by the duplicate test `addSegment` already has (keep the first of every group of entries that join
    the same two points) never leaves a line twice, whatever the lines and whichever of them are near the new point: a shape for the repair -/
theorem dedupLines_noDup (l : List (Nat × Nat)) : noDuplicateLines (dedupLines l) = true := by
  induction l with
  | nil => rfl
  | cons a rest ih =>
    simp only [dedupLines, noDuplicateLines, Bool.and_eq_true, Bool.not_eq_true']
    exact ⟨any_filter_false a _, noDup_filter _ _ ih⟩

theorem addNode_split_with_duplicate_test_is_clean (near : Nat → Bool) (new : Nat) (ls : List (Nat × Nat)) :
    noDuplicateLines (dedupLines (splitLinesAt near new ls)) = true := dedupLines_noDup _
end splitting

end XfemmVerif.C16
