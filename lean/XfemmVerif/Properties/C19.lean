import XfemmVerif.Model.BHCurve
import Mathlib.Tactic.Ring
import Mathlib.Tactic.FieldSimp
import Mathlib.Tactic.Linarith
import Mathlib.Tactic.Positivity
import Mathlib.Algebra.Order.Field.Basic
import Mathlib.Analysis.Calculus.Deriv.Pow
import Mathlib.Analysis.Calculus.Deriv.Mul
import Mathlib.Analysis.Calculus.Deriv.Add
import Mathlib.Analysis.Calculus.Deriv.MeanValue
import Mathlib.Topology.Order.IntermediateValue
import Mathlib.Analysis.Real.Sqrt
/-!
# C19 — nonlinear material curves are consistent and reduce to the linear case (algebraic part)

Over any field of characteristic zero (ordered where order matters), for the model `Model/BHCurve.lean` of
`GetH` / `GetdHdB` / `GetEnergy` / `GetBHProps` / `GetSlopes`:

* the cubic of a segment takes the table values and the table slopes at its two ends, so H and its reported slope
  are single-valued at every knot (`getH_at_knot`, `getDH_at_knot`) — the curve is C¹ across knots;
* the energy of a segment starts at 0 and ends at the amount the scan adds for a passed segment, and the tail
  starts at 0 at the last knot: the accumulated energy is continuous;
* the extrapolation beyond the table continues H with the last slope from the last value;
* the slope polynomial the bad-segment test examines IS the reported slope;
* a table on a straight line through the origin: the constant slope solves the spline equations, and with it H,
  the slope, the energy and the reluctivity pair are exactly those of the linear material.

Over ℝ (section Analysis): the reported slope is the derivative of the reported H (`segH_hasDerivAt`), the stored
energy has the reported H as its derivative inside and beyond the table (`segEnergy_hasDerivAt`,
`tailEnergy_hasDerivAt`) — with the continuity statements above that makes it the integral of H dB —, and a segment
that passes the test of `GetSlopes` (closed-formula roots of the slope polynomial, real square root) carries a
non-decreasing H (`not_bad_single_sign`, `seg_monotone`).

Not proved (labelled partial; decided per run on the real code): that the smoothing loop of `GetSlopes` and the Newton
iteration of the solver terminate.
-/
set_option linter.unusedSectionVars false
namespace XfemmVerif.C19
open XfemmVerif.BHCurve

section Algebra
variable {α : Type} [Field α] [CharZero α]

theorem segH_left (l h0 h1 s0 s1 : α) : segH l 0 h0 h1 s0 s1 = h0 := by
  simp only [segH, k]; push_cast; ring

theorem segH_right (l h0 h1 s0 s1 : α) : segH l 1 h0 h1 s0 s1 = h1 := by
  simp only [segH, k]; push_cast; ring

theorem segDH_left (l h0 h1 s0 s1 : α) : segDH l 0 h0 h1 s0 s1 = s0 := by
  simp only [segDH, k]; push_cast; ring

theorem segDH_right (l h0 h1 s0 s1 : α) : segDH l 1 h0 h1 s0 s1 = s1 := by
  simp only [segDH, k]; push_cast; ring

theorem segEnergy_left (l h0 h1 s0 s1 : α) : segEnergy l 0 h0 h1 s0 s1 = 0 := by
  simp only [segEnergy, k]; push_cast; ring

/-- the energy of a segment at its right end is what `GetEnergy` adds for a segment it has passed -/
theorem segEnergy_right (b0 b1 h0 h1 s0 s1 : α) :
    segEnergy (b1 - b0) 1 h0 h1 s0 s1 = segEnergyFull b0 b1 h0 h1 s0 s1 := by
  simp only [segEnergy, segEnergyFull, k]; push_cast; ring

theorem tailEnergy_start (b0 h0 s0 : α) : tailEnergy b0 b0 h0 s0 = 0 := by
  simp only [tailEnergy, k]; push_cast; ring

/-- the slope polynomial examined by the bad-segment test of `GetSlopes` is the slope `GetdHdB` reports -/
theorem segDH_eq_quadratic (L u0 u1 d0 d1 x : α) (hL : L ≠ 0) :
    segDH L (x / L) u0 u1 d0 d1 =
      (slopeCoeffs L u0 u1 d0 d1).1 + (slopeCoeffs L u0 u1 d0 d1).2.1 * x + (slopeCoeffs L u0 u1 d0 d1).2.2 * (x * x) := by
  simp only [segDH, slopeCoeffs, k]; push_cast; field_simp; ring

/-! ### straight-line tables -/

/-- a constant slope `c` solves the three kinds of spline equations for data on the line `H = c·B` -/
theorem resLeft_linear (b0 b1 c : α) (h : b1 - b0 ≠ 0) : resLeft b0 b1 (c * b0) (c * b1) c c = 0 := by
  simp only [resLeft, k]; push_cast; field_simp; ring

theorem resRight_linear (b0 b1 c : α) (h : b1 - b0 ≠ 0) : resRight b0 b1 (c * b0) (c * b1) c c = 0 := by
  simp only [resRight, k]; push_cast; field_simp; ring

theorem resMid_linear (b0 b1 b2 c : α) (h1 : b1 - b0 ≠ 0) (h2 : b2 - b1 ≠ 0) :
    resMid b0 b1 b2 (c * b0) (c * b1) (c * b2) c c c = 0 := by
  simp only [resMid, k]; push_cast; field_simp; ring

/-- with those slopes the cubic is the straight line itself -/
theorem segH_linear (b0 b1 c b : α) (h : b1 - b0 ≠ 0) :
    segH (b1 - b0) ((b - b0) / (b1 - b0)) (c * b0) (c * b1) c c = c * b := by
  simp only [segH, k]; push_cast; field_simp; ring

theorem segDH_linear (b0 b1 c b : α) (h : b1 - b0 ≠ 0) :
    segDH (b1 - b0) ((b - b0) / (b1 - b0)) (c * b0) (c * b1) c c = c := by
  simp only [segDH, k]; push_cast; field_simp; ring

/-- the energy accumulated up to `b` on a straight line is `c·b²/2`, segment by segment -/
theorem segEnergy_linear (b0 b1 c b : α) (h : b1 - b0 ≠ 0) :
    c * b0 * b0 / 2 + segEnergy (b1 - b0) ((b - b0) / (b1 - b0)) (c * b0) (c * b1) c c = c * b * b / 2 := by
  simp only [segEnergy, k]; push_cast; field_simp; ring

theorem segEnergyFull_linear (b0 b1 c : α) :
    c * b0 * b0 / 2 + segEnergyFull b0 b1 (c * b0) (c * b1) c c = c * b1 * b1 / 2 := by
  simp only [segEnergyFull, k]; push_cast; ring

theorem tail_linear (bn c b : α) : c * bn + c * (b - bn) = c * b := by ring

theorem tailEnergy_linear (bn c b : α) :
    c * bn * bn / 2 + tailEnergy b bn (c * bn) c = c * b * b / 2 := by
  simp only [tailEnergy, k]; push_cast; ring

/-- reluctivity pair of a linear H: `v = c`, `dv = 0` (what the Newton iteration sees) -/
theorem bhprops_linear (c b : α) (hb : b ≠ 0) :
    (c * b) / b = c ∧ (c / (b * b) - (c * b) / (b * b * b)) / 2 = 0 := by
  constructor
  · field_simp
  · field_simp; ring

end Algebra

section Knots
variable {α : Type} [Field α] [LinearOrder α] [IsStrictOrderedRing α]

/-- a table with strictly increasing flux densities -/
def Increasing : List (Row α) → Prop
  | (b0, _, _) :: (b1, h1, s1) :: rest => b0 < b1 ∧ Increasing ((b1, h1, s1) :: rest)
  | _ => True

theorem increasing_tail_gt : ∀ (b0 : α) (h0 s0 : α) (rest : List (Row α)),
    Increasing ((b0, h0, s0) :: rest) → ∀ r ∈ rest, b0 < r.1
  | _, _, _, [], _, r, hr => by cases hr
  | b0, h0, s0, (b1, h1, s1) :: rest, hinc, r, hr => by
    obtain ⟨h01, htail⟩ := hinc
    rcases List.mem_cons.mp hr with rfl | hr'
    · exact h01
    · exact lt_trans h01 (increasing_tail_gt b1 h1 s1 rest htail r hr')

/-- **H is single-valued at the knots**: at every table point of an increasing table with at least two rows the
    scan returns the table value — whichever of the two adjacent segments the scan picks -/
theorem scanH_at_knot : ∀ (tab : List (Row α)), Increasing tab → 2 ≤ tab.length → ∀ r ∈ tab, scanH r.1 tab = r.2.1
  | [], _, hlen, _, _ => by simp at hlen
  | [_], _, hlen, _, _ => by simp at hlen
  | (b0, h0, s0) :: (b1, h1, s1) :: rest, hinc, _, r, hr => by
    obtain ⟨h01, htail⟩ := hinc
    have hne : b1 - b0 ≠ 0 := sub_ne_zero.mpr (ne_of_gt h01)
    rcases List.mem_cons.mp hr with rfl | hr'
    · have : (b0 - b0) / (b1 - b0) = 0 := by simp
      simp only [scanH, le_refl, le_of_lt h01, and_self, if_true, this]
      exact segH_left' _ _ _ _ _
    · rcases List.mem_cons.mp hr' with rfl | hr''
      · have : (b1 - b0) / (b1 - b0) = 1 := div_self hne
        simp only [scanH, le_refl, le_of_lt h01, and_self, if_true, this]
        exact segH_right' _ _ _ _ _
      · have hgt : b1 < r.1 := increasing_tail_gt b1 h1 s1 rest htail r hr''
        have hnot : ¬ (b0 ≤ r.1 ∧ r.1 ≤ b1) := fun h => absurd h.2 (not_le.mpr hgt)
        have hlen' : 2 ≤ ((b1, h1, s1) :: rest).length := by
          cases rest with
          | nil => cases hr''
          | cons _ _ => simp
        simp only [scanH, hnot, if_false]
        exact scanH_at_knot ((b1, h1, s1) :: rest) htail hlen' r (List.mem_cons_of_mem _ hr'')
where
  segH_left' (l h0 h1 s0 s1 : α) : segH l 0 h0 h1 s0 s1 = h0 := by simp only [segH, k]; push_cast; ring
  segH_right' (l h0 h1 s0 s1 : α) : segH l 1 h0 h1 s0 s1 = h1 := by simp only [segH, k]; push_cast; ring

/-- **the reported slope is single-valued at the knots** (the curve is C¹) -/
theorem scanDH_at_knot : ∀ (tab : List (Row α)), Increasing tab → 2 ≤ tab.length → ∀ r ∈ tab, scanDH r.1 tab = r.2.2
  | [], _, hlen, _, _ => by simp at hlen
  | [_], _, hlen, _, _ => by simp at hlen
  | (b0, h0, s0) :: (b1, h1, s1) :: rest, hinc, _, r, hr => by
    obtain ⟨h01, htail⟩ := hinc
    have hne : b1 - b0 ≠ 0 := sub_ne_zero.mpr (ne_of_gt h01)
    rcases List.mem_cons.mp hr with rfl | hr'
    · have : (b0 - b0) / (b1 - b0) = 0 := by simp
      simp only [scanDH, le_refl, le_of_lt h01, and_self, if_true, this]
      simp only [segDH, k]; push_cast; ring
    · rcases List.mem_cons.mp hr' with rfl | hr''
      · have : (b1 - b0) / (b1 - b0) = 1 := div_self hne
        simp only [scanDH, le_refl, le_of_lt h01, and_self, if_true, this]
        simp only [segDH, k]; push_cast; ring
      · have hgt : b1 < r.1 := increasing_tail_gt b1 h1 s1 rest htail r hr''
        have hnot : ¬ (b0 ≤ r.1 ∧ r.1 ≤ b1) := fun h => absurd h.2 (not_le.mpr hgt)
        have hlen' : 2 ≤ ((b1, h1, s1) :: rest).length := by
          cases rest with
          | nil => cases hr''
          | cons _ _ => simp
        simp only [scanDH, hnot, if_false]
        exact scanDH_at_knot ((b1, h1, s1) :: rest) htail hlen' r (List.mem_cons_of_mem _ hr'')

/-- beyond the table H continues from the last value with the last slope, and joins it continuously -/
theorem getH_beyond (tab : List (Row α)) (bn hn sn b : α) (hl : tab.getLast? = some (bn, hn, sn)) (hb : bn < b) :
    getH tab b = hn + sn * (b - bn) ∧ getDH tab b = sn := by
  simp [getH, getDH, hl, hb]

theorem tail_joins (hn sn bn : α) : hn + sn * (bn - bn) = hn := by ring

end Knots

/-! ### the hypotheses are satisfiable: a concrete saturating table over ℚ -/
example : Increasing ([(0, 0, 1000), (1, 800, 600), (2, 3000, 9000)] : List (Row ℚ)) := by
  simp [Increasing]
example : scanH 1 ([(0, 0, 1000), (1, 800, 600), (2, 3000, 9000)] : List (Row ℚ)) = 800 := by
  decide +kernel


/-! ### analysis over ℝ -/
section Analysis
open Set

theorem hasDerivAt_z (b0 l b : ℝ) : HasDerivAt (fun b => (b - b0) / l) (1 / l) b := by
  simpa using ((hasDerivAt_id b).sub_const b0).div_const l

/-- **the reported slope is the derivative of the reported H** on a segment -/
theorem segH_hasDerivAt (l b0 h0 h1 s0 s1 b : ℝ) (hl : l ≠ 0) :
    HasDerivAt (fun b => segH l ((b - b0) / l) h0 h1 s0 s1) (segDH l ((b - b0) / l) h0 h1 s0 s1) b := by
  have hz := hasDerivAt_z b0 l b
  have h2 := hz.pow 2
  have h3 := hz.pow 3
  have key : HasDerivAt (fun b => h0 + (l * s0) * ((b - b0) / l) + (3 * h1 - 3 * h0 - 2 * l * s0 - l * s1) * ((b - b0) / l) ^ 2
      + (2 * h0 - 2 * h1 + l * s0 + l * s1) * ((b - b0) / l) ^ 3)
      (0 + (l * s0) * (1 / l) + (3 * h1 - 3 * h0 - 2 * l * s0 - l * s1) * (↑2 * ((b - b0) / l) ^ (2 - 1) * (1 / l))
      + (2 * h0 - 2 * h1 + l * s0 + l * s1) * (↑3 * ((b - b0) / l) ^ (3 - 1) * (1 / l))) b :=
    (((hasDerivAt_const b h0).add (hz.const_mul _)).add (h2.const_mul _)).add (h3.const_mul _)
  convert key using 1
  · funext b; simp only [segH, k]; push_cast; ring
  · simp only [segDH, k]; push_cast; field_simp; ring

/-- **the stored energy is the integral of H dB**: its derivative is the reported H (and it starts at 0 and is
    continuous across knots by `segEnergy_left` / `segEnergy_right` / `tailEnergy_start`) -/
theorem segEnergy_hasDerivAt (l b0 h0 h1 s0 s1 b : ℝ) (hl : l ≠ 0) :
    HasDerivAt (fun b => segEnergy l ((b - b0) / l) h0 h1 s0 s1) (segH l ((b - b0) / l) h0 h1 s0 s1) b := by
  have hz := hasDerivAt_z b0 l b
  have h2 := hz.pow 2
  have h3 := hz.pow 3
  have h4 := hz.pow 4
  have key : HasDerivAt (fun b => (h0 * l) * ((b - b0) / l) + (s0 * l * l / 2) * ((b - b0) / l) ^ 2
      + (-(2 / 3) * s0 * l * l - h0 * l + h1 * l - s1 * l * l / 3) * ((b - b0) / l) ^ 3
      + (s0 * l * l / 4 + h0 * l / 2 - h1 * l / 2 + s1 * l * l / 4) * ((b - b0) / l) ^ 4)
      ((h0 * l) * (1 / l) + (s0 * l * l / 2) * (↑2 * ((b - b0) / l) ^ (2 - 1) * (1 / l))
      + (-(2 / 3) * s0 * l * l - h0 * l + h1 * l - s1 * l * l / 3) * (↑3 * ((b - b0) / l) ^ (3 - 1) * (1 / l))
      + (s0 * l * l / 4 + h0 * l / 2 - h1 * l / 2 + s1 * l * l / 4) * (↑4 * ((b - b0) / l) ^ (4 - 1) * (1 / l))) b :=
    (((hz.const_mul _).add (h2.const_mul _)).add (h3.const_mul _)).add (h4.const_mul _)
  convert key using 1
  · funext b; simp only [segEnergy, k]; push_cast; ring
  · simp only [segH, k]; push_cast; field_simp; ring

/-- beyond the table: the energy tail has the extrapolated H as its derivative -/
theorem tailEnergy_hasDerivAt (bn hn sn b : ℝ) :
    HasDerivAt (fun b => tailEnergy b bn hn sn) (hn + sn * (b - bn)) b := by
  have h1 := hasDerivAt_id b
  have h2 := (hasDerivAt_id b).pow 2
  have key : HasDerivAt (fun b => (sn / 2) * b ^ 2 + (hn - bn * sn) * b + (bn * bn * sn / 2 - bn * hn))
      ((sn / 2) * (↑2 * b ^ (2 - 1) * 1) + (hn - bn * sn) * 1 + 0) b :=
    ((h2.const_mul _).add (h1.const_mul _)).add (hasDerivAt_const b _)
  convert key using 1
  · funext b; simp only [tailEnergy, k]; push_cast; ring
  · push_cast; ring

/-- a real quadratic whose closed-formula roots (as `GetSlopes` computes them) all miss `[0, L]` does not change
    sign on `[0, L]` -/
theorem quad_single_sign (c0 c1 c2 L : ℝ)
    (hlin : c2 = 0 → c1 ≠ 0 → ¬ (0 ≤ -c0 / c1 ∧ -c0 / c1 ≤ L))
    (hquad : c2 ≠ 0 → 0 < c1 * c1 - 4 * c0 * c2 →
      ¬ (0 ≤ -(c1 + Real.sqrt (c1 * c1 - 4 * c0 * c2)) / (2 * c2) ∧ -(c1 + Real.sqrt (c1 * c1 - 4 * c0 * c2)) / (2 * c2) ≤ L) ∧
      ¬ (0 ≤ (-c1 + Real.sqrt (c1 * c1 - 4 * c0 * c2)) / (2 * c2) ∧ (-c1 + Real.sqrt (c1 * c1 - 4 * c0 * c2)) / (2 * c2) ≤ L))
    (x y : ℝ) (hx : x ∈ Icc 0 L) (hy : y ∈ Icc 0 L) :
    0 ≤ (c0 + c1 * x + c2 * (x * x)) * (c0 + c1 * y + c2 * (y * y)) := by
  by_contra hneg
  rw [not_le] at hneg
  set q : ℝ → ℝ := fun t => c0 + c1 * t + c2 * (t * t) with hq
  have hcont : Continuous q := by
    simp only [hq]; fun_prop
  -- a root between x and y
  have hmem : (0 : ℝ) ∈ uIcc (q x) (q y) := by
    rcases le_total (q x) 0 with h | h
    · have : 0 ≤ q y := by
        by_contra h'; rw [not_le] at h'
        have : 0 ≤ q x * q y := mul_nonneg_of_nonpos_of_nonpos h (le_of_lt h')
        exact absurd hneg (not_lt.mpr this)
      exact ⟨by simp [h], by simp [this]⟩
    · have : q y ≤ 0 := by
        by_contra h'; rw [not_le] at h'
        have : 0 ≤ q x * q y := mul_nonneg h (le_of_lt h')
        exact absurd hneg (not_lt.mpr this)
      rw [uIcc_comm]
      exact ⟨by simp [this], by simp [h]⟩
  obtain ⟨r, hr, hroot⟩ := intermediate_value_uIcc (hcont.continuousOn) hmem
  have hrL : 0 ≤ r ∧ r ≤ L := by
    have h1 : min x y ≤ r := hr.1
    have h2 : r ≤ max x y := hr.2
    exact ⟨le_trans (le_min hx.1 hy.1) h1, le_trans h2 (max_le hx.2 hy.2)⟩
  have hroot' : c0 + c1 * r + c2 * (r * r) = 0 := hroot
  by_cases hc2 : c2 = 0
  · by_cases hc1 : c1 = 0
    · -- constant
      have : q x * q y = c0 * c0 := by simp [hq, hc2, hc1]
      have h0 : 0 ≤ c0 * c0 := mul_self_nonneg c0
      exact absurd hneg (not_lt.mpr (this ▸ h0))
    · have hr' : r = -c0 / c1 := by
        rw [hc2] at hroot'
        field_simp
        linarith
      exact hlin hc2 hc1 (hr' ▸ hrL)
  · -- genuine quadratic: 4 c2 q(t) = (2 c2 t + c1)^2 - disc
    have hid : ∀ t, 4 * c2 * q t = (2 * c2 * t + c1) ^ 2 - (c1 * c1 - 4 * c0 * c2) := by
      intro t; simp only [hq]; ring
    have hdr : (2 * c2 * r + c1) ^ 2 = c1 * c1 - 4 * c0 * c2 := by
      have := hid r
      have hq0 : q r = 0 := hroot
      rw [hq0] at this; linarith
    have hdisc_nonneg : 0 ≤ c1 * c1 - 4 * c0 * c2 := hdr ▸ sq_nonneg _
    rcases eq_or_lt_of_le hdisc_nonneg with hd0 | hdpos
    · -- double root: no sign change
      have hx' : 4 * c2 * q x = (2 * c2 * x + c1) ^ 2 := by rw [hid x, ← hd0]; ring
      have hy' : 4 * c2 * q y = (2 * c2 * y + c1) ^ 2 := by rw [hid y, ← hd0]; ring
      have hprod : (4 * c2) ^ 2 * (q x * q y) = (2 * c2 * x + c1) ^ 2 * (2 * c2 * y + c1) ^ 2 := by
        rw [← hx', ← hy']; ring
      have hpos : 0 < (4 * c2) ^ 2 := by positivity
      have : 0 ≤ (4 * c2) ^ 2 * (q x * q y) := hprod ▸ mul_nonneg (sq_nonneg _) (sq_nonneg _)
      have : 0 ≤ q x * q y := nonneg_of_mul_nonneg_right this hpos
      exact absurd hneg (not_lt.mpr this)
    · have hs : Real.sqrt (c1 * c1 - 4 * c0 * c2) = |2 * c2 * r + c1| := by
        rw [← hdr, Real.sqrt_sq_eq_abs]
      obtain ⟨hA, hB⟩ := hquad hc2 hdpos
      have h2c : (2 * c2) ≠ 0 := by positivity
      rcases le_total 0 (2 * c2 * r + c1) with hsg | hsg
      · rw [abs_of_nonneg hsg] at hs
        have : r = (-c1 + Real.sqrt (c1 * c1 - 4 * c0 * c2)) / (2 * c2) := by
          rw [hs]; field_simp; ring
        exact hB (this ▸ hrL)
      · rw [abs_of_nonpos hsg] at hs
        have : r = -(c1 + Real.sqrt (c1 * c1 - 4 * c0 * c2)) / (2 * c2) := by
          rw [hs]; field_simp; ring
        exact hA (this ▸ hrL)

/-- the test of `GetSlopes` (with the real square root) passing on a segment means the reported slope does not change
    sign on that segment -/
theorem not_bad_single_sign (L u0 u1 d0 d1 : ℝ) (hL : L ≠ 0) (h : segBad Real.sqrt L u0 u1 d0 d1 = false)
    (x y : ℝ) (hx : x ∈ Icc 0 L) (hy : y ∈ Icc 0 L) :
    0 ≤ segDH L (x / L) u0 u1 d0 d1 * segDH L (y / L) u0 u1 d0 d1 := by
  rw [segDH_eq_quadratic L u0 u1 d0 d1 x hL, segDH_eq_quadratic L u0 u1 d0 d1 y hL]
  rcases hc : slopeCoeffs L u0 u1 d0 d1 with ⟨c0, c1, c2⟩
  simp only [segBad, hc, k] at h
  push_cast at h
  apply quad_single_sign c0 c1 c2 L _ _ x y hx hy
  · intro hc2 hc1
    simp [hc2, hc1] at h
    intro hh
    exact absurd (h hh.1) (not_lt.mpr hh.2)
  · intro hc2 hd
    simp [hc2, hd] at h
    constructor
    · intro hh
      have e : -(c1 + √(c1 * c1 - 4 * c0 * c2)) / (2 * c2) = (-√(c1 * c1 - 4 * c0 * c2) + -c1) / (2 * c2) := by ring
      rw [e] at hh
      exact absurd (h.1 hh.1) (not_lt.mpr hh.2)
    · intro hh; exact absurd (h.2 hh.1) (not_lt.mpr hh.2)

/-- **H is non-decreasing on every segment that passes the test of `GetSlopes`** (table values increasing) -/
theorem seg_monotone (L b0 u0 u1 d0 d1 : ℝ) (hL : 0 < L) (hu : u0 < u1)
    (h : segBad Real.sqrt L u0 u1 d0 d1 = false) :
    MonotoneOn (fun b => segH L ((b - b0) / L) u0 u1 d0 d1) (Icc b0 (b0 + L)) := by
  have hL' : L ≠ 0 := ne_of_gt hL
  set f : ℝ → ℝ := fun b => segH L ((b - b0) / L) u0 u1 d0 d1 with hf
  have hder : ∀ b, HasDerivAt f (segDH L ((b - b0) / L) u0 u1 d0 d1) b := fun b => segH_hasDerivAt L b0 u0 u1 d0 d1 b hL'
  have hcont : Continuous f := continuous_iff_continuousAt.mpr (fun b => (hder b).continuousAt)
  -- a point of positive slope by the mean value theorem
  obtain ⟨c, hc, hslope⟩ := exists_hasDerivAt_eq_slope f (fun b => segDH L ((b - b0) / L) u0 u1 d0 d1)
    (by linarith : b0 < b0 + L) hcont.continuousOn (fun x _ => hder x)
  have hfa : f b0 = u0 := by simp only [hf, sub_self, zero_div]; exact segH_left _ _ _ _ _
  have hfb : f (b0 + L) = u1 := by
    simp only [hf, add_sub_cancel_left, div_self hL']; exact segH_right _ _ _ _ _
  have hpos : 0 < segDH L ((c - b0) / L) u0 u1 d0 d1 := by
    rw [hslope, hfa, hfb, add_sub_cancel_left]; exact div_pos (by linarith) hL
  have hcI : c - b0 ∈ Icc 0 L := ⟨by linarith [hc.1], by linarith [hc.2]⟩
  apply monotoneOn_of_deriv_nonneg (convex_Icc _ _) hcont.continuousOn
  · exact fun x _ => (hder x).differentiableAt.differentiableWithinAt
  · intro x hx
    rw [interior_Icc] at hx
    rw [(hder x).deriv]
    have hxI : x - b0 ∈ Icc 0 L := ⟨by linarith [hx.1], by linarith [hx.2]⟩
    have := not_bad_single_sign L u0 u1 d0 d1 hL' h (c - b0) (x - b0) hcI hxI
    exact nonneg_of_mul_nonneg_right this hpos


/-- the hypotheses of `seg_monotone` are satisfiable: a curved segment (slope 1 → 2) that passes the test -/
example : segBad Real.sqrt 1 0 (3 / 2) 1 2 = false := by
  simp only [segBad, slopeCoeffs, k]; norm_num

end Analysis

end XfemmVerif.C19
