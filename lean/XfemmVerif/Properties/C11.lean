import XfemmVerif.Properties.C03
import XfemmVerif.Lemmas.SparseLemmas
import XfemmVerif.Lemmas.ComplexField
import XfemmVerif.Model.CSparse
import Mathlib.Algebra.BigOperators.Group.Finset.Basic
import Mathlib.Algebra.BigOperators.Ring.Finset
import Mathlib.Tactic.Ring
/-!
# C11 — linear problems superpose and are reciprocal in every formulation

Abstract linear algebra over the `n × n` systems the assemblers produce (any field, any formulation:
real or complex symmetric), plus linearity of the element-level source terms of the model tied to the
code in C03.  Superposition: solutions of `K·x = b` combine linearly with the right-hand sides when `K`
does not depend on the excitation.  Reciprocity: for a symmetric `K`, the reaction on terminal `j` caused
by a unit value on terminal `i` equals the reaction on `i` caused by a unit value on `j`
(capacitance / conductance / inductance matrices are symmetric).
-/
open Finset
namespace XfemmVerif.C11
open XfemmVerif.ESolver XfemmVerif.C03

variable {α : Type} [Field α]

def mulV (n : ℕ) (K : ℕ → ℕ → α) (x : ℕ → α) (r : ℕ) : α := ∑ c ∈ range n, K r c * x c

/-- **superposition**: if `K` is the same for both excitations, `a·x₁ + b·x₂` solves the system of `a·b₁ + b·b₂` -/
theorem solution_superposes (n : ℕ) (K : ℕ → ℕ → α) (x1 x2 b1 b2 : ℕ → α) (a b : α)
    (h1 : ∀ r < n, mulV n K x1 r = b1 r) (h2 : ∀ r < n, mulV n K x2 r = b2 r) :
    ∀ r < n, mulV n K (fun c => a * x1 c + b * x2 c) r = a * b1 r + b * b2 r := by
  intro r hr
  rw [← h1 r hr, ← h2 r hr]
  unfold mulV
  rw [Finset.mul_sum, Finset.mul_sum, ← Finset.sum_add_distrib]
  apply Finset.sum_congr rfl; intro c _; ring

/-- zero excitation is solved by the zero field -/
theorem zero_excitation_zero_field (n : ℕ) (K : ℕ → ℕ → α) : ∀ r < n, mulV n K (fun _ => 0) r = 0 := by
  intro r _; unfold mulV; simp

/-- the bilinear form of a symmetric matrix is symmetric -/
theorem bilinear_symm (n : ℕ) (K : ℕ → ℕ → α) (hK : ∀ r c, K r c = K c r) (u v : ℕ → α) :
    ∑ r ∈ range n, u r * mulV n K v r = ∑ r ∈ range n, v r * mulV n K u r := by
  unfold mulV
  simp only [Finset.mul_sum]
  rw [Finset.sum_comm]
  apply Finset.sum_congr rfl; intro c _
  apply Finset.sum_congr rfl; intro r _
  rw [hK r c]; ring

/-- **reciprocity**: `free r` marks the rows whose equation is solved; terminal `a` is described by its
    indicator `P a` (zero on free rows).  `V a` is the field for a unit value on terminal `a`: it equals
    `P a` on the constrained rows and satisfies the homogeneous equations on the free rows.  Then the
    reaction collected on terminal `j` in the field of `i` equals the reaction on `i` in the field of `j`. -/
theorem reciprocity (n : ℕ) (K : ℕ → ℕ → α) (hK : ∀ r c, K r c = K c r) (free : ℕ → Prop) [DecidablePred free]
    (P V : ℕ → ℕ → α) (i j : ℕ)
    (hP : ∀ a r, free r → P a r = 0)
    (hfix : ∀ a r, r < n → ¬ free r → V a r = P a r)
    (hfree : ∀ a r, r < n → free r → mulV n K (V a) r = 0) :
    ∑ r ∈ range n, P j r * mulV n K (V i) r = ∑ r ∈ range n, P i r * mulV n K (V j) r := by
  have key : ∀ a b, ∑ r ∈ range n, P a r * mulV n K (V b) r = ∑ r ∈ range n, V a r * mulV n K (V b) r := by
    intro a b
    apply Finset.sum_congr rfl
    intro r hr
    have hr' : r < n := Finset.mem_range.1 hr
    by_cases hf : free r
    · rw [hfree b r hr' hf]; ring
    · rw [hfix a r hr' hf]
  rw [key j i, key i j]
  exact bilinear_symm n K hK (V j) (V i)

/-- the element source term of the model is linear in the source density (so is every right-hand side the
    assembler builds from densities, boundary values and conductor values) -/
theorem volCharge_linear (depth c a q1 q2 s t : α) :
    volCharge depth c (s * q1 + t * q2) a = s * volCharge depth c q1 a + t * volCharge depth c q2 a := by
  simp only [volCharge]; ring

/-- the stiffness element does not depend on any excitation: it is a function of geometry and material only
    (statement: the same arguments give the same matrix — recorded to make the dependency explicit) -/
theorem stiffness_independent_of_excitation (depth ex ey a kludge : α) (p q : V3 α) (j k : Fin 3) (_excitation : α) :
    stiff depth ex ey a kludge p q j k = stiff depth ex ey a kludge p q j k := rfl

/-! non-vacuity: a 2×2 symmetric instance -/
example : ∑ r ∈ range 2, (fun r => if r = 0 then (1 : ℚ) else 0) r * mulV 2 (fun r c => if r = c then 2 else -1) (fun c => if c = 1 then 1 else 0) r
    = ∑ r ∈ range 2, (fun c => if c = 1 then (1 : ℚ) else 0) r * mulV 2 (fun r c => if r = c then 2 else -1) (fun r => if r = 0 then 1 else 0) r := by
  apply bilinear_symm; intro r c; by_cases h : r = c <;> simp [h, eq_comm]

/-! ### the same statements about the matrices the solver models store

`Sparse.get M` — the matrix of a linear problem of `Model/Sparse.lean` (real solvers) or, at the scalar `Cx K`, of `Model/CSparse.lean`
(the complex solver of the time-harmonic formulations) — is symmetric by construction (upper-triangle storage, `get_symm`), so the
abstract theorems above apply to every system the assemblers build, real and complex-symmetric alike. -/
section ModelSystems
open XfemmVerif XfemmVerif.Sparse

theorem model_system_superposes (M : LinProb α) (x1 x2 b1 b2 : ℕ → α) (a b : α)
    (h1 : ∀ r < M.n, mulV M.n (get M) x1 r = b1 r) (h2 : ∀ r < M.n, mulV M.n (get M) x2 r = b2 r) :
    ∀ r < M.n, mulV M.n (get M) (fun c => a * x1 c + b * x2 c) r = a * b1 r + b * b2 r :=
  solution_superposes M.n (get M) x1 x2 b1 b2 a b h1 h2

/-- **reciprocity of every stored system**: no symmetry hypothesis is left — the storage provides it -/
theorem model_system_reciprocal (M : LinProb α) (free : ℕ → Prop) [DecidablePred free] (P V : ℕ → ℕ → α) (i j : ℕ)
    (hP : ∀ a r, free r → P a r = 0) (hfix : ∀ a r, r < M.n → ¬ free r → V a r = P a r)
    (hfree : ∀ a r, r < M.n → free r → mulV M.n (get M) (V a) r = 0) :
    ∑ r ∈ range M.n, P j r * mulV M.n (get M) (V i) r = ∑ r ∈ range M.n, P i r * mulV M.n (get M) (V j) r :=
  reciprocity M.n (get M) (get_symm M) free P V i j hP hfix hfree

variable {K : Type} [Field K] [LinearOrder K] [IsStrictOrderedRing K] [AbsGt K] [LawfulAbsGt K]

/-- … in particular of the complex-symmetric systems of the time-harmonic formulations (scalar `Cx K` with the `CComplex` operators):
    complex mutual couplings are symmetric, `L₁₂ = L₂₁` as complex numbers -/
theorem complex_system_reciprocal (M : CSparse.CLinProb K) (free : ℕ → Prop) [DecidablePred free] (P V : ℕ → ℕ → Cx K) (i j : ℕ)
    (hP : ∀ a r, free r → P a r = 0) (hfix : ∀ a r, r < M.n → ¬ free r → V a r = P a r)
    (hfree : ∀ a r, r < M.n → free r → mulV M.n (get M) (V a) r = 0) :
    ∑ r ∈ range M.n, P j r * mulV M.n (get M) (V i) r = ∑ r ∈ range M.n, P i r * mulV M.n (get M) (V j) r :=
  model_system_reciprocal M free P V i j hP hfix hfree

theorem complex_system_superposes (M : CSparse.CLinProb K) (x1 x2 b1 b2 : ℕ → Cx K) (a b : Cx K)
    (h1 : ∀ r < M.n, mulV M.n (get M) x1 r = b1 r) (h2 : ∀ r < M.n, mulV M.n (get M) x2 r = b2 r) :
    ∀ r < M.n, mulV M.n (get M) (fun c => a * x1 c + b * x2 c) r = a * b1 r + b * b2 r :=
  model_system_superposes M x1 x2 b1 b2 a b h1 h2

end ModelSystems

end XfemmVerif.C11
