import XfemmVerif.Lemmas.ConstrainedSystems
import XfemmVerif.Lemmas.CSparseLemmas
import XfemmVerif.Lemmas.SparseMultA
import XfemmVerif.Lemmas.SparseHistory
/-!
# C09 — linear solvers return the solution of the system they were given

Property theorems about `Model/Sparse.lean` (the statement-by-statement model of
`cfemm/libfemm/spars.cpp`, tied to the C++ on every run by the `sparse` correspondence harness).

*Proved here, for every matrix size, sparsity pattern, insertion order and operation history:*
entry set/get/add is exact and symmetric; accumulation by `AddTo` is insertion-order independent;
`SetValue`, `Periodicity`, `AntiPeriodicity` yield exactly the correspondingly constrained system;
the CG recurrence residual is the true residual.

*Refinement of the solver loop:* `MultA` — the scatter over the linked upper-triangle rows — is the product with the full symmetric
matrix read through `Get` (`multA_is_matrix_product`, for the stored form that `Create` / `Put` / `AddTo` establish and keep), hence a
pass of the model's own `PCGSolve` / `PBCGSolve` body keeps the recurrence residual equal to the true residual
(`pcgStep_keeps_true_residual`, `pbcgStep_keeps_true_residual`).

*The complex solver* (`Model/CSparse.lean`, the model of `cspars.cpp` without Newton matrices, tied by the `csparse`
correspondence harness): `Cx K` with the operators of `CComplex` — the C++ product and the scaled division that branches on
`fabs(re) > fabs(im)` — is a field for every ordered field `K` (`Lemmas/ComplexField.lean`), the mixed complex / real operators the
solver uses are field operations, so its `Periodicity` / `AntiPeriodicity` ARE the generic ones and its `SetValue` differs only in the
rows it scans; the constrained-system theorems are proved for it below, with the scan window of `cspars.cpp`.

*Not proved (runtime part, labelled partial):* termination and attained accuracy of PCG / PBCG in
floating point — observed on every run by the harness against an exact rational dense solve.
-/
open Finset
namespace XfemmVerif.C09
open XfemmVerif.Sparse

variable {α : Type}

/-! ## entry set / get / add: exact and symmetric regardless of insertion order -/

/-- what was put is what is read, from either side of the diagonal -/
theorem put_get_exact [OfNat α 0] (M : LinProb α) (hM : WF M) (v : α) (p q : Nat)
    (hp : p < M.n) (hq : q < M.n) :
    get (put M v p q) p q = v ∧ get (put M v p q) q p = v := by
  constructor <;> rw [get_put M hM v p q _ _ hp hq] <;> simp

/-- a put changes no other entry -/
theorem put_get_other [OfNat α 0] (M : LinProb α) (hM : WF M) (v : α) (p q p' q' : Nat)
    (hp : p < M.n) (hq : q < M.n) (h : ¬ ((p' = p ∧ q' = q) ∨ (p' = q ∧ q' = p))) :
    get (put M v p q) p' q' = get M p' q' := by
  rw [get_put M hM v p q _ _ hp hq, if_neg h]

/-- the matrix read back is symmetric in every state -/
theorem get_symmetric [OfNat α 0] (M : LinProb α) (p q : Nat) : get M p q = get M q p :=
  get_symm M p q

/-- rows stay strictly sorted by column (the linked-list invariant `Get` relies on) -/
theorem put_keeps_rows_sorted (q : Nat) (v : α) (r : Row α) (hs : Sorted r) : Sorted (putRow q v r) :=
  putRow_sorted q v r hs

/-- a freshly created problem is the zero matrix -/
theorem create_is_zero [OfNat α 0] (d bw p q : Nat) : get (create (α := α) d bw) p q = 0 :=
  get_create d bw p q

/-- one `AddTo` op -/
structure Op (α : Type) where
  v : α
  p : Nat
  q : Nat

def applyOps [OfNat α 0] [Add α] (M : LinProb α) (ops : List (Op α)) : LinProb α :=
  ops.foldl (fun M o => addTo M o.v o.p o.q) M

/-- contribution of an op list to the unordered position `{p,q}` -/
def contrib [AddCommMonoid α] (ops : List (Op α)) (p q : Nat) : α :=
  (ops.map (fun o => if (p = o.p ∧ q = o.q) ∨ (p = o.q ∧ q = o.p) then o.v else 0)).sum

theorem applyOps_wf [Field α] (M : LinProb α) (hM : WF M) (ops : List (Op α)) :
    WF (applyOps M ops) ∧ (applyOps M ops).n = M.n := by
  induction ops generalizing M with
  | nil => exact ⟨hM, rfl⟩
  | cons o ops ih =>
    have := ih (addTo M o.v o.p o.q) (addTo_wf M hM _ _ _)
    exact ⟨this.1, this.2⟩

/-- **accumulation is exact**: after any sequence of `AddTo` the entry read at `{p,q}` is the old
    entry plus the sum of everything added to that unordered position -/
theorem get_applyOps [Field α] (M : LinProb α) (hM : WF M) (ops : List (Op α))
    (hops : ∀ o ∈ ops, o.p < M.n ∧ o.q < M.n) (p q : Nat) :
    get (applyOps M ops) p q = get M p q + contrib ops p q := by
  induction ops generalizing M with
  | nil => simp [applyOps, contrib]
  | cons o ops ih =>
    have ho := hops o (by simp)
    have hM' := addTo_wf M hM o.v o.p o.q
    have := ih (addTo M o.v o.p o.q) hM' (by
      intro o' ho'; exact hops o' (by simp [ho']))
    unfold applyOps at this ⊢
    simp only [List.foldl_cons]
    rw [this, get_addTo M hM o.v o.p o.q p q ho.1 ho.2]
    unfold contrib
    simp only [List.map_cons, List.sum_cons]
    split
    · rename_i h
      rcases h with ⟨rfl, rfl⟩ | ⟨rfl, rfl⟩
      · ring
      · rw [get_symm M o.p o.q]; ring
    · ring

/-- **insertion-order independence**: any permutation of the same contributions gives the same matrix -/
theorem addTo_order_independent [Field α] (M : LinProb α) (hM : WF M) (ops ops' : List (Op α))
    (hperm : ops.Perm ops') (hops : ∀ o ∈ ops, o.p < M.n ∧ o.q < M.n) (p q : Nat) :
    get (applyOps M ops) p q = get (applyOps M ops') p q := by
  rw [get_applyOps M hM ops hops, get_applyOps M hM ops' (fun o ho => hops o (hperm.mem_iff.2 ho))]
  congr 1
  unfold contrib
  exact (hperm.map _).sum_eq

/-! ## fixing a value yields exactly the constrained system -/

/-- `SetValue(i,x)`: for a non-zero diagonal and a bandwidth hint that covers column `i`,
    `y` solves the modified system iff `y i = x` and every other original equation holds. -/
theorem setValue_solves_constrained [Field α] [DecidableEq α] (M : LinProb α) (hM : WF M) (i : Nat)
    (hi : i < M.n) (x : α) (hd : get M i i ≠ 0)
    (hband : ∀ k, k < M.n → get M k i ≠ 0 →
      (window M.n M.bdw i).1 ≤ k ∧ k < (window M.n M.bdw i).2) (y : ℕ → α) :
    Solves M.n (get (setValue M i x)) (getB (setValue M i x)) y ↔
      (y i = x ∧ ∀ k < M.n, k ≠ i → mulVec M.n (get M) y k = getB M k) := by
  obtain ⟨_, _, hg, hb⟩ := setValue_view M hM i hi x hband
  rw [← setValue_abstract (get M) (getB M) y hi x hd]
  unfold Solves
  constructor <;> intro h k hk
  · have e : mulVec M.n (setA (get M) i) y k = mulVec M.n (get (setValue M i x)) y k :=
      (mulVec_congr y hk (fun a b ha hb' => hg a b ha hb')).symm
    rw [e]; have := h k hk; rw [hb k hk] at this; exact this
  · have e : mulVec M.n (get (setValue M i x)) y k = mulVec M.n (setA (get M) i) y k :=
      mulVec_congr y hk (fun a b ha hb' => hg a b ha hb')
    rw [e, hb k hk]; exact h k hk

/-- the band hypothesis is needed: with a hint that is too small `SetValue` leaves a coupling behind.
    Witness over ℚ: 3×3, entry (0,2) ≠ 0, `bdw = 1`, fixing unknown 2 does not touch row 0. -/
theorem setValue_band_needed :
    let M : LinProb Rat := put (put (put (put (create 3 1) 2 0 0) 2 1 1) 2 2 2) 1 0 2
    get (setValue M 2 5) 0 2 ≠ 0 := by
  decide +kernel

/-! ## tying two unknowns yields exactly the constrained system -/

/-- `Periodicity(i,j)`: for vectors with `y i = y j` the averaged system is equivalent to:
    every other equation unchanged and the *sum* of equations `i` and `j`. -/
theorem periodicity_solves_constrained [Field α] [DecidableEq α] [CharZero α] (M : LinProb α) (hM : WF M)
    (i j : Nat) (hij : i ≠ j) (hi : i < M.n) (hj : j < M.n) (y : ℕ → α) (hy : y i = y j) :
    Solves M.n (get (periodicity M i j)) (getB (periodicity M i j)) y ↔
      ((∀ k < M.n, k ≠ i → k ≠ j → mulVec M.n (get M) y k = getB M k) ∧
        mulVec M.n (get M) y i + mulVec M.n (get M) y j = getB M i + getB M j) := by
  have hv := tie_view false M hM i j hij hi hj
  simp only [Bool.false_eq_true, if_false, sgn] at hv
  obtain ⟨_, _, hg, hb⟩ := hv
  have := tie_abstract (1 : α) (by ring) (get M) (get_symm M) (getB M) y hij hi hj (by rw [one_mul]; exact hy)
  simp only [one_mul] at this
  rw [← this]
  unfold Solves
  constructor <;> intro h k hk
  · have e : mulVec M.n (tieA 1 (get M) i j) y k = mulVec M.n (get (periodicity M i j)) y k :=
      (mulVec_congr y hk (fun a b ha hb' => hg a b ha hb')).symm
    rw [e]; have := h k hk; rw [hb k hk] at this; exact this
  · have e : mulVec M.n (get (periodicity M i j)) y k = mulVec M.n (tieA 1 (get M) i j) y k :=
      mulVec_congr y hk (fun a b ha hb' => hg a b ha hb')
    rw [e, hb k hk]; exact h k hk

/-- `AntiPeriodicity(i,j)`: for vectors with `y i = - y j` the averaged system is equivalent to:
    every other equation unchanged and the *difference* of equations `i` and `j`. -/
theorem antiPeriodicity_solves_constrained [Field α] [DecidableEq α] [CharZero α] (M : LinProb α)
    (hM : WF M) (i j : Nat) (hij : i ≠ j) (hi : i < M.n) (hj : j < M.n) (y : ℕ → α) (hy : y i = - y j) :
    Solves M.n (get (antiPeriodicity M i j)) (getB (antiPeriodicity M i j)) y ↔
      ((∀ k < M.n, k ≠ i → k ≠ j → mulVec M.n (get M) y k = getB M k) ∧
        mulVec M.n (get M) y i - mulVec M.n (get M) y j = getB M i - getB M j) := by
  have hv := tie_view true M hM i j hij hi hj
  simp only [if_true, sgn] at hv
  obtain ⟨_, _, hg, hb⟩ := hv
  have := tie_abstract (-1 : α) (by ring) (get M) (get_symm M) (getB M) y hij hi hj (by rw [hy]; ring)
  simp only [neg_one_mul, ← sub_eq_add_neg] at this
  rw [← this]
  unfold Solves
  constructor <;> intro h k hk
  · have e : mulVec M.n (tieA (-1) (get M) i j) y k = mulVec M.n (get (antiPeriodicity M i j)) y k :=
      (mulVec_congr y hk (fun a b ha hb' => hg a b ha hb')).symm
    rw [e]; have := h k hk; rw [hb k hk] at this; exact this
  · have e : mulVec M.n (get (antiPeriodicity M i j)) y k = mulVec M.n (tieA (-1) (get M) i j) y k :=
      mulVec_congr y hk (fun a b ha hb' => hg a b ha hb')
    rw [e, hb k hk]; exact h k hk

/-- the tied system does not distinguish the two unknowns: swapping `y i` and `s·y j` maps solutions
    to solutions — stated through the matrix: rows `i` and `j` of the tied matrix are `s`-multiples.
    (With unique solvability this gives `y i = s · y j`, i.e. *the solution repeats*.) -/
theorem tied_rows_proportional [Field α] [DecidableEq α] (anti : Bool) (M : LinProb α) (hM : WF M)
    (i j : Nat) (hij : i ≠ j) (hi : i < M.n) (hj : j < M.n) (l : Nat) (hl : l < M.n)
    (hli : l ≠ i) (hlj : l ≠ j) :
    let M' := if anti then antiPeriodicity M i j else periodicity M i j
    get M' j l = sgn anti * get M' i l := by
  obtain ⟨_, _, hg, _⟩ := tie_view anti M hM i j hij hi hj
  simp only at hg ⊢
  rw [hg j l hj hl, hg i l hi hl]
  unfold tieA other
  have hji : ¬ j = i := fun h => hij h.symm
  simp only [hji, hli, hlj, or_self, or_true, true_or, if_true, if_false]
  have h2 := sgn_mul_self (α := α) anti
  have e : sgn anti * (get M l i + sgn anti * get M l j) = get M l j + sgn anti * get M l i := by
    calc sgn anti * (get M l i + sgn anti * get M l j)
        = sgn anti * get M l i + (sgn anti * sgn anti) * get M l j := by ring
      _ = get M l j + sgn anti * get M l i := by rw [h2]; ring
  rw [← e]; ring

/-! ## the CG recurrence residual is the true residual -/

/-- one update `V += del·P`, `R -= del·(A P)` keeps `R = b − A V`, for any step length `del`
    (whatever the preconditioner and the inner products did): the invariant shared by `PCGSolve`,
    `PBCGSolve` and `PCGSQStart`, hence an exit test on the recurrence residual is a test on the
    true residual in exact arithmetic. -/
theorem cg_residual_invariant [Field α] {n : ℕ} (A : ℕ → ℕ → α) (b V R P : ℕ → α) (del : α)
    (hR : ∀ k < n, R k = b k - mulVec n A V k) :
    ∀ k < n, (R k - del * mulVec n A P k) = b k - mulVec n A (fun l => V l + del * P l) k :=
  cg_residual_step A b V R P del hR

/-! ## `MultA` is the product with the stored matrix, and the solver's own step keeps `R = b − A V` -/
section Refinement
variable {β : Type} [Field β]

/-- **`MultA` computes the product with the full symmetric matrix read through `Get`** — for rows in the stored form that
    `Create` establishes and `Put` / `AddTo` keep (`create_rowsOk`, `put_rowsOk`): the scatter over the linked upper-triangle rows
    is `∑ j < n, get M k j · X j` in every component -/
theorem multA_is_matrix_product (M : LinProb β) (hM : RowsOk M) (X : Array β) (k : Nat) (hk : k < M.n) :
    vget (multA M X) k = mulVec M.n (get M) (vget X) k := vget_multA M hM X k hk

theorem stored_form_reachable (d bw : Nat) (ops : List (β × Nat × Nat)) (hops : ∀ o ∈ ops, o.2.1 < d ∧ o.2.2 < d) :
    RowsOk (ops.foldl (fun M o => addTo M o.1 o.2.1 o.2.2) (create (α := β) d bw)) ∧
      (ops.foldl (fun M o => addTo M o.1 o.2.1 o.2.2) (create (α := β) d bw)).n = d := by
  have key : ∀ (ops : List (β × Nat × Nat)) (M : LinProb β), WF M → RowsOk M → M.n = d → (∀ o ∈ ops, o.2.1 < d ∧ o.2.2 < d) →
      RowsOk (ops.foldl (fun M o => addTo M o.1 o.2.1 o.2.2) M) ∧ (ops.foldl (fun M o => addTo M o.1 o.2.1 o.2.2) M).n = d := by
    intro ops
    induction ops with
    | nil => intro M _ hM hn _; exact ⟨hM, hn⟩
    | cons o t ih =>
      intro M hW hM hn ho
      have h1 := ho o (by simp)
      simp only [List.foldl_cons]
      exact ih _ (addTo_wf M hW _ _ _) (addTo_rowsOk M hW hM _ _ _ (by rw [hn]; exact h1.1) (by rw [hn]; exact h1.2))
        (by simpa [addTo] using hn) (fun o' ho' => ho o' (by simp [ho']))
  exact key ops _ (create_wf d bw) (create_rowsOk d bw) rfl hops

/-- **the step of `PCGSolve` itself keeps the recurrence residual equal to the true residual**: if `R = b − A V` before a pass of
    the `do … while` body of the model (`pcgStep`: `MultA`, `Dot`, the SSOR preconditioner, the three vector updates), then after
    it — whatever the preconditioner and the inner products returned -/
theorem pcgStep_keeps_true_residual (M : LinProb β) (hM : RowsOk M) (lambda : β) (s : CGState β)
    (hR : ∀ k < M.n, vget s.R k = getB M k - mulVec M.n (get M) (vget s.V) k) :
    ∀ k < M.n, vget (pcgStep M lambda s).R k = getB M k - mulVec M.n (get M) (vget (pcgStep M lambda s).V) k := by
  intro k hk
  have hof : ∀ (f : Fin M.n → β) (j : Nat) (hj : j < M.n), vget (Array.ofFn f) j = f ⟨j, hj⟩ := by
    intro f j hj; simp [vget, hj]
  simp only [pcgStep]
  rw [hof _ k hk, hR k hk, multA_is_matrix_product M hM s.P k hk]
  have hV : ∀ j ∈ Finset.range M.n,
      get M k j * vget (Array.ofFn (n := M.n) (fun i => vget s.V i.val +
        s.res / dot M.n s.P (multA M s.P) * vget s.P i.val)) j =
      get M k j * vget s.V j + s.res / dot M.n s.P (multA M s.P) * (get M k j * vget s.P j) := by
    intro j hj
    rw [hof _ j (Finset.mem_range.1 hj)]; ring
  unfold mulVec
  rw [Finset.sum_congr rfl hV, Finset.sum_add_distrib, ← Finset.mul_sum]
  ring

/-- the state `PCGSolve` starts its loop from (`R = b − A V₀` computed through `MultA`, for a cold or a warm start) has the true residual -/
theorem pcg_initial_state_has_true_residual (M : LinProb β) (hM : RowsOk M) (V0 Z : Array β) (res : β) :
    let s0 : CGState β := { V := V0, R := Array.ofFn (n := M.n) (fun i => vget M.b i.val - vget (multA M V0) i.val), P := Z, res := res }
    ∀ k < M.n, vget s0.R k = getB M k - mulVec M.n (get M) (vget s0.V) k := by
  intro s0 k hk
  have hof : ∀ (f : Fin M.n → β) (j : Nat) (hj : j < M.n), vget (Array.ofFn f) j = f ⟨j, hj⟩ := by
    intro f j hj; simp [vget, hj]
  show vget (Array.ofFn (n := M.n) (fun i => vget M.b i.val - vget (multA M V0) i.val)) k = _
  rw [hof _ k hk, multA_is_matrix_product M hM V0 k hk]
  rfl

/-- **every iterate of `PCGSolve`, after any number of passes, carries the true residual of its own `V`** - so the vector returned when
    the stopping test `sqrt(res/res₀) ≤ Precision` fires is tested on `res = Z·(b − A V)`, the preconditioned norm of its TRUE residual,
    not on a recurrence that may have drifted (exact arithmetic; the drift of the floating-point recurrence is what the per-run
    residual check and the hook measure) -/
theorem pcg_every_iterate_keeps_true_residual (M : LinProb β) (hM : RowsOk M) (lambda : β) (j : Nat) :
    ∀ (s : CGState β), (∀ k < M.n, vget s.R k = getB M k - mulVec M.n (get M) (vget s.V) k) →
    ∀ k < M.n, vget (Nat.iterate (pcgStep M lambda) j s).R k =
      getB M k - mulVec M.n (get M) (vget (Nat.iterate (pcgStep M lambda) j s).V) k := by
  induction j with
  | zero => intro s hR; exact hR
  | succ j ih =>
    intro s hR
    simp only [Function.iterate_succ, Function.comp]
    exact ih _ (pcgStep_keeps_true_residual M hM lambda s hR)

/-- **on every system the matrix API can build — any history of `Put`, `AddTo`, right-hand-side writes, `SetValue`, `Periodicity`,
    `AntiPeriodicity` with indices inside the matrix, in any order — `MultA` is the product with the symmetric matrix read through
    `Get`** (the stored form is an invariant of the API: `Lemmas/SparseHistory.lean`, `good_history`) -/
theorem multA_matrix_product_every_history [DecidableEq β] (d bw : Nat) (ops : List (ApiOp β)) (hops : ∀ o ∈ ops, o.inRange d)
    (X : Array β) (k : Nat) (hk : k < d) :
    vget (multA (ops.foldl ApiOp.apply (create (α := β) d bw)) X) k =
      mulVec d (get (ops.foldl ApiOp.apply (create (α := β) d bw))) (vget X) k := by
  have h := good_history d bw ops hops
  have := multA_is_matrix_product _ h.rows X k (by rw [h.n_eq]; exact hk)
  rw [h.n_eq] at this
  exact this

end Refinement

/-! ## the complex solver (`cspars.cpp`, no Newton matrices) -/
section Complex
open XfemmVerif XfemmVerif.Cx
variable {K : Type} [Field K] [LinearOrder K] [IsStrictOrderedRing K] [AbsGt K] [LawfulAbsGt K]

/-- **`CComplex` division is division**: the scaled quotient, in either branch, times the divisor is the dividend -/
theorem complex_division_exact (x z : Cx K) (hz : z ≠ 0) : x / z * z = x := Cx.div_mul_cancel' x z hz

/-- the reciprocal used by every complex division, in both branches of `fabs(re) > fabs(im)` -/
theorem complex_inverse_exact (z : Cx K) (hz : z ≠ 0) : z * Cx.inv z = ⟨1, 0⟩ := Cx.mul_inv_cancel' z hz

/-- complex `SetValue(i,x)`: for a non-zero diagonal and non-zeros of column `i` confined to the rows `cspars.cpp` scans —
    the band `[i-bdw, min(i+bdw, NumNodes))` and every row from `NumNodes` on (the circuit rows) — `y` solves the modified
    system iff `y i = x` and every other original equation holds. -/
theorem complex_setValue_solves_constrained (numNodes : Nat) (M : CSparse.CLinProb K) (hM : WF M) (i : Nat)
    (hi : i < M.n) (hnn : numNodes ≤ M.n) (x : Cx K) (hd : get M i i ≠ 0)
    (hband : ∀ k, k < M.n → get M k i ≠ 0 →
      (M.bdw = 0 ∨ (i - M.bdw ≤ k ∧ (k < i + M.bdw ∨ numNodes ≤ k)))) (y : ℕ → Cx K) :
    Solves M.n (get (CSparse.setValue numNodes M i x)) (getB (CSparse.setValue numNodes M i x)) y ↔
      (y i = x ∧ ∀ k < M.n, k ≠ i → mulVec M.n (get M) y k = getB M k) := by
  have hv := setValue_view_rows M hM i hi x (CSparse.setValueRows M.n M.bdw numNodes i)
    (CSparse.setValueRows_nodup _ _ _ _) (CSparse.setValueRows_lt _ _ _ _)
    (fun k hk hne => (CSparse.mem_setValueRows M.n M.bdw numNodes i k hk hnn).2 (hband k hk hne))
  have hsv : CSparse.setValue numNodes M i x =
      setB ((CSparse.setValueRows M.n M.bdw numNodes i).foldl (setValueRow i x) M) i
        (get ((CSparse.setValueRows M.n M.bdw numNodes i).foldl (setValueRow i x) M) i i * x) := by
    unfold CSparse.setValue; rw [CSparse.setValueRow_eq]
  rw [hsv]
  obtain ⟨_, _, hg, hb⟩ := hv
  rw [← setValue_abstract (get M) (getB M) y hi x hd]
  unfold Solves
  constructor <;> intro h k hk
  · have e : mulVec M.n (setA (get M) i) y k = mulVec M.n (get (setB ((CSparse.setValueRows M.n M.bdw numNodes i).foldl
        (setValueRow i x) M) i (get ((CSparse.setValueRows M.n M.bdw numNodes i).foldl (setValueRow i x) M) i i * x))) y k :=
      (mulVec_congr y hk (fun a b ha hb' => hg a b ha hb')).symm
    rw [e]; have := h k hk; rw [hb k hk] at this; exact this
  · have e : mulVec M.n (get (setB ((CSparse.setValueRows M.n M.bdw numNodes i).foldl
        (setValueRow i x) M) i (get ((CSparse.setValueRows M.n M.bdw numNodes i).foldl (setValueRow i x) M) i i * x))) y k =
        mulVec M.n (setA (get M) i) y k :=
      mulVec_congr y hk (fun a b ha hb' => hg a b ha hb')
    rw [e, hb k hk]; exact h k hk

/-- complex `Periodicity(i,j)` yields exactly the periodically constrained system -/
theorem complex_periodicity_solves_constrained (M : CSparse.CLinProb K) (hM : WF M)
    (i j : Nat) (hij : i ≠ j) (hi : i < M.n) (hj : j < M.n) (y : ℕ → Cx K) (hy : y i = y j) :
    Solves M.n (get (CSparse.periodicity M i j)) (getB (CSparse.periodicity M i j)) y ↔
      ((∀ k < M.n, k ≠ i → k ≠ j → mulVec M.n (get M) y k = getB M k) ∧
        mulVec M.n (get M) y i + mulVec M.n (get M) y j = getB M i + getB M j) := by
  rw [CSparse.periodicity_eq]
  exact periodicity_solves_constrained M hM i j hij hi hj y hy

/-- complex `AntiPeriodicity(i,j)` yields exactly the antiperiodically constrained system -/
theorem complex_antiPeriodicity_solves_constrained (M : CSparse.CLinProb K) (hM : WF M)
    (i j : Nat) (hij : i ≠ j) (hi : i < M.n) (hj : j < M.n) (y : ℕ → Cx K) (hy : y i = - y j) :
    Solves M.n (get (CSparse.antiPeriodicity M i j)) (getB (CSparse.antiPeriodicity M i j)) y ↔
      ((∀ k < M.n, k ≠ i → k ≠ j → mulVec M.n (get M) y k = getB M k) ∧
        mulVec M.n (get M) y i - mulVec M.n (get M) y j = getB M i - getB M j) := by
  rw [CSparse.antiPeriodicity_eq]
  exact antiPeriodicity_solves_constrained M hM i j hij hi hj y hy

/-- the same for the complex-symmetric solver: a pass of the `do … while` body of `PBCGSolve` (`pbcgStep`, with the complex
    product, the SSOR preconditioner with the real relaxation factor and the scaled division) keeps `R = b − A V` -/
theorem pbcgStep_keeps_true_residual (M : CSparse.CLinProb K) (hM : RowsOk M) (lambda : K) (s : CSparse.BState K)
    (hR : ∀ k < M.n, vget s.R k = getB M k - mulVec M.n (get M) (vget s.V) k) :
    ∀ k < M.n, vget (CSparse.pbcgStep M lambda s).R k =
      getB M k - mulVec M.n (get M) (vget (CSparse.pbcgStep M lambda s).V) k := by
  intro k hk
  have hof : ∀ (f : Fin M.n → Cx K) (j : Nat) (hj : j < M.n), vget (Array.ofFn f) j = f ⟨j, hj⟩ := by
    intro f j hj; simp [vget, hj]
  simp only [CSparse.pbcgStep]
  rw [hof _ k hk, hR k hk]
  have hU : vget (multA M s.P) k = mulVec M.n (get M) (vget s.P) k := multA_is_matrix_product M hM s.P k hk
  rw [hU]
  have hV : ∀ j ∈ Finset.range M.n,
      get M k j * vget (Array.ofFn (n := M.n) (fun i => vget s.V i.val +
        s.res / dot M.n s.P (multA M s.P) * vget s.P i.val)) j =
      get M k j * vget s.V j + s.res / dot M.n s.P (multA M s.P) * (get M k j * vget s.P j) := by
    intro j hj
    rw [hof _ j (Finset.mem_range.1 hj)]; ring
  unfold mulVec
  rw [Finset.sum_congr rfl hV, Finset.sum_add_distrib, ← Finset.mul_sum]
  ring

/-- the same for the complex solver's API (its own `SetValue` scan, its `Periodicity` / `AntiPeriodicity`) -/
theorem complex_multA_matrix_product_every_history (numNodes d bw : Nat) (ops : List (ApiOp (Cx K))) (hops : ∀ o ∈ ops, o.inRange d)
    (X : Array (Cx K)) (k : Nat) (hk : k < d) :
    vget (multA (ops.foldl (CSparse.capply numNodes) (create (α := Cx K) d bw)) X) k =
      mulVec d (get (ops.foldl (CSparse.capply numNodes) (create (α := Cx K) d bw))) (vget X) k := by
  have h := CSparse.good_chistory numNodes d bw ops hops
  have := multA_is_matrix_product _ h.rows X k (by rw [h.n_eq]; exact hk)
  rw [h.n_eq] at this
  exact this

/-- the exact instance the correspondence harness runs (`xfemm_model csparse rat`) meets the hypotheses of this section -/
example : LawfulAbsGt Rat := inferInstance
example : ((⟨3, 4⟩ : Cx Rat) / ⟨1, -2⟩) * ⟨1, -2⟩ = ⟨3, 4⟩ := by decide +kernel
example : ((⟨3, 4⟩ : Cx Rat) / ⟨5, 2⟩) * ⟨5, 2⟩ = ⟨3, 4⟩ := by decide +kernel

end Complex

/-! ## non-vacuity: concrete instances meeting the hypotheses -/

/-- a 3×3 SPD tridiagonal problem over ℚ: well formed, diagonal non-zero, band hint 0 (= scan all) -/
def demo : LinProb Rat :=
  let M := create 3 0
  let M := addTo M 2 0 0
  let M := addTo M 2 1 1
  let M := addTo M 2 2 2
  let M := addTo M (-1) 0 1
  addTo M (-1) 2 1

example : WF demo ∧ get demo 1 1 ≠ 0 ∧ get demo 1 2 = -1 ∧ get demo 2 1 = -1 := by
  refine ⟨⟨by decide +kernel, by decide +kernel⟩, by decide +kernel, by decide +kernel, by decide +kernel⟩

example : ∀ k, k < demo.n → get demo k 1 ≠ 0 →
    (window demo.n demo.bdw 1).1 ≤ k ∧ k < (window demo.n demo.bdw 1).2 := by
  intro k hk _; exact ⟨Nat.zero_le _, hk⟩

end XfemmVerif.C09
