import XfemmVerif.Model.Exit
/-!
# C20 — a missing input is reported as failure, never a crash or a bogus result

The quantifier is a finite table (tool × every input present/absent × preconditions), so deciding the
whole table *is* the proof.  The tables are regenerated from the current source on every run.
-/
namespace XfemmVerif.C20
open XfemmVerif.Exit XfemmVerif.Generated.ExitTable

/-- one row of the decision table of a solver: exit 0 with output exactly when everything it needs is
    there; otherwise a non-zero exit without output — never an unguarded continuation -/
def rowOk (t : SolverTable) (i : Inputs) : Bool :=
  if i.ok t then solverMain t i == .exit 0 true
  else match solverMain t i with
    | .exit c wrote => c != 0 && !wrote
    | .undefined => false

/-- the whole table (2⁹ rows) -/
def TableOk (t : SolverTable) : Prop :=
  ∀ a b c d e f g h k : Bool, rowOk t { problem := a, node := b, pbc := c, ele := d, edge := e, materials := f, prevNeeded := g, prevOk := h, writable := k } = true

theorem fsolver_table : TableOk fsolver := by unfold TableOk; decide +kernel
theorem esolver_table : TableOk esolver := by unfold TableOk; decide +kernel
theorem hsolver_table : TableOk hsolver := by unfold TableOk; decide +kernel

theorem row_of_table (t : SolverTable) (ht : TableOk t) (i : Inputs) : rowOk t i = true := by
  obtain ⟨a, b, c, d, e, f, g, h, k⟩ := i
  exact ht a b c d e f g h k

/-- **exit 0 iff the inputs are all right**, for every combination of present / absent inputs -/
theorem exit0_iff_inputs_ok (t : SolverTable) (ht : TableOk t) (i : Inputs) :
    solverMain t i = .exit 0 true ↔ i.ok t = true := by
  have h := row_of_table t ht i
  unfold rowOk at h
  by_cases hok : i.ok t = true
  · simp only [hok, if_true] at h
    exact ⟨fun _ => hok, fun _ => by simpa using h⟩
  · simp only [hok] at h
    constructor
    · intro hm; rw [hm] at h; simp at h
    · intro hc; exact absurd hc hok

/-- a failed run never leaves a fresh output and never exits 0 -/
theorem failure_is_reported (t : SolverTable) (ht : TableOk t) (i : Inputs) (hbad : i.ok t = false) :
    ∃ c, c ≠ 0 ∧ solverMain t i = .exit c false := by
  have h := row_of_table t ht i
  unfold rowOk at h
  simp only [hbad] at h
  cases hm : solverMain t i with
  | undefined => rw [hm] at h; simp at h
  | exit c wrote =>
    rw [hm] at h
    simp only [Bool.false_eq_true, if_false, Bool.and_eq_true, bne_iff_ne, ne_eq, Bool.not_eq_true'] at h
    exact ⟨c, h.1, by rw [h.2]⟩

theorem every_mesh_file_is_guarded :
    guardsAllMeshFiles fsolver = true ∧ guardsAllMeshFiles esolver = true ∧ guardsAllMeshFiles hsolver = true := by
  decide +kernel

/-- fmesher: exit 0 iff the problem file parsed and the triangulation succeeded -/
theorem mesher_exit0_iff (s : Nat) (hs : s < parserResult.length) (periodic triOk : Bool) :
    mesherMain s periodic triOk = 0 ↔ (s = 0 ∧ triOk = true) := by
  have hl : parserResult.length = 4 := by decide
  rw [hl] at hs
  have : s = 0 ∨ s = 1 ∨ s = 2 ∨ s = 3 := by omega
  rcases this with rfl | rfl | rfl | rfl <;> cases periodic <;> cases triOk <;> decide

/-- `F_FILE_OK` is the zero of the enum the mesher returns as its exit status -/
theorem parser_ok_is_zero : parserResult.head? = some "F_FILE_OK" := by decide

/-! non-vacuity: the all-present input succeeds; one fault fails -/
def allPresent : Inputs :=
  { problem := true, node := true, pbc := true, ele := true, edge := true, materials := true, prevNeeded := false, prevOk := false, writable := true }
example : solverMain esolver allPresent = .exit 0 true := by decide +kernel
example : solverMain esolver { allPresent with pbc := false } = .exit 2 false := by decide +kernel

end XfemmVerif.C20
