import XfemmVerif.Model.Refs
/-!
# C15 — entities keep the property the script gave them through any edit history

`Model/Refs.lean` is the state machine of one property kind (list of properties, entity slots holding
*(index, name)*, name→index map = last match, save by index).  `P.id` / `Slot.bound` are ghost
identities.  Main theorem (`target_is_bound`): after ANY history of add / delete / rename / assign
operations, the property a saved slot designates is exactly the property its last assignment resolved
to — or none once that property has been deleted.  Add, rename and delete never re-target a slot
(`bound` is only ever written by `assign`, `bound_only_changed_by_assign`).  For the code as it was
before the repair (`renumber = false`) the statement is false: `unrepaired_delete_retargets`.
-/
namespace XfemmVerif.C15
open XfemmVerif.Refs

def ids (st : St) : List Nat := st.props.map (·.id)

/-- per-slot part of the invariant -/
def SlotOk (st : St) (s : Slot) : Prop :=
  match s.idx with
  | some i => ∃ p, st.props[i]? = some p ∧ s.bound = some p.id
  | none => ∀ b, s.bound = some b → b ∉ ids st

/-- the invariant carried through every history -/
structure Inv (st : St) : Prop where
  nodup : (ids st).Nodup
  fresh : ∀ p ∈ st.props, p.id < st.next
  boundLt : ∀ s ∈ st.slots, ∀ b, s.bound = some b → b < st.next
  slotOk : ∀ s ∈ st.slots, SlotOk st s

/-! ### list lemmas -/

theorem lookup_go_spec (props : List P) (n : String) (k : Nat) (acc : Option Nat) (r : Nat)
    (h : lookup.go n props k acc = some r) :
    (acc = some r) ∨ (k ≤ r ∧ ∃ p, props[r - k]? = some p ∧ p.name = n) := by
  induction props generalizing k acc with
  | nil => left; simpa [lookup.go] using h
  | cons p rest ih =>
    simp only [lookup.go] at h
    by_cases hp : p.name = n
    · simp only [hp, if_true] at h
      rcases ih (k + 1) (some k) h with h1 | ⟨h1, q, hq, hqn⟩
      · cases h1
        right; exact ⟨Nat.le_refl _, p, by simp, hp⟩
      · right
        refine ⟨by omega, q, ?_, hqn⟩
        have : r - k = (r - (k + 1)) + 1 := by omega
        rw [this]; simpa using hq
    · simp only [hp, if_false] at h
      rcases ih (k + 1) acc h with h1 | ⟨h1, q, hq, hqn⟩
      · left; exact h1
      · right
        refine ⟨by omega, q, ?_, hqn⟩
        have : r - k = (r - (k + 1)) + 1 := by omega
        rw [this]; simpa using hq

/-- the map lookup returns a valid index of a property carrying that name -/
theorem lookup_sound (props : List P) (n : String) (r : Nat) (h : lookup props n = some r) :
    ∃ p, props[r]? = some p ∧ p.name = n := by
  rcases lookup_go_spec props n 0 none r h with h1 | ⟨_, p, hp, hn⟩
  · cases h1
  · exact ⟨p, by simpa using hp, hn⟩

theorem renameFirst_ids (o n : String) (l : List P) : (renameFirst o n l).map (·.id) = l.map (·.id) := by
  induction l with
  | nil => rfl
  | cons p r ih => unfold renameFirst; split <;> simp [ih]

theorem renameFirst_getElem (o n : String) (l : List P) (i : Nat) (p : P) (h : l[i]? = some p) :
    ∃ p', (renameFirst o n l)[i]? = some p' ∧ p'.id = p.id := by
  induction l generalizing i with
  | nil => simp at h
  | cons q r ih =>
    unfold renameFirst
    cases i with
    | zero =>
      simp only [List.getElem?_cons_zero, Option.some.injEq] at h
      subst h
      split
      · exact ⟨{ q with name := n }, by simp, rfl⟩
      · exact ⟨q, by simp, rfl⟩
    | succ i =>
      simp only [List.getElem?_cons_succ] at h
      split
      · exact ⟨p, by simpa using h, rfl⟩
      · obtain ⟨p', hp', hid⟩ := ih i h
        exact ⟨p', by simpa using hp', hid⟩

/-- a surviving property sits, unchanged, at its new index -/
theorem filter_newIndex (props : List P) (n : String) (i j : Nat) (h : newIndex props n i = some j) :
    (props.filter (keep n))[j]? = props[i]? := by
  induction props generalizing i j with
  | nil => simp [newIndex] at h
  | cons p rest ih =>
    unfold newIndex at h
    cases i with
    | zero =>
      simp only [List.getElem?_cons_zero, List.take_zero, List.countP_nil] at h
      split at h
      · rename_i hp
        cases h
        simp [List.filter_cons, hp]
      · cases h
    | succ i =>
      simp only [List.getElem?_cons_succ, List.take_succ_cons, List.countP_cons] at h
      cases hq : rest[i]? with
      | none => simp [hq] at h
      | some q =>
        simp only [hq] at h
        split at h
        · rename_i hqn
          have hrec : newIndex rest n i = some ((rest.take i).countP (keep n)) := by
            unfold newIndex; simp [hq, hqn]
          have hr := ih i _ hrec
          cases h
          by_cases hp : keep n p = true
          · rw [List.filter_cons, if_pos hp, if_pos hp, List.getElem?_cons_succ, List.getElem?_cons_succ]
            exact hr
          · rw [List.filter_cons, if_neg hp, if_neg hp, Nat.add_zero, List.getElem?_cons_succ]
            exact hr
        · cases h

theorem newIndex_none (props : List P) (n : String) (i : Nat) (h : newIndex props n i = none) :
    props[i]? = none ∨ ∃ p, props[i]? = some p ∧ keep n p = false := by
  unfold newIndex at h
  cases hp : props[i]? with
  | none => left; rfl
  | some p =>
    right
    simp only [hp] at h
    split at h
    · cases h
    · rename_i hn; exact ⟨p, rfl, by simpa using hn⟩

theorem mem_ids_filter (props : List P) (n : String) (b : Nat) :
    b ∈ (props.filter (keep n)).map (·.id) → b ∈ props.map (·.id) := by
  simp only [List.mem_map, List.mem_filter]
  rintro ⟨p, ⟨hp, _⟩, rfl⟩
  exact ⟨p, hp, rfl⟩

/-- with unique ids, an erased property's id is gone -/
theorem erased_id_gone (props : List P) (hnd : (props.map (·.id)).Nodup) (n : String) (i : Nat) (p : P)
    (hp : props[i]? = some p) (hn : keep n p = false) :
    p.id ∉ (props.filter (keep n)).map (·.id) := by
  intro hmem
  simp only [List.mem_map, List.mem_filter] at hmem
  obtain ⟨q, ⟨hq, hqn⟩, hid⟩ := hmem
  obtain ⟨j, hj⟩ := List.getElem?_of_mem hq
  have hi' := List.getElem?_eq_some_iff.1 hp
  have hj' := List.getElem?_eq_some_iff.1 hj
  have hil : i < (props.map (·.id)).length := by simpa using hi'.1
  have hjl : j < (props.map (·.id)).length := by simpa using hj'.1
  have e : (props.map (·.id))[i] = (props.map (·.id))[j] := by
    simp only [List.getElem_map]; rw [hi'.2, hj'.2, hid]
  have hij : i = j := (List.getElem_inj hnd).mp e
  subst hij
  rw [hp] at hj
  cases hj
  rw [hn] at hqn; cases hqn

theorem mem_modify {α} (l : List α) (k : Nat) (f : α → α) (x : α) (hx : x ∈ l.modify k f) :
    x ∈ l ∨ ∃ y ∈ l, x = f y := by
  obtain ⟨i, hi⟩ := List.getElem?_of_mem hx
  rw [List.getElem?_modify] at hi
  cases hy : l[i]? with
  | none => simp [hy] at hi
  | some y =>
    simp only [hy, Option.map_eq_map, Option.map_some, Option.some.injEq] at hi
    by_cases hk : k = i
    · simp only [hk, if_true] at hi
      right; exact ⟨y, List.mem_of_getElem? hy, hi.symm⟩
    · simp only [hk, if_false] at hi
      left; rw [← hi]; exact List.mem_of_getElem? hy

/-! ### the invariant is established by `init` and kept by every operation -/

theorem inv_init (k : Nat) : Inv (init k) := by
  refine ⟨by simp [ids, init], by simp [init], ?_, ?_⟩
  · intro s hs b hb
    simp only [init, List.mem_replicate] at hs
    rw [hs.2] at hb; cases hb
  · intro s hs
    simp only [init, List.mem_replicate] at hs
    rw [hs.2]
    intro b hb; cases hb

theorem inv_add (st : St) (h : Inv st) (n : String) : Inv (step true st (.add n)) := by
  have hids : ids (step true st (.add n)) = ids st ++ [st.next] := by simp [step, ids]
  refine ⟨?_, ?_, ?_, ?_⟩
  · rw [hids]
    refine List.nodup_append.2 ⟨h.nodup, by simp, ?_⟩
    intro a ha b hb
    simp only [List.mem_singleton] at hb
    subst hb
    obtain ⟨p, hp, rfl⟩ := List.mem_map.1 ha
    exact Nat.ne_of_lt (h.fresh p hp)
  · intro p hp
    simp only [step, List.mem_append, List.mem_singleton] at hp
    rcases hp with hp | rfl
    · exact Nat.lt_succ_of_lt (h.fresh p hp)
    · simp [step]
  · intro s hs b hb
    exact Nat.lt_succ_of_lt (h.boundLt s hs b hb)
  · intro s hs
    have hs' : s ∈ st.slots := hs
    have hok := h.slotOk s hs'
    unfold SlotOk at hok ⊢
    cases hi : s.idx with
    | some i =>
      simp only [hi] at hok ⊢
      obtain ⟨p, hp, hb⟩ := hok
      refine ⟨p, ?_, hb⟩
      have hlt : i < st.props.length := (List.getElem?_eq_some_iff.1 hp).1
      show (st.props ++ [_])[i]? = some p
      rw [List.getElem?_append_left hlt]; exact hp
    | none =>
      simp only [hi] at hok ⊢
      intro b hb
      rw [hids]
      simp only [List.mem_append, List.mem_singleton]
      rintro (h1 | h1)
      · exact hok b hb h1
      · have := h.boundLt s hs' b hb; omega

theorem inv_rename (st : St) (h : Inv st) (o n : String) : Inv (step true st (.rename o n)) := by
  have hids : ids (step true st (.rename o n)) = ids st := by simp [step, ids, renameFirst_ids]
  refine ⟨by rw [hids]; exact h.nodup, ?_, h.boundLt, ?_⟩
  · intro p hp
    have hp' : p ∈ renameFirst o n st.props := hp
    have : p.id ∈ (renameFirst o n st.props).map (·.id) := List.mem_map.2 ⟨p, hp', rfl⟩
    rw [renameFirst_ids] at this
    obtain ⟨q, hq, hid⟩ := List.mem_map.1 this
    show p.id < st.next
    rw [← hid]; exact h.fresh q hq
  · intro s hs
    have hok := h.slotOk s hs
    unfold SlotOk at hok ⊢
    cases hi : s.idx with
    | some i =>
      simp only [hi] at hok ⊢
      obtain ⟨p, hp, hb⟩ := hok
      obtain ⟨p', hp', hid⟩ := renameFirst_getElem o n st.props i p hp
      exact ⟨p', hp', by rw [hb, hid]⟩
    | none =>
      simp only [hi] at hok ⊢
      rw [hids]; exact hok

theorem inv_assign (st : St) (h : Inv st) (k : Nat) (nm : Option String) :
    Inv (step true st (.assign k nm)) := by
  cases nm with
  | none =>
    refine ⟨h.nodup, h.fresh, ?_, ?_⟩
    · intro s hs b hb
      rcases mem_modify _ _ _ _ hs with h1 | ⟨y, _, rfl⟩
      · exact h.boundLt s h1 b hb
      · cases hb
    · intro s hs
      rcases mem_modify _ _ _ _ hs with h1 | ⟨y, _, rfl⟩
      · exact h.slotOk s h1
      · intro b hb; cases hb
  | some n =>
    refine ⟨h.nodup, h.fresh, ?_, ?_⟩
    · intro s hs b hb
      rcases mem_modify _ _ _ _ hs with h1 | ⟨y, _, rfl⟩
      · exact h.boundLt s h1 b hb
      · simp only at hb
        cases hl : lookup st.props n with
        | none => simp [hl] at hb
        | some i =>
          obtain ⟨p, hp, _⟩ := lookup_sound _ _ _ hl
          simp only [hl, Option.bind_some, hp, Option.map_some, Option.some.injEq] at hb
          rw [← hb]; exact h.fresh p (List.mem_of_getElem? hp)
    · intro s hs
      rcases mem_modify _ _ _ _ hs with h1 | ⟨y, _, rfl⟩
      · exact h.slotOk s h1
      · unfold SlotOk
        cases hl : lookup st.props n with
        | none => simp [hl]
        | some i =>
          obtain ⟨p, hp, _⟩ := lookup_sound _ _ _ hl
          exact ⟨p, hp, by simp [hl, hp]⟩

theorem inv_del (st : St) (h : Inv st) (n : String) : Inv (step true st (.del n)) := by
  have hsub : ∀ b, b ∈ ids (step true st (.del n)) → b ∈ ids st := by
    intro b hb; exact mem_ids_filter st.props n b hb
  refine ⟨?_, ?_, ?_, ?_⟩
  · exact List.Nodup.sublist (List.Sublist.map _ List.filter_sublist) h.nodup
  · intro p hp
    exact h.fresh p (List.mem_filter.1 hp).1
  · intro s hs b hb
    obtain ⟨y, hy, rfl⟩ := List.mem_map.1 hs
    have : (delSlot true st.props n y).bound = y.bound := by
      unfold delSlot; simp only [if_true]
      cases y.idx with
      | none => rfl
      | some i => simp only; split <;> rfl
    rw [this] at hb
    exact h.boundLt y hy b hb
  · intro s hs
    obtain ⟨y, hy, rfl⟩ := List.mem_map.1 hs
    have hok := h.slotOk y hy
    unfold SlotOk at hok
    unfold SlotOk delSlot
    simp only [if_true]
    cases hi : y.idx with
    | none =>
      simp only [hi] at hok ⊢
      intro b hb hmem
      exact hok b hb (hsub b hmem)
    | some i =>
      simp only [hi] at hok ⊢
      obtain ⟨p, hp, hb⟩ := hok
      cases hni : newIndex st.props n i with
      | some j =>
        simp only
        refine ⟨p, ?_, hb⟩
        show (st.props.filter (keep n))[j]? = some p
        rw [filter_newIndex st.props n i j hni]; exact hp
      | none =>
        simp only
        intro b hb' hmem
        rcases newIndex_none st.props n i hni with h1 | ⟨q, hq, hk⟩
        · rw [hp] at h1; cases h1
        · rw [hp] at hq; cases hq
          rw [hb] at hb'; cases hb'
          exact erased_id_gone st.props h.nodup n i p hp hk hmem

theorem inv_step (st : St) (h : Inv st) (op : Op) : Inv (step true st op) := by
  cases op with
  | add n => exact inv_add st h n
  | del n => exact inv_del st h n
  | rename o n => exact inv_rename st h o n
  | assign k nm => exact inv_assign st h k nm

theorem inv_run (st : St) (h : Inv st) (ops : List Op) : Inv (run true st ops) := by
  induction ops generalizing st with
  | nil => exact h
  | cons op ops ih => exact ih (step true st op) (inv_step st h op)

/-! ## the property theorems -/

/-- **every reachable state, any history**: the property a saved slot designates is the property its
    last assignment resolved to — or none once that property has been deleted -/
theorem target_is_bound (nslots : Nat) (ops : List Op) (s : Slot)
    (hs : s ∈ (run true (init nslots) ops).slots) :
    target (run true (init nslots) ops) s =
      s.bound.filter (fun b => b ∈ ids (run true (init nslots) ops)) := by
  have hinv := inv_run (init nslots) (inv_init nslots) ops
  have hok := hinv.slotOk s hs
  unfold SlotOk at hok
  unfold target
  cases hi : s.idx with
  | some i =>
    simp only [hi] at hok
    obtain ⟨p, hp, hb⟩ := hok
    simp only [Option.bind_some, hp, Option.map_some, hb, Option.filter_some]
    have : p.id ∈ ids (run true (init nslots) ops) := List.mem_map.2 ⟨p, List.mem_of_getElem? hp, rfl⟩
    simp [this]
  | none =>
    simp only [hi] at hok
    simp only [Option.bind_none]
    cases hb : s.bound with
    | none => rfl
    | some b =>
      have hnot := hok b hb
      simp only [Option.filter_some]
      rw [if_neg (by simpa using hnot)]

/-- saved indices are always in range (the file never designates a non-existent property) -/
theorem saved_index_in_range (nslots : Nat) (ops : List Op) (s : Slot)
    (hs : s ∈ (run true (init nslots) ops).slots) :
    savedIndex s ≤ (run true (init nslots) ops).props.length := by
  have hinv := inv_run (init nslots) (inv_init nslots) ops
  have hok := hinv.slotOk s hs
  unfold SlotOk at hok
  unfold savedIndex
  cases hi : s.idx with
  | some i =>
    simp only [hi] at hok
    obtain ⟨p, hp, _⟩ := hok
    have := (List.getElem?_eq_some_iff.1 hp).1
    simp only; omega
  | none => simp

/-- only an assignment to slot `k` ever writes slot `k`'s binding: add / delete / rename of any
    property never re-target an entity -/
theorem bound_only_changed_by_assign (st : St) (op : Op) (k : Nat)
    (hop : ∀ n, op ≠ .assign k n) :
    ((step true st op).slots[k]?).map (·.bound) = (st.slots[k]?).map (·.bound) := by
  cases op with
  | add n => rfl
  | rename o n => rfl
  | del n =>
    simp only [step, List.getElem?_map]
    cases st.slots[k]? with
    | none => rfl
    | some y =>
      simp only [Option.map_some]
      congr 1
      unfold delSlot; simp only [if_true]
      cases y.idx with
      | none => rfl
      | some i => simp only; split <;> rfl
  | assign j nm =>
    have hjk : j ≠ k := by
      intro h; subst h; exact hop nm rfl
    cases nm <;> simp [step, List.getElem?_modify, hjk]

/-- analysis gate: a slot that passes `consistencyCheckOK` designates a property carrying its name -/
theorem consistent_slot_uses_named_property (st : St) (s : Slot) (i : Nat) (hi : s.idx = some i)
    (hc : slotConsistent st s = true) : ∃ p, st.props[i]? = some p ∧ p.name = s.name := by
  unfold slotConsistent at hc
  simp only [hi] at hc
  cases hp : st.props[i]? with
  | none => simp [hp] at hc
  | some p => simp only [hp, beq_iff_eq] at hc; exact ⟨p, rfl, hc⟩

/-! ### the code as it was (no renumbering on delete) violates the property -/

/-- add A, add B, assign slot 0 := B, delete A: the slot's saved index still says 2, which is out of
    range (and with a third property C it would silently designate C instead of B) -/
theorem unrepaired_delete_retargets :
    let ops := [Op.add "A", Op.add "B", Op.add "C", Op.assign 0 (some "B"), Op.del "A"]
    let st := run false (init 1) ops
    (st.slots.map (target st)) = [some 2] ∧ (st.slots.map (·.bound)) = [some 1] := by
  decide +kernel

/-- … whereas the repaired code keeps designating B -/
example :
    let ops := [Op.add "A", Op.add "B", Op.add "C", Op.assign 0 (some "B"), Op.del "A"]
    let st := run true (init 1) ops
    (st.slots.map (target st)) = [some 1] ∧ (st.slots.map savedIndex) = [1] := by
  decide +kernel

end XfemmVerif.C15
