import XfemmVerif.Model.Discretize
import XfemmVerif.Properties.C18
import Mathlib.Tactic.Ring
import Mathlib.Tactic.Linarith
import Mathlib.Algebra.Order.Field.Basic
/-!
# C01 — mesher output is a valid conforming triangulation of the drawn geometry

Proved here, for every input, about what the mesher itself computes before and after the external call of Triangle
(`Model/Discretize.lean`, with the chain / cut-point / arc theorems of `Properties/C18.lean` and the marker codec of
`Properties/C02.lean`):

* every drawn point is a vertex of the graph handed to Triangle, under its own index and with exactly its coordinates
  (`drawn_points_kept`), the new points come after them (`created_points_after`);
* every drawn line is handed over as a chain of pieces from its first to its second end point whose intermediate vertices
  are the cut points, which lie on the line strictly between the end points in increasing order (`drawn_line_is_chain`);
  every drawn arc as the chain of its equal chords with vertices on its circle (`Properties/C18.lean`, `Properties/C07.lean`);
* orientation facts that make the per-run certificate meaningful: the orientation test is invariant under rotating the
  vertices and flips under swapping two (`orient_cyclic`, `orient_swap`), and two counter-clockwise triangles that share an
  edge have their third vertices strictly on opposite sides of it (`shared_edge_opposite_sides`) — so "every edge in at most
  two triangles, all counter-clockwise" excludes overlap across any shared edge.

Triangle is an external call: that its output is a conforming triangulation of that graph is ASSUMED (trusted base) and
checked on every run by the exact-arithmetic certificate of checks/C01.py (indices, exact orientation, edge multiplicity,
exact area balance against the boundary loops, drawn points / lines / arcs as chains of mesh edges).  PARTIAL for that reason.
-/
set_option linter.unusedSectionVars false
namespace XfemmVerif.C01
open XfemmVerif.Discretize XfemmVerif.Periodic

/-- node list handed to Triangle: the drawn points first, then everything the discretisation created -/
def pslgNodes {β : Type} (drawn created : List β) : List β := drawn ++ created

theorem drawn_points_kept {β : Type} (drawn created : List β) (i : Nat) (hi : i < drawn.length) :
    (pslgNodes drawn created)[i]? = drawn[i]? := by
  simp [pslgNodes, List.getElem?_append_left hi]

theorem created_points_after {β : Type} (drawn created : List β) (j : Nat) :
    (pslgNodes drawn created)[drawn.length + j]? = created[j]? := by
  simp [pslgNodes, List.getElem?_append_right]

section Lines
variable {α : Type} [Field α] [LinearOrder α] [IsStrictOrderedRing α]

/-- **a drawn line reaches Triangle as a chain through its cut points**: `k` pieces forming a path from `n0` to `n1`, and each
    of the `k − 1` intermediate vertices is the point of the line at the parameter `(j+1)/k ∈ (0, 1)` -/
theorem drawn_line_is_chain (a0 a1 : α × α) (n0 n1 base k : Nat) (hk : 1 ≤ k) :
    (chain n0 n1 base k).length = k ∧ C18.IsPath (chain n0 n1 base k) ∧
    ((chain n0 n1 base k).head?).map (·.1) = some n0 ∧ ((chain n0 n1 base k).getLast?).map (·.2) = some n1 ∧
    ∀ j, j + 1 < k →
      linePoint a0 a1 j k = (a0.1 + (a1.1 - a0.1) * (((j + 1 : Nat) : α) / (k : α)), a0.2 + (a1.2 - a0.2) * (((j + 1 : Nat) : α) / (k : α))) ∧
      0 < (((j + 1 : Nat) : α) / (k : α)) ∧ (((j + 1 : Nat) : α) / (k : α)) < 1 :=
  ⟨C18.chain_length n0 n1 base k hk, C18.chain_is_path n0 n1 base k, C18.chain_starts n0 n1 base k, C18.chain_ends n0 n1 base k,
    fun j hj => ⟨C18.cut_point_on_line a0 a1 j k, C18.cut_parameter_between j k hj⟩⟩

/-- twice the signed area of the triangle `p q r` -/
def orient (p q r : α × α) : α := (q.1 - p.1) * (r.2 - p.2) - (q.2 - p.2) * (r.1 - p.1)

theorem orient_cyclic (p q r : α × α) : orient p q r = orient q r p := by
  simp only [orient]; ring

theorem orient_swap (p q r : α × α) : orient p q r = -orient q p r := by
  simp only [orient]; ring

/-- two counter-clockwise triangles `(a, b, c)` and `(b, a, d)` glued along the edge `ab`: `c` and `d` lie strictly on
    opposite sides of the line through `a` and `b` -/
theorem shared_edge_opposite_sides (a b c d : α × α) (h1 : 0 < orient a b c) (h2 : 0 < orient b a d) :
    0 < orient a b c ∧ orient a b d < 0 := by
  refine ⟨h1, ?_⟩
  rw [orient_swap a b d]; linarith

/-- a degenerate triangle (three collinear points, in particular a repeated vertex) is never counter-clockwise -/
theorem repeated_vertex_not_ccw (p q : α × α) : ¬ 0 < orient p p q := by
  simp [orient]

end Lines

/-- non-vacuity over ℚ -/
example : 0 < orient ((0 : ℚ), 0) (1, 0) (0, 1) ∧ 0 < orient ((1 : ℚ), 0) (0, 0) (0, -1) := by
  simp only [orient]; norm_num

end XfemmVerif.C01
