import XfemmVerif.Model.FileCodec
import XfemmVerif.Generated.FileKeys
import Mathlib.Analysis.Real.Sqrt
import Mathlib.Tactic.FieldSimp
import Mathlib.Tactic.Ring
/-!
# C14 — problem files survive load and save unchanged in meaning

`Generated/FileKeys.lean` (rewritten from the C++ by `tools/translate_filekeys.py` on every run) holds, for every
property class of the three file types, the key ↦ member map of its `toStream`, the key ↦ member map of its
`fromStream`, the member ↦ source map of its copy-constructor chain, and the problem-level keys the reader stores and
the writer writes per file type.

General theorems over `Model/FileCodec.lean`: if the write map is read back member for member, is free of duplicates,
covers every member the reader stores, and the copy constructors carry every such member, then loading what was written
returns every stored member (`load_print`) and saving again writes the same lines (`save_idempotent`).
The hypotheses are discharged for the CURRENT source by kernel evaluation on the generated tables
(`all_classes_roundtrip`, `top_keys_*`); a dropped, renamed or cross-wired key, or a member forgotten in a copy
constructor, makes one of these fail, and the check then names the class, key and member.

Also proved: a quoted name survives `parseString` whatever it contains (quotes, spaces) and whatever follows the
closing quote (CR of a CRLF file); the stream precision suffices for doubles; the mesh-size ↔ area conversion of
block labels is its own inverse over the reals.
-/
namespace XfemmVerif.C14
open XfemmVerif.FileCodec XfemmVerif.Generated.FileKeys

/-! ### the block codec -/

theorem parse_print_aux (reads : List (String × String)) :
    ∀ (ws : List (String × String)) (r0 r : Rec),
      (∀ kf ∈ ws, reads.lookup kf.1 = some kf.2) → (ws.map (·.2)).Nodup →
      ∀ f, parseBlock reads r0 (printBlock ws r) f = if f ∈ ws.map (·.2) then r f else r0 f
  | [], r0, r, _, _, f => by simp [parseBlock, printBlock]
  | (k, f0) :: ws, r0, r, hread, hnd, f => by
    have hk : reads.lookup k = some f0 := hread (k, f0) (List.mem_cons_self)
    have hread' : ∀ kf ∈ ws, reads.lookup kf.1 = some kf.2 := fun kf h => hread kf (List.mem_cons_of_mem _ h)
    have hnd' : (ws.map (·.2)).Nodup := (List.nodup_cons.mp hnd).2
    have hnot : f0 ∉ ws.map (·.2) := (List.nodup_cons.mp hnd).1
    have ih := parse_print_aux reads ws (setField r0 f0 (r f0)) r hread' hnd' f
    have step : parseBlock reads r0 (printBlock ((k, f0) :: ws) r)
        = parseBlock reads (setField r0 f0 (r f0)) (printBlock ws r) := by
      simp [parseBlock, printBlock, hk]
    rw [step, ih]
    by_cases hf : f = f0
    · subst hf
      simp [hnot, setField]
    · have hmem : (f ∈ ((k, f0) :: ws).map (·.2)) ↔ (f ∈ ws.map (·.2)) := by
        simp only [List.map_cons, List.mem_cons]
        constructor
        · rintro (h | h)
          · exact absurd h hf
          · exact h
        · exact Or.inr
      simp only [setField, hf, if_false, hmem]

/-- what `fromStream` stores for a member that `toStream` wrote is the value that was written -/
theorem parse_print (reads writes : List (String × String)) (dflt r : Rec)
    (h1 : writesAreRead reads writes = true) (h2 : writesDistinct writes = true)
    (f : String) (hf : f ∈ writes.map (·.2)) :
    parseBlock reads dflt (printBlock writes r) f = r f := by
  have hread : ∀ kf ∈ writes, reads.lookup kf.1 = some kf.2 := by
    intro kf hkf
    have := List.all_eq_true.mp h1 kf hkf
    simpa using this
  have hnd : (writes.map (·.2)).Nodup := by
    simp [writesDistinct] at h2
    exact h2.2
  rw [parse_print_aux reads writes dflt r hread hnd f]
  simp [hf]

/-- **load ∘ save = id** on every member the reader stores, for a class whose three maps pass the four tests -/
theorem load_print (reads writes copy : List (String × String)) (dflt r : Rec)
    (h1 : writesAreRead reads writes = true) (h2 : writesDistinct writes = true)
    (h3 : readsAreWritten reads writes = true) (h4 : copyFaithful reads copy = true)
    (kf : String × String) (hkf : kf ∈ reads) :
    loadBlock reads copy dflt (printBlock writes r) kf.2 = r kf.2 := by
  have hw : kf.2 ∈ writes.map (·.2) := by
    have := List.all_eq_true.mp h3 kf hkf
    simpa using this
  have hc : copy.lookup kf.2 = some kf.2 := by
    simp only [copyFaithful, Bool.and_eq_true] at h4
    have := List.all_eq_true.mp h4.1 kf hkf
    simpa using this
  have hne : kf.2 ≠ "" := by
    simp only [copyFaithful, Bool.and_eq_true] at h4
    intro h
    -- the pair found by the lookup is in the copy map, and its first component is not empty
    have hmem : (kf.2, kf.2) ∈ copy := by
      have := List.lookup_eq_some_iff.mp hc
      obtain ⟨l1, l2, hl, _⟩ := this
      rw [hl]; simp
    have := List.all_eq_true.mp h4.2 (kf.2, kf.2) hmem
    simp [h] at this
  simp only [loadBlock, copyRec, hc, hne, if_false]
  exact parse_print reads writes dflt r h1 h2 kf.2 hw

/-- **saving is idempotent**: what is written after a load is what was written before -/
theorem save_idempotent (reads writes copy : List (String × String)) (dflt r : Rec)
    (h1 : writesAreRead reads writes = true) (h2 : writesDistinct writes = true)
    (h3 : readsAreWritten reads writes = true) (h4 : copyFaithful reads copy = true) :
    printBlock writes (loadBlock reads copy dflt (printBlock writes r)) = printBlock writes r := by
  simp only [printBlock]
  apply List.map_congr_left
  intro kf hkf
  have hread : reads.lookup kf.1 = some kf.2 := by
    have := List.all_eq_true.mp h1 kf hkf
    simpa using this
  have hmem : (kf.1, kf.2) ∈ reads := by
    obtain ⟨l1, l2, hl, _⟩ := List.lookup_eq_some_iff.mp hread
    rw [hl]; simp
  have := load_print reads writes copy dflt r h1 h2 h3 h4 (kf.1, kf.2) hmem
  simp only [printBlock] at this
  rw [this]

/-! ### the hypotheses hold for the current source (kernel evaluation on the generated tables) -/

def classOk (c : ClassMaps) : Bool :=
  writesAreRead c.reads c.writes && writesDistinct c.writes && readsAreWritten c.reads c.writes &&
    copyFaithful c.reads c.copy

theorem all_classes_ok : classes.all classOk = true := by decide +kernel

/-- every property class of the current source round-trips -/
theorem all_classes_roundtrip (c : ClassMaps) (hc : c ∈ classes) (dflt r : Rec) (kf : String × String)
    (hkf : kf ∈ c.reads) :
    loadBlock c.reads c.copy dflt (printBlock c.writes r) kf.2 = r kf.2 := by
  have h := List.all_eq_true.mp all_classes_ok c hc
  simp only [classOk, Bool.and_eq_true] at h
  exact load_print c.reads c.writes c.copy dflt r h.1.1.1 h.1.1.2 h.1.2 h.2 kf hkf

/-- problem-level members the reader stores but the file format has no use for in that file type (stated, not hidden):
    the format number is written as a constant, the AC solver choice exists for magnetics only -/
def exemptMembers (ft : String) : List String :=
  if ft = "m" then ["FileFormat"] else ["FileFormat", "ACSolver"]

/-- every problem-level member the reader stores is written under a key that reads back into the same member -/
def topOk (ft : String) (reads : List (String × String)) (writes : List String) : Bool :=
  reads.all (fun kf => kf.2 == "ignored" || (exemptMembers ft).contains kf.2 ||
    writes.any (fun k => reads.lookup k == some kf.2)) &&
  writes.all (fun k => (reads.lookup k).isSome)

theorem top_keys_magnetics : topOk "m" magneticsTopReads magneticsTopWrites = true := by decide +kernel
theorem top_keys_heat : topOk "h" heatTopReads heatTopWrites = true := by decide +kernel
theorem top_keys_electrostatics : topOk "e" electrostaticsTopReads electrostaticsTopWrites = true := by decide +kernel

/-- 17 significant digits identify a double -/
theorem precision_suffices : 17 ≤ streamPrecision := by decide

/-! ### string literals -/

theorem beforeLastQuote_append (s t : List Char) (ht : ∀ c ∈ t, c ≠ '"') :
    beforeLastQuote (s ++ '"' :: t) = some s := by
  unfold beforeLastQuote
  have hrev : (s ++ '"' :: t).reverse = t.reverse ++ '"' :: s.reverse := by simp
  rw [hrev]
  have hdrop : (t.reverse ++ '"' :: s.reverse).dropWhile (fun c => c != '"') = '"' :: s.reverse := by
    rw [List.dropWhile_append_of_pos]
    · simp [List.dropWhile]
    · intro c hc
      have := ht c (List.mem_reverse.mp hc)
      simpa using this
  rw [hdrop]
  simp

/-- **a name survives the file whatever it contains** — inner quotes and spaces included — and whatever follows the
    closing quote as long as it holds no further quote (the CR of a CRLF file, trailing blanks) -/
theorem parseStr_writeStr (s t : List Char) (ht : ∀ c ∈ t, c ≠ '"') :
    parseStr (writeStr s ++ t) = some s := by
  unfold parseStr writeStr
  have : ('"' :: s ++ ['"'] ++ t) = '"' :: (s ++ '"' :: t) := by simp
  rw [this]
  have hq : isSpace '"' = false := by decide
  simp only [List.dropWhile, hq]
  exact beforeLastQuote_append s t ht

/-- leading blanks before the opening quote are skipped -/
theorem parseStr_leading_blanks (n : Nat) (s : List Char) :
    parseStr (List.replicate n ' ' ++ writeStr s) = some s := by
  induction n with
  | zero =>
    have := parseStr_writeStr s [] (by simp)
    simpa using this
  | succ n ih =>
    have hsp : isSpace ' ' = true := by decide
    rw [List.replicate_succ, List.cons_append]
    unfold parseStr at *
    simp only [List.dropWhile, hsp]
    exact ih

/-- a name with an inner quote (non-vacuity of the statement above) -/
example : parseStr ("  \"a \"b\" c\"\r".toList) = some "a \"b\" c".toList := by decide +kernel

/-! ### mesh size of a block label: diameter ↔ area -/

/-- `fromStream` stores `d·(π·d/4)`, `toStream` writes `sqrt(4·A/π)`: over the reals that is the identity on positive sizes -/
theorem meshsize_roundtrip (p d : ℝ) (hp : 0 < p) (hd : 0 ≤ d) :
    Real.sqrt (4 * (d * (p * d / 4)) / p) = d := by
  have : 4 * (d * (p * d / 4)) / p = d ^ 2 := by field_simp
  rw [this, Real.sqrt_sq hd]

end XfemmVerif.C14
