import XfemmVerif.Model.ESolver
import XfemmVerif.Properties.C09
import XfemmVerif.Lemmas.CuthillLemmas
import Mathlib.Tactic.Ring
import Mathlib.Tactic.FieldSimp
import Mathlib.Tactic.FinCases
import Mathlib.Algebra.Field.Basic
import Mathlib.Algebra.BigOperators.Fin
import Mathlib.Algebra.CharZero.Defs
import Mathlib.Data.Rat.Init
/-!
# C03 — the electrostatic solution satisfies the discrete field equations and Gauss's law

`Model/ESolver.lean` follows `ESolver::AnalyzeProblem` statement by statement; its `Float` instance is
compared bit for bit with the system the real solver hands to `PCGSolve` on every run.  The theorems
here are about the element-level functions that model uses (over any field) and, through C09, about the
accumulation into the global matrix:

* the Allaire element matrix is the Galerkin (gradient) form of `-∫ ε ∇u·∇φ_j`, symmetric, with zero
  row sums; the element gradient is exact for affine fields (C06's patch property);
* eliminating prescribed nodes has the closed form of the constrained equations;
* accumulation by `Put(Get - Me)` is exact and order independent (C09 `get_applyOps`).

Not proved here (labelled partial): the global statement "solution of the assembled system ⇔ weak form
at every free node" for the full assembly with conductor rows — decided per run by the independent SI
assembly oracle on the real solver's output; solver accuracy (C09).
-/
open Finset
namespace XfemmVerif.C03
open XfemmVerif.ESolver

variable {α : Type} [Field α]

/-- `Σ_k f k` over the three local indices -/
def sum3 (f : Fin 3 → α) : α := f 0 + f 1 + f 2

/-- element gradient of the linear interpolant of nodal values `u`: `(Σ u_k p_k, Σ u_k q_k)/(2a)` -/
def gradX (u p : V3 α) (a : α) : α := sum3 (fun k => u k * p k) / (2 * a)
def gradY (u q : V3 α) (a : α) : α := sum3 (fun k => u k * q k) / (2 * a)

theorem shapeP_sum (y : V3 α) : sum3 (shapeP y) = 0 := by
  simp only [sum3, shapeP]; ring
theorem shapeQ_sum (x : V3 α) : sum3 (shapeQ x) = 0 := by
  simp only [sum3, shapeQ]; ring

/-- the area parameter is the shoelace (signed) area of the triangle -/
theorem area_eq_shoelace (x y : V3 α) :
    area (shapeP y) (shapeQ x) = ((x 1 - x 0) * (y 2 - y 0) - (x 2 - x 0) * (y 1 - y 0)) / 2 := by
  simp only [area, shapeP, shapeQ]; ring

/-- the stiffness entries in closed form (what the two accumulation passes of the C++ leave) -/
theorem stiff_entry (depth ex ey a kludge : α) (p q : V3 α) (j k : Fin 3) :
    stiff depth ex ey a kludge p q j k =
      (-depth * ex / (4 * a) / kludge) * p j * p k + (-depth * ey / (4 * a) / kludge) * q j * q k := by
  unfold stiff
  by_cases h : j.val ≤ k.val
  · simp only [h, if_true]; ring
  · simp only [h, if_false]; ring

/-- **symmetry** of the element matrix -/
theorem stiff_symm (depth ex ey a kludge : α) (p q : V3 α) (j k : Fin 3) :
    stiff depth ex ey a kludge p q j k = stiff depth ex ey a kludge p q k j := by
  rw [stiff_entry, stiff_entry]; ring

/-- **constants are in the kernel**: every row of the element stiffness sums to zero -/
theorem stiff_rowsum_zero (depth ex ey a kludge : α) (x y : V3 α) (j : Fin 3) :
    sum3 (fun k => stiff depth ex ey a kludge (shapeP y) (shapeQ x) j k) = 0 := by
  simp only [sum3, stiff_entry]
  have hp := shapeP_sum y
  have hq := shapeQ_sum x
  simp only [sum3] at hp hq
  have : ∀ (c d : α) (pj qj : α),
      c * pj * shapeP y 0 + d * qj * shapeQ x 0 + (c * pj * shapeP y 1 + d * qj * shapeQ x 1) +
        (c * pj * shapeP y 2 + d * qj * shapeQ x 2)
      = c * pj * (shapeP y 0 + shapeP y 1 + shapeP y 2) + d * qj * (shapeQ x 0 + shapeQ x 1 + shapeQ x 2) := by
    intro c d pj qj; ring
  rw [this, hp, hq]; ring

/-- **Allaire form = Galerkin form**: applied to nodal values `u`, row `j` of the element matrix is
    `-(Depth·a/kludge)·(ε_x ∂ₓu ∂ₓφ_j + ε_y ∂ᵧu ∂ᵧφ_j)` with `∇φ_j = (p_j, q_j)/(2a)` and the element
    gradient of `u` — i.e. minus the weak-form integral over the element (the solver assembles `-Me`) -/
theorem stiff_eq_gradform (depth ex ey a kludge : α) (ha : a ≠ 0) (hk : kludge ≠ 0) (p q u : V3 α) (j : Fin 3) :
    sum3 (fun k => stiff depth ex ey a kludge p q j k * u k) =
      -(depth * a / kludge) * (ex * gradX u p a * (p j / (2 * a)) + ey * gradY u q a * (q j / (2 * a))) := by
  simp only [sum3, stiff_entry, gradX, gradY]
  field_simp
  ring

/-- **the element gradient is exact for affine fields**: if `u_k = c₀ + c₁ x_k + c₂ y_k` then the element
    gradient is `(c₁, c₂)` on every non-degenerate triangle (the patch property behind C06) -/
theorem gradient_exact_for_affine [CharZero α] (x y : V3 α) (c0 c1 c2 : α)
    (ha : area (shapeP y) (shapeQ x) ≠ 0) :
    let u : V3 α := fun k => c0 + c1 * x k + c2 * y k
    gradX u (shapeP y) (area (shapeP y) (shapeQ x)) = c1 ∧
    gradY u (shapeQ x) (area (shapeP y) (shapeQ x)) = c2 := by
  have h2 : (2 : α) * area (shapeP y) (shapeQ x) ≠ 0 := mul_ne_zero (Ne.symm (OfNat.zero_ne_ofNat 2)) ha
  constructor
  · simp only [gradX]
    rw [div_eq_iff h2]
    simp only [sum3, area, shapeP, shapeQ]; field_simp; ring
  · simp only [gradY]
    rw [div_eq_iff h2]
    simp only [sum3, area, shapeP, shapeQ]; field_simp; ring

/-! ### elimination of prescribed nodes -/

def fixedVal (fix : Fin 3 → Option α) (c : Fin 3) : α := (fix c).getD 0

/-- closed form of "process any prescribed nodal values" for all 8 patterns of prescribed nodes:
    couplings to prescribed nodes are removed from the matrix and moved, with the prescribed value, to
    the right-hand side; a prescribed row becomes `Me_jj · u_j = Me_jj · v_j` -/
theorem procFixed_closed_form [DecidableEq α] (fix : Fin 3 → Option α) (me : M3 α) (be : V3 α) :
    (∀ a c, (procFixed fix (me, be)).1 a c =
        if a ≠ c ∧ ((fix a).isSome ∨ (fix c).isSome) then 0 else me a c) ∧
    (∀ a, (procFixed fix (me, be)).2 a =
        match fix a with
        | some v => v * me a a
        | none => be a - ∑ c : Fin 3, (if (fix c).isSome then me a c * fixedVal fix c else 0)) := by
  rcases h0 : fix 0 with _ | v0 <;> rcases h1 : fix 1 with _ | v1 <;> rcases h2 : fix 2 with _ | v2 <;>
  · refine ⟨?_, ?_⟩
    · intro a c
      fin_cases a <;> fin_cases c <;> simp [procFixed, procFixedStep, h0, h1, h2]
    · intro a
      fin_cases a <;> simp [procFixed, procFixedStep, h0, h1, h2, fixedVal, Fin.sum_univ_three] <;> ring

/-- consequence: for nodal values that meet the prescribed ones, the processed element equations at a
    free local node are the original ones (`Σ_k me_ak u_k - be_a` is unchanged) -/
theorem procFixed_preserves_free_rows [DecidableEq α] (fix : Fin 3 → Option α) (me : M3 α) (be : V3 α) (u : V3 α)
    (hu : ∀ c v, fix c = some v → u c = v) (a : Fin 3) (ha : fix a = none) :
    (∑ c : Fin 3, (procFixed fix (me, be)).1 a c * u c) - (procFixed fix (me, be)).2 a =
      (∑ c : Fin 3, me a c * u c) - be a := by
  obtain ⟨hm, hb⟩ := procFixed_closed_form fix me be
  rw [hb a, ha]
  simp only [hm]
  rw [sub_sub_eq_add_sub, ← Finset.sum_add_distrib]
  congr 1
  apply Finset.sum_congr rfl
  intro c _
  cases hc : fix c with
  | none =>
    simp [ha, hc]
  | some v =>
    have hac : a ≠ c := by intro h; rw [h] at ha; rw [ha] at hc; cases hc
    simp [hc, hac, fixedVal, hu c v hc]

/-! ### accumulation into the global matrix (through C09) -/

/-- the global entry after assembling any list of element contributions by `Put(Get(p,q) + v, p, q)`
    is the sum of the contributions to that unordered position — whatever the element order -/
theorem global_entry_is_sum_of_contributions (M : Sparse.LinProb α) (hM : Sparse.WF M)
    (ops : List (C09.Op α)) (hops : ∀ o ∈ ops, o.p < M.n ∧ o.q < M.n) (p q : Nat) :
    Sparse.get (C09.applyOps M ops) p q = Sparse.get M p q + C09.contrib ops p q :=
  C09.get_applyOps M hM ops hops p q

/-! ### non-vacuity -/
example : area (shapeP (fun k : Fin 3 => ((![0, 0, 1] : Fin 3 → ℚ) k))) (shapeQ (fun k => (![0, 1, 0] : Fin 3 → ℚ) k)) ≠ 0 := by
  simp [area, shapeP, shapeQ]


/-! ### The node renumbering every solver applies before assembling (`libfemm/cuthill.cpp`, model `Model/Cuthill.lean`)

The solution file lists node `i` of the mesh at position `newnum[i]` and `SortNodes` moves the nodes by following the cycles of
`newnum` - which ends, and stays inside the array, only if `newnum` is a permutation.  The model is compared with the real solvers on
every solved problem of C03 / C04 / C05 (positions of all nodes and the complete element list of the solution file). -/
section cuthill
open XfemmVerif.Cuthill XfemmVerif.CuthillLemmas

/-- For every mesh graph over at least two nodes (any adjacency lists with entries below `N`, connected or not, any degrees, any start
    node): the numbering loop of `Cuthill()` never reaches a state in which the C++ reads an unnumbered `newnum[n0]`, indexes `nxtnum`
    beyond its end or finds no unvisited node (`loop … = some`), it ends within `N` passes (the fuel), and the numbering it ends with
    gives every node a number below `N`, no two nodes the same. -/
theorem cuthill_numbering_total_and_bijective (N : Nat) (nc : Array Nat) (oc : Array (List Nat))
    (hadj : ∀ a, ∀ c ∈ oc.getD a [], c < N) (n0 : Nat) (hN : 2 ≤ N) (h0 : n0 < N) :
    ∃ s, loop nc oc N N (initSt N n0) = some s ∧ s.newnum.size = N ∧
      (∀ (i : Nat), i < N → ∃ k, k < N ∧ s.newnum[i]?.getD none = some k) ∧
      (∀ (i i' k : Nat), s.newnum[i]?.getD none = some k → s.newnum[i']?.getD none = some k → i = i') :=
  numbering_bijective N nc oc hadj n0 hN h0

/-- `Cuthill()` as a whole, for every `.edge` file over at least two nodes whose lines join node indices (any graph: disconnected,
    multiple lines, isolated nodes): the function returns (no unreachable state, fuel never exhausted), every node gets a number
    below `N` and no two nodes get the same - `newnum` is a permutation, which is what `SortNodes`, the element renumbering and the
    solution file rest on. -/
theorem cuthill_is_permutation (N : Nat) (es : List (Nat × Nat)) (hN : 2 ≤ N) (hes : ∀ e ∈ es, e.1 < N ∧ e.2 < N) :
    ∃ r, cuthill N es = some r ∧ r.newnum.size = N ∧
      (∀ (i : Nat), i < N → r.newnum[i]?.getD 0 < N) ∧
      (∀ (i j : Nat), i < N → j < N → r.newnum[i]?.getD 0 = r.newnum[j]?.getD 0 → i = j) :=
  cuthill_perm N es hN hes

/-- `SortNodes` (the in-place move of the nodes along the cycles of `newnum`, one copy per solver): when the loop ends, the array is a
    rearrangement of the (number, node) pairs in which every pair sits at the position of its number -/
theorem sortNodes_places_every_node {β : Type} (a a' : Array (Nat × β)) (hd : Distinct a) (h : sortNodesLoop a = some a') :
    a'.Perm a ∧ ∀ (u : Nat × β), u ∈ a → a'[u.1]? = some u := sortNodesLoop_places a a' hd h

/-- … and it ends (every `while` loop within `N + 1` passes, no index outside the arrays) whenever the numbers are pairwise distinct and
    below the number of nodes; with a repeated number the C++ loop would never end (`sortNodes #[2,0,1,1] …` has no result) -/
theorem sortNodes_ends {β : Type} (a : Array (Nat × β)) (hd : Distinct a) (hr : InRange a) : ∃ a', sortNodesLoop a = some a' :=
  sortNodesLoop_total a hd hr

/-- The whole chain, for EVERY mesh graph over at least two nodes and every node type: `Cuthill()` returns a numbering, `SortNodes` ends,
    and node `i` of the mesh is found at position `newnum[i]` of the reordered list - the statement the comparison of the mesh files with
    the solution file observes on every solved problem. -/
theorem renumbering_moves_every_node_to_its_number {β : Type} (N : Nat) (es : List (Nat × Nat)) (nodes : Array β) (hN : 2 ≤ N)
    (hes : ∀ e ∈ es, e.1 < N ∧ e.2 < N) (hnd : nodes.size = N) :
    ∃ r out, cuthill N es = some r ∧ sortNodes r.newnum nodes = some out ∧ out.size = N ∧
      ∀ (i : Nat), i < N → out[r.newnum[i]?.getD 0]? = nodes[i]? := renumbering_chain N es nodes hN hes hnd

example : sortNodes #[2, 0, 1, 3] #["a", "b", "c", "d"] = some #["b", "c", "a", "d"] := by decide +kernel
example : sortNodes #[2, 0, 1, 1] #["a", "b", "c", "d"] = none := by decide +kernel

/-- `BandWidth` as `Cuthill()` computes it is a true bound: the new numbers of the end points of every line of the edge file differ by
    less than it.  Matrix entries only couple nodes joined by a mesh edge, so this is the hypothesis `hband` under which `SetValue`
    may restrict its scan to the band (C09 `setValue_solves_constrained`; `setValue_band_needed` shows it cannot be dropped). -/
theorem cuthill_bandwidth_bounds_every_edge (N : Nat) (es : List (Nat × Nat)) (r : Result) (hr : cuthill N es = some r)
    (hes : ∀ e ∈ es, e.1 < N ∧ e.2 < N) (e : Nat × Nat) (he : e ∈ es) :
    absDiff (r.newnum.getD e.1 0) (r.newnum.getD e.2 0) < r.bandwidth := cuthill_bandwidth N es r hr hes e he

/-- `SortElements` (the comb sort that stops early) loses and duplicates nothing -/
theorem sortElements_is_permutation (els : List Cuthill.Elem) : (sortElements els).Perm els := sortElements_perm els

/-- the bubble sort of an adjacency list by the degree of the neighbours only reorders it -/
theorem cuthill_adjacency_sort_is_permutation (key : Nat → Nat) (l : List Nat) : (sortAdj key l).Perm l := sortAdj_perm key l

/-- one pass of the loop body keeps the invariant and advances the number of the current node by exactly one (the measure behind
    the bound of `N` passes) -/
theorem cuthill_step_advances (N : Nat) (nc : Array Nat) (oc : Array (List Nat)) (hadj : ∀ a, ∀ c ∈ oc.getD a [], c < N)
    (s : St) (k : Nat) (h : LInv N s k) (hlt : s.n < N) : ∃ s', step nc oc N s = some s' ∧ LInv N s' (k + 1) :=
  step_spec N nc oc hadj s k h hlt

/-- non-vacuity and a test of the whole function: a square with one diagonal -/
example : (cuthill 4 [(0, 1), (1, 2), (2, 3), (3, 0), (0, 2)]).map (fun r => (r.newnum.toList, r.bandwidth)) = some ([1, 0, 2, 3], 3) := by
  decide +kernel
end cuthill

end XfemmVerif.C03
