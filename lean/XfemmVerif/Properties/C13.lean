import XfemmVerif.Model.PostInt
import XfemmVerif.Model.PostIntE
import XfemmVerif.Model.PostIntH
import XfemmVerif.Model.PostIntM
import XfemmVerif.Model.Magnetics
import XfemmVerif.Lemmas.ComplexField
import Mathlib.Tactic.FieldSimp
import Mathlib.Tactic.Positivity
import Mathlib.Tactic.Linarith
import Mathlib.Algebra.Order.Field.Basic
import XfemmVerif.Properties.C11
import Mathlib.Algebra.BigOperators.Group.Finset.Basic
import Mathlib.Algebra.BigOperators.Ring.Finset
import Mathlib.Tactic.Ring
/-!
# C13 — post-processed integrals are additive and agree with geometry and terminals

Proved over `Model/PostInt.lean` (selection = toggling flags, extensive integral = sum over the elements of
the selected labels) and the abstract systems of C11: block integrals over a union of disjoint selections are
the sum over the parts; the result depends on the selected set only (any order; toggling a block twice is a
no-op); stored energy `½ VᵀKV` equals half the sum of terminal value × reaction when no free row carries a
source (electrostatic `W = ½ Σ V_c q_c`; magnetostatic `W = ½ ∫A·J` is the same identity with the right-hand
side in place of the reactions).  The electrostatic integrands themselves (`Model/PostIntE.lean`: element field as
`getElementD` accumulates it, stored `D`, recovered `E`, energy / area / volume contributions) are compared with the values the
real post-processor prints and proved here to be the field energy density of the element's own field (non-negative), the
element area and volume, with the element field equal to minus the gradient of an affine potential.  The heat-flow integrands
(`Model/PostIntH.lean`: conductivity pair `GetK`, element mean, stored flux density, recovered gradient, averages divided by the
selected volume with the complex division of the C++) are tied the same way; proved: flux density = conductivity × gradient per
component, the recovered gradient is the gradient, an average times the volume is the volume integral.
-/
open Finset
namespace XfemmVerif.C13
open XfemmVerif.PostInt XfemmVerif.C11

variable {α : Type} [Field α]

theorem blockIntegral_go (els : List (Nat × α)) (sel : Nat → Bool) (acc : α) :
    els.foldl (fun acc e => if sel e.1 then acc + e.2 else acc) acc =
      acc + els.foldl (fun acc e => if sel e.1 then acc + e.2 else acc) 0 := by
  induction els generalizing acc with
  | nil => simp
  | cons e r ih =>
    simp only [List.foldl_cons]
    rw [ih, ih (if sel e.1 then 0 + e.2 else 0)]
    split <;> ring

/-- **additivity**: for two disjoint selections the integral over the union is the sum of the integrals -/
theorem blockIntegral_additive (els : List (Nat × α)) (s1 s2 : Nat → Bool)
    (hdisj : ∀ l, ¬ (s1 l = true ∧ s2 l = true)) :
    blockIntegral els (fun l => s1 l || s2 l) = blockIntegral els s1 + blockIntegral els s2 := by
  unfold blockIntegral
  induction els with
  | nil => simp
  | cons e r ih =>
    simp only [List.foldl_cons]
    have e0 := blockIntegral_go r (fun l => s1 l || s2 l) (if (s1 e.1 || s2 e.1) = true then 0 + e.2 else 0)
    have e1 := blockIntegral_go r s1 (if s1 e.1 = true then 0 + e.2 else 0)
    have e2 := blockIntegral_go r s2 (if s2 e.1 = true then 0 + e.2 else 0)
    rw [e0, e1, e2, ih]
    have := hdisj e.1
    cases h1 : s1 e.1 <;> cases h2 : s2 e.1 <;> simp_all <;> ring

/-- the integral depends on the selected set only -/
theorem blockIntegral_congr (els : List (Nat × α)) (s1 s2 : Nat → Bool) (h : ∀ l, s1 l = s2 l) :
    blockIntegral els s1 = blockIntegral els s2 := by
  have : s1 = s2 := funext h
  rw [this]

theorem toggle_toggle (s : Sel) (l : Nat) : toggle (toggle s l) l = s := by
  unfold toggle
  apply List.ext_getElem?
  intro i
  simp only [List.getElem?_modify]
  by_cases h : l = i
  · subst h; cases s[l]? <;> simp
  · simp [h]

theorem toggle_comm (s : Sel) (a b : Nat) : toggle (toggle s a) b = toggle (toggle s b) a := by
  unfold toggle
  apply List.ext_getElem?
  intro i
  simp only [List.getElem?_modify]
  by_cases h1 : a = i <;> by_cases h2 : b = i <;> cases s[i]? <;> simp [h1, h2]

/-- **selection order is irrelevant**: two block selections commute, selecting twice is a no-op -/
theorem selection_order_irrelevant (groups : List Nat) (s : Sel) (a b : Nat) :
    step groups (step groups s (.block a)) (.block b) = step groups (step groups s (.block b)) (.block a) ∧
    step groups (step groups s (.block a)) (.block a) = s := by
  exact ⟨toggle_comm s a b, toggle_toggle s a⟩

/-- **energy = half the sum of terminal value × reaction**: `V` solves the homogeneous equations on the free
    rows and is constant `Vc a` on the rows of terminal `a` (`term r = some a`); then
    `Σ_r V_r (K V)_r = Σ_r [r constrained] V_r (K V)_r` — with `q_a` the reaction collected on terminal `a`
    this is `VᵀKV = Σ_a V_a q_a`, i.e. `W = ½ Σ V q`. -/
theorem energy_eq_half_Vq (n : ℕ) (K : ℕ → ℕ → α) (free : ℕ → Prop) [DecidablePred free] (V : ℕ → α)
    (hfree : ∀ r, r < n → free r → mulV n K V r = 0) :
    ∑ r ∈ range n, V r * mulV n K V r = ∑ r ∈ range n, (if free r then 0 else V r * mulV n K V r) := by
  apply Finset.sum_congr rfl
  intro r hr
  by_cases hf : free r
  · rw [if_pos hf, hfree r (Finset.mem_range.1 hr) hf]; ring
  · rw [if_neg hf]

/-- magnetostatic form: with sources on the free rows, `K A = f` there, and zero prescribed values,
    `AᵀKA = Σ A_r f_r` (`2W = ∫A·J`) -/
theorem energy_eq_half_AJ (n : ℕ) (K : ℕ → ℕ → α) (free : ℕ → Prop) [DecidablePred free] (A f : ℕ → α)
    (hfree : ∀ r, r < n → free r → mulV n K A r = f r) (hfix : ∀ r, r < n → ¬ free r → A r = 0) :
    ∑ r ∈ range n, A r * mulV n K A r = ∑ r ∈ range n, A r * f r := by
  apply Finset.sum_congr rfl
  intro r hr
  by_cases hf : free r
  · rw [hfree r (Finset.mem_range.1 hr) hf]
  · rw [hfix r (Finset.mem_range.1 hr) hf]; ring

/-! non-vacuity -/
example : blockIntegral [((0 : Nat), (2 : ℚ)), (1, 3), (0, 5)] (fun l => l == 0 || l == 1) =
    blockIntegral [((0 : Nat), (2 : ℚ)), (1, 3), (0, 5)] (fun l => l == 0) + blockIntegral [((0 : Nat), (2 : ℚ)), (1, 3), (0, 5)] (fun l => l == 1) := by
  unfold blockIntegral; norm_num


/-! ### the electrostatic integrands (`Model/PostIntE.lean`, compared with the values the real post-processor prints) -/
section Integrands
open XfemmVerif.PostIntE
variable {β : Type} [Field β] [LinearOrder β] [IsStrictOrderedRing β]

/-- the area integrand is the element area in square metres, the volume integrand that area times the depth / `2πR` -/
theorem area_contribution (axi : Bool) (depth pi lc eo ex ey : β) (t : Tri β) :
    contribution 1 axi depth pi lc eo ex ey t = elmArea t * (lc * lc) := rfl

theorem volume_contribution (axi : Bool) (depth pi lc eo ex ey : β) (t : Tri β) :
    contribution 2 axi depth pi lc eo ex ey t = elmArea t * (lc * lc) * volFactor axi depth pi lc t := rfl

/-- **the energy integrand is `½ ε₀ (εx Ex² + εy Ey²)` times the element volume** — the field energy density of the element's
    own field — hence non-negative for positive permittivities -/
theorem energy_contribution (axi : Bool) (depth pi lc eo ex ey : β) (t : Tri β) (hex : ex ≠ 0) (hey : ey ≠ 0) (heo : eo ≠ 0) :
    contribution 0 axi depth pi lc eo ex ey t =
      elmArea t * (lc * lc) * volFactor axi depth pi lc t *
        (eo * (ex * ((elemE lc t).1 * (elemE lc t).1) + ey * ((elemE lc t).2 * (elemE lc t).2))) / 2 := by
  simp only [contribution, elemD, fieldFromD, reDconjE]
  field_simp
  ring

theorem energy_contribution_nonneg (axi : Bool) (depth pi lc eo ex ey : β) (t : Tri β) (hex : 0 < ex) (hey : 0 < ey) (heo : 0 < eo)
    (hvol : 0 ≤ elmArea t * (lc * lc) * volFactor axi depth pi lc t) :
    0 ≤ contribution 0 axi depth pi lc eo ex ey t := by
  rw [energy_contribution axi depth pi lc eo ex ey t (ne_of_gt hex) (ne_of_gt hey) (ne_of_gt heo)]
  apply div_nonneg _ (by norm_num)
  apply mul_nonneg hvol
  apply mul_nonneg (le_of_lt heo)
  apply add_nonneg
  · exact mul_nonneg (le_of_lt hex) (mul_self_nonneg _)
  · exact mul_nonneg (le_of_lt hey) (mul_self_nonneg _)

/-- **the element field is minus the gradient**: for nodal values of an affine potential `V = a + b x + c y` the field the
    post-processor stores is `−(b, c)/lc` (per metre) -/
theorem elemE_affine (lc a b c : β) (t : Tri β) (hlc : lc ≠ 0)
    (hda : (t.y1 - t.y2) * (t.x0 - t.x2) - (t.y2 - t.y0) * (t.x2 - t.x1) ≠ 0)
    (h0 : t.v0 = a + b * t.x0 + c * t.y0) (h1 : t.v1 = a + b * t.x1 + c * t.y1) (h2 : t.v2 = a + b * t.x2 + c * t.y2) :
    elemE lc t = (-b / lc, -c / lc) := by
  simp only [elemE, h0, h1, h2, Prod.mk.injEq]
  set da := (t.y1 - t.y2) * (t.x0 - t.x2) - (t.y2 - t.y0) * (t.x2 - t.x1) with hdadef
  have hd : da * lc ≠ 0 := mul_ne_zero hda hlc
  constructor
  · have : 0 - (a + b * t.x0 + c * t.y0) * (t.y1 - t.y2) / (da * lc) - (a + b * t.x1 + c * t.y1) * (t.y2 - t.y0) / (da * lc) -
        (a + b * t.x2 + c * t.y2) * (t.y0 - t.y1) / (da * lc) = -(b * da) / (da * lc) := by rw [hdadef]; ring
    rw [this, neg_div, neg_div, mul_comm b da, mul_div_mul_left _ _ hda]
  · have : 0 - (a + b * t.x0 + c * t.y0) * (t.x2 - t.x1) / (da * lc) - (a + b * t.x1 + c * t.y1) * (t.x0 - t.x2) / (da * lc) -
        (a + b * t.x2 + c * t.y2) * (t.x1 - t.x0) / (da * lc) = -(c * da) / (da * lc) := by rw [hdadef]; ring
    rw [this, neg_div, neg_div, mul_comm c da, mul_div_mul_left _ _ hda]

end Integrands

/-! ### the heat-flow integrands (`Model/PostIntH.lean`, compared with the values the real post-processor prints) -/
section HeatIntegrands
open XfemmVerif XfemmVerif.PostIntE XfemmVerif.PostIntH
set_option linter.unusedSectionVars false
variable {K : Type} [Field K] [LinearOrder K] [IsStrictOrderedRing K] [AbsGt K] [LawfulAbsGt K]

/-- without a table the conductivity pair is `(kx, ky)` -/
theorem getKc_constant (kx ky t : K) : getKc { kx := kx, ky := ky, tab := [] } t = ⟨kx, ky⟩ := by
  simp [getKc, Cx.radd, Cx.mulR, Cx.I]

/-- an element at one temperature has that mean temperature, and the mean conductivity pair of a constant material is the pair -/
theorem elemT_uniform (t : Tri K) (T : K) (h0 : t.v0 = T) (h1 : t.v1 = T) (h2 : t.v2 = T) : elemT t = T := by
  simp only [elemT, h0, h1, h2]; ring
theorem elemK_constant (kx ky : K) (t : Tri K) : elemK { kx := kx, ky := ky, tab := [] } t = ⟨kx, ky⟩ := by
  simp only [elemK, getKc_constant]
  apply Cx.ext' <;> simp [Cx.divR] <;> ring

/-- **the stored flux density is conductivity times gradient, component by component** -/
theorem heat_elemD_eq (kn : Cx K) (e : K × K) : PostIntH.elemD kn e = ⟨e.1 * kn.re, e.2 * kn.im⟩ := by
  simp [PostIntH.elemD, Cx.radd, Cx.mulR, Cx.divR, Cx.I]

/-- **the gradient recovered from the stored flux density is the gradient** (non-zero conductivities) -/
theorem fieldFromD_elemD (kn : Cx K) (e : K × K) (hx : kn.re ≠ 0) (hy : kn.im ≠ 0) :
    PostIntH.fieldFromD kn (PostIntH.elemD kn e) = (⟨e.1, e.2⟩ : Cx K) := by
  rw [heat_elemD_eq]
  simp [PostIntH.fieldFromD, Cx.radd, Cx.mulR, Cx.divR, Cx.I, hx, hy]

/-- area and volume integrands are the element area and volume, as for electrostatics -/
theorem heat_area_contribution (axi : Bool) (depth pi lc : K) (m : HMat K) (t : Tri K) :
    PostIntH.contribution 1 axi depth pi lc m t = ⟨elmArea t * (lc * lc), 0⟩ := rfl
theorem heat_volume_contribution (axi : Bool) (depth pi lc : K) (m : HMat K) (t : Tri K) :
    PostIntH.contribution 2 axi depth pi lc m t = ⟨elmArea t * (lc * lc) * volFactor axi depth pi lc t, 0⟩ := rfl

/-- **an average is the volume integral divided by the volume**: the complex division of the C++ gives back the integral when
    multiplied by the (non-zero) selected volume -/
theorem average_times_volume (typ : Nat) (h : typ = 0 ∨ typ = 3 ∨ typ = 4) (z vol : Cx K) (hv : vol ≠ 0) :
    PostIntH.finish typ z vol * vol = z := by
  simp only [PostIntH.finish, h, if_true]
  exact Cx.div_mul_cancel' z vol hv

end HeatIntegrands

/-! ### the magnetics integrands of a planar magnetostatic solution (`Model/PostIntM.lean`) -/
section MagneticsIntegrands
open XfemmVerif XfemmVerif.PostIntE XfemmVerif.PostIntM XfemmVerif.Magnetics
set_option linter.unusedSectionVars false
variable {K : Type} [Field K] [LinearOrder K] [IsStrictOrderedRing K] [AbsGt K] [LawfulAbsGt K]

/-- **the quadrature of `A·J` is a symmetric bilinear form** in the two nodal functions -/
theorem plnInt_symm (a : K) (u v : Fin 3 → Cx K) : plnInt a u v = plnInt a v u := by
  have h2 : ∀ z : Cx K, Cx.rmul (2 : K) z = Cx.ofReal 2 * z := fun z => Cx.rmul_eq 2 z
  simp only [plnInt, h2, Cx.rmul_eq, Cx.divR_eq]
  ring

/-- for a density that is constant over the element it is the exact integral `a · J · (u₀ + u₁ + u₂)/3` -/
theorem plnInt_const (a : K) (u : Fin 3 → Cx K) (c : Cx K) :
    plnInt a u (fun _ => c) = Cx.ofReal a * c * (u 0 + u 1 + u 2) / Cx.ofReal 3 := by
  have h2 : ∀ z : Cx K, Cx.rmul (2 : K) z = Cx.ofReal 2 * z := fun z => Cx.rmul_eq 2 z
  have e12 : (Cx.ofReal (12 : K) : Cx K) = 12 := by
    have := Cx.ofReal_natCast (K := K) 12; simpa using this
  have e3 : (Cx.ofReal (3 : K) : Cx K) = 3 := by
    have := Cx.ofReal_natCast (K := K) 3; simpa using this
  have e2 : (Cx.ofReal (2 : K) : Cx K) = 2 := Cx.ofReal_two
  have h12 : (12 : Cx K) ≠ 0 := by rw [← e12]; exact Cx.ofReal_ne_zero (by norm_num)
  have h3 : (3 : Cx K) ≠ 0 := by rw [← e3]; exact Cx.ofReal_ne_zero (by norm_num)
  simp only [plnInt, h2, Cx.rmul_eq, Cx.divR_eq, e12, e3, e2]
  field_simp
  ring

/-- **the energy density of a linear material is `½ B·H` with the permeabilities the solvers use** (`lamMu`): in-plane laminations
    for any iron, on-edge laminations for isotropic iron (the solvers take one permeability for both directions) -/
theorem doEnergy_eq_half_BH (muo : K) (m : MMat K) (b1 b2 : K) (hmuo : muo ≠ 0)
    (hiso : m.lamType = 1 ∨ m.lamType = 2 → m.mux = m.muy) (hmu : m.mux ≠ 0) (hmuy : m.muy ≠ 0)
    (hden : m.lamFill + m.mux * (1 - m.lamFill) ≠ 0) (ht : m.lamType ≤ 2) :
    doEnergy muo m b1 b2 =
      (b1 * (b1 / ((lamMu m.lamType m.lamFill m.mux m.muy).1 * muo)) +
        b2 * (b2 / ((lamMu m.lamType m.lamFill m.mux m.muy).2 * muo))) / 2 := by
  rcases m with ⟨mux, muy, lt, t, ld, J, cd⟩
  simp only at hiso hmu hmuy hden ht ⊢
  have hlt : lt = 0 ∨ lt = 1 ∨ lt = 2 := by omega
  rcases hlt with rfl | rfl | rfl
  · simp only [doEnergy, lamMu]
    simp
    ring_nf
  · have e := hiso (Or.inl rfl); subst e
    have e1 : (1 : K) + t * (mux - 1) = t * mux + (1 - t) := by ring
    simp only [doEnergy, lamMu]
    simp
    field_simp
    rw [e1]
  · have e := hiso (Or.inr rfl); subst e
    have e1 : (1 : K) + t * (mux - 1) = t * mux + (1 - t) := by ring
    simp only [doEnergy, lamMu]
    simp
    field_simp
    rw [e1]

/-- the element flux density is the curl of an affine potential `A = a + b x + c y`: `B = (c, −b)/lc` -/
theorem elemB_affine (lc a b c : K) (t : Tri K) (hlc : lc ≠ 0)
    (hda : (t.y1 - t.y2) * (t.x0 - t.x2) - (t.y2 - t.y0) * (t.x2 - t.x1) ≠ 0)
    (h0 : t.v0 = a + b * t.x0 + c * t.y0) (h1 : t.v1 = a + b * t.x1 + c * t.y1) (h2 : t.v2 = a + b * t.x2 + c * t.y2) :
    elemB lc t = (c / lc, -b / lc) := by
  simp only [elemB, h0, h1, h2, Prod.mk.injEq]
  set da := (t.y1 - t.y2) * (t.x0 - t.x2) - (t.y2 - t.y0) * (t.x2 - t.x1) with hdadef
  have hd : da * lc ≠ 0 := mul_ne_zero hda hlc
  constructor
  · have : 0 + (a + b * t.x0 + c * t.y0) * (t.x2 - t.x1) / (da * lc) + (a + b * t.x1 + c * t.y1) * (t.x0 - t.x2) / (da * lc) +
        (a + b * t.x2 + c * t.y2) * (t.x1 - t.x0) / (da * lc) = (c * da) / (da * lc) := by rw [hdadef]; ring
    rw [this, mul_comm c da, mul_div_mul_left _ _ hda]
  · have : 0 - (a + b * t.x0 + c * t.y0) * (t.y1 - t.y2) / (da * lc) - (a + b * t.x1 + c * t.y1) * (t.y2 - t.y0) / (da * lc) -
        (a + b * t.x2 + c * t.y2) * (t.y0 - t.y1) / (da * lc) = -(b * da) / (da * lc) := by rw [hdadef]; ring
    rw [this, neg_div, neg_div, mul_comm b da, mul_div_mul_left _ _ hda]

end MagneticsIntegrands

end XfemmVerif.C13
