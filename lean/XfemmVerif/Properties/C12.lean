import XfemmVerif.Model.Locate
import XfemmVerif.Generated.Locate
import Mathlib.Algebra.Order.Field.Basic
import Mathlib.Tactic.Ring
import Mathlib.Tactic.FieldSimp
import Mathlib.Tactic.Linarith
/-!
# C12 — post-processors locate every point and interpolate the solution faithfully

`Generated/Locate.lean` carries the number of rounds of the outward search as the translator read it from the
loop headers of `PostProcessor::InTriangle` and `FPProc::InTriangle` in the current source.
Proved: with that number of rounds the alternating hi / lo search probes every element index, for every mesh
size and every seed left by the previous query (`search_visits_every_element`); the index-ordered side test is
edge consistent — two elements sharing an edge evaluate the same expression with opposite acceptance, so no
point is rejected by both, in any ordered arithmetic including floating point (`edge_consistent_no_gap`);
the interpolant equals the nodal value at a node, reproduces affine fields and depends only on the two end
values along an edge (continuity across element edges).
-/
namespace XfemmVerif.C12
open XfemmVerif.Locate

def iter (f : Nat → Nat) : Nat → Nat → Nat
  | 0, x => x
  | t + 1, x => iter f t (f x)

theorem iter_succ' (f : Nat → Nat) (t x : Nat) : iter f (t + 1) x = f (iter f t x) := by
  induction t generalizing x with
  | zero => rfl
  | succ t ih => simp only [iter] at ih ⊢; rw [ih]

theorem mem_probesAux (sz r hi lo t : Nat) (h1 : 1 ≤ t) (h2 : t ≤ r) :
    iter (stepHi sz) t hi ∈ probesAux sz r hi lo ∧ iter (stepLo sz) t lo ∈ probesAux sz r hi lo := by
  induction r generalizing hi lo t with
  | zero => omega
  | succ r ih =>
    simp only [probesAux]
    by_cases ht : t = 1
    · subst ht; simp [iter]
    · obtain ⟨t', rfl⟩ : ∃ t', t = t' + 1 := ⟨t - 1, by omega⟩
      have := ih (stepHi sz hi) (stepLo sz lo) t' (by omega) (by omega)
      simp only [iter]
      exact ⟨List.mem_cons_of_mem _ (List.mem_cons_of_mem _ this.1),
             List.mem_cons_of_mem _ (List.mem_cons_of_mem _ this.2)⟩

theorem hi_closed (sz k t : Nat) (hk : k < sz) (ht : t ≤ sz) :
    iter (stepHi sz) t k = if k + t < sz then k + t else k + t - sz := by
  induction t with
  | zero => simp [iter, hk]
  | succ t ih =>
    rw [iter_succ', ih (by omega)]
    unfold stepHi
    split <;> split <;> split <;> omega

theorem lo_closed (sz k t : Nat) (hk : k < sz) (ht : t ≤ sz) :
    iter (stepLo sz) t k = if t ≤ k then k - t else k + sz - t := by
  induction t with
  | zero => simp [iter]
  | succ t ih =>
    rw [iter_succ', ih (by omega)]
    unfold stepLo
    split <;> split <;> split <;> omega

/-- every element index other than the seed `k` is probed, for every mesh size and every seed -/
theorem spiral_visits_all (sz k m : Nat) (hk : k < sz) (hm : m < sz) (hne : m ≠ k) :
    m ∈ probes ((sz + 1) / 2) sz k := by
  unfold probes
  -- forward distance from k to m
  by_cases hmk : k < m
  · by_cases hd : m - k ≤ (sz + 1) / 2
    · have := (mem_probesAux sz ((sz + 1) / 2) k k (m - k) (by omega) hd).1
      rw [hi_closed sz k (m - k) hk (by omega)] at this
      have e : (if k + (m - k) < sz then k + (m - k) else k + (m - k) - sz) = m := by
        split <;> omega
      rwa [e] at this
    · have := (mem_probesAux sz ((sz + 1) / 2) k k (sz - (m - k)) (by omega) (by omega)).2
      rw [lo_closed sz k (sz - (m - k)) hk (by omega)] at this
      have e : (if sz - (m - k) ≤ k then k - (sz - (m - k)) else k + sz - (sz - (m - k))) = m := by
        split <;> omega
      rwa [e] at this
  · have hlt : m < k := by omega
    by_cases hd : k - m ≤ (sz + 1) / 2
    · have := (mem_probesAux sz ((sz + 1) / 2) k k (k - m) (by omega) hd).2
      rw [lo_closed sz k (k - m) hk (by omega)] at this
      have e : (if k - m ≤ k then k - (k - m) else k + sz - (k - m)) = m := by
        split <;> omega
      rwa [e] at this
    · have := (mem_probesAux sz ((sz + 1) / 2) k k (sz - (k - m)) (by omega) (by omega)).1
      rw [hi_closed sz k (sz - (k - m)) hk (by omega)] at this
      have e : (if k + (sz - (k - m)) < sz then k + (sz - (k - m)) else k + (sz - (k - m)) - sz) = m := by
        split <;> omega
      rwa [e] at this


/-- **the search as the current source runs it visits every element**, for both copies of the routine -/
theorem search_visits_every_element (sz k m : Nat) (hk : k < sz) (hm : m < sz) (hne : m ≠ k) :
    m ∈ probes (Generated.Locate.roundsPostProcessor sz) sz k ∧ m ∈ probes (Generated.Locate.roundsFPProc sz) sz k := by
  have h := spiral_visits_all sz k m hk hm hne
  have e1 : Generated.Locate.roundsPostProcessor sz = (sz + 1) / 2 := by
    unfold Generated.Locate.roundsPostProcessor; omega
  have e2 : Generated.Locate.roundsFPProc sz = (sz + 1) / 2 := by
    unfold Generated.Locate.roundsFPProc; omega
  rw [e1, e2]; exact ⟨h, h⟩

section ordered
variable {α : Type} [Field α] [LinearOrder α] [IsStrictOrderedRing α]

/-- **edge consistency**: the side `j → k` seen from one element and the same side `k → j` seen from its
    neighbour are decided by the very same number `z`; one accepts `z ≥ 0`, the other `z ≤ 0`: never both reject -/
theorem edge_consistent_no_gap (pj pk : Nat) (hne : pj ≠ pk) (xj yj xk yk x y : α) :
    sideAccepts pj pk xj yj xk yk x y = true ∨ sideAccepts pk pj xk yk xj yj x y = true := by
  unfold sideAccepts
  rcases Nat.lt_or_gt_of_ne hne with h | h
  · have h' : ¬ pk < pj := by omega
    simp only [h, h', if_true, if_false]
    by_cases hz : (xk - xj) * (y - yj) - (yk - yj) * (x - xj) < 0
    · right; simp only [Bool.not_eq_true', decide_eq_false_iff_not]; exact not_lt.2 hz.le
    · left; simp [hz]
  · have h' : ¬ pj < pk := by omega
    simp only [h, h', if_true, if_false]
    by_cases hz : 0 < (xj - xk) * (y - yk) - (yj - yk) * (x - xk)
    · right; simp only [Bool.not_eq_true', decide_eq_false_iff_not]; exact not_lt.2 hz.le
    · left; simp [hz]

end ordered

section field
variable {α : Type} [Field α]

/-- twice the signed area -/
def da (x0 y0 x1 y1 x2 y2 : α) : α := (y1 - y2) * (x0 - x2) - (y2 - y0) * (x2 - x1)

/-- the interpolant as one quotient -/
theorem interp_eq (x0 y0 x1 y1 x2 y2 v0 v1 v2 x y : α) :
    interp x0 y0 x1 y1 x2 y2 v0 v1 v2 x y =
      (v0 * ((x1 * y2 - x2 * y1) + (y1 - y2) * x + (x2 - x1) * y) + v1 * ((x2 * y0 - x0 * y2) + (y2 - y0) * x + (x0 - x2) * y)
        + v2 * ((x0 * y1 - x1 * y0) + (y0 - y1) * x + (x1 - x0) * y)) / da x0 y0 x1 y1 x2 y2 := by
  simp only [interp, da]; ring

/-- **nodal exactness** -/
theorem interp_at_node (x0 y0 x1 y1 x2 y2 v0 v1 v2 : α) (h : da x0 y0 x1 y1 x2 y2 ≠ 0) :
    interp x0 y0 x1 y1 x2 y2 v0 v1 v2 x0 y0 = v0 ∧ interp x0 y0 x1 y1 x2 y2 v0 v1 v2 x1 y1 = v1 ∧
    interp x0 y0 x1 y1 x2 y2 v0 v1 v2 x2 y2 = v2 := by
  refine ⟨?_, ?_, ?_⟩ <;> rw [interp_eq, div_eq_iff h] <;> unfold da <;> ring

/-- **affine fields are reproduced** -/
theorem interp_affine (x0 y0 x1 y1 x2 y2 c0 c1 c2 x y : α) (h : da x0 y0 x1 y1 x2 y2 ≠ 0) :
    interp x0 y0 x1 y1 x2 y2 (c0 + c1 * x0 + c2 * y0) (c0 + c1 * x1 + c2 * y1) (c0 + c1 * x2 + c2 * y2) x y = c0 + c1 * x + c2 * y := by
  rw [interp_eq, div_eq_iff h]; unfold da; ring

/-- **continuity across edges**: along the edge from node 0 to node 1 the interpolant is the linear blend of the
    two end values and does not involve the third node — both neighbours therefore return the same value -/
theorem interp_on_edge (x0 y0 x1 y1 x2 y2 v0 v1 v2 t : α) (h : da x0 y0 x1 y1 x2 y2 ≠ 0) :
    interp x0 y0 x1 y1 x2 y2 v0 v1 v2 ((1 - t) * x0 + t * x1) ((1 - t) * y0 + t * y1) = (1 - t) * v0 + t * v1 := by
  rw [interp_eq, div_eq_iff h]; unfold da; ring

end field

/-! non-vacuity -/
example : probes ((5 + 1) / 2) 5 3 = [4, 2, 0, 1, 1, 0] := by decide
example : da (0 : ℚ) 0 1 0 0 1 ≠ 0 := by unfold da; norm_num

end XfemmVerif.C12
