import XfemmVerif.Model.VecIter
/-!
# C08 — no memory error or undefined behaviour (the part a model can carry)

C++ memory safety itself is not a theorem about a model; `checks/C08.py` provides runtime evidence
(sanitizers, memcheck, determinism).  What is proved here are the *logic* mechanisms the property is
anchored in: the loop shape "range-for over a vector while pushing into it" dereferences a stale
iterator as soon as a push reallocates and another element follows (witness + general statement),
whereas the indexed loop over the original size never indexes out of range, for every vector, every
capacity and every selection; a clamped cached index is always inside the mesh.
-/
namespace XfemmVerif.C08
open XfemmVerif.VecIter

theorem push_length (v : Vec) (x : Nat) : (v.push x).items.length = v.items.length + 1 := by
  unfold Vec.push; split <;> simp

/-- the indexed loop never leaves the vector: its index stays below the original size, the size only grows -/
theorem indexedPush_go_safe (selected : Nat → Bool) (n0 : Nat) (i fuel : Nat) (cur : Vec)
    (h : n0 ≤ cur.items.length) :
    ∃ v', indexedPush.go selected n0 i fuel cur = .ok v' := by
  induction fuel generalizing i cur with
  | zero => exact ⟨cur, rfl⟩
  | succ fuel ih =>
    unfold indexedPush.go
    by_cases h1 : i ≥ n0
    · simp [h1]
    · have h2 : ¬ i ≥ cur.items.length := by omega
      simp only [h1, h2, if_false]
      apply ih
      split
      · rw [push_length]; omega
      · exact h

/-- **the repaired loop shape is safe for every vector, capacity and selection** -/
theorem indexed_snapshot_loop_safe (selected : Nat → Bool) (v : Vec) :
    ∃ v', indexedPush selected v = .ok v' := by
  unfold indexedPush
  exact indexedPush_go_safe selected v.items.length 0 v.items.length v (Nat.le_refl _)

/-- **the original loop shape is not**: a full vector (size = capacity) with two selected elements:
    the first push reallocates, the second iteration dereferences the old buffer -/
theorem range_for_push_back_invalidates :
    rangeForPush (fun _ => true) { items := [7, 8], cap := 2, gen := 0 } = .staleDeref 1 := by
  decide +kernel

/-- general form: whenever the first element is selected, the vector is full and a second element exists,
    the second dereference is stale -/
theorem range_for_stale_general (selected : Nat → Bool) (x y : Nat) (rest : List Nat) (g : Nat)
    (hx : selected x = true) :
    rangeForPush selected { items := x :: y :: rest, cap := (x :: y :: rest).length, gen := g } = .staleDeref 1 := by
  unfold rangeForPush
  simp only [List.length_cons]
  unfold rangeForPush.go
  simp only [List.getD_cons_zero, hx, if_true]
  have hpush : (Vec.push { items := x :: y :: rest, cap := rest.length + 1 + 1, gen := g } x).gen = g + 1 := by
    unfold Vec.push; simp
  unfold rangeForPush.go
  simp [hpush]

/-- a cached index that is clamped against the current element count is always a valid index -/
theorem clamped_index_in_range (k n : Nat) (hn : 0 < n) : clampIndex k n < n := by
  unfold clampIndex; split <;> omega

/-- … whereas the unclamped cached index of a larger, earlier mesh is not (the shape of a stale-cache bug) -/
theorem stale_index_out_of_range : ¬ ((2864 : Nat) < 428) := by decide

end XfemmVerif.C08
