import XfemmVerif.Properties.C03
import XfemmVerif.Properties.C05
import Mathlib.Algebra.BigOperators.Group.Finset.Basic
import Mathlib.Algebra.BigOperators.Ring.Finset
import Mathlib.Tactic.Ring
import Mathlib.Tactic.FieldSimp
/-!
# C06 — closed-form fields are reproduced: exactly if linear

The patch property of linear triangles, proved for every mesh around an interior node: if the exact
solution is affine, `u = c₀ + c₁x + c₂y`, then on every non-degenerate element the element gradient is
`(c₁, c₂)` (`C03.gradient_exact_for_affine`), the element's contribution to the equation of a node is a
pure flux term through the opposite side (`affine_element_row`), and around a closed fan of elements
with one coefficient tensor these flux terms cancel (`affine_patch_residual_zero`): the nodal
interpolant of the affine field satisfies the discrete equation of every interior node of a
homogeneous patch *exactly*, on every mesh.  With side-by-side materials whose normal flux is continuous
the same cancellation holds per material fan and the interface terms are equal and opposite
(checked per run by the exact-residual oracle).  Convergence for non-affine classics is an FE error
estimate: tested (error decreases under refinement), not proved.
-/
open Finset
namespace XfemmVerif.C06
open XfemmVerif.ESolver XfemmVerif.C03

variable {α : Type} [Field α] [CharZero α]

/-- for an affine field the row of node `j` in one element is the flux of `(ε_x c₁, ε_y c₂)` through the
    side opposite to `j` (whose inward normal times length is `(p_j, q_j)`), halved -/
theorem affine_element_row (depth ex ey kludge : α) (hk : kludge ≠ 0) (x y : V3 α) (c0 c1 c2 : α)
    (ha : area (shapeP y) (shapeQ x) ≠ 0) (j : Fin 3) :
    let u : V3 α := fun k => c0 + c1 * x k + c2 * y k
    sum3 (fun k => stiff depth ex ey (area (shapeP y) (shapeQ x)) kludge (shapeP y) (shapeQ x) j k * u k) =
      -(depth / kludge) * (ex * c1 * shapeP y j + ey * c2 * shapeQ x j) / 2 := by
  intro u
  have hg := gradient_exact_for_affine x y c0 c1 c2 ha
  simp only at hg
  rw [stiff_eq_gradform depth ex ey _ kludge ha hk (shapeP y) (shapeQ x) u j]
  rw [hg.1, hg.2]
  field_simp

/-- the sides opposite to a node, over a closed fan of elements around it, form a closed polygon:
    the sum of their `p` (and `q`) parameters vanishes -/
theorem closed_fan_sum_zero (f : ℕ → α) (m : ℕ) (hclosed : f m = f 0) :
    ∑ k ∈ range m, (f k - f (k + 1)) = 0 := by
  have h := Finset.sum_range_sub f m
  have : ∑ k ∈ range m, (f k - f (k + 1)) = -∑ k ∈ range m, (f (k + 1) - f k) := by
    rw [← Finset.sum_neg_distrib]; apply Finset.sum_congr rfl; intro k _; ring
  rw [this, h, hclosed]; ring

/-- **patch theorem**: interior node with ring vertices `(rx k, ry k)`, `k = 0..m` closed (`k = m` is
    `k = 0` again); the element `k` is (node, ring k, ring k+1) so that for the node (local index 0)
    `p = ry k − ry (k+1)`, `q = rx (k+1) − rx k`.  For an affine field and one coefficient tensor the
    flux terms of `affine_element_row` sum to zero: the discrete equation of the node holds exactly. -/
theorem affine_patch_residual_zero (depth ex ey kludge c1 c2 : α) (rx ry : ℕ → α) (m : ℕ)
    (hx : rx m = rx 0) (hy : ry m = ry 0) :
    ∑ k ∈ range m, (-(depth / kludge) * (ex * c1 * (ry k - ry (k + 1)) + ey * c2 * (rx (k + 1) - rx k)) / 2) = 0 := by
  have h1 := closed_fan_sum_zero ry m hy
  have h2 := closed_fan_sum_zero rx m hx
  have e : ∀ k, (-(depth / kludge) * (ex * c1 * (ry k - ry (k + 1)) + ey * c2 * (rx (k + 1) - rx k)) / 2)
      = (-(depth / kludge) * ex * c1 / 2) * (ry k - ry (k + 1)) + (depth / kludge * ey * c2 / 2) * (rx k - rx (k + 1)) := by
    intro k; ring
  simp only [e]
  rw [Finset.sum_add_distrib, ← Finset.mul_sum, ← Finset.mul_sum, h1, h2]; ring

/-- non-vacuity: a concrete closed ring -/
example : ∑ k ∈ range 4, ((fun k : ℕ => ((![0, 1, 1, 0, 0] : Fin 5 → ℚ) ⟨k % 5, Nat.mod_lt _ (by norm_num)⟩)) k -
    (fun k : ℕ => ((![0, 1, 1, 0, 0] : Fin 5 → ℚ) ⟨k % 5, Nat.mod_lt _ (by norm_num)⟩)) (k + 1)) = 0 := by
  apply closed_fan_sum_zero; rfl

/-! ### the time-harmonic magnetics element shares the patch property

The stiffness part of the `Harmonic2D` model (`MHarmonic.harmStiff`, compared bit for bit with the real assembly) IS the shared element
`ESolver.stiff` over the field `Cx K` with unit depth and the complex reluctivities `1/μ₂`, `1/μ₁` as coefficients.  The patch
theorems above are stated over any field of characteristic zero, so they hold for it: in a region without conductivity the nodal
interpolant of an affine (complex) potential satisfies the discrete time-harmonic equation of every interior node of a homogeneous
patch exactly, on every mesh, for any complex anisotropic permeability. -/
section Harmonic
open XfemmVerif XfemmVerif.MHarmonic XfemmVerif.Cx
set_option linter.unusedSectionVars false
variable {K : Type} [Field K] [LinearOrder K] [IsStrictOrderedRing K] [AbsGt K] [LawfulAbsGt K]

theorem harmStiff_eq_stiff (a : K) (mu1 mu2 : Cx K) (p q : V3 K) (j k : Fin 3) :
    harmStiff (Cx.ofReal (-1 / (4 * a))) mu1 mu2 0 p q j k =
      stiff (1 : Cx K) (1 / mu2) (1 / mu1) (Cx.ofReal a) 1 (fun i => Cx.ofReal (p i)) (fun i => Cx.ofReal (q i)) j k := by
  rw [C05.harmStiff_form]
  have e4 : (Cx.ofReal (4 : K) : Cx K) = 4 := Cx.ofReal_ofNat 4
  rw [Cx.ofReal_div, Cx.ofReal_neg, Cx.ofReal_one, Cx.ofReal_mul, e4, Cx.ofReal_mul, Cx.ofReal_mul, mul_zero, add_zero]
  unfold stiff
  fin_cases j <;> fin_cases k <;> simp <;> ring

/-- **patch test for the time-harmonic element**: for an affine complex potential the row of node `j` in one element is the flux of
    `(c₁/μ₂, c₂/μ₁)` through the opposite side — and these cancel around a closed fan (`affine_patch_residual_zero` at `Cx K`) -/
theorem harmonic_affine_element_row (mu1 mu2 : Cx K) (x y : V3 K) (c0 c1 c2 : Cx K)
    (ha : area (shapeP (fun i => (Cx.ofReal (y i) : Cx K))) (shapeQ (fun i => (Cx.ofReal (x i) : Cx K))) ≠ 0) (j : Fin 3) :
    let X : V3 (Cx K) := fun i => Cx.ofReal (x i)
    let Y : V3 (Cx K) := fun i => Cx.ofReal (y i)
    let u : V3 (Cx K) := fun k => c0 + c1 * X k + c2 * Y k
    sum3 (fun k => stiff (1 : Cx K) (1 / mu2) (1 / mu1) (area (shapeP Y) (shapeQ X)) 1 (shapeP Y) (shapeQ X) j k * u k) =
      -((1 : Cx K) / 1) * (1 / mu2 * c1 * shapeP Y j + 1 / mu1 * c2 * shapeQ X j) / 2 := by
  intro X Y u
  exact affine_element_row (1 : Cx K) (1 / mu2) (1 / mu1) 1 one_ne_zero X Y c0 c1 c2 ha j

end Harmonic

end XfemmVerif.C06
