import XfemmVerif.Model.LuaSpec
import XfemmVerif.Generated.LuaCmds
import XfemmVerif.Generated.FileKeys
/-!
# C17 — a model built by Lua commands equals the same model read from a file

The documented argument order of the add-property commands (FEMM 4.2 manual / the `\lua{…}` signatures in the
source comments) is written down here as the SPEC, in terms of the documented file keys.  The CODE side is translated from
the C++ on every run: `Generated/LuaCmds.lean` (argument ↦ member of every handler, every `addFunction` registration)
and `Generated/FileKeys.lean` (member ↦ key of every `toStream`).  Proved by kernel evaluation on those tables:

* `args_land_under_documented_keys` — for each of the twelve add-property commands, argument `i` is written to the
  problem file under exactly the documented key (so the saved file equals the hand-written file);
* `both_spellings_registered` — every command registered with underscores is also registered without, with the
  same handler;
* `model_building_commands_registered` — every documented command needed to build, analyse and query a model is
  registered for every physics.

Decided on the real tools (checks/C17.py): generated problems expressed as command sequences (random spelling per
command, several problems per script) saved by `xi_saveas` vs the same problem written as a file, and analysis /
post-processing from the script vs the stand-alone tools.
-/
namespace XfemmVerif.C17
open XfemmVerif.LuaSpec XfemmVerif.Generated

/-- SPEC: documented argument order, as the documented file keys (argument 1 is the name in every command) -/
def documented : List (String × String × List (Nat × String)) := [
  ("mi_addmaterial", "CMSolverMaterialProp", [(1, "<blockname>"), (2, "<mu_x>"), (3, "<mu_y>"), (4, "<h_c>"), (5, "<j_re>"), (6, "<sigma>"), (7, "<d_lam>"), (8, "<phi_h>"), (9, "<lamfill>"), (10, "<lamtype>"), (11, "<phi_hx>"), (12, "<phi_hy>"), (13, "<nstrands>"), (14, "<wired>")]),
  ("mi_addboundprop", "CMBoundaryProp", [(1, "<bdryname>"), (2, "<a_0>"), (3, "<a_1>"), (4, "<a_2>"), (5, "<phi>"), (6, "<mu_ssd>"), (7, "<sigma_ssd>"), (8, "<c0>"), (9, "<c1>"), (10, "<bdrytype>")]),
  ("mi_addpointprop", "CMPointProp", [(1, "<pointname>"), (2, "<a_re>"), (3, "<i_re>")]),
  ("mi_addcircprop", "CMCircuit", [(1, "<circuitname>"), (2, "<totalamps_re>"), (3, "<circuittype>")]),
  ("ei_addmaterial", "CSMaterialProp", [(1, "<blockname>"), (2, "<ex>"), (3, "<ey>"), (4, "<qv>")]),
  ("ei_addboundprop", "CSBoundaryProp", [(1, "<bdryname>"), (2, "<vs>"), (3, "<qs>"), (4, "<c0>"), (5, "<c1>"), (6, "<bdrytype>")]),
  ("ei_addpointprop", "CSPointProp", [(1, "<pointname>"), (2, "<vp>"), (3, "<qp>")]),
  ("ei_addconductorprop", "CSCircuit", [(1, "<conductorname>"), (2, "<vc>"), (3, "<qc>"), (4, "<conductortype>")]),
  ("hi_addmaterial", "CHMaterialProp", [(1, "<blockname>"), (2, "<kx>"), (3, "<ky>"), (4, "<qv>"), (5, "<kt>")]),
  ("hi_addboundprop", "CHBoundaryProp", [(1, "<bdryname>"), (2, "<bdrytype>"), (3, "<tset>"), (4, "<qs>"), (5, "<tinf>"), (6, "<h>"), (7, "<beta>")]),
  ("hi_addpointprop", "CHPointProp", [(1, "<pointname>"), (2, "<tp>"), (3, "<qp>")]),
  ("hi_addconductorprop", "CHConductor", [(1, "<conductorname>"), (2, "<tc>"), (3, "<qc>"), (4, "<conductortype>")])]

/-- CODE: the key under which each decoded argument of `cmd` is written, through the translated tables -/
def codeKeys (cmd cls : String) : Option (List (Nat × Option String)) := do
  let am ← LuaCmds.argMaps.lookup cmd
  let c ← FileKeys.classes.find? (fun c => c.name == cls)
  pure (argKeys am c.writes)

def commandOk (d : String × String × List (Nat × String)) : Bool :=
  match codeKeys d.1 d.2.1 with
  | some ks => d.2.2.all (fun ak => ks.contains (ak.1, some ak.2)) && ks.all (fun ak => d.2.2.contains (ak.1, ak.2.getD ""))
  | none => false

/-- **every argument of every add-property command lands in the saved file under its documented key** -/
theorem args_land_under_documented_keys : documented.all commandOk = true := by decide +kernel

/-- **both spellings** of every pre- and post-processor command are registered with the same handler -/
theorem both_spellings_registered : bothSpellings LuaCmds.registrationCodes = true := by
  decide +kernel

/-- the pre-computed index used above and below is the fold of the translated registration table -/
theorem codes_faithful :
    LuaCmds.registrationCodes = index LuaCmds.registrations := by decide +kernel

/-- SPEC: the commands a script needs to build, analyse and query a model (squeezed spelling, without prefix) -/
def preCommands : List String := ["addnode", "addsegment", "addarc", "addblocklabel", "selectnode", "selectsegment",
  "selectarcsegment", "selectlabel", "clearselected", "setnodeprop", "setsegmentprop", "setarcsegmentprop", "setblockprop",
  "addmaterial", "addboundprop", "addpointprop", "probdef", "analyze", "loadsolution", "saveas", "deleteselected",
  "movetranslate", "moverotate", "copytranslate", "copyrotate", "mirror", "scale", "createmesh", "close"]
def postCommands : List String := ["getpointvalues", "blockintegral", "lineintegral", "selectblock", "clearblock",
  "addcontour", "clearcontour", "groupselectblock", "smooth", "close"]
def physicsSpecific : List (String × String) := [("mi", "addcircprop"), ("mo", "getcircuitproperties"),
  ("ei", "addconductorprop"), ("eo", "getconductorproperties"), ("hi", "addconductorprop"), ("ho", "getconductorproperties"),
  ("mi", "addbhpoint"), ("hi", "addtkpoint")]

def requiredCommands : List (String × String) :=
  (["m", "e", "h"].flatMap (fun p => preCommands.map (fun c => (p ++ "i", c)) ++ postCommands.map (fun c => (p ++ "o", c))))
    ++ physicsSpecific

/-- **every documented model-building command exists for every physics** -/
theorem model_building_commands_registered :
    requiredCommands.all (fun pc => registered LuaCmds.registrationCodes pc.1 pc.2) = true := by decide +kernel

example : squeeze (bytes "hi_set_arcsegment_prop") = bytes "hi_setarcsegmentprop" := by decide +kernel

end XfemmVerif.C17
