import XfemmVerif.Model.Periodic
import XfemmVerif.Lemmas.SparseConstraints
import XfemmVerif.Properties.C09
import Mathlib.Tactic.Ring
import Mathlib.Tactic.FieldSimp
import Mathlib.Tactic.Linarith
/-!
# C07 — (anti)periodic boundaries pair the right nodes and the solution repeats

Mesher side (`Model/Periodic.lean`): for two straight partners subdivided `k` times the pair list has `k + 1`
entries, its first components are exactly the node chain of the first partner and its second components the chain of
the second (each node once), and the `j`-th interior node of the second partner is the image of the `j`-th of the first
under ANY affine map that takes the first partner's end points to the second's — in particular the rigid motion mapping
the two.  For arc partners every created node lies on the arc's circle, consecutive chords are equal, and the nodes of
the second arc are the images of those of the first under the rigid motion that maps centre to centre and start to start.

Solver side: the theorems of `Properties/C09.lean` (`periodicity_solves_constrained`,
`antiPeriodicity_solves_constrained`: the solution of the modified system has equal / opposite values on a tied pair
`i ≠ j` and solves the constrained problem) are completed here by the SELF pair `i = j` that the mesher writes for the
apex of a rotational cell: `AntiPeriodicity(i,i)` isolates row `i` with a zero right-hand side (`antiPeriodicity_self`),
so the value there is `0 = −0`; `Periodicity(i,i)` leaves the system as it is (`periodicity_self`).
-/
namespace XfemmVerif.C07
open XfemmVerif.Periodic XfemmVerif.Sparse

/-! ### pair bookkeeping -/

theorem pairs_count (k base a0 a1 b0 b1 : Nat) (hk : 1 ≤ k) :
    (pairIndices k base a0 a1 b0 b1).length = k + 1 := by
  simp [pairIndices]; omega

/-- the first components are the first partner's chain, the second components the second partner's (as multisets:
    the two end points come first in the pair list) -/
theorem pairs_cover (k base a0 a1 b0 b1 : Nat) :
    ((pairIndices k base a0 a1 b0 b1).map (·.1)).Perm (chainA k base a0 a1) ∧
    ((pairIndices k base a0 a1 b0 b1).map (·.2)).Perm (chainB k base b0 b1) := by
  constructor
  · simp only [pairIndices, chainA, List.map_cons, List.map_map, Function.comp_def]
    refine List.Perm.cons _ ?_
    exact (List.perm_append_singleton _ _).symm
  · simp only [pairIndices, chainB, List.map_cons, List.map_map, Function.comp_def]
    refine List.Perm.cons _ ?_
    exact (List.perm_append_singleton _ _).symm

/-- every pair is listed once: no node of the first partner appears in two pairs (given distinct end points that are older
    than the created nodes) -/
theorem pairs_first_nodup (k base a0 a1 b0 b1 : Nat) (h01 : a0 ≠ a1) (h0 : a0 < base) (h1 : a1 < base) :
    ((pairIndices k base a0 a1 b0 b1).map (·.1)).Nodup := by
  simp only [pairIndices, List.map_cons, List.map_map, Function.comp_def, List.nodup_cons, List.mem_cons, List.mem_map,
    List.mem_range, not_or, not_exists, not_and]
  refine ⟨⟨h01, fun j _ => by omega⟩, fun j _ => by omega, ?_⟩
  apply List.Nodup.map_on _ List.nodup_range
  intro x _ y _ h; omega

theorem pairs_second_nodup (k base a0 a1 b0 b1 : Nat) (h01 : b0 ≠ b1) (h0 : b0 < base) (h1 : b1 < base) :
    ((pairIndices k base a0 a1 b0 b1).map (·.2)).Nodup := by
  simp only [pairIndices, List.map_cons, List.map_map, Function.comp_def, List.nodup_cons, List.mem_cons, List.mem_map,
    List.mem_range, not_or, not_exists, not_and]
  refine ⟨⟨h01, fun j _ => by omega⟩, fun j _ => by omega, ?_⟩
  apply List.Nodup.map_on _ List.nodup_range
  intro x _ y _ h; omega

/-! ### geometry of the subdivision -/
section Geometry
variable {α : Type} [Field α]

/-- an affine map of the plane: `p ↦ (m11 x + m12 y + t1, m21 x + m22 y + t2)` -/
def affine (m11 m12 m21 m22 t1 t2 : α) (p : α × α) : α × α :=
  (m11 * p.1 + m12 * p.2 + t1, m21 * p.1 + m22 * p.2 + t2)

/-- **the `j`-th interior node of the second partner is the image of the `j`-th of the first** under any affine map that
    takes end points to end points (translations, rotations, mirror images alike), for every subdivision count -/
theorem line_nodes_are_images (m11 m12 m21 m22 t1 t2 : α) (a0 a1 b0 b1 : α × α) (j k : Nat) (hk : (k : α) ≠ 0)
    (h0 : affine m11 m12 m21 m22 t1 t2 a0 = b0) (h1 : affine m11 m12 m21 m22 t1 t2 a1 = b1) :
    affine m11 m12 m21 m22 t1 t2 (linePoint a0 a1 j k) = linePoint b0 b1 j k := by
  subst h0 h1
  simp only [affine, linePoint, Prod.mk.injEq]
  constructor <;> field_simp <;> ring

/-- the last created point would be the far end point: the chain closes exactly -/
theorem line_chain_closes (a0 a1 : α × α) (k : Nat) (hk : (k : α) ≠ 0) (hk1 : 1 ≤ k) :
    linePoint a0 a1 (k - 1) k = a1 := by
  have : ((k - 1 + 1 : Nat) : α) = (k : α) := by
    congr 1; omega
  simp only [linePoint, this]
  ext <;> field_simp <;> ring

/-- turning about `c` by a unit complex number keeps the distance to `c` -/
theorem turn_keeps_radius (c d p : α × α) (hd : d.1 * d.1 + d.2 * d.2 = 1) :
    ((turn c d p).1 - c.1) * ((turn c d p).1 - c.1) + ((turn c d p).2 - c.2) * ((turn c d p).2 - c.2)
      = (p.1 - c.1) * (p.1 - c.1) + (p.2 - c.2) * (p.2 - c.2) := by
  simp only [turn]
  have e : ∀ x y : α, (x * d.1 - y * d.2 + c.1 - c.1) * (x * d.1 - y * d.2 + c.1 - c.1)
      + (x * d.2 + y * d.1 + c.2 - c.2) * (x * d.2 + y * d.1 + c.2 - c.2) = (x * x + y * y) * (d.1 * d.1 + d.2 * d.2) := by
    intro x y; ring
  rw [e, hd, mul_one]

/-- **every node created on an arc lies on the arc's circle** -/
theorem arc_nodes_on_circle (c d : α × α) (hd : d.1 * d.1 + d.2 * d.2 = 1) :
    ∀ (m : Nat) (p q : α × α), q ∈ arcNodes c d m p →
      (q.1 - c.1) * (q.1 - c.1) + (q.2 - c.2) * (q.2 - c.2) = (p.1 - c.1) * (p.1 - c.1) + (p.2 - c.2) * (p.2 - c.2)
  | 0, _, _, h => by simp [arcNodes] at h
  | m + 1, p, q, h => by
    simp only [arcNodes, List.mem_cons] at h
    rcases h with rfl | h
    · exact turn_keeps_radius c d p hd
    · rw [arc_nodes_on_circle c d hd m (turn c d p) q h, turn_keeps_radius c d p hd]

/-- **equal chords**: the chord from a node to the next has the same length as the chord before it -/
theorem chords_equal (c d p : α × α) (hd : d.1 * d.1 + d.2 * d.2 = 1) :
    let q := turn c d p
    let r := turn c d q
    (r.1 - q.1) * (r.1 - q.1) + (r.2 - q.2) * (r.2 - q.2) = (q.1 - p.1) * (q.1 - p.1) + (q.2 - p.2) * (q.2 - p.2) := by
  simp only [turn]
  have e : ∀ x y : α,
      ((x * d.1 - y * d.2 + c.1 - c.1) * d.1 - (x * d.2 + y * d.1 + c.2 - c.2) * d.2 + c.1 - (x * d.1 - y * d.2 + c.1)) *
      ((x * d.1 - y * d.2 + c.1 - c.1) * d.1 - (x * d.2 + y * d.1 + c.2 - c.2) * d.2 + c.1 - (x * d.1 - y * d.2 + c.1)) +
      ((x * d.1 - y * d.2 + c.1 - c.1) * d.2 + (x * d.2 + y * d.1 + c.2 - c.2) * d.1 + c.2 - (x * d.2 + y * d.1 + c.2)) *
      ((x * d.1 - y * d.2 + c.1 - c.1) * d.2 + (x * d.2 + y * d.1 + c.2 - c.2) * d.1 + c.2 - (x * d.2 + y * d.1 + c.2))
      = (d.1 * d.1 + d.2 * d.2) * ((x * d.1 - y * d.2 - x) * (x * d.1 - y * d.2 - x) + (x * d.2 + y * d.1 - y) * (x * d.2 + y * d.1 - y)) := by
    intro x y; ring
  rw [e, hd, one_mul]
  ring

/-- **the nodes of the second arc are the images of the nodes of the first** under the rigid motion `z ↦ r z + t` that maps
    centre to centre: turning commutes with the motion -/
theorem turn_commutes_with_motion (r t c d p : α × α) :
    motion r t (turn c d p) = turn (motion r t c) d (motion r t p) := by
  simp only [motion, turn, Prod.mk.injEq]
  constructor <;> ring

theorem arc_nodes_are_images (r t c d : α × α) :
    ∀ (m : Nat) (p : α × α), (arcNodes c d m p).map (motion r t) = arcNodes (motion r t c) d m (motion r t p)
  | 0, _ => rfl
  | m + 1, p => by
    simp only [arcNodes, List.map_cons]
    rw [turn_commutes_with_motion, arc_nodes_are_images r t c d m (turn c d p), turn_commutes_with_motion]

end Geometry

/-- the hypotheses are satisfiable: a translation by (5, 0) of the segment (0,0)-(0,3), three subdivisions, over ℚ -/
example : affine (1 : ℚ) 0 0 1 5 0 (linePoint ((0 : ℚ), 0) (0, 3) 0 3) = linePoint (5, 0) (5, 3) 0 3 := by
  simp only [affine, linePoint]; norm_num

/-! ### self pairs (the apex of a rotational cell) -/
section SelfPair
variable {α : Type} [Field α] [DecidableEq α] [CharZero α]

theorem get_periodicRow_self (anti : Bool) (i : Nat) (M : LinProb α) (hM : WF M) (k : Nat)
    (hi : i < M.n) (hk : k < M.n) (a b : Nat) :
    get (periodicRow anti i i M k) a b =
      if anti = true ∧ k ≠ i ∧ ((a = k ∧ b = i) ∨ (a = i ∧ b = k)) then 0 else get M a b := by
  unfold periodicRow
  simp only [bne_iff_ne, ne_eq, Bool.or_eq_true, Bool.and_self]
  by_cases hki : k = i
  · simp [hki]
  simp only [hki, not_false_eq_true, if_true, true_and, or_self]
  by_cases hz : get M k i ≠ 0
  · rw [if_pos hz]
    cases anti
    · simp only [Bool.false_eq_true, if_false, false_and]
      rw [get_put _ (put_wf _ hM _ _ _) _ _ _ _ _ (by simpa using hk) (by simpa using hi),
        get_put _ hM _ _ _ _ _ hk hi]
      split
      · rename_i h
        rcases h with ⟨rfl, rfl⟩ | ⟨rfl, rfl⟩
        · field_simp; ring
        · rw [get_symm]; field_simp; ring
      · rfl
    · simp only [if_true, true_and]
      rw [get_put _ (put_wf _ hM _ _ _) _ _ _ _ _ (by simpa using hk) (by simpa using hi),
        get_put _ hM _ _ _ _ _ hk hi]
      split
      · simp
      · rfl
  · rw [if_neg hz]
    have h0 : get M k i = 0 := by by_contra h; exact hz h
    split
    · rename_i h
      rcases h.2 with ⟨rfl, rfl⟩ | ⟨rfl, rfl⟩
      · exact h0
      · rw [get_symm]; exact h0
    · rfl

/-- loop invariant of the row loop for a self pair -/
theorem self_fold (anti : Bool) (i : Nat) (L : List Nat) (hL : L.Nodup)
    (M : LinProb α) (hM : WF M) (hi : i < M.n) (hLn : ∀ k ∈ L, k < M.n) :
    let M' := L.foldl (periodicRow anti i i) M
    WF M' ∧ M'.n = M.n ∧ M'.b = M.b ∧
    (∀ a b, get M' a b =
      if anti = true ∧ ((a ∈ L ∧ a ≠ i ∧ b = i) ∨ (b ∈ L ∧ b ≠ i ∧ a = i)) then 0 else get M a b) := by
  induction L generalizing M with
  | nil => simp [hM]
  | cons k L ih =>
    have hk : k < M.n := hLn k (by simp)
    have hnd := List.nodup_cons.1 hL
    have hM1 := periodicRow_wf anti i i M hM k
    obtain ⟨w, hn, hb, hg⟩ := ih hnd.2 (periodicRow anti i i M k) hM1 (by simpa using hi)
      (by intro k' hk'; simpa using hLn k' (by simp [hk']))
    simp only [List.foldl_cons]
    refine ⟨w, by simpa using hn, by simpa using hb, ?_⟩
    intro a b
    rw [hg a b, get_periodicRow_self anti i M hM k hi hk a b]
    simp only [List.mem_cons]
    by_cases hanti : anti = true
    · simp only [hanti, true_and]
      by_cases h1 : (a ∈ L ∧ a ≠ i ∧ b = i) ∨ (b ∈ L ∧ b ≠ i ∧ a = i)
      · have h2 : ((a = k ∨ a ∈ L) ∧ a ≠ i ∧ b = i) ∨ ((b = k ∨ b ∈ L) ∧ b ≠ i ∧ a = i) := by
          rcases h1 with h | h
          · exact Or.inl ⟨Or.inr h.1, h.2⟩
          · exact Or.inr ⟨Or.inr h.1, h.2⟩
        rw [if_pos h1, if_pos h2]
      · rw [if_neg h1]
        by_cases h3 : k ≠ i ∧ ((a = k ∧ b = i) ∨ (a = i ∧ b = k))
        · have h2 : ((a = k ∨ a ∈ L) ∧ a ≠ i ∧ b = i) ∨ ((b = k ∨ b ∈ L) ∧ b ≠ i ∧ a = i) := by
            rcases h3.2 with ⟨rfl, rfl⟩ | ⟨rfl, rfl⟩
            · exact Or.inl ⟨Or.inl rfl, h3.1, rfl⟩
            · exact Or.inr ⟨Or.inl rfl, h3.1, rfl⟩
          rw [if_pos h3, if_pos h2]
        · have h2 : ¬ (((a = k ∨ a ∈ L) ∧ a ≠ i ∧ b = i) ∨ ((b = k ∨ b ∈ L) ∧ b ≠ i ∧ a = i)) := by
            rintro (⟨hak | haL, hai, hbi⟩ | ⟨hbk | hbL, hbi, hai⟩)
            · exact h3 ⟨hak ▸ hai, Or.inl ⟨hak, hbi⟩⟩
            · exact h1 (Or.inl ⟨haL, hai, hbi⟩)
            · exact h3 ⟨hbk ▸ hbi, Or.inr ⟨hai, hbk⟩⟩
            · exact h1 (Or.inr ⟨hbL, hbi, hai⟩)
          rw [if_neg h3, if_neg h2]
    · simp [hanti]

/-- **`AntiPeriodicity(i,i)`** — the self pair the mesher writes for the apex of a rotational antiperiodic cell — cuts row and
    column `i` out of the system, keeps its diagonal entry and zeroes its right-hand side: the equation left for node `i`
    is `A_ii·x_i = 0`, the value opposite to itself -/
theorem antiPeriodicity_self (M : LinProb α) (hM : WF M) (i : Nat) (hi : i < M.n) :
    let M' := antiPeriodicity M i i
    (∀ k, k < M.n → k ≠ i → get M' k i = 0 ∧ get M' i k = 0) ∧ get M' i i = get M i i ∧ getB M' i = 0 := by
  obtain ⟨w, hn, hb, hg⟩ := self_fold true i (List.range M.n) List.nodup_range M hM hi (by simp)
  have hord : ord i i = (i, i) := by simp [ord]
  simp only [antiPeriodicity, hord]
  set M1 := (List.range M.n).foldl (periodicRow true i i) M with hM1
  have hi1 : i < M1.n := by rw [hn]; exact hi
  have hdiag : get M1 i i = get M i i := by rw [hg]; simp
  have hc : (1 : α) / 2 * (get M1 i i + get M1 i i) = get M i i := by rw [hdiag]; field_simp; ring
  rw [hc]
  set M2 := put (put M1 (get M i i) i i) (get M i i) i i with hM2
  have w2 : WF M2 := put_wf _ (put_wf _ w _ _ _) _ _ _
  have hn2 : M2.n = M.n := by simp [hM2, hn]
  refine ⟨?_, ?_, ?_⟩
  · intro k hk hki
    have hget : ∀ a b, get (setB (setB M2 i ((1 : α) / 2 * (getB M2 i - getB M2 i))) i (-((1 : α) / 2 * (getB M2 i - getB M2 i)))) a b
        = get M2 a b := by
      intro a b; rw [get_setB, get_setB]
    rw [hget, hget, hM2,
      get_put _ (put_wf _ w _ _ _) _ _ _ _ _ (by simpa using hi1) (by simpa using hi1), get_put _ w _ _ _ _ _ hi1 hi1,
      get_put _ (put_wf _ w _ _ _) _ _ _ _ _ (by simpa using hi1) (by simpa using hi1), get_put _ w _ _ _ _ _ hi1 hi1]
    have hne1 : ¬ ((k = i ∧ i = i) ∨ (k = i ∧ i = i)) := by tauto
    have hne2 : ¬ ((i = i ∧ k = i) ∨ (i = i ∧ k = i)) := by tauto
    rw [if_neg hne1, if_neg hne1, if_neg hne2, if_neg hne2, hg, hg]
    have hkr : k ∈ List.range M.n := List.mem_range.mpr hk
    constructor
    · rw [if_pos ⟨rfl, Or.inl ⟨hkr, hki, rfl⟩⟩]
    · rw [if_pos ⟨rfl, Or.inr ⟨hkr, hki, rfl⟩⟩]
  · rw [get_setB, get_setB, hM2, get_put _ (put_wf _ w _ _ _) _ _ _ _ _ (by simpa using hi1) (by simpa using hi1)]
    simp
  · rw [getB_setB _ (setB_wf _ w2 _ _) _ (by simpa [hn2] using hi)]
    simp

/-- **`Periodicity(i,i)`** changes nothing: a node is trivially equal to itself -/
theorem periodicity_self (M : LinProb α) (hM : WF M) (i : Nat) (hi : i < M.n) :
    let M' := periodicity M i i
    (∀ a b, get M' a b = get M a b) ∧ getB M' i = getB M i := by
  obtain ⟨w, hn, hb, hg⟩ := self_fold false i (List.range M.n) List.nodup_range M hM hi (by simp)
  have hord : ord i i = (i, i) := by simp [ord]
  simp only [periodicity, hord]
  set M1 := (List.range M.n).foldl (periodicRow false i i) M with hM1
  have hi1 : i < M1.n := by rw [hn]; exact hi
  have hsame : ∀ a b, get M1 a b = get M a b := by intro a b; rw [hg]; simp
  have hc : (get M1 i i + get M1 i i) / 2 = get M i i := by rw [hsame]; field_simp; ring
  rw [hc]
  set M2 := put (put M1 (get M i i) i i) (get M i i) i i with hM2
  have w2 : WF M2 := put_wf _ (put_wf _ w _ _ _) _ _ _
  have hn2 : M2.n = M.n := by simp [hM2, hn]
  have hb2 : getB M2 i = getB M i := by
    show M2.b.getD i 0 = M.b.getD i 0
    simp [hM2, hb]
  refine ⟨?_, ?_⟩
  · intro a b
    rw [get_setB, get_setB, hM2, get_put _ (put_wf _ w _ _ _) _ _ _ _ _ (by simpa using hi1) (by simpa using hi1),
      get_put _ w _ _ _ _ _ hi1 hi1]
    split
    · rename_i h
      rcases h with ⟨rfl, rfl⟩ | ⟨rfl, rfl⟩ <;> rfl
    · exact hsame a b
  · rw [getB_setB _ (setB_wf _ w2 _ _) _ (by simpa [hn2] using hi)]
    simp only [if_true]
    rw [hb2]; field_simp; ring

end SelfPair

end XfemmVerif.C07
