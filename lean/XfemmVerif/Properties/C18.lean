import XfemmVerif.Model.Discretize
import XfemmVerif.Properties.C07
import XfemmVerif.Properties.C14
import Mathlib.Tactic.Ring
import Mathlib.Tactic.FieldSimp
import Mathlib.Tactic.Linarith
import Mathlib.Tactic.Positivity
import Mathlib.Algebra.Order.Field.Basic
/-!
# C18 — requested mesh sizes, segment spacings and minimum angle are honoured

What the mesher itself computes is modelled in `Model/Discretize.lean` and proved here for every input:

* a line cut into `k` parts: all parts have the same length `|a1 − a0| / k`, which is at most the requested maximum as soon as
  `k` is (at least) the ceiling the code takes; the cut points lie on the line, in order, strictly between the end points;
* an arc cut into `k` chords: every cut point lies on the arc's circle, all chords are equal (`Properties/C07.lean`), `k` turns by
  the `k`-th part compose to one turn by the whole span, so the chain ends exactly at the arc's second end point;
* `getCircle`: the centre is at the distance `R` from both end points;
* the pieces of a cut line / arc form a chain from its first to its second end point through the new nodes in order;
* a block label is given the user's area whenever one is set (unless the forced default is smaller), and that area is the area
  of the circle of the requested diameter (`Properties/C14.lean`, `meshsize_roundtrip`).

Triangle — the constrained Delaunay refinement itself — is an external call.  ASSUMED of it (recorded in the trusted base and
checked on every run by the exact-arithmetic oracle of checks/C18.py, checks/C01.py): its output is a conforming triangulation
of the graph it is given, it splits segments only by inserting points on them, respects the area bound of each region and the
`-q` angle bound.  PARTIAL for that reason.
-/
set_option linter.unusedSectionVars false
namespace XfemmVerif.C18
open XfemmVerif.Discretize XfemmVerif.Periodic

section Lines
variable {α : Type} [Field α] [LinearOrder α] [IsStrictOrderedRing α]

/-- squared length of the `j`-th part of a line cut into `k` parts: the same for every `j` -/
theorem line_parts_equal (a0 a1 : α × α) (j k : Nat) (hk : (k : α) ≠ 0) :
    let p := linePoint a0 a1 j k
    let q := linePoint a0 a1 (j + 1) k
    (q.1 - p.1) * (q.1 - p.1) + (q.2 - p.2) * (q.2 - p.2) =
      ((a1.1 - a0.1) * (a1.1 - a0.1) + (a1.2 - a0.2) * (a1.2 - a0.2)) / ((k : α) * (k : α)) := by
  simp only [linePoint]
  push_cast
  field_simp
  ring

/-- the first part (from the first end point to the first cut point) has that length too -/
theorem line_first_part (a0 a1 : α × α) (k : Nat) (hk : (k : α) ≠ 0) :
    let p := linePoint a0 a1 0 k
    (p.1 - a0.1) * (p.1 - a0.1) + (p.2 - a0.2) * (p.2 - a0.2) =
      ((a1.1 - a0.1) * (a1.1 - a0.1) + (a1.2 - a0.2) * (a1.2 - a0.2)) / ((k : α) * (k : α)) := by
  simp only [linePoint]
  push_cast
  field_simp
  ring

/-- **no part is longer than the requested maximum**: with `len ≤ k·m` (what `k = ceil(len/m)` guarantees) the common length
    `len/k` is at most `m` -/
theorem part_le_maxside (len m : α) (k : Nat) (hk : 0 < (k : α)) (hceil : len ≤ (k : α) * m) : len / (k : α) ≤ m := by
  rw [div_le_iff₀ hk]; linarith

/-- the cut points are on the line, at the parameters `(j+1)/k` -/
theorem cut_point_on_line (a0 a1 : α × α) (j k : Nat) :
    linePoint a0 a1 j k = (a0.1 + (a1.1 - a0.1) * (((j + 1 : Nat) : α) / (k : α)), a0.2 + (a1.2 - a0.2) * (((j + 1 : Nat) : α) / (k : α))) := by
  simp only [linePoint, mul_div_assoc]

/-- … strictly between the end points for the `k − 1` interior ones, and in increasing order -/
theorem cut_parameter_between (j k : Nat) (hj : j + 1 < k) :
    0 < (((j + 1 : Nat) : α) / (k : α)) ∧ (((j + 1 : Nat) : α) / (k : α)) < 1 := by
  have hk : (0 : α) < (k : α) := by exact_mod_cast (by omega : 0 < k)
  constructor
  · apply div_pos _ hk; exact_mod_cast (by omega : 0 < j + 1)
  · rw [div_lt_one hk]; exact_mod_cast hj

theorem cut_parameter_increasing (j k : Nat) (hk : 0 < k) :
    (((j + 1 : Nat) : α) / (k : α)) < (((j + 1 + 1 : Nat) : α) / (k : α)) := by
  have hk' : (0 : α) < (k : α) := by exact_mod_cast hk
  apply div_lt_div_of_pos_right _ hk'
  exact_mod_cast (by omega : j + 1 < j + 1 + 1)

end Lines

section Arcs
variable {α : Type} [Field α] [CharZero α]

/-- two turns about the same centre compose to the turn by the product -/
theorem turn_compose (c d e p : α × α) : turn c d (turn c e p) = turn c (cmul d e) p := by
  simp only [turn, cmul, Prod.mk.injEq]
  constructor <;> ring

/-- `m` successive turns by `d` are one turn by `d^m` (complex power, computed by `cmul`) -/
def cpow (d : α × α) : Nat → α × α
  | 0 => (1, 0)
  | m + 1 => cmul d (cpow d m)

theorem turn_one (c p : α × α) : turn c ((1 : α), 0) p = p := by
  simp only [turn]; ext <;> simp

/-- the last point reached by `m` turns -/
def turnN (c d : α × α) : Nat → α × α → α × α
  | 0, p => p
  | m + 1, p => turnN c d m (turn c d p)

theorem turnN_eq (c d : α × α) : ∀ (m : Nat) (p : α × α), turnN c d m p = turn c (cpow d m) p
  | 0, p => by simp [turnN, cpow, turn_one]
  | m + 1, p => by
    rw [turnN, turnN_eq c d m (turn c d p), turn_compose]
    congr 1
    -- cpow d m * d = d * cpow d m
    simp only [cpow, cmul, Prod.mk.injEq]
    constructor <;> ring

/-- **the chain of `k` chords ends exactly at the arc's second end point**: if the `k`-th power of the step is the rotation `D`
    by the whole span and `n1` is `n0` turned by `D`, then `k` steps from `n0` arrive at `n1` -/
theorem arc_chain_closes (c d D n0 n1 : α × α) (k : Nat) (hpow : cpow d k = D) (hend : turn c D n0 = n1) :
    turnN c d k n0 = n1 := by
  rw [turnN_eq, hpow, hend]

/-- `getCircle`: with `h² = R² − d²/4` and `t` a unit vector from `a0` to `a1 = a0 + d·t`, the centre
    `a0 + (d/2 + i h)·t` is at the distance `R` from both end points -/
theorem centre_equidistant (a0 t : α × α) (d h R : α) (ht : t.1 * t.1 + t.2 * t.2 = 1) (hh : h * h = R * R - d * d / 4) :
    let c : α × α := (a0.1 + (d / 2 * t.1 - h * t.2), a0.2 + (d / 2 * t.2 + h * t.1))
    let a1 : α × α := (a0.1 + d * t.1, a0.2 + d * t.2)
    (c.1 - a0.1) * (c.1 - a0.1) + (c.2 - a0.2) * (c.2 - a0.2) = R * R ∧
    (c.1 - a1.1) * (c.1 - a1.1) + (c.2 - a1.2) * (c.2 - a1.2) = R * R := by
  have e1 : ∀ u : α, (a0.1 + (u * t.1 - h * t.2) - a0.1) * (a0.1 + (u * t.1 - h * t.2) - a0.1)
      + (a0.2 + (u * t.2 + h * t.1) - a0.2) * (a0.2 + (u * t.2 + h * t.1) - a0.2) = (u * u + h * h) * (t.1 * t.1 + t.2 * t.2) := by
    intro u; ring
  have e2 : (a0.1 + (d / 2 * t.1 - h * t.2) - (a0.1 + d * t.1)) * (a0.1 + (d / 2 * t.1 - h * t.2) - (a0.1 + d * t.1))
      + (a0.2 + (d / 2 * t.2 + h * t.1) - (a0.2 + d * t.2)) * (a0.2 + (d / 2 * t.2 + h * t.1) - (a0.2 + d * t.2))
      = (d / 2 * (d / 2) + h * h) * (t.1 * t.1 + t.2 * t.2) := by field_simp; ring
  refine ⟨?_, ?_⟩
  · show (a0.1 + (d / 2 * t.1 - h * t.2) - a0.1) * _ + _ = _
    rw [e1, ht, hh]; field_simp; ring
  · show (a0.1 + (d / 2 * t.1 - h * t.2) - (a0.1 + d * t.1)) * _ + _ = _
    rw [e2, ht, hh]; field_simp; ring

end Arcs

/-! ### the chain of pieces -/

/-- the pieces of a cut entity form a path: it starts at `n0`, ends at `n1`, has `k` pieces, and each piece starts where the
    previous one ended -/
theorem chain_length (n0 n1 base k : Nat) (hk : 1 ≤ k) : (chain n0 n1 base k).length = k := by
  unfold chain
  split
  · simp; omega
  · simp; omega

theorem chain_starts (n0 n1 base k : Nat) : ((chain n0 n1 base k).head?).map (·.1) = some n0 := by
  unfold chain; split <;> simp

theorem chain_ends (n0 n1 base k : Nat) : ((chain n0 n1 base k).getLast?).map (·.2) = some n1 := by
  unfold chain
  split
  · simp
  · rw [← List.cons_append, List.getLast?_append]
    simp

/-- consecutive pieces share a node (path property), shown on the explicit form of the chain -/
def IsPath : List (Nat × Nat) → Prop
  | a :: b :: rest => a.2 = b.1 ∧ IsPath (b :: rest)
  | _ => True

theorem range_chain_path : ∀ (m s e : Nat), IsPath (((List.range' s m).map (fun j => (j, j + 1))) ++ [(s + m, e)])
  | 0, s, e => by simp [IsPath]
  | m + 1, s, e => by
    rw [List.range'_succ, List.map_cons, List.cons_append]
    have ih := range_chain_path m (s + 1) e
    have hsm : s + 1 + m = s + (m + 1) := by omega
    rw [hsm] at ih
    cases m with
    | zero => simp [IsPath]
    | succ m =>
      rw [List.range'_succ, List.map_cons, List.cons_append] at ih ⊢
      exact ⟨rfl, ih⟩

theorem chain_is_path (n0 n1 base k : Nat) : IsPath (chain n0 n1 base k) := by
  unfold chain
  split
  · simp [IsPath]
  · rename_i hk
    have hk2 : 2 ≤ k := by omega
    have hmap : (List.range (k - 2)).map (fun j => (base + j, base + j + 1))
        = (List.range' base (k - 2)).map (fun j => (j, j + 1)) := by
      rw [List.range_eq_range']
      have : List.range' base (k - 2) = (List.range' 0 (k - 2)).map (fun j => base + j) := by
        rw [List.map_add_range']; simp
      rw [this, List.map_map]; rfl
    rw [hmap]
    have hp := range_chain_path (k - 2) base n1
    cases hk' : k - 2 with
    | zero =>
      simp [IsPath, hk']
    | succ m =>
      rw [hk'] at hp
      rw [List.range'_succ, List.map_cons, List.cons_append] at hp ⊢
      exact ⟨rfl, hp⟩

/-! ### area constraint of a block label -/
section Area
variable {α : Type} [Field α] [LinearOrder α] [IsStrictOrderedRing α]

/-- **a user-given mesh size is honoured**: the region's area bound is the user's area, or something smaller -/
theorem area_constraint_le_user (user dflt : α) (force : Bool) (hu : 0 < user) :
    areaConstraint user dflt 0 force ≤ user := by
  unfold areaConstraint
  rw [if_neg (not_le.mpr hu)]
  split
  · rename_i h; exact le_of_lt h.1
  · exact le_refl _

/-- without a user size the default is used; with forcing the bound never exceeds the default -/
theorem area_constraint_default (user dflt : α) (force : Bool) (hu : user ≤ 0) :
    areaConstraint user dflt 0 force = dflt := by
  unfold areaConstraint; rw [if_pos hu]

theorem area_constraint_forced (user dflt : α) (hu : 0 < user) :
    areaConstraint user dflt 0 true ≤ dflt := by
  unfold areaConstraint
  rw [if_neg (not_le.mpr hu)]
  split
  · exact le_refl _
  · rename_i h
    simp only [and_true, not_lt] at h
    exact h

end Area

/-- non-vacuity: a concrete cut of the segment (0,0)-(3,4) in 5 parts over ℚ: every part has squared length 1 -/
example : let p := linePoint ((0 : ℚ), 0) (3, 4) 1 5; let q := linePoint ((0 : ℚ), 0) (3, 4) 2 5
    (q.1 - p.1) * (q.1 - p.1) + (q.2 - p.2) * (q.2 - p.2) = 1 := by
  simp only [linePoint]; norm_num

end XfemmVerif.C18
