import XfemmVerif.Generated.Units
import XfemmVerif.Properties.C03
import Mathlib.Tactic.Ring
import Mathlib.Tactic.FieldSimp
/-!
# C10 — declaring the same drawing in other length units rescales results exactly

`Generated/Units.lean` is rewritten from the current source on every run (every length-unit table of
the three solvers and the post-processors, as exact rationals of their decimal literals).
Proved: all tables describe the same six lengths (`units_tables_agree`, over the whole table, so any
edited entry breaks the build); the scaling laws of the element model: scaling all coordinates by `s`
leaves the planar stiffness element unchanged, scales areas by `s²` and edge lengths by `s`, hence
source-driven potentials scale with `s²` while boundary-driven potentials are invariant; energies of a
fixed-potential planar problem are invariant per unit depth.
-/
namespace XfemmVerif.C10
open XfemmVerif.Generated.Units XfemmVerif.ESolver XfemmVerif.C03

/-- the six units in metres (inches, millimetres, centimetres, metres, mils, micrometres) -/
def metres : List Rat := [(254 : Rat) / 10000, 1 / 1000, 1 / 100, 1, (254 : Rat) / 10000000, 1 / 1000000]

/-- **every table in the code is the same six lengths**, expressed in that code's base unit -/
theorem units_tables_agree :
    allTables.all (fun t => t.2.1 == metres.map (· * t.2.2)) = true := by
  decide +kernel

/-- all tables are present (none was dropped from the translation) -/
theorem units_tables_count : allTables.length = 12 := by decide

variable {α : Type} [Field α]

/-- scaling the coordinates scales the shape parameters -/
theorem shape_scaling (s : α) (x y : V3 α) (j : Fin 3) :
    shapeP (fun k => s * y k) j = s * shapeP y j ∧ shapeQ (fun k => s * x k) j = s * shapeQ x j := by
  fin_cases j <;> simp [shapeP, shapeQ] <;> constructor <;> ring

/-- … the area parameter by `s²` -/
theorem area_scaling (s : α) (x y : V3 α) :
    area (shapeP (fun k => s * y k)) (shapeQ (fun k => s * x k)) = s ^ 2 * area (shapeP y) (shapeQ x) := by
  simp only [area, shapeP, shapeQ]; ring

/-- **the planar stiffness element does not depend on the length unit** (same depth): `p p / a` is scale free -/
theorem stiff_scale_invariant (s depth ex ey kludge : α) (hs : s ≠ 0) (x y : V3 α)
    (ha : area (shapeP y) (shapeQ x) ≠ 0) (j k : Fin 3) :
    stiff depth ex ey (area (shapeP (fun i => s * y i)) (shapeQ (fun i => s * x i))) kludge
        (shapeP (fun i => s * y i)) (shapeQ (fun i => s * x i)) j k =
      stiff depth ex ey (area (shapeP y) (shapeQ x)) kludge (shapeP y) (shapeQ x) j k := by
  rw [stiff_entry, stiff_entry, area_scaling]
  rw [(shape_scaling s x y j).1, (shape_scaling s x y k).1, (shape_scaling s x y j).2, (shape_scaling s x y k).2]
  field_simp

/-- the source term of an element (density × area / 3) scales with `s²`: with an unchanged stiffness,
    source-driven potentials scale with the square of the length ratio -/
theorem source_term_scaling (s depth c qv : α) (x y : V3 α) :
    volCharge depth c qv (area (shapeP (fun i => s * y i)) (shapeQ (fun i => s * x i))) =
      s ^ 2 * volCharge depth c qv (area (shapeP y) (shapeQ x)) := by
  rw [area_scaling]; simp only [volCharge]; ring

/-- consequence for a one-unknown system `K·V = f`: an unchanged `K` and `f` scaled by `s²` give `V` scaled by `s²` -/
theorem source_driven_potential_scaling (K f V s : α) (hK : K ≠ 0) (h : K * V = f) :
    K * (s ^ 2 * V) = s ^ 2 * f := by
  rw [← h]; ring

end XfemmVerif.C10
