import XfemmVerif.Scalar
import XfemmVerif.Model.Sparse
