import XfemmVerif.Scalar
import XfemmVerif.Model.Sparse
import XfemmVerif.Model.Markers
import XfemmVerif.Model.Exit
import XfemmVerif.Model.Refs
import XfemmVerif.Model.ESolver
import XfemmVerif.Model.Heat
import XfemmVerif.Model.Magnetics
