import XfemmVerif.Scalar
import XfemmVerif.Model.Sparse
import XfemmVerif.Model.Markers
