/-
Design probe (throw-away): the alternating hi/lo spiral of `PostProcessor::InTriangle` probes every
element index (C12).  Core Lean only.  Checked with `lean Spiral.lean`.
-/
def stepHi (sz hi : Nat) : Nat := if hi + 1 ≥ sz then 0 else hi + 1
def stepLo (sz lo : Nat) : Nat := if lo = 0 then sz - 1 else lo - 1

/-- indices probed by `r` rounds of the loop body, in order (early return ignored) -/
def probesAux (sz : Nat) : Nat → Nat → Nat → List Nat
  | 0, _, _ => []
  | r + 1, hi, lo =>
    let hi' := stepHi sz hi
    let lo' := stepLo sz lo
    hi' :: lo' :: probesAux sz r hi' lo'

/-- `for (j=0; j<sz; j+=2)` runs `⌈sz/2⌉` rounds starting from `hi = lo = k` -/
def probes (sz k : Nat) : List Nat := probesAux sz ((sz + 1) / 2) k k

def iter (f : Nat → Nat) : Nat → Nat → Nat
  | 0, x => x
  | t + 1, x => iter f t (f x)

theorem iter_succ' (f : Nat → Nat) (t x : Nat) : iter f (t + 1) x = f (iter f t x) := by
  induction t generalizing x with
  | zero => rfl
  | succ t ih => simp only [iter] at ih ⊢; rw [ih]

theorem mem_probesAux (sz r hi lo t : Nat) (h1 : 1 ≤ t) (h2 : t ≤ r) :
    iter (stepHi sz) t hi ∈ probesAux sz r hi lo ∧ iter (stepLo sz) t lo ∈ probesAux sz r hi lo := by
  induction r generalizing hi lo t with
  | zero => omega
  | succ r ih =>
    simp only [probesAux]
    by_cases ht : t = 1
    · subst ht; simp [iter]
    · obtain ⟨t', rfl⟩ : ∃ t', t = t' + 1 := ⟨t - 1, by omega⟩
      have := ih (stepHi sz hi) (stepLo sz lo) t' (by omega) (by omega)
      simp only [iter]
      exact ⟨List.mem_cons_of_mem _ (List.mem_cons_of_mem _ this.1),
             List.mem_cons_of_mem _ (List.mem_cons_of_mem _ this.2)⟩

theorem hi_closed (sz k t : Nat) (hk : k < sz) (ht : t ≤ sz) :
    iter (stepHi sz) t k = if k + t < sz then k + t else k + t - sz := by
  induction t with
  | zero => simp [iter, hk]
  | succ t ih =>
    rw [iter_succ', ih (by omega)]
    unfold stepHi
    split <;> split <;> split <;> omega

theorem lo_closed (sz k t : Nat) (hk : k < sz) (ht : t ≤ sz) :
    iter (stepLo sz) t k = if t ≤ k then k - t else k + sz - t := by
  induction t with
  | zero => simp [iter]
  | succ t ih =>
    rw [iter_succ', ih (by omega)]
    unfold stepLo
    split <;> split <;> split <;> omega

/-- every element index other than the seed `k` is probed, for every mesh size and every seed -/
theorem spiral_visits_all (sz k m : Nat) (hk : k < sz) (hm : m < sz) (hne : m ≠ k) :
    m ∈ probes sz k := by
  unfold probes
  -- forward distance from k to m
  by_cases hmk : k < m
  · by_cases hd : m - k ≤ (sz + 1) / 2
    · have := (mem_probesAux sz ((sz + 1) / 2) k k (m - k) (by omega) hd).1
      rw [hi_closed sz k (m - k) hk (by omega)] at this
      have e : (if k + (m - k) < sz then k + (m - k) else k + (m - k) - sz) = m := by
        split <;> omega
      rwa [e] at this
    · have := (mem_probesAux sz ((sz + 1) / 2) k k (sz - (m - k)) (by omega) (by omega)).2
      rw [lo_closed sz k (sz - (m - k)) hk (by omega)] at this
      have e : (if sz - (m - k) ≤ k then k - (sz - (m - k)) else k + sz - (sz - (m - k))) = m := by
        split <;> omega
      rwa [e] at this
  · have hlt : m < k := by omega
    by_cases hd : k - m ≤ (sz + 1) / 2
    · have := (mem_probesAux sz ((sz + 1) / 2) k k (k - m) (by omega) hd).2
      rw [lo_closed sz k (k - m) hk (by omega)] at this
      have e : (if k - m ≤ k then k - (k - m) else k + sz - (k - m)) = m := by
        split <;> omega
      rwa [e] at this
    · have := (mem_probesAux sz ((sz + 1) / 2) k k (sz - (k - m)) (by omega) (by omega)).1
      rw [hi_closed sz k (sz - (k - m)) hk (by omega)] at this
      have e : (if k + (sz - (k - m)) < sz then k + (sz - (k - m)) else k + (sz - (k - m)) - sz) = m := by
        split <;> omega
      rwa [e] at this

-- non-vacuity / sanity: sz = 5, seed 3 probes 4,2,0,1,1,0 (three rounds)
example : probes 5 3 = [4, 2, 0, 1, 1, 0] := by decide
#print axioms spiral_visits_all
