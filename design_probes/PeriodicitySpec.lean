/-
Design probe (throw-away): `CBigLinProb::Periodicity` yields exactly the constrained system (C09/C07),
stated on an abstract symmetric matrix `ℕ → ℕ → α`. Checked with `lean PeriodicitySpec.lean`.
-/
import Mathlib.Algebra.BigOperators.Group.Finset.Basic
import Mathlib.Algebra.BigOperators.Ring.Finset
import Mathlib.Algebra.BigOperators.Field
import Mathlib.Algebra.Field.Basic
import Mathlib.Tactic.Ring
import Mathlib.Tactic.FieldSimp
import Mathlib.Tactic.Linarith

open Finset

variable {α : Type} [Field α] [CharZero α]

/-- abstract symmetric matrix as a function; product with a vector over indices `< n` -/
def mulVec (n : ℕ) (A : ℕ → ℕ → α) (y : ℕ → α) (k : ℕ) : α := ∑ l ∈ range n, A k l * y l

/-- abstract effect of `CBigLinProb::Periodicity(i,j)` on the matrix -/
def perA (A : ℕ → ℕ → α) (i j : ℕ) : ℕ → ℕ → α := fun k l =>
  if k = i ∨ k = j then
    (if l = i ∨ l = j then (if k = l then (A i i + A j j) / 2 else A i j)
     else (A i l + A j l) / 2)
  else
    (if l = i ∨ l = j then (A k i + A k j) / 2 else A k l)

def perB (b : ℕ → α) (i j : ℕ) : ℕ → α := fun k =>
  if k = i ∨ k = j then (b i + b j) / 2 else b k

/-- key lemma: for a vector with y i = y j, row k of the averaged matrix -/
theorem perA_mulVec {n : ℕ} (A : ℕ → ℕ → α) (hA : ∀ k l, A k l = A l k) (y : ℕ → α)
    {i j : ℕ} (hij : i ≠ j) (hi : i < n) (hj : j < n) (hy : y i = y j) (k : ℕ) :
    mulVec n (perA A i j) y k =
      if k = i ∨ k = j then (mulVec n A y i + mulVec n A y j) / 2 else mulVec n A y k := by
  unfold mulVec
  have hi' : i ∈ range n := mem_range.2 hi
  have hj' : j ∈ (range n).erase i := mem_erase.2 ⟨hij.symm, mem_range.2 hj⟩
  -- split all three sums into l = i, l = j, rest
  have split : ∀ f : ℕ → α, ∑ l ∈ range n, f l = f i + (f j + ∑ l ∈ ((range n).erase i).erase j, f l) := by
    intro f
    rw [← add_sum_erase _ _ hi', ← add_sum_erase _ _ hj']
  have hrest : ∀ l ∈ ((range n).erase i).erase j, l ≠ i ∧ l ≠ j := by
    intro l hl
    have h1 := mem_erase.1 hl
    have h2 := mem_erase.1 h1.2
    exact ⟨h2.1, h1.1⟩
  by_cases hk : k = i ∨ k = j
  · rw [if_pos hk, split, split (fun l => A i l * y l), split (fun l => A j l * y l)]
    have hsum : ∑ l ∈ ((range n).erase i).erase j, perA A i j k l * y l
        = ∑ l ∈ ((range n).erase i).erase j, ((A i l * y l + A j l * y l) / 2) := by
      apply sum_congr rfl
      intro l hl
      obtain ⟨h1, h2⟩ := hrest l hl
      simp only [perA, if_pos hk, h1, h2, or_self, if_false]
      ring
    rw [hsum, ← sum_div, sum_add_distrib]
    rcases hk with rfl | rfl
    · simp only [perA, true_or, or_true, if_true, hij, hij.symm, if_false]
      rw [hA j k, ← hy]; ring
    · simp only [perA, true_or, or_true, if_true, hij, hij.symm, if_false]
      rw [hA k i, ← hy]; ring
  · rw [if_neg hk, split, split (fun l => A k l * y l)]
    have hsum : ∑ l ∈ ((range n).erase i).erase j, perA A i j k l * y l
        = ∑ l ∈ ((range n).erase i).erase j, A k l * y l := by
      apply sum_congr rfl
      intro l hl
      obtain ⟨h1, h2⟩ := hrest l hl
      simp only [perA, if_neg hk, h1, h2, or_self, if_false]
    rw [hsum]
    simp only [perA, if_neg hk, true_or, or_true, if_true]
    rw [← hy]; ring

/-- C09/C07: tying two unknowns periodically yields exactly the constrained system -/
theorem periodicity_spec {n : ℕ} (A : ℕ → ℕ → α) (hA : ∀ k l, A k l = A l k) (b y : ℕ → α)
    {i j : ℕ} (hij : i ≠ j) (hi : i < n) (hj : j < n) (hy : y i = y j) :
    (∀ k < n, mulVec n (perA A i j) y k = perB b i j k) ↔
      ((∀ k < n, k ≠ i → k ≠ j → mulVec n A y k = b k) ∧
        mulVec n A y i + mulVec n A y j = b i + b j) := by
  constructor
  · intro h
    refine ⟨?_, ?_⟩
    · intro k hk hki hkj
      have := h k hk
      rw [perA_mulVec A hA y hij hi hj hy] at this
      simpa [perB, hki, hkj] using this
    · have := h i hi
      rw [perA_mulVec A hA y hij hi hj hy] at this
      simp only [perB, true_or, if_true] at this
      field_simp at this
      exact this
  · rintro ⟨h1, h2⟩ k hk
    rw [perA_mulVec A hA y hij hi hj hy]
    by_cases hk' : k = i ∨ k = j
    · simp only [perB, if_pos hk']; rw [h2]
    · simp only [perB, if_neg hk']
      push Not at hk'
      exact h1 k hk hk'.1 hk'.2

#print axioms periodicity_spec
