/-
Design probe (throw-away): the vertex/edge marker codec between `TriangulateHelper::init*WithMarkers`
and the `LoadMesh` decoders of esolver/hsolver (C02).  Core Lean only.
-/

/-- mesher: `t = j+2` if a point property `j` matches (else 0), `+ (c+1)*0x10000` if conductor `c` -/
def encNode (prop cond : Option Nat) : Int :=
  (match prop with | some j => (j : Int) + 2 | none => 0) +
  (match cond with | some c => ((c : Int) + 1) * 0x10000 | none => 0)

/-- esolver/hsolver `LoadMesh`: `if (n>1) { j = (n & 0xffff) - 2; if (j<0) j=-1; n = (n - (n&0xffff))/0x10000 - 1 } else both -1` -/
def decNode (n : Int) : Int × Int :=
  if n > 1 then
    let low : Int := (n.toNat &&& 0xffff : Nat)
    let j := low - 2
    (if j < 0 then -1 else j, (n - low) / 0x10000 - 1)
  else (-1, -1)

def optToInt : Option Nat → Int
  | some j => j
  | none => -1

theorem land_ffff (n : Nat) : n &&& 0xffff = n % 0x10000 := by
  have : (0xffff : Nat) = 2 ^ 16 - 1 := by decide
  rw [this, Nat.and_two_pow_sub_one_eq_mod]

/-- round trip, under the explicit guard that the property index fits the 16-bit field -/
theorem node_codec_roundtrip (prop cond : Option Nat)
    (hp : ∀ j, prop = some j → j + 2 < 0x10000) :
    decNode (encNode prop cond) = (optToInt prop, optToInt cond) := by
  cases prop with
  | none =>
    cases cond with
    | none => simp [encNode, decNode, optToInt]
    | some c =>
      have hpos : ((c : Int) + 1) * 0x10000 > 1 := by omega
      have hnat : (((c : Int) + 1) * 0x10000).toNat = (c + 1) * 0x10000 := by omega
      simp only [encNode, decNode, optToInt, Int.zero_add, if_pos hpos, hnat, land_ffff]
      have : (c + 1) * 0x10000 % 0x10000 = 0 := Nat.mul_mod_left _ _
      rw [this]
      simp
  | some j =>
    have hj := hp j rfl
    cases cond with
    | none =>
      have hpos : (j : Int) + 2 + 0 > 1 := by omega
      have hnat : ((j : Int) + 2 + 0).toNat = j + 2 := by omega
      simp only [encNode, decNode, optToInt, if_pos hpos, hnat, land_ffff]
      have : (j + 2) % 0x10000 = j + 2 := Nat.mod_eq_of_lt hj
      rw [this]
      simp
    | some c =>
      have hpos : (j : Int) + 2 + ((c : Int) + 1) * 0x10000 > 1 := by omega
      have hnat : ((j : Int) + 2 + ((c : Int) + 1) * 0x10000).toNat = (j + 2) + (c + 1) * 0x10000 := by omega
      simp only [encNode, decNode, optToInt, if_pos hpos, hnat, land_ffff]
      have : ((j + 2) + (c + 1) * 0x10000) % 0x10000 = j + 2 := by
        rw [Nat.add_mul_mod_self_right]; exact Nat.mod_eq_of_lt hj
      rw [this]
      simp
      omega

/-- outside the guard the codec collides: property 65534 alone decodes as "conductor 0, no property" -/
example : decNode (encNode (some 65534) none) = (-1, 0) := by decide

#print axioms node_codec_roundtrip
