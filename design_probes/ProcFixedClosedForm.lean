/-
Design probe (throw-away): the per-element "process any prescribed nodal values" pass of
`ESolver::AnalyzeProblem` / `HSolver::AnalyzeProblem` has the expected closed form (C03/C04).
-/
import Mathlib.Tactic.Ring
import Mathlib.Tactic.FinCases
import Mathlib.Algebra.Field.Basic
import Mathlib.Algebra.BigOperators.Fin

variable {α : Type} [Field α]

structure Loc (α : Type) where
  Me : Fin 3 → Fin 3 → α
  be : Fin 3 → α

/-- body of the C++ loop for one local index `j` whose node is prescribed to `v`:
    `for k≠j { be[k]-=Me[k][j]*v; Me[k][j]=0; Me[j][k]=0 }  be[j]=v*Me[j][j]` -/
def procOne (j : Fin 3) (v : α) (L : Loc α) : Loc α :=
  { Me := fun a c => if a ≠ c ∧ (a = j ∨ c = j) then 0 else L.Me a c
    be := fun k => if k = j then v * L.Me j j else L.be k - L.Me k j * v }

/-- the whole pass: `for j in 0..2: if fixed j then procOne` -/
def procFixed (fix : Fin 3 → Option α) (L : Loc α) : Loc α :=
  let s0 := match fix 0 with | some v => procOne 0 v L | none => L
  let s1 := match fix 1 with | some v => procOne 1 v s0 | none => s0
  match fix 2 with | some v => procOne 2 v s1 | none => s1

def fixedVal (fix : Fin 3 → Option α) (c : Fin 3) : α := (fix c).getD 0

/-- closed form of the processed element -/
theorem procFixed_closed_form (fix : Fin 3 → Option α) (L : Loc α) :
    (∀ a c, (procFixed fix L).Me a c =
        if a ≠ c ∧ ((fix a).isSome ∨ (fix c).isSome) then 0 else L.Me a c) ∧
    (∀ a, (procFixed fix L).be a =
        match fix a with
        | some v => v * L.Me a a
        | none => L.be a - ∑ c : Fin 3, (if (fix c).isSome then L.Me a c * fixedVal fix c else 0)) := by
  rcases h0 : fix 0 with _ | v0 <;> rcases h1 : fix 1 with _ | v1 <;> rcases h2 : fix 2 with _ | v2 <;>
  · refine ⟨?_, ?_⟩
    · intro a c
      fin_cases a <;> fin_cases c <;> simp [procFixed, procOne, h0, h1, h2]
    · intro a
      fin_cases a <;> simp [procFixed, procOne, h0, h1, h2, fixedVal, Fin.sum_univ_three] <;> ring

#print axioms procFixed_closed_form
