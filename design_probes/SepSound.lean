/-
Design probe (throw-away): soundness of the separating-edge test used by the mesh validator (C01).
-/
import Mathlib.Algebra.Order.Field.Basic
import Mathlib.Tactic.Ring
import Mathlib.Tactic.Linarith
import Mathlib.Tactic.Positivity

variable {α : Type} [Field α] [LinearOrder α] [IsStrictOrderedRing α]

structure Pt (α : Type) where
  x : α
  y : α

def orient (a b p : Pt α) : α := (b.x - a.x) * (p.y - a.y) - (b.y - a.y) * (p.x - a.x)

/-- convex combination with weights `u v w` -/
def comb (u v w : α) (p q r : Pt α) : Pt α :=
  ⟨u * p.x + v * q.x + w * r.x, u * p.y + v * q.y + w * r.y⟩

theorem orient_comb (a b p q r : Pt α) (u v w : α) (h : u + v + w = 1) :
    orient a b (comb u v w p q r) = u * orient a b p + v * orient a b q + w * orient a b r := by
  have hw : w = 1 - u - v := by linarith
  subst hw
  simp only [orient, comb]; ring

/-- if edge (a,b) of the CCW triangle (a,b,c) has all of (p,q,r) on its non-positive side,
    no point is interior to both triangles -/
theorem sep_sound (a b c p q r : Pt α) (hccw : 0 < orient a b c)
    (hp : orient a b p ≤ 0) (hq : orient a b q ≤ 0) (hr : orient a b r ≤ 0)
    (u v w u' v' w' : α) (_hu : 0 < u) (_hv : 0 < v) (hw : 0 < w) (h1 : u + v + w = 1)
    (hu' : 0 < u') (hv' : 0 < v') (hw' : 0 < w') (h1' : u' + v' + w' = 1) :
    comb u v w a b c ≠ comb u' v' w' p q r := by
  intro heq
  have e1 := orient_comb a b a b c u v w h1
  have e2 := orient_comb a b p q r u' v' w' h1'
  rw [heq] at e1
  have ha : orient a b a = 0 := by simp [orient]
  have hb : orient a b b = 0 := by simp only [orient]; ring
  rw [ha, hb] at e1
  have pos : 0 < w * orient a b c := mul_pos hw hccw
  have n1 : u' * orient a b p ≤ 0 := mul_nonpos_of_nonneg_of_nonpos hu'.le hp
  have n2 : v' * orient a b q ≤ 0 := mul_nonpos_of_nonneg_of_nonpos hv'.le hq
  have n3 : w' * orient a b r ≤ 0 := mul_nonpos_of_nonneg_of_nonpos hw'.le hr
  linarith

#print axioms sep_sound
