/-
Design probe (throw-away): the repair-loop exit test of `CMMaterialProp::GetSlopes` implies that the
fitted cubic is monotone on the segment (C19).  H'(x) = c0 + c1 x + c2 x² on [0, L].
The C++ computes X0, X1 with `sqrt`; here `s` is any number with `s*s = c1² − 4 c0 c2`, `0 ≤ s`.
-/
import Mathlib.Algebra.Order.Field.Basic
import Mathlib.Tactic.Ring
import Mathlib.Tactic.Linarith
import Mathlib.Tactic.FieldSimp
import Mathlib.Tactic.Positivity

variable {α : Type} [Field α] [LinearOrder α] [IsStrictOrderedRing α]

def q (c0 c1 c2 x : α) : α := c0 + c1 * x + c2 * x ^ 2

/-- case `c2 ≠ 0`, positive discriminant: both computed roots lie outside `[0,L]` ⇒ `q` keeps one sign -/
theorem sign_const_two_roots (c0 c1 c2 L s : α) (hc2 : c2 ≠ 0) (hs : s * s = c1 ^ 2 - 4 * c0 * c2)
    (X0 X1 : α) (hX0 : X0 = -(c1 + s) / (2 * c2)) (hX1 : X1 = (-c1 + s) / (2 * c2))
    (h0 : ¬ (0 ≤ X0 ∧ X0 ≤ L)) (h1 : ¬ (0 ≤ X1 ∧ X1 ≤ L))
    (x y : α) (hx : 0 ≤ x ∧ x ≤ L) (hy : 0 ≤ y ∧ y ≤ L) :
    0 ≤ q c0 c1 c2 x * q c0 c1 c2 y := by
  have fac : ∀ t, q c0 c1 c2 t = c2 * ((t - X0) * (t - X1)) := by
    intro t
    subst hX0 hX1
    unfold q
    field_simp
    ring_nf
    have : s ^ 2 = c1 ^ 2 - 4 * c0 * c2 := by rw [sq]; exact hs
    rw [this]; ring
  rw [fac x, fac y]
  have hc : 0 ≤ c2 * c2 := mul_self_nonneg c2
  -- (x-X0)(y-X0) ≥ 0 and (x-X1)(y-X1) ≥ 0 because each root is on one side of the whole interval
  have side : ∀ X : α, ¬ (0 ≤ X ∧ X ≤ L) → 0 ≤ (x - X) * (y - X) := by
    intro X hX
    by_cases hlt : X < 0
    · exact mul_nonneg (by linarith [hx.1]) (by linarith [hy.1])
    · have hL : L < X := by
        by_contra hcon
        exact hX ⟨le_of_not_gt hlt, le_of_not_gt hcon⟩
      exact mul_nonneg_of_nonpos_of_nonpos (by linarith [hx.2]) (by linarith [hy.2])
  have e : c2 * ((x - X0) * (x - X1)) * (c2 * ((y - X0) * (y - X1)))
      = (c2 * c2) * (((x - X0) * (y - X0)) * ((x - X1) * (y - X1))) := by ring
  rw [e]
  exact mul_nonneg hc (mul_nonneg (side X0 h0) (side X1 h1))

/-- case `c2 ≠ 0`, non-positive discriminant (`u0>0` is false in the C++): `q` has the sign of `c2` -/
theorem sign_const_no_roots (c0 c1 c2 : α) (hd : c1 ^ 2 - 4 * c0 * c2 ≤ 0) (x y : α) :
    0 ≤ q c0 c1 c2 x * q c0 c1 c2 y := by
  have key : ∀ t, 0 ≤ c2 * q c0 c1 c2 t := by
    intro t
    have : 4 * (c2 * q c0 c1 c2 t) = (2 * c2 * t + c1) ^ 2 - (c1 ^ 2 - 4 * c0 * c2) := by unfold q; ring
    nlinarith [sq_nonneg (2 * c2 * t + c1)]
  by_cases hc : c2 = 0
  · subst hc
    have hc1 : c1 = 0 := by
      have : c1 ^ 2 ≤ 0 := by simpa using hd
      have := le_antisymm this (sq_nonneg c1)
      exact pow_eq_zero_iff (two_ne_zero) |>.mp this
    subst hc1
    unfold q; simp; exact mul_self_nonneg c0
  · have h2 : 0 < c2 * c2 := mul_self_pos.mpr hc
    have : 0 ≤ (c2 * q c0 c1 c2 x) * (c2 * q c0 c1 c2 y) := mul_nonneg (key x) (key y)
    have e : (c2 * q c0 c1 c2 x) * (c2 * q c0 c1 c2 y) = (c2 * c2) * (q c0 c1 c2 x * q c0 c1 c2 y) := by ring
    rw [e] at this
    exact nonneg_of_mul_nonneg_right this h2

/-- Simpson's rule is exact for quadratics: the increment of H over the segment -/
theorem simpson (c0 c1 c2 L : α) :
    c0 * L + c1 * L ^ 2 / 2 + c2 * L ^ 3 / 3
      = L / 6 * (q c0 c1 c2 0 + 4 * q c0 c1 c2 (L / 2) + q c0 c1 c2 L) := by
  unfold q; ring

/-- constant sign + positive increment ⇒ H' ≥ 0 on the whole segment: the fitted H is non-decreasing -/
theorem exit_test_implies_monotone (c0 c1 c2 L : α) (hL : 0 < L)
    (hsign : ∀ x y, 0 ≤ x ∧ x ≤ L → 0 ≤ y ∧ y ≤ L → 0 ≤ q c0 c1 c2 x * q c0 c1 c2 y)
    (hinc : 0 < c0 * L + c1 * L ^ 2 / 2 + c2 * L ^ 3 / 3)
    (x : α) (hx : 0 ≤ x ∧ x ≤ L) : 0 ≤ q c0 c1 c2 x := by
  rw [simpson] at hinc
  have hsum : 0 < q c0 c1 c2 0 + 4 * q c0 c1 c2 (L / 2) + q c0 c1 c2 L := by
    have h6 : 0 < L / 6 := by positivity
    rcases (mul_pos_iff.mp hinc) with h | h
    · exact h.2
    · linarith [h.1]
  have m0 : (0:α) ≤ 0 ∧ (0:α) ≤ L := ⟨le_refl _, hL.le⟩
  have mh : (0:α) ≤ L / 2 ∧ L / 2 ≤ L := ⟨by positivity, by linarith⟩
  have mL : (0:α) ≤ L ∧ L ≤ L := ⟨hL.le, le_refl _⟩
  by_contra hneg
  push Not at hneg
  -- q x < 0 forces the three Simpson nodes to be ≤ 0, contradicting the positive increment
  have f : ∀ y, 0 ≤ y ∧ y ≤ L → q c0 c1 c2 y ≤ 0 := by
    intro y hy
    have := hsign x y hx hy
    by_contra hpos
    push Not at hpos
    have : q c0 c1 c2 x * q c0 c1 c2 y < 0 := mul_neg_of_neg_of_pos hneg hpos
    linarith
  linarith [f 0 m0, f (L / 2) mh, f L mL]

#print axioms sign_const_two_roots
#print axioms sign_const_no_roots
#print axioms exit_test_implies_monotone
