/-
Design probe (throw-away): `CBigLinProb::SetValue(i,x)` yields exactly the constrained system (C09),
on an abstract matrix `ℕ → ℕ → α`; plus the residual invariant shared by PCG / PBCG / PCGSQStart.
Checked with `lean SetValue.lean`.
-/
import Mathlib.Algebra.BigOperators.Group.Finset.Basic
import Mathlib.Algebra.BigOperators.Ring.Finset
import Mathlib.Algebra.Field.Basic
import Mathlib.Tactic.Ring
import Mathlib.Tactic.Linarith

open Finset

variable {α : Type} [Field α]

def mulVec (n : ℕ) (A : ℕ → ℕ → α) (y : ℕ → α) (k : ℕ) : α := ∑ l ∈ range n, A k l * y l

/-- abstract effect of `SetValue(i,x)` once every non-zero of column `i` has been visited -/
def setA (A : ℕ → ℕ → α) (i : ℕ) : ℕ → ℕ → α := fun k l =>
  if k = i ∨ l = i then (if k = l then A i i else 0) else A k l

def setB (A : ℕ → ℕ → α) (b : ℕ → α) (i : ℕ) (x : α) : ℕ → α := fun k =>
  if k = i then A i i * x else b k - A k i * x

theorem setA_mulVec {n : ℕ} (A : ℕ → ℕ → α) (y : ℕ → α) {i : ℕ} (hi : i < n) (k : ℕ) :
    mulVec n (setA A i) y k = if k = i then A i i * y i else mulVec n A y k - A k i * y i := by
  unfold mulVec
  have hi' : i ∈ range n := mem_range.2 hi
  rw [← add_sum_erase _ _ hi', ← add_sum_erase _ (fun l => A k l * y l) hi']
  by_cases hk : k = i
  · subst hk
    rw [if_pos rfl]
    have : ∑ l ∈ (range n).erase k, setA A k k l * y l = 0 := by
      apply sum_eq_zero
      intro l hl
      have hne : l ≠ k := (mem_erase.1 hl).1
      simp [setA, hne.symm]
    rw [this]; simp [setA]
  · rw [if_neg hk]
    have : ∑ l ∈ (range n).erase i, setA A i k l * y l = ∑ l ∈ (range n).erase i, A k l * y l := by
      apply sum_congr rfl
      intro l hl
      have hne : l ≠ i := (mem_erase.1 hl).1
      simp [setA, hk, hne]
    rw [this]; simp [setA, hk]

/-- C09: fixing a value yields exactly the solution of the constrained system -/
theorem setValue_spec {n : ℕ} (A : ℕ → ℕ → α) (b y : ℕ → α) {i : ℕ} (hi : i < n) (x : α)
    (hd : A i i ≠ 0) :
    (∀ k < n, mulVec n (setA A i) y k = setB A b i x k) ↔
      (y i = x ∧ ∀ k < n, k ≠ i → mulVec n A y k = b k) := by
  constructor
  · intro h
    have hyi : y i = x := by
      have := h i hi
      rw [setA_mulVec A y hi] at this
      simp only [setB, if_true] at this
      exact mul_left_cancel₀ hd this
    refine ⟨hyi, ?_⟩
    intro k hk hki
    have := h k hk
    rw [setA_mulVec A y hi] at this
    simp only [setB, if_neg hki] at this
    rw [hyi] at this
    exact sub_left_inj.mp this
  · rintro ⟨hyi, h⟩ k hk
    rw [setA_mulVec A y hi]
    by_cases hki : k = i
    · simp [setB, hki, hyi]
    · simp only [setB, if_neg hki]
      rw [h k hk hki, hyi]

/-- one CG-type update keeps the recurrence residual equal to the true residual,
    whatever the step length and whatever the preconditioner did -/
theorem cg_residual_step {n : ℕ} (A : ℕ → ℕ → α) (b V R P : ℕ → α) (del : α)
    (hR : ∀ k < n, R k = b k - mulVec n A V k) :
    ∀ k < n, (R k - del * mulVec n A P k) = b k - mulVec n A (fun l => V l + del * P l) k := by
  intro k hk
  rw [hR k hk]
  unfold mulVec
  have : ∑ l ∈ range n, A k l * (V l + del * P l)
      = ∑ l ∈ range n, A k l * V l + del * ∑ l ∈ range n, A k l * P l := by
    rw [mul_sum, ← sum_add_distrib]
    apply sum_congr rfl; intro l _; ring
  rw [this]; ring

#print axioms setValue_spec
#print axioms cg_residual_step
