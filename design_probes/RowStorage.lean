/-
Design probe (throw-away): sorted-row storage of `CBigLinProb` in core Lean only.
`putRow`/`getRow` are the within-row part of `Put`/`Get` after the `swap(p,q)`.
-/
abbrev Row (α : Type) := List (Nat × α)

def putRow {α : Type} (q : Nat) (v : α) : Row α → Row α
  | [] => [(q, v)]                                   -- append after the last entry
  | (c, x) :: rest =>
    if c = q then (c, v) :: rest                     -- hit: overwrite
    else if q < c then (q, v) :: (c, x) :: rest      -- insert before `e`
    else (c, x) :: putRow q v rest                   -- advance

def getRow {α : Type} [OfNat α 0] (q : Nat) : Row α → α
  | [] => 0
  | (c, x) :: rest => if c = q then x else if q < c then 0 else getRow q rest

def Sorted {α : Type} : Row α → Prop
  | [] => True
  | [_] => True
  | (c, _) :: (d, y) :: rest => c < d ∧ Sorted ((d, y) :: rest)

theorem get_put_same {α : Type} [OfNat α 0] (q : Nat) (v : α) (r : Row α) :
    getRow q (putRow q v r) = v := by
  fun_induction putRow q v r <;> simp_all [getRow] <;> omega

theorem get_put_other {α : Type} [OfNat α 0] (q q' : Nat) (hq : q' ≠ q) (v : α) (r : Row α) :
    getRow q' (putRow q v r) = getRow q' r := by
  fun_induction putRow q v r <;> simp_all [getRow] <;> grind

/-- lower bound on the first column is preserved -/
theorem put_head_ge {α : Type} (q : Nat) (v : α) (r : Row α) (m : Nat) (hq : m ≤ q)
    (h : ∀ a ∈ r.head?, m ≤ a.1) : ∀ a ∈ (putRow q v r).head?, m ≤ a.1 := by
  cases r with
  | nil => simp [putRow]; exact hq
  | cons b t =>
    obtain ⟨c, x⟩ := b
    unfold putRow
    split
    · simpa using h
    · split
      · simp; exact hq
      · simpa using h

theorem sorted_cons {α : Type} (c : Nat) (x : α) (r : Row α) (hs : Sorted r)
    (h : ∀ a ∈ r.head?, c < a.1) : Sorted ((c, x) :: r) := by
  cases r with
  | nil => trivial
  | cons b t =>
    obtain ⟨d, y⟩ := b
    exact ⟨by simpa using h, hs⟩

theorem sorted_tail {α : Type} {a : Nat × α} {r : Row α} (h : Sorted (a :: r)) : Sorted r := by
  cases r with
  | nil => trivial
  | cons b t => exact h.2

theorem sorted_head_lt {α : Type} {c : Nat} {x : α} {r : Row α} (h : Sorted ((c, x) :: r)) :
    ∀ a ∈ r.head?, c < a.1 := by
  cases r with
  | nil => simp
  | cons b t => obtain ⟨d, y⟩ := b; simpa using h.1

theorem put_sorted {α : Type} (q : Nat) (v : α) (r : Row α) (hs : Sorted r) :
    Sorted (putRow q v r) := by
  induction r with
  | nil => trivial
  | cons b t ih =>
    obtain ⟨c, x⟩ := b
    unfold putRow
    split
    · exact sorted_cons c v t (sorted_tail hs) (sorted_head_lt hs)
    · split
      · exact sorted_cons q v _ hs (by simpa)
      · have hlt : c < q := by omega
        exact sorted_cons c x _ (ih (sorted_tail hs))
          (put_head_ge q v t (c + 1) hlt (fun a ha => sorted_head_lt hs a ha))

#print axioms get_put_same
#print axioms get_put_other
#print axioms put_sorted
