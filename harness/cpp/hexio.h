// hex-double line protocol helpers shared by the in-process harnesses
#pragma once
#include <cstdint>
#include <cstring>
#include <cstdio>
#include <string>
#include <sstream>
#include <vector>
#include <iostream>
static inline std::string d2tok(double d){ uint64_t u; memcpy(&u,&d,8); char buf[24]; snprintf(buf,sizeof buf,"x%016llX",(unsigned long long)u); return buf; }
static inline bool tok2d(const std::string&s,double&d){ if(s.size()!=17||s[0]!='x') return false; uint64_t u=0; for(int i=1;i<17;i++){char c=s[i];int v; if(c>='0'&&c<='9')v=c-'0'; else if(c>='a'&&c<='f')v=c-'a'+10; else if(c>='A'&&c<='F')v=c-'A'+10; else return false; u=(u<<4)|v;} memcpy(&d,&u,8); return true; }
static inline std::vector<std::string> split(const std::string&l){ std::vector<std::string> r; std::istringstream is(l); std::string t; while(is>>t) r.push_back(t); return r; }
