// C05 harness: load problem + mesh through the real FSolver, renumber (Cuthill), print the exact state the first pass of
// Harmonic2D sees (hex doubles) in the `assemble-mh` line protocol, then run the real Harmonic2D so that the guarded hook dumps
// every system handed to PBCGSolveMod (XFEMM_VERIF_DUMPSYS); the FIRST dumped system is the pass with Iter == 0.
//   usage: assemble_mh_harness <base> [fast]   (planar time-harmonic magnetics, linear materials, ACSolver 0, no air-gap elements / previous solution)
#include "hexio.h"
#include "fsolver.h"
#include "femmconstants.h"
#include <cstdio>
static std::string c2(CComplex z){ return d2tok(z.re)+" "+d2tok(z.im); }
int main(int argc,char**argv){
    if(argc!=2 && argc!=3) return 2;
    FSolver s; s.PathName=argv[1];
    if(!s.LoadProblemFile()){ printf("loadproblem-failed\n"); return 0; }
    if(s.LoadMesh(false)!=NOERROR){ printf("loadmesh-error\n"); return 0; }
    if(!s.Cuthill(false)){ printf("cuthill-failed\n"); return 0; }
    if(s.Frequency==0 || s.NumAirGapElems!=0 || !s.previousSolutionFile.empty() || s.ProblemType!=femm::PLANAR || s.ACSolver!=0){ printf("unsupported\n"); return 0; }
    for(auto&b:s.blockproplist) if(b.BHpoints!=0 || b.LamType==1 || b.LamType==2){ printf("unsupported\n"); return 0; }
    for(int i=0;i<s.NumBlockLabels;i++) s.GetFillFactor(i);
    static const double units[]={2.54,0.1,1.,100.,0.00254,1.e-04};
    double c=PI*4.e-05;
    const double w=s.Frequency*2.*PI;
    printf("consts %s %s %s %s %s %s %s %s %s\n",d2tok(c).c_str(),d2tok(DEG).c_str(),d2tok(PI).c_str(),d2tok(units[s.LengthUnits]).c_str(),d2tok(w).c_str(),
           d2tok(0.01).c_str(),d2tok(0.001).c_str(),d2tok(0.0001).c_str(),d2tok(0.4).c_str());
    printf("problem %d %d\n",s.Coords==0?0:1,s.BandWidth);
    for(auto&p:s.nodeproplist) printf("np %s %s\n",c2(p.J).c_str(),c2(p.A).c_str());
    for(auto&p:s.lineproplist) printf("lp %d %s %s %s %s %s %s %s %s\n",p.BdryFormat,d2tok(p.A0).c_str(),d2tok(p.A1).c_str(),d2tok(p.A2).c_str(),d2tok(p.phi).c_str(),
           d2tok(p.Mu).c_str(),d2tok(p.Sig).c_str(),c2(p.c0).c_str(),c2(p.c1).c_str());
    for(auto&b:s.blockproplist) printf("bp %s %s %d %s %s %s %s %s %s\n",d2tok(b.mu_x).c_str(),d2tok(b.mu_y).c_str(),b.LamType,d2tok(b.LamFill).c_str(),d2tok(b.Lam_d).c_str(),
           d2tok(b.Theta_hx).c_str(),d2tok(b.Theta_hy).c_str(),c2(b.J).c_str(),d2tok(b.Cduct).c_str());
    for(int i=0;i<s.NumCircProps;i++){ auto&p=s.circproplist[i]; printf("cp %d %s %s\n",p.CircType,c2(p.Amps).c_str(),c2(p.dVolts).c_str()); }
    for(auto&l:s.labellist) printf("lab %d %d %s\n",l.InCircuit,l.bIsWound?1:0,c2(l.ProximityMu).c_str());
    for(int i=0;i<s.NumNodes;i++) printf("n %s %s %d\n",d2tok(s.meshnode[i].x).c_str(),d2tok(s.meshnode[i].y).c_str(),s.meshnode[i].BoundaryMarker);
    for(int i=0;i<s.NumEls;i++){ auto&e=s.meshele[i]; printf("e %d %d %d %d %d %d %d %d\n",e.p[0],e.p[1],e.p[2],e.lbl,e.blk,e.e[0],e.e[1],e.e[2]); }
    for(auto&p:s.pbclist) printf("pbc %d %d %d\n",p.x,p.y,p.t);
    printf("run\n"); fflush(stdout);
    CBigComplexLinProb L; L.Precision=s.Precision;
    if(argc==3) L.Precision=1e300;   // `fast`: the assembly does not depend on it; the solver leaves after its first pass
    L.Create(s.NumNodes+s.NumCircProps,s.BandWidth,s.NumNodes);
    int ok=s.Harmonic2D(L,false);
    fprintf(stderr,"harmonic2d=%d\n",ok);
    return 0;
}
