// C09 correspondence harness: the `csparse` line protocol against the real CBigComplexLinProb (bNewton == false).
#include "hexio.h"
#include "femmcomplex.h"
#include "cspars.h"
#include <memory>
#include <unistd.h>
#include <fcntl.h>
#include <cmath>
using namespace std;
static string c2tok(CComplex z){ return d2tok(z.re)+" "+d2tok(z.im); }
int main(){
    int outfd=dup(1); int devnull=open("/dev/null",O_WRONLY); dup2(devnull,1);
    FILE*out=fdopen(outfd,"w");
    unique_ptr<CBigComplexLinProb> L;
    string line;
    while(getline(cin,line)){
        auto t=split(line); string r="bad-op";
        auto idx=[&](const string&s,int&v){ try{ size_t k; v=stoi(s,&k); return k==s.size()&&v>=0; }catch(...){return false;} };
        auto cx=[&](size_t k,CComplex&z){ return k+1<t.size()&&tok2d(t[k],z.re)&&tok2d(t[k+1],z.im); };
        auto vec=[&](size_t k,vector<CComplex>&x){ if(t.size()!=k+2*(size_t)L->n) return false; x.resize(L->n); bool ok=true; for(int i=0;i<L->n;i++) ok=ok&&cx(k+2*i,x[i]); return ok; };
        auto showv=[&](CComplex*y){ string s; for(int i=0;i<L->n;i++){ if(i) s+=" "; s+=c2tok(y[i]); } return s; };
        if(t.empty()){ }
        else if(t[0]=="create"&&t.size()==4){ int n,bw,nodes; if(idx(t[1],n)&&idx(t[2],bw)&&idx(t[3],nodes)){ L.reset(new CBigComplexLinProb); if(n>0) L->Create(n,bw,nodes); else {L->n=0;} r="ok"; } }
        else if(!L){ }
        else if((t[0]=="put"||t[0]=="addto")&&t.size()==5){ CComplex v;int p,q; if(cx(1,v)&&idx(t[3],p)&&idx(t[4],q)&&p<L->n&&q<L->n){ if(t[0]=="put")L->Put(v,p,q); else L->AddTo(v,p,q); r="ok";} }
        else if(t[0]=="get"&&t.size()==3){ int p,q; if(idx(t[1],p)&&idx(t[2],q)&&p<L->n&&q<L->n) r=c2tok(L->Get(p,q)); }
        else if(t[0]=="setb"&&t.size()==4){ int i;CComplex v; if(idx(t[1],i)&&cx(2,v)&&i<L->n){ L->b[i]=v; r="ok";} }
        else if(t[0]=="getb"&&t.size()==2){ int i; if(idx(t[1],i)&&i<L->n) r=c2tok(L->b[i]); }
        else if(t[0]=="setvalue"&&t.size()==4){ int i;CComplex v; if(idx(t[1],i)&&cx(2,v)&&i<L->n){ L->SetValue(i,v); r="ok";} }
        else if((t[0]=="periodic"||t[0]=="antiperiodic")&&t.size()==3){ int i,j; if(idx(t[1],i)&&idx(t[2],j)&&i<L->n&&j<L->n){ if(t[0]=="periodic")L->Periodicity(i,j); else L->AntiPeriodicity(i,j); r="ok";} }
        else if(t[0]=="wipe"&&t.size()==1){ if(L->n>0) L->Wipe(); r="ok"; }
        else if(t[0]=="setv"){ vector<CComplex> v; if(vec(1,v)){ for(int i=0;i<L->n;i++) L->V[i]=v[i]; r="ok";} }
        else if(t[0]=="multa"){ vector<CComplex> x; if(vec(1,x)){ vector<CComplex> y(L->n); L->MultA(x.data(),y.data()); r=showv(y.data()); } }
        else if(t[0]=="multpc"&&t.size()>=2){ double lam; vector<CComplex> x; if(tok2d(t[1],lam)&&vec(2,x)){ vector<CComplex> y(L->n); L->Lambda=lam; L->MultPC(x.data(),y.data()); r=showv(y.data()); } }
        else if(t[0]=="appa"&&t.size()>=2){ double lam; vector<CComplex> x; if(tok2d(t[1],lam)&&vec(2,x)){ vector<CComplex> y(L->n); L->Lambda=lam; L->MultAPPA(x.data(),y.data()); r=showv(y.data()); } }
        else if(t[0]=="div"&&t.size()==5){ CComplex x,z; if(cx(1,x)&&cx(3,z)) r=c2tok(x/z); }
        else if(t[0]=="solve"&&t.size()==5){ int flag,fuel; double prec,lam; if(idx(t[1],flag)&&tok2d(t[2],prec)&&tok2d(t[3],lam)&&idx(t[4],fuel)){
                L->Precision=prec; L->Lambda=lam;
                int ok=L->PBCGSolveMod(flag,false);
                if(!ok) r="singular";
                else { r="converged ?"; for(int i=0;i<L->n;i++){ r+=" "; r+=c2tok(L->V[i]); } } } }
        else if(t[0]=="dump"&&t.size()==1){ r=to_string(L->n)+" "; bool first=true; for(int p=0;p<L->n;p++) for(CComplexEntry*e=L->M[p];e;e=e->next){ if(!first) r+=" "; first=false; r+=to_string(p)+","+to_string(e->c)+","+d2tok(e->x.re)+","+d2tok(e->x.im);} r+=" |"; for(int i=0;i<L->n;i++){ r+=" "; r+=c2tok(L->b[i]); } }
        fprintf(out,"%s\n",r.c_str()); fflush(out);
    }
    return 0;
}
