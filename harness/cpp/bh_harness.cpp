// B-H harness (C19): line protocol against the real CMSolverMaterialProp
//   tab B0 H0 B1 H1 ...   set the table (points as in the problem file)
//   lam <LamType> <LamFill>
//   slopes                -> "rows n" then n lines "r B H slope" : Bdata / Re Hdata / Re slope AFTER GetSlopes(0)
//   q b                   -> GetH(b) GetdHdB(b) GetEnergy(b) v dv   (v, dv from GetBHProps)
#include "hexio.h"
#include "CMaterialProp.h"
using namespace std; using namespace femm;
int main(){
    CMSolverMaterialProp m;
    string line;
    while(getline(cin,line)){
        auto t=split(line); string r="bad-op";
        if(t.empty()){}
        else if(t[0]=="tab"){ vector<double> v; bool ok=true; for(size_t i=1;i<t.size();i++){ double d; ok=ok&&tok2d(t[i],d); v.push_back(d);} if(ok&&v.size()%2==0){ m.BHpoints=v.size()/2; m.Bdata.clear(); m.Hdata.clear(); m.clearSlopes(); for(int i=0;i<m.BHpoints;i++){ m.Bdata.push_back(v[2*i]); m.Hdata.push_back(CComplex(v[2*i+1],0)); } r="ok"; } }
        else if(t[0]=="lam"&&t.size()==3){ double f; if(tok2d(t[2],f)){ m.LamType=atoi(t[1].c_str()); m.LamFill=f; r="ok"; } }
        else if(t[0]=="slopes"){ m.GetSlopes(0); printf("rows %d\n",m.BHpoints); for(int i=0;i<m.BHpoints;i++) printf("r %s %s %s\n",d2tok(m.Bdata[i]).c_str(),d2tok(m.Hdata[i].re).c_str(),d2tok(m.slope[i].re).c_str()); fflush(stdout); continue; }
        else if(t[0]=="q"&&t.size()==2){ double b; if(tok2d(t[1],b)){ double v,dv; m.GetBHProps(b,v,dv); r=d2tok(m.GetH(b).re)+" "+d2tok(m.GetdHdB(b).re)+" "+d2tok(m.GetEnergy(b))+" "+d2tok(v)+" "+d2tok(dv); } }
        printf("%s\n",r.c_str()); fflush(stdout);
    }
    return 0;
}
