// string-literal harness (C14): the real femm::parseString(istream&, string*, ostream&) on percent-encoded lines
//   str <pct-encoded line>  ->  some <pct-encoded result> | none
#include "hexio.h"
#include "fparse.h"
#include <sstream>
using namespace std;
static int hexv(char c){ if(c>='0'&&c<='9')return c-'0'; if(c>='a'&&c<='f')return c-'a'+10; if(c>='A'&&c<='F')return c-'A'+10; return -1; }
static string dec(const string&s){ string r; for(size_t i=0;i<s.size();i++){ if(s[i]=='%'&&i+2<s.size()+0&&hexv(s[i+1])>=0&&hexv(s[i+2])>=0){ r.push_back((char)(hexv(s[i+1])*16+hexv(s[i+2]))); i+=2; } else r.push_back(s[i]); } return r; }
static string enc(const string&s){ string r; char b[4]; for(unsigned char c: s){ if(isalnum(c)||c=='_'||c=='-'||c=='.') r.push_back(c); else { snprintf(b,sizeof b,"%%%02X",c); r+=b; } } return r; }
int main(){
    string line;
    while(getline(cin,line)){
        string r="bad-op";
        if(line.rfind("str",0)==0){
            string arg = line.size()>4 ? dec(line.substr(4)) : string();
            istringstream is(arg); ostringstream err; string out;
            bool ok=femm::parseString(is,&out,err);
            r = ok ? "some "+enc(out) : "none";
        }
        printf("%s\n",r.c_str()); fflush(stdout);
    }
    return 0;
}
