// material harness (C04 GetK, C19 B-H): line protocol against the real material classes
//   htab T1 k1 T2 k2 ... ; hdflt kx ky ; getk t  -> re im
#include "hexio.h"
#include "CMaterialProp.h"
using namespace std; using namespace femm;
int main(){
    CHMaterialProp h;
    string line;
    while(getline(cin,line)){
        auto t=split(line); string r="bad-op";
        if(t.empty()){}
        else if(t[0]=="htab"){ vector<double> v; bool ok=true; for(size_t i=1;i<t.size();i++){ double d; ok=ok&&tok2d(t[i],d); v.push_back(d);} if(ok&&v.size()%2==0&&v.size()/2<=128){ h.npts=v.size()/2; for(int i=0;i<h.npts;i++) h.Kn[i]=CComplex(v[2*i],v[2*i+1]); r="ok"; } }
        else if(t[0]=="hdflt"&&t.size()==3){ double a,b; if(tok2d(t[1],a)&&tok2d(t[2],b)){ h.Kx=a; h.Ky=b; r="ok"; } }
        else if(t[0]=="getk"&&t.size()==2){ double x; if(tok2d(t[1],x)){ CComplex k=h.GetK(x); r=d2tok(k.re)+" "+d2tok(k.im); } }
        printf("%s\n",r.c_str()); fflush(stdout);
    }
    return 0;
}
