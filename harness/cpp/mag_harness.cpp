// C05 harness: run the real FSolver assembly (Static2D) in-process on a problem + mesh and print what it decided per
// element and per circuit: `blk i lamtype fill mux muy` (inputs), `mu e blk mu1 mu2`, `circ i case J dV`.
#include "hexio.h"
#include "fsolver.h"
#include <cstdio>
int main(int argc,char**argv){
    if(argc!=2) return 2;
    FSolver s; s.PathName=argv[1];
    if(!s.LoadProblemFile()){ printf("loadproblem-failed\n"); return 0; }
    if(s.LoadMesh(false)!=NOERROR){ printf("loadmesh-error\n"); return 0; }
    if(!s.Cuthill(false)){ printf("cuthill-failed\n"); return 0; }
    if(s.Frequency!=0){ printf("not-static\n"); return 0; }
    CBigLinProb L; L.Precision=s.Precision; L.Create(s.NumNodes,s.BandWidth);
    int ok=s.Static2D(L);
    printf("static2d %d\n",ok);
    for(size_t i=0;i<s.blockproplist.size();i++){ auto&b=s.blockproplist[i]; printf("blk %zu %d %s %s %s %d\n",i,b.LamType,d2tok(b.LamFill).c_str(),d2tok(b.mu_x).c_str(),d2tok(b.mu_y).c_str(),b.BHpoints); }
    for(int i=0;i<s.NumEls;i++){ auto&e=s.meshele[i]; printf("mu %d %d %s %s\n",i,e.blk,d2tok(e.mu1.re).c_str(),d2tok(e.mu2.re).c_str()); }
    for(int i=0;i<s.NumCircProps;i++){ auto&c=s.circproplist[i]; printf("circ %d %d %s %s %s\n",i,c.Case,d2tok(c.J.re).c_str(),d2tok(c.dV.re).c_str(),d2tok(c.Amps.re).c_str()); }
    return 0;
}
