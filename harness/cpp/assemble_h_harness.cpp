// C04 harness: load problem + mesh (+ previous solution) through the real HSolver, renumber (Cuthill), print the exact state
// the assembly sees (hex doubles) in the `assemble-h` line protocol, then run the real AnalyzeProblem so that the guarded hook
// dumps every system handed to PCGSolve (XFEMM_VERIF_DUMPSYS); the FIRST dumped system is the pass with Vo = 0.
//   usage: assemble_h_harness <base>
#include "hexio.h"
#include "hsolver.h"
#include "femmconstants.h"
#include <cstdio>
int main(int argc,char**argv){
    if(argc!=2) return 2;
    HSolver s; s.PathName=argv[1];
    if(!s.LoadProblemFile()){ printf("loadproblem-failed\n"); return 0; }
    if(s.LoadMesh(false)!=NOERROR){ printf("loadmesh-error\n"); return 0; }
    if(!s.LoadPrev()){ printf("loadprev-failed\n"); return 0; }
    if(!s.Cuthill(false)){ printf("cuthill-failed\n"); return 0; }
    static const double units[]={0.0254,0.001,0.01,1,2.54e-5,1.e-6};
    double cf=units[s.LengthUnits];
    printf("consts %s %s\n",d2tok(PI).c_str(),d2tok(Ksb).c_str());
    printf("problem %d %s %s %s %s %d %s\n",s.ProblemType==femm::AXISYMMETRIC?1:0,d2tok(s.Depth*cf).c_str(),d2tok(s.extRo*cf).c_str(),d2tok(s.extRi*cf).c_str(),d2tok(s.extZo*cf).c_str(),s.BandWidth,d2tok(s.dT).c_str());
    for(auto&p:s.nodeproplist) printf("np %s %s\n",d2tok(p.V).c_str(),d2tok(p.qp).c_str());
    for(auto&p:s.lineproplist) printf("lp %d %s %s %s %s %s\n",p.BdryFormat,d2tok(p.Tset).c_str(),d2tok(p.qs).c_str(),d2tok(p.beta).c_str(),d2tok(p.h).c_str(),d2tok(p.Tinf).c_str());
    for(auto&p:s.blockproplist){ printf("bp %s %s %s %s %d",d2tok(p.Kx).c_str(),d2tok(p.Ky).c_str(),d2tok(p.Kt).c_str(),d2tok(p.qv).c_str(),p.npts); for(int i=0;i<p.npts;i++) printf(" %s %s",d2tok(p.Kn[i].re).c_str(),d2tok(p.Kn[i].im).c_str()); printf("\n"); }
    for(auto&p:s.circproplist) printf("cp %d %s %s\n",p.CircType,d2tok(p.V).c_str(),d2tok(p.q).c_str());
    for(auto&l:s.labellist) printf("lab %d\n",l.IsExternal?1:0);
    for(int i=0;i<s.NumNodes;i++) printf("n %s %s %d %d %s\n",d2tok(s.meshnode[i].x).c_str(),d2tok(s.meshnode[i].y).c_str(),s.meshnode[i].BoundaryMarker,s.meshnode[i].InConductor,d2tok((s.Tprev&&s.dT!=0)?s.Tprev[i]:0.0).c_str());
    for(int i=0;i<s.NumEls;i++){ auto&e=s.meshele[i]; printf("e %d %d %d %d %d %d %d %d\n",e.p[0],e.p[1],e.p[2],e.lbl,e.blk,e.e[0],e.e[1],e.e[2]); }
    for(auto&p:s.pbclist) printf("pbc %d %d %d\n",p.x,p.y,p.t);
    printf("run\n"); fflush(stdout);
    CBigLinProb L; L.Precision=s.Precision;
    L.Create(s.NumNodes+s.NumCircProps,s.BandWidth);
    int ok=s.AnalyzeProblem(L);
    fprintf(stderr,"analyze=%d\n",ok);
    return 0;
}
