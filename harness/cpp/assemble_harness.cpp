// C03 harness: load problem + mesh through the real ESolver, renumber (Cuthill), print the exact state the
// assembly sees (hex doubles) in the `assemble-e` line protocol, then run the real AnalyzeProblem so that the
// guarded hook dumps the system handed to PCGSolve (XFEMM_VERIF_DUMPSYS).   usage: assemble_harness e <base>
#include "hexio.h"
#include "esolver.h"
#include "femmconstants.h"
#include <cstdio>
int main(int argc,char**argv){
    if(argc!=3) return 2;
    ESolver s; s.PathName=argv[2];
    if(!s.LoadProblemFile()){ printf("loadproblem-failed\n"); return 0; }
    if(s.LoadMesh(false)!=NOERROR){ printf("loadmesh-error\n"); return 0; }
    if(!s.Cuthill(false)){ printf("cuthill-failed\n"); return 0; }
    double c=(1.e-6)/eo;
    static const double units[]={25.4,1.,10.,1000.,0.0254,0.001};
    double cf=units[s.LengthUnits];
    printf("consts %s %s\n",d2tok(PI).c_str(),d2tok(c).c_str());
    printf("problem %d %s %s %s %s %d\n",s.ProblemType==femm::AXISYMMETRIC?1:0,d2tok(s.Depth*cf).c_str(),d2tok(s.extRo*cf).c_str(),d2tok(s.extRi*cf).c_str(),d2tok(s.extZo*cf).c_str(),s.BandWidth);
    for(auto&p:s.nodeproplist) printf("np %s %s\n",d2tok(p.V).c_str(),d2tok(p.qp).c_str());
    for(auto&p:s.lineproplist) printf("lp %d %s %s %s %s\n",p.BdryFormat,d2tok(p.V).c_str(),d2tok(p.qs).c_str(),d2tok(p.c0).c_str(),d2tok(p.c1).c_str());
    for(auto&p:s.blockproplist) printf("bp %s %s %s\n",d2tok(p.ex).c_str(),d2tok(p.ey).c_str(),d2tok(p.qv).c_str());
    for(auto&p:s.circproplist) printf("cp %d %s %s\n",p.CircType,d2tok(p.V).c_str(),d2tok(p.q).c_str());
    for(auto&l:s.labellist) printf("lab %d\n",l.IsExternal?1:0);
    for(int i=0;i<s.NumNodes;i++) printf("n %s %s %d %d\n",d2tok(s.meshnode[i].x).c_str(),d2tok(s.meshnode[i].y).c_str(),s.meshnode[i].BoundaryMarker,s.meshnode[i].InConductor);
    for(int i=0;i<s.NumEls;i++){ auto&e=s.meshele[i]; printf("e %d %d %d %d %d %d %d %d\n",e.p[0],e.p[1],e.p[2],e.lbl,e.blk,e.e[0],e.e[1],e.e[2]); }
    for(auto&p:s.pbclist) printf("pbc %d %d %d\n",p.x,p.y,p.t);
    printf("run\n"); fflush(stdout);
    CBigLinProb L; L.Precision=s.Precision;
    L.Create(s.NumNodes+s.NumCircProps,s.BandWidth);
    int ok=s.AnalyzeProblem(L);
    fprintf(stderr,"analyze=%d\n",ok);
    return 0;
}
