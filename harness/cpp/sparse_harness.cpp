// C09 correspondence harness: the `sparse` line protocol against the real CBigLinProb.
#include "hexio.h"
#include "spars.h"
#include <memory>
#include <unistd.h>
#include <fcntl.h>
using namespace std;
int main(){
    // PCGSolve prints to stdout; keep protocol output on a private fd
    int outfd=dup(1); int devnull=open("/dev/null",O_WRONLY); dup2(devnull,1);
    FILE*out=fdopen(outfd,"w");
    unique_ptr<CBigLinProb> L;
    string line;
    while(getline(cin,line)){
        auto t=split(line); string r="bad-op";
        auto idx=[&](const string&s,int&v){ try{ size_t k; v=stoi(s,&k); return k==s.size()&&v>=0; }catch(...){return false;} };
        if(t.empty()){ }
        else if(t[0]=="recreate"&&t.size()==3){ int n,bw; if(idx(t[1],n)&&idx(t[2],bw)&&n>0){ L->Create(n,bw); r="ok"; } }   // Create() again on the SAME object
        else if(t[0]=="create"&&t.size()==3){ int n,bw; if(idx(t[1],n)&&idx(t[2],bw)){ L.reset(new CBigLinProb); if(n>0) L->Create(n,bw); else {L->n=0;} r="ok"; } }
        else if(!L){ }
        else if((t[0]=="put"||t[0]=="addto")&&t.size()==4){ double v;int p,q; if(tok2d(t[1],v)&&idx(t[2],p)&&idx(t[3],q)&&p<L->n&&q<L->n){ if(t[0]=="put")L->Put(v,p,q); else L->AddTo(v,p,q); r="ok";} }
        else if(t[0]=="get"&&t.size()==3){ int p,q; if(idx(t[1],p)&&idx(t[2],q)&&p<L->n&&q<L->n) r=d2tok(L->Get(p,q)); }
        else if(t[0]=="setb"&&t.size()==3){ int i;double v; if(idx(t[1],i)&&tok2d(t[2],v)&&i<L->n){ L->b[i]=v; r="ok";} }
        else if(t[0]=="getb"&&t.size()==2){ int i; if(idx(t[1],i)&&i<L->n) r=d2tok(L->b[i]); }
        else if(t[0]=="setvalue"&&t.size()==3){ int i;double v; if(idx(t[1],i)&&tok2d(t[2],v)&&i<L->n){ L->SetValue(i,v); r="ok";} }
        else if((t[0]=="periodic"||t[0]=="antiperiodic")&&t.size()==3){ int i,j; if(idx(t[1],i)&&idx(t[2],j)&&i<L->n&&j<L->n){ if(t[0]=="periodic")L->Periodicity(i,j); else L->AntiPeriodicity(i,j); r="ok";} }
        else if(t[0]=="wipe"&&t.size()==1){ if(L->n>0) L->Wipe(); r="ok"; }
        else if(t[0]=="setv"&&(int)t.size()==L->n+1){ bool ok=true; vector<double> v(L->n); for(int i=0;i<L->n;i++) ok=ok&&tok2d(t[i+1],v[i]); if(ok){ for(int i=0;i<L->n;i++) L->V[i]=v[i]; r="ok";} }
        else if(t[0]=="multa"&&(int)t.size()==L->n+1){ bool ok=true; vector<double> x(L->n),y(L->n); for(int i=0;i<L->n;i++) ok=ok&&tok2d(t[i+1],x[i]); if(ok){ L->MultA(x.data(),y.data()); r=""; for(int i=0;i<L->n;i++){ if(i) r+=" "; r+=d2tok(y[i]); } } }
        else if(t[0]=="multpc"&&(int)t.size()==L->n+2){ bool ok=true; double lam; ok=tok2d(t[1],lam); vector<double> x(L->n),y(L->n); for(int i=0;i<L->n;i++) ok=ok&&tok2d(t[i+2],x[i]); if(ok){ L->Lambda=lam; L->MultPC(x.data(),y.data()); r=""; for(int i=0;i<L->n;i++){ if(i) r+=" "; r+=d2tok(y[i]); } } }
        else if(t[0]=="solve"&&t.size()==5){ int flag,fuel; double prec,lam; if(idx(t[1],flag)&&tok2d(t[2],prec)&&tok2d(t[3],lam)&&idx(t[4],fuel)){
                L->Precision=prec; L->Lambda=lam;
                // classify the two early exits the way the model reports them
                int sing=-1; for(int i=0;i<L->n;i++) if(L->M[i]->x==0){ sing=i; break; }
                bool zr=false; if(sing<0){ L->MultPC(L->b,L->Z); zr=(L->Dot(L->Z,L->b)==0); }
                bool ok=L->PCGSolve(flag);
                if(!ok) r="singular "+to_string(sing);
                else { r=zr?"zerorhs":"converged ?"; for(int i=0;i<L->n;i++){ r+=" "; r+=d2tok(L->V[i]); } } } }
        else if(t[0]=="dump"&&t.size()==1){ r=to_string(L->n)+" "; bool first=true; for(int p=0;p<L->n;p++) for(CEntry*e=L->M[p];e;e=e->next){ if(!first) r+=" "; first=false; r+=to_string(p)+","+to_string(e->c)+","+d2tok(e->x);} r+=" |"; for(int i=0;i<L->n;i++){ r+=" "; r+=d2tok(L->b[i]); } }
        fprintf(out,"%s\n",r.c_str()); fflush(out);
    }
    return 0;
}
