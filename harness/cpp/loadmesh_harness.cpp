// C02 (and C03-C05) harness: load a problem + mesh files through the real solver classes and dump
// what LoadMesh decoded.  usage: loadmesh_harness <e|h|m> <basename-without-extension>
#include <cstdio>
#include <cstring>
#include <string>
#include "esolver.h"
#include "hsolver.h"
#include "fsolver.h"
template<class S> static int dump(S&s, bool hasCond){
    if(!s.LoadProblemFile()){ printf("loadproblem-failed\n"); return 0; }
    LoadMeshErr err=s.LoadMesh(false);
    if(err!=NOERROR){ printf("loadmesh-error %d\n",(int)err); return 0; }
    printf("nodes %d\n",s.NumNodes);
    for(int i=0;i<s.NumNodes;i++) printf("n %d %d %d\n",i,s.meshnode[i].BoundaryMarker, hasCond? s.meshnode[i].InConductor : -1);
    printf("els %d\n",s.NumEls);
    for(int i=0;i<s.NumEls;i++){ auto&e=s.meshele[i]; printf("e %d %d %d %d %d %d %d %d %d\n",i,e.p[0],e.p[1],e.p[2],e.lbl,e.blk,e.e[0],e.e[1],e.e[2]); }
    return 0;
}
int main(int argc,char**argv){
    if(argc!=3) return 2;
    std::string base=argv[2];
    if(argv[1][0]=='e'){ ESolver s; s.PathName=base; return dump(s,true); }
    if(argv[1][0]=='h'){ HSolver s; s.PathName=base; return dump(s,true); }
    if(argv[1][0]=='m'){ FSolver s; s.PathName=base; return dump(s,false); }
    return 2;
}
