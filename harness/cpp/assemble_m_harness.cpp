// C05 harness: load problem + mesh through the real FSolver, renumber (Cuthill), print the exact state the first pass of
// Static2D sees (hex doubles) in the `assemble-m` line protocol, then run the real Static2D so that the guarded hook dumps every
// system handed to PCGSolve (XFEMM_VERIF_DUMPSYS); the FIRST dumped system is the pass with Iter == 0.
//   usage: assemble_m_harness <base>     (planar or axisymmetric magnetostatics without air-gap elements / previous solution / Lua magnet directions)
#include "hexio.h"
#include "fsolver.h"
#include "femmconstants.h"
#include <cstdio>
int main(int argc,char**argv){
    if(argc!=2) return 2;
    FSolver s; s.PathName=argv[1];
    if(!s.LoadProblemFile()){ printf("loadproblem-failed\n"); return 0; }
    if(s.LoadMesh(false)!=NOERROR){ printf("loadmesh-error\n"); return 0; }
    if(!s.Cuthill(false)){ printf("cuthill-failed\n"); return 0; }
    if(s.Frequency!=0 || s.NumAirGapElems!=0 || !s.previousSolutionFile.empty()){ printf("unsupported\n"); return 0; }
    bool axi=(s.ProblemType!=femm::PLANAR);
    for(int i=0;i<s.NumBlockLabels;i++){ s.GetFillFactor(i); if(!s.labellist[i].MagDirFctn.empty()){ printf("unsupported\n"); return 0; } }
    static const double units[]={2.54,0.1,1.,100.,0.00254,1.e-04};
    double c=PI*4.e-05;
    printf("consts %s %s %s %s %s %s\n",d2tok(c).c_str(),d2tok(DEG).c_str(),d2tok(PI).c_str(),d2tok(units[s.LengthUnits]).c_str(),d2tok(0.01).c_str(),d2tok(0.0001).c_str());
    printf("problem %d %d %d\n",s.Coords==0?0:1,s.BandWidth,axi?1:0);
    printf("ext %s %s %s %s\n",d2tok(s.extRo*units[s.LengthUnits]).c_str(),d2tok(s.extRi*units[s.LengthUnits]).c_str(),d2tok(s.extZo*units[s.LengthUnits]).c_str(),d2tok(1.e-06).c_str());
    for(auto&p:s.nodeproplist) printf("np %s %s %s\n",d2tok(p.J.re).c_str(),d2tok(p.J.im).c_str(),d2tok(p.A.re).c_str());
    for(auto&p:s.lineproplist) printf("lp %d %s %s %s %s %s %s\n",p.BdryFormat,d2tok(p.A0).c_str(),d2tok(p.A1).c_str(),d2tok(p.A2).c_str(),d2tok(p.phi).c_str(),d2tok(p.c0.re).c_str(),d2tok(p.c1.re).c_str());
    for(auto&b:s.blockproplist) printf("bp %s %s %d %s %s %s %s\n",d2tok(b.mu_x).c_str(),d2tok(b.mu_y).c_str(),b.LamType,d2tok(b.LamFill).c_str(),d2tok(b.J.re).c_str(),d2tok(b.Cduct).c_str(),d2tok(b.H_c).c_str());
    for(auto&p:s.circproplist) printf("cp %d %s %s\n",p.CircType,d2tok(p.Amps.re).c_str(),d2tok(p.dVolts.re).c_str());
    for(auto&l:s.labellist) printf("lab %d %d %s %d\n",l.InCircuit,l.bIsWound?1:0,d2tok(l.MagDir).c_str(),l.IsExternal?1:0);
    for(int i=0;i<s.NumNodes;i++) printf("n %s %s %d\n",d2tok(s.meshnode[i].x).c_str(),d2tok(s.meshnode[i].y).c_str(),s.meshnode[i].BoundaryMarker);
    for(int i=0;i<s.NumEls;i++){ auto&e=s.meshele[i]; printf("e %d %d %d %d %d %d %d %d\n",e.p[0],e.p[1],e.p[2],e.lbl,e.blk,e.e[0],e.e[1],e.e[2]); }
    for(auto&p:s.pbclist) printf("pbc %d %d %d\n",p.x,p.y,p.t);
    printf("run\n"); fflush(stdout);
    CBigLinProb L; L.Precision=s.Precision;
    L.Create(s.NumNodes,s.BandWidth);
    int ok=axi ? s.StaticAxisymmetric(L) : s.Static2D(L);
    fprintf(stderr,"static2d=%d\n",ok);
    return 0;
}
