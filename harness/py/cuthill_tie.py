"""Correspondence of `FEASolver::Cuthill` + `SortNodes` + `SortElements` (libfemm/cuthill.cpp, shared by the three solvers) with
Model/Cuthill.lean, observed on the files of a real run: the mesh files the mesher wrote (.node / .ele / .edge, snapshotted) and the
solution file the solver wrote.  The model computes the new number of every node and the renumbered, comb-sorted element list from
the .edge / .ele files; the solution file must list node i of the .node file at position newnum[i] and the elements in exactly the
model's order with exactly its node numbers."""
import os, subprocess
import femmio


def tie(ck, stats, mx, run, sol, what):
    try:
        nodes = femmio.read_node(run.snap(".node"))
        eles = femmio.read_ele(run.snap(".ele"))
        edges = femmio.read_edge(run.snap(".edge"))
    except (OSError, ValueError, IndexError):
        return
    N = len(nodes)
    req = ["n %d" % N, "edges " + " ".join("%d %d" % (e[0], e[1]) for e in edges),
           "els " + " ".join("%d %d %d %d" % (e[0], e[1], e[2], e[3] - 1) for e in eles), "run"]
    r = subprocess.run([mx, "cuthill"], input="\n".join(req) + "\n", stdout=subprocess.PIPE, text=True, timeout=600)
    rep = r.stdout.splitlines()
    st = stats.setdefault("cuthill_tie", dict(runs=0, nodes=0, elements=0, max_bandwidth=0))
    name = "correspondence cuthill: FEASolver::Cuthill / SortNodes / SortElements (%s) vs Model/Cuthill.lean" % what
    if len(rep) < 4 or not rep[3].startswith("newnum "):
        ck.obligation_broken(name + ": the model does not produce a numbering (%s)" % (rep[3][:60] if len(rep) > 3 else "no reply"),
                             dict(files=run.files()))
        return
    a, b, c = rep[3].split(" | ")
    newnum = [int(x) for x in a.split()[1:]]
    bw = int(b.split()[1])
    mels = [int(x) for x in c.split()[1:]]
    mels = [tuple(mels[4 * i:4 * i + 4]) for i in range(len(mels) // 4)]
    st["runs"] += 1
    st["nodes"] += N
    st["elements"] += len(eles)
    st["max_bandwidth"] = max(st["max_bandwidth"], bw)
    sn = sol["nodes"]
    if len(sn) != N or sorted(newnum) != list(range(N)):
        ck.obligation_broken(name + ": %d nodes in the solution, %d in the mesh; model numbering is %sa permutation"
                             % (len(sn), N, "" if sorted(newnum) == list(range(N)) else "NOT "), dict(files=run.files()))
        return
    for i, (x, y, _) in enumerate(nodes):
        X, Y = sn[newnum[i]][0], sn[newnum[i]][1]
        if abs(X - x) > 1e-12 * max(abs(x), 1e-300) + 1e-300 or abs(Y - y) > 1e-12 * max(abs(y), 1e-300) + 1e-300:
            ck.obligation_broken(name + ": node %d of the mesh (%.17g, %.17g) is number %d in the model, the solution file has (%.17g, %.17g) there"
                                 % (i, x, y, newnum[i], X, Y), dict(files=run.files()))
            return
    sels = [tuple(int(v) for v in e[:4]) for e in sol["elements"]]
    if len(sels) != len(mels):
        ck.obligation_broken(name + ": %d elements in the solution, %d in the model" % (len(sels), len(mels)), dict(files=run.files()))
        return
    for k, (se, me) in enumerate(zip(sels, mels)):
        if se[:3] != me[:3] or (me[3] >= 0 and se[3] != me[3]):
            ck.obligation_broken(name + ": element %d of the solution file is %r, the model has %r" % (k, se, me), dict(files=run.files()))
            return
    # the (anti)periodic pair list goes through the same numbering (`pbclist[i].x=newnum[pbclist[i].x]`); the magnetics solution file
    # lists it after the per-label circuit records
    if what == "fsolver" and os.path.exists(run.snap(".pbc")):
        try:
            pairs, _ = femmio.read_pbc(run.snap(".pbc"))
            rest = [l.split() for l in sol["rest"] if l.strip()]
            nl = int(rest[0][0])
            npbc = int(rest[1 + nl][0])
            got = [tuple(int(v) for v in r[:3]) for r in rest[2 + nl:2 + nl + npbc]]
        except (ValueError, IndexError, OSError):
            return
        want = [(newnum[a], newnum[b], t) for (a, b, t) in pairs]
        st["pbc_pairs"] = st.get("pbc_pairs", 0) + len(want)
        if got != want:
            k = next((i for i, (g, w) in enumerate(zip(got, want)) if g != w), min(len(got), len(want)))
            ck.obligation_broken(name + ": (anti)periodic pair %d of the solution file is %r, the renumbered pair of the .pbc file is %r (%d vs %d pairs)"
                                 % (k, got[k] if k < len(got) else None, want[k] if k < len(want) else None, len(got), len(want)), dict(files=run.files()))


def tie_bandwidth(ck, stats, mx, run, impl_bw, what):
    """`BandWidth` as the real `Cuthill()` left it (printed by an in-process assembly harness) vs the model's, on the same mesh files"""
    try:
        nodes = femmio.read_node(run.snap(".node"))
        edges = femmio.read_edge(run.snap(".edge"))
    except (OSError, ValueError, IndexError):
        return
    req = ["n %d" % len(nodes), "edges " + " ".join("%d %d" % (e[0], e[1]) for e in edges), "els", "run"]
    r = subprocess.run([mx, "cuthill"], input="\n".join(req) + "\n", stdout=subprocess.PIPE, text=True, timeout=600)
    rep = r.stdout.splitlines()
    st = stats.setdefault("cuthill_tie", dict(runs=0, nodes=0, elements=0, max_bandwidth=0))
    if len(rep) < 4 or " | bw " not in rep[3]:
        ck.obligation_broken("correspondence cuthill (band width, %s): the model does not produce a numbering" % what, dict(files=run.files()))
        return
    bw = int(rep[3].split(" | ")[1].split()[1])
    st["bandwidths_compared"] = st.get("bandwidths_compared", 0) + 1
    if bw != impl_bw:
        ck.obligation_broken("correspondence cuthill: BandWidth of FEASolver::Cuthill (%s) is %d, Model/Cuthill.lean computes %d" % (what, impl_bw, bw),
                             dict(files=run.files()))
