"""Running the real xfemm tools on generated problems (one directory per problem; mesh files are
snapshotted because the solvers delete them)."""
import os, shutil, subprocess
import femmio

SOLVER = {"e": "esolver", "h": "hsolver", "m": "fsolver"}
# runs whose solver exited 0 but wrote a solution with non-finite values: comparisons with a tolerance are blind to NaN, so every
# check reports these at the end (tools/vlib.py Check.finish) unless it classified the run itself (run.nonfinite_handled = True)
NONFINITE = []


class Run:
    def __init__(self, build, workdir, name, prob):
        self.build = build
        self.dir = os.path.join(workdir, name)
        os.makedirs(self.dir, exist_ok=True)
        self.prob = prob
        self.base = os.path.join(self.dir, "p")
        self.file = self.base + femmio.EXT[prob.kind]
        prob.write(self.file)
        self.mesh_rc = None
        self.solve_rc = None
        self.mesh_out = ""
        self.solve_out = ""

    def tool(self, name):
        return os.path.join(self.build, "cfemm", "bin", name)

    def mesh(self, write_poly=True, env=None, timeout=300):
        args = [self.tool("fmesher")] + (["--write-poly"] if write_poly else []) + [self.file]
        try:
            r = subprocess.run(args, stdout=subprocess.PIPE, stderr=subprocess.STDOUT, text=True, timeout=timeout,
                               cwd=self.dir, env=env, errors="replace")
            self.mesh_rc, self.mesh_out = r.returncode, r.stdout
        except subprocess.TimeoutExpired:
            self.mesh_rc, self.mesh_out = -999, "timeout"
        if self.mesh_rc == 0:
            snap = os.path.join(self.dir, "snap")
            os.makedirs(snap, exist_ok=True)
            for ext in (".node", ".ele", ".edge", ".pbc", ".poly", ".raw.poly"):
                if os.path.exists(self.base + ext):
                    shutil.copy(self.base + ext, os.path.join(snap, "p" + ext))
        return self.mesh_rc

    def restore_mesh(self):
        snap = os.path.join(self.dir, "snap")
        for f in os.listdir(snap):
            shutil.copy(os.path.join(snap, f), os.path.join(self.dir, f))

    def snap(self, ext):
        return os.path.join(self.dir, "snap", "p" + ext)

    def solve(self, env=None, timeout=600):
        args = [self.tool(SOLVER[self.prob.kind]), self.base]
        try:
            r = subprocess.run(args, stdout=subprocess.PIPE, stderr=subprocess.STDOUT, text=True, timeout=timeout,
                               cwd=self.dir, env=env, errors="replace")
            self.solve_rc, self.solve_out = r.returncode, r.stdout
        except subprocess.TimeoutExpired:
            self.solve_rc, self.solve_out = -999, "timeout"
        self.nonfinite = None
        self.nonfinite_handled = False
        if self.solve_rc == 0 and os.path.exists(self.solution_path()):
            try:
                txt = open(self.solution_path(), errors="replace").read()
                k = txt.find("[Solution]")
                body = txt[k:] if k >= 0 else txt
                import re
                m = re.search(r"(?i)(?<![\w.])-?(nan|inf(inity)?)(?![\w.])", body)
                if m:
                    self.nonfinite = body[max(0, m.start() - 60):m.end() + 20].replace("\n", " | ")
                    self.nonfinite_files = {os.path.basename(self.file): open(self.file, errors="replace").read(),
                                            os.path.basename(self.solution_path()) + " (head)": txt[:max(k, 0) + 2000]}
                    NONFINITE.append(self)
            except OSError:
                pass
        return self.solve_rc

    def solution_path(self):
        return self.base + femmio.SOL[self.prob.kind]

    def mesh_data(self):
        return (femmio.read_node(self.snap(".node")), femmio.read_ele(self.snap(".ele")),
                femmio.read_edge(self.snap(".edge")))

    def files(self):
        """problem + mesh files as text, for replays"""
        out = {}
        for f in sorted(os.listdir(self.dir)):
            p = os.path.join(self.dir, f)
            if os.path.isfile(p) and os.path.getsize(p) < 400000:
                out[f] = open(p, errors="replace").read()
        return out
