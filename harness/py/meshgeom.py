"""Geometry helpers for the oracles: drawn entities of a generated problem vs mesh items."""
import math
from fractions import Fraction


def arc_circle(p0, p1, angle_deg):
    """centre and radius of the arc that runs counter-clockwise from p0 to p1 through angle_deg"""
    x0, y0 = p0
    x1, y1 = p1
    th = math.radians(angle_deg)
    dx, dy = x1 - x0, y1 - y0
    d = math.hypot(dx, dy)
    R = d / (2 * math.sin(th / 2))
    t = d / (2 * math.tan(th / 2)) if abs(math.tan(th / 2)) < 1e15 else 0.0
    mx, my = (x0 + x1) / 2, (y0 + y1) / 2
    # left normal of p0->p1
    nx, ny = -dy / d, dx / d
    return (mx + nx * t, my + ny * t), R


def on_segment(p, a, b, tol=1e-9):
    (px, py), (ax, ay), (bx, by) = p, a, b
    L2 = (bx - ax) ** 2 + (by - ay) ** 2
    cr = (bx - ax) * (py - ay) - (by - ay) * (px - ax)
    if abs(cr) > tol * max(L2, 1e-300):
        return False
    t = ((px - ax) * (bx - ax) + (py - ay) * (by - ay)) / L2
    return -tol <= t <= 1 + tol


def on_arc(p, p0, p1, angle_deg, tol=1e-9):
    c, R = arc_circle(p0, p1, angle_deg)
    r = math.hypot(p[0] - c[0], p[1] - c[1])
    if abs(r - R) > tol * max(R, 1.0) * 10:
        return False
    a0 = math.atan2(p0[1] - c[1], p0[0] - c[0])
    a = math.atan2(p[1] - c[1], p[0] - c[0])
    d = (a - a0) % (2 * math.pi)
    th = math.radians(angle_deg)
    return d <= th + 1e-7 or d >= 2 * math.pi - 1e-7


def chord_on_arc(pa, pb, p0, p1, angle_deg, tol=1e-9):
    return on_arc(pa, p0, p1, angle_deg, tol) and on_arc(pb, p0, p1, angle_deg, tol)


def point_in_poly(p, poly):
    """even-odd rule; points exactly on the border are unspecified (callers keep a margin)"""
    x, y = p
    inside = False
    n = len(poly)
    for i in range(n):
        (x0, y0), (x1, y1) = poly[i], poly[(i + 1) % n]
        if (y0 > y) != (y1 > y):
            xc = x0 + (y - y0) * (x1 - x0) / (y1 - y0)
            if x < xc:
                inside = not inside
    return inside


def in_region(p, region):
    return point_in_poly(p, region["outer"]) and not any(point_in_poly(p, h) for h in region["inner"])


def poly_area(poly):
    s = 0.0
    n = len(poly)
    for i in range(n):
        (x0, y0), (x1, y1) = poly[i], poly[(i + 1) % n]
        s += x0 * y1 - x1 * y0
    return s / 2


def poly_area_exact(poly):
    s = Fraction(0)
    n = len(poly)
    for i in range(n):
        (x0, y0), (x1, y1) = poly[i], poly[(i + 1) % n]
        s += Fraction(x0) * Fraction(y1) - Fraction(x1) * Fraction(y0)
    return s / 2


class Entities:
    """drawn points / lines / arcs of a femmio.Problem with lookup of the entity a mesh item lies on"""

    def __init__(self, prob):
        self.p = prob
        self.pts = [(n["x"], n["y"]) for n in prob.nodes]
        self.ptindex = {}
        for i, xy in enumerate(self.pts):
            self.ptindex.setdefault(xy, i)
        # an arc is, by the property, "its prescribed polygon of ceil(angle/maxseg) equal chords"
        self.chords = []
        for a in prob.arcs:
            p0, p1 = self.pts[a["n0"]], self.pts[a["n1"]]
            n = int(math.ceil(a["angle"] / a["maxseg"]))
            c, R = arc_circle(p0, p1, a["angle"])
            a0 = math.atan2(p0[1] - c[1], p0[0] - c[0])
            th = math.radians(a["angle"])
            pts = [p0] + [(c[0] + R * math.cos(a0 + th * k / n), c[1] + R * math.sin(a0 + th * k / n)) for k in range(1, n)] + [p1]
            self.chords.append(pts)

    def point_at(self, xy):
        return self.ptindex.get((xy[0], xy[1]))

    def edge_entity(self, pa, pb):
        """('seg', i) / ('arc', i) / None for the drawn entity a mesh edge lies on"""
        for i, s in enumerate(self.p.segs):
            a, b = self.pts[s["n0"]], self.pts[s["n1"]]
            if on_segment(pa, a, b) and on_segment(pb, a, b):
                return ("seg", i)
        for i, pts in enumerate(self.chords):
            for k in range(len(pts) - 1):
                if on_segment(pa, pts[k], pts[k + 1], 1e-8) and on_segment(pb, pts[k], pts[k + 1], 1e-8):
                    return ("arc", i)
        return None

    def node_entities(self, xy):
        """all drawn entities a mesh node lies on"""
        out = []
        k = self.point_at(xy)
        if k is not None:
            out.append(("pt", k))
        for i, s in enumerate(self.p.segs):
            if on_segment(xy, self.pts[s["n0"]], self.pts[s["n1"]]):
                out.append(("seg", i))
        for i, pts in enumerate(self.chords):
            if any(on_segment(xy, pts[k], pts[k + 1], 1e-8) for k in range(len(pts) - 1)):
                out.append(("arc", i))
        return out

    def get(self, ent):
        kind, i = ent
        return {"pt": self.p.nodes, "seg": self.p.segs, "arc": self.p.arcs}[kind][i]
