"""Independent writer of .fem/.fee/.feh problem files and independent readers of the files the xfemm
tools emit (.node .ele .edge .pbc .poly .ans .res .anh).  Written from the FEMM 4.2 file-format
description, deliberately NOT sharing code with the repository's parsers."""
import math, re, os

UNITS = ["inches", "millimeters", "centimeters", "meters", "mils", "microns"]
UNIT_M = {"inches": 0.0254, "millimeters": 0.001, "centimeters": 0.01, "meters": 1.0, "mils": 2.54e-5, "microns": 1e-6}
EXT = {"m": ".fem", "e": ".fee", "h": ".feh"}
SOL = {"m": ".ans", "e": ".res", "h": ".anh"}


def g17(x):
    if isinstance(x, int):
        return str(x)
    return "%.17g" % x


class Problem:
    """kind: 'm' magnetics, 'e' electrostatics, 'h' heat flow.  All indices 0-based here, -1 = none."""

    def __init__(self, kind):
        self.kind = kind
        self.precision = 1e-8
        self.minangle = 30.0
        self.depth = 1.0
        self.units = "millimeters"
        self.ptype = "planar"
        self.coords = "cartesian"
        self.freq = 0.0
        self.acsolver = 0
        self.prevsoln = ""
        self.prevtype = 0
        self.dt = 0.0
        self.comment = "generated"
        self.smartmesh = None      # None = key absent
        self.forcemaxmesh = None
        self.ext = None            # (zo, ro, ri)
        self.pointprops = []       # dicts
        self.bdryprops = []
        self.blockprops = []
        self.circprops = []
        self.nodes = []            # dict(x,y,bc,group,cond)
        self.segs = []             # dict(n0,n1,maxside,bc,hidden,group,cond)
        self.arcs = []             # dict(n0,n1,angle,maxseg,bc,hidden,group,cond,myside)
        self.holes = []            # dict(x,y,group)
        self.labels = []           # dict(x,y,block,meshsize,group,ext,default, circ,magdir,turns,magdirfctn)

    # ---- construction helpers
    def add_node(self, x, y, bc=-1, group=0, cond=-1):
        self.nodes.append(dict(x=float(x), y=float(y), bc=bc, group=group, cond=cond))
        return len(self.nodes) - 1

    def add_seg(self, n0, n1, maxside=-1.0, bc=-1, hidden=0, group=0, cond=-1):
        self.segs.append(dict(n0=n0, n1=n1, maxside=maxside, bc=bc, hidden=hidden, group=group, cond=cond))
        return len(self.segs) - 1

    def add_arc(self, n0, n1, angle, maxseg=5.0, bc=-1, hidden=0, group=0, cond=-1, myside=-1.0):
        self.arcs.append(dict(n0=n0, n1=n1, angle=float(angle), maxseg=float(maxseg), bc=bc, hidden=hidden, group=group,
                              cond=cond, myside=myside))
        return len(self.arcs) - 1

    def add_label(self, x, y, block, meshsize=-1.0, group=0, ext=0, default=0, circ=-1, magdir=0.0, turns=1, magdirfctn=""):
        self.labels.append(dict(x=float(x), y=float(y), block=block, meshsize=meshsize, group=group, ext=ext, default=default,
                                circ=circ, magdir=magdir, turns=turns, magdirfctn=magdirfctn))
        return len(self.labels) - 1

    def add_hole(self, x, y, group=0):
        self.holes.append(dict(x=float(x), y=float(y), group=group))

    # ---- writer
    def text(self, crlf=False):
        k = self.kind
        o = []
        o.append("[Format]      =  %s" % ("4.0" if k == "m" else "1"))
        if k == "m":
            o.append("[Frequency]   =  %s" % g17(self.freq))
        o.append("[Precision]   =  %s" % g17(self.precision))
        o.append("[MinAngle]    =  %s" % g17(self.minangle))
        if self.smartmesh is not None:
            o.append("[DoSmartMesh] =  %d" % int(self.smartmesh))
        if self.forcemaxmesh is not None:
            o.append("[ForceMaxMesh] =  %d" % int(self.forcemaxmesh))
        o.append("[Depth]       =  %s" % g17(self.depth))
        o.append("[LengthUnits] =  %s" % self.units)
        if k == "h":
            o.append("[dT]          =  %s" % g17(self.dt))
        o.append("[ProblemType] =  %s" % ("planar" if self.ptype == "planar" else "axisymmetric"))
        if self.ptype != "planar" and self.ext:
            o.append("[extZo]       =  %s" % g17(self.ext[0]))
            o.append("[extRo]       =  %s" % g17(self.ext[1]))
            o.append("[extRi]       =  %s" % g17(self.ext[2]))
        o.append("[Coordinates] =  %s" % self.coords)
        if k == "m":
            o.append("[ACSolver]    =  %d" % self.acsolver)
        if k in ("m", "h"):
            o.append('[PrevSoln]    = "%s"' % self.prevsoln)
            if k == "m":
                o.append("[PrevType]    =  %d" % self.prevtype)
        o.append('[Comment]     =  "%s"' % self.comment)
        o.append("[PointProps]   = %d" % len(self.pointprops))
        for p in self.pointprops:
            o.append("  <BeginPoint>")
            o.append('    <PointName> = "%s"' % p["name"])
            if k == "m":
                for key, f in (("I_re", "I_re"), ("I_im", "I_im"), ("A_re", "A_re"), ("A_im", "A_im")):
                    o.append("    <%s> = %s" % (key, g17(p.get(f, 0.0))))
            elif k == "e":
                o.append("    <Vp> = %s" % g17(p.get("V", 0.0)))
                o.append("    <qp> = %s" % g17(p.get("q", 0.0)))
            else:
                o.append("    <Tp> = %s" % g17(p.get("V", 0.0)))
                o.append("    <qp> = %s" % g17(p.get("q", 0.0)))
            o.append("  <EndPoint>")
        o.append("[BdryProps]   = %d" % len(self.bdryprops))
        for b in self.bdryprops:
            o.append("  <BeginBdry>")
            o.append('    <BdryName> = "%s"' % b["name"])
            o.append("    <BdryType> = %d" % b["type"])
            if k == "m":
                for key in ("A_0", "A_1", "A_2", "Phi", "c0", "c0i", "c1", "c1i", "Mu_ssd", "Sigma_ssd"):
                    o.append("    <%s> = %s" % (key, g17(b.get(key, 0.0))))
                if "innerangle" in b:
                    o.append("    <innerangle> = %s" % g17(b["innerangle"]))
                    o.append("    <outerangle> = %s" % g17(b["outerangle"]))
            elif k == "e":
                for key in ("Vs", "qs", "c0", "c1"):
                    o.append("    <%s> = %s" % (key, g17(b.get(key, 0.0))))
            else:
                for key in ("Tset", "qs", "beta", "h", "Tinf"):
                    o.append("    <%s> = %s" % (key, g17(b.get(key, 0.0))))
            o.append("  <EndBdry>")
        o.append("[BlockProps]  = %d" % len(self.blockprops))
        for b in self.blockprops:
            o.append("  <BeginBlock>")
            o.append('    <BlockName> = "%s"' % b["name"])
            if k == "m":
                for key, d in (("Mu_x", 1.0), ("Mu_y", 1.0), ("H_c", 0.0), ("H_cAngle", 0.0), ("J_re", 0.0), ("J_im", 0.0),
                               ("Sigma", 0.0), ("d_lam", 0.0), ("Phi_h", 0.0), ("Phi_hx", 0.0), ("Phi_hy", 0.0)):
                    o.append("    <%s> = %s" % (key, g17(b.get(key, d))))
                o.append("    <LamType> = %d" % b.get("LamType", 0))
                o.append("    <LamFill> = %s" % g17(b.get("LamFill", 1.0)))
                o.append("    <NStrands> = %d" % b.get("NStrands", 0))
                o.append("    <WireD> = %s" % g17(b.get("WireD", 0.0)))
                bh = b.get("BH", [])
                o.append("    <BHPoints> = %d" % len(bh))
                for (B, H) in bh:
                    o.append("      %s\t%s" % (g17(B), g17(H)))
            elif k == "e":
                for key, d in (("ex", 1.0), ("ey", 1.0), ("qv", 0.0)):
                    o.append("    <%s> = %s" % (key, g17(b.get(key, d))))
            else:
                for key, d in (("Kx", 1.0), ("Ky", 1.0), ("Kt", 0.0), ("qv", 0.0)):
                    o.append("    <%s> = %s" % (key, g17(b.get(key, d))))
                tk = b.get("TK", [])
                o.append("    <TKPoints> = %d" % len(tk))
                for (T, K) in tk:
                    o.append("      %s\t%s" % (g17(T), g17(K)))
            o.append("  <EndBlock>")
        if k == "m":
            o.append("[CircuitProps]  = %d" % len(self.circprops))
            for c in self.circprops:
                o.append("  <BeginCircuit>")
                o.append('    <CircuitName> = "%s"' % c["name"])
                o.append("    <TotalAmps_re> = %s" % g17(c.get("I_re", 0.0)))
                o.append("    <TotalAmps_im> = %s" % g17(c.get("I_im", 0.0)))
                o.append("    <CircuitType> = %d" % c.get("type", 1))
                o.append("  <EndCircuit>")
        else:
            o.append("[ConductorProps]  = %d" % len(self.circprops))
            for c in self.circprops:
                o.append("  <BeginConductor>")
                o.append('    <ConductorName> = "%s"' % c["name"])
                o.append("    <%s> = %s" % ("Vc" if k == "e" else "Tc", g17(c.get("V", 0.0))))
                o.append("    <qc> = %s" % g17(c.get("q", 0.0)))
                o.append("    <ConductorType> = %d" % c.get("type", 1))
                o.append("  <EndConductor>")
        o.append("[NumPoints] = %d" % len(self.nodes))
        for n in self.nodes:
            l = "%s\t%s\t%d\t%d" % (g17(n["x"]), g17(n["y"]), n["bc"] + 1, n["group"])
            if k != "m":
                l += "\t%d" % (n["cond"] + 1)
            o.append(l)
        o.append("[NumSegments] = %d" % len(self.segs))
        for s in self.segs:
            l = "%d\t%d\t%s\t%d\t%d\t%d" % (s["n0"], s["n1"], "-1" if s["maxside"] < 0 else g17(s["maxside"]), s["bc"] + 1,
                                          s["hidden"], s["group"])
            if k != "m":
                l += "\t%d" % (s["cond"] + 1)
            o.append(l)
        o.append("[NumArcSegments] = %d" % len(self.arcs))
        for a in self.arcs:
            l = "%d\t%d\t%s\t%s\t%d\t%d\t%d" % (a["n0"], a["n1"], g17(a["angle"]), g17(a["maxseg"]), a["bc"] + 1, a["hidden"],
                                              a["group"])
            if k != "m":
                l += "\t%d" % (a["cond"] + 1)
            else:
                l += "\t%s" % g17(a["myside"])
            o.append(l)
        o.append("[NumHoles] = %d" % len(self.holes))
        for h in self.holes:
            o.append("%s\t%s\t%d" % (g17(h["x"]), g17(h["y"]), h["group"]))
        o.append("[NumBlockLabels] = %d" % len(self.labels))
        for b in self.labels:
            ed = (1 if b["ext"] else 0) | (2 if b["default"] else 0)
            if k == "m":
                l = "%s\t%s\t%d\t%s\t%d\t%s\t%d\t%d\t%d" % (g17(b["x"]), g17(b["y"]), b["block"] + 1,
                                                          "-1" if b["meshsize"] <= 0 else g17(b["meshsize"]), b["circ"] + 1,
                                                          g17(b["magdir"]), b["group"], b["turns"], ed)
                if b["magdirfctn"]:
                    l += '\t"%s"' % b["magdirfctn"]
            else:
                l = "%s\t%s\t%d\t%s\t%d\t%d" % (g17(b["x"]), g17(b["y"]), b["block"] + 1,
                                             "-1" if b["meshsize"] <= 0 else g17(b["meshsize"]), b["group"], ed)
            o.append(l)
        return ("\r\n" if crlf else "\n").join(o) + ("\r\n" if crlf else "\n")

    def write(self, path, crlf=False):
        with open(path, "w", newline="") as f:
            f.write(self.text(crlf))
        return path


# ------------------------------------------------------------------------------ readers of tool output
def _ints_floats(path):
    with open(path) as f:
        return [l.split("#")[0].split() for l in f if l.split("#")[0].strip()]


def read_node(path):
    """-> list of (x, y, marker) ; coordinates as the exact doubles parsed from the %.17g text"""
    rows = _ints_floats(path)
    n = int(rows[0][0])
    out = []
    for r in rows[1:1 + n]:
        out.append((float(r[1]), float(r[2]), int(r[3]) if len(r) > 3 else 0))
    return out


def read_ele(path):
    """-> list of (p0, p1, p2, attribute)"""
    rows = _ints_floats(path)
    n = int(rows[0][0])
    out = []
    for r in rows[1:1 + n]:
        out.append((int(r[1]), int(r[2]), int(r[3]), int(float(r[4])) if len(r) > 4 else 0))
    return out


def read_edge(path):
    """-> list of (n0, n1, marker)"""
    rows = _ints_floats(path)
    n = int(rows[0][0])
    out = []
    for r in rows[1:1 + n]:
        out.append((int(r[1]), int(r[2]), int(r[3]) if len(r) > 3 else 0))
    return out


def read_pbc(path):
    """-> (pairs [(a, b, type)], rest_lines) ; type 0 periodic, 1 antiperiodic"""
    rows = _ints_floats(path)
    n = int(rows[0][0])
    pairs = [(int(r[1]), int(r[2]), int(r[3])) for r in rows[1:1 + n]]
    return pairs, rows[1 + n:]


def read_poly(path):
    """Triangle .poly as written by `fmesher --write-poly`: -> dict(nodes, segs, holes, regions, comment)"""
    with open(path) as f:
        raw = f.read().splitlines()
    comment = [l for l in raw if l.lstrip().startswith("#")]
    rows = [l.split("#")[0].split() for l in raw if l.split("#")[0].strip()]
    i = 0
    npts = int(rows[i][0]); i += 1
    nodes = []
    for r in rows[i:i + npts]:
        nodes.append((float(r[1]), float(r[2]), int(r[3]) if len(r) > 3 else 0))
    i += npts
    nseg = int(rows[i][0]); i += 1
    segs = []
    for r in rows[i:i + nseg]:
        segs.append((int(r[1]), int(r[2]), int(r[3]) if len(r) > 3 else 0))
    i += nseg
    nh = int(rows[i][0]); i += 1
    holes = [(float(r[1]), float(r[2])) for r in rows[i:i + nh]]
    i += nh
    regions = []
    if i < len(rows):
        nr = int(rows[i][0]); i += 1
        for r in rows[i:i + nr]:
            regions.append((float(r[1]), float(r[2]), float(r[3]), float(r[4])))
    return dict(nodes=nodes, segs=segs, holes=holes, regions=regions, comment=comment)


def read_solution(path, kind):
    """[Solution] block of .ans / .res / .anh  -> dict(nodes=[...], elements=[...], extra=[...])
    nodes: magnetics static (x,y,A[,bm]) / harmonic (x,y,Are,Aim); electrostatics (x,y,V,Q); heat (x,y,T,Q)"""
    with open(path, errors="replace") as f:
        lines = f.read().splitlines()
    k = None
    for idx, l in enumerate(lines):
        if l.strip().lower().startswith("[solution]"):
            k = idx
            break
    if k is None:
        raise ValueError("no [Solution] block in " + path)
    header = lines[:k]
    i = k + 1
    nn = int(lines[i].split()[0]); i += 1
    nodes = [tuple(float(t) for t in lines[i + j].split()) for j in range(nn)]
    i += nn
    ne = int(lines[i].split()[0]); i += 1
    els = [tuple(float(t) for t in lines[i + j].split()) for j in range(ne)]
    i += ne
    return dict(header=header, nodes=nodes, elements=els, rest=lines[i:])


# ------------------------------------------------------------------------------ independent reader of problem files (C14, C17)
def _val(s):
    """canonical value of the text right of '=': ('s', text between first and last quote) | ('n', float) | ('t', lower-case token)"""
    s = s.strip()
    if s.startswith('"'):
        j = s.rfind('"')
        return ("s", s[1:j] if j > 0 else s[1:])
    try:
        return ("n", float(s.split()[0]))
    except (ValueError, IndexError):
        return ("t", s.lower())


def read_problem(path):
    """top: {lower-case key: value}; props: {section: [ {key: value, '_table': [(a, b)]} ]}; geom: {section: [[tokens]]}
    Written independently of the C++ reader: splits at '=', knows the section structure only."""
    with open(path, "rb") as f:
        raw = f.read().decode("latin-1")
    lines = [l.rstrip("\r") for l in raw.split("\n")]
    top, props, geom = {}, {}, {}
    i = 0
    PROPSEC = {"[pointprops]": "point", "[bdryprops]": "bdry", "[blockprops]": "block", "[circuitprops]": "circ", "[conductorprops]": "circ"}
    GEOSEC = {"[numpoints]": "nodes", "[numsegments]": "segs", "[numarcsegments]": "arcs", "[numholes]": "holes", "[numblocklabels]": "labels"}
    while i < len(lines):
        l = lines[i].strip()
        i += 1
        if not l:
            continue
        if l.lower().startswith("[solution]"):
            break
        if not l.startswith("[") or "=" not in l:
            continue
        key, _, rest = l.partition("=")
        key = key.strip().lower()
        if key in PROPSEC:
            n = int(float(rest.split()[0]))
            plist = []
            while len(plist) < n and i < len(lines):
                l2 = lines[i].strip()
                i += 1
                if l2.lower().startswith("<begin"):
                    d = {"_table": []}
                    while i < len(lines):
                        l3 = lines[i].strip()
                        i += 1
                        if l3.lower().startswith("<end"):
                            break
                        if l3.startswith("<") and "=" in l3:
                            k3, _, r3 = l3.partition("=")
                            d[k3.strip().lower()] = _val(r3)
                        elif l3:
                            t = l3.replace(",", " ").split()
                            try:
                                d["_table"].append(tuple(float(x) for x in t[:2]))
                            except ValueError:
                                pass
                    plist.append(d)
            props[PROPSEC[key]] = plist
            top[key if key != "[circuitprops]" else "[conductorprops]"] = ("n", float(n))
        elif key in GEOSEC:
            n = int(float(rest.split()[0]))
            rows = []
            while len(rows) < n and i < len(lines):
                l2 = lines[i].strip()
                i += 1
                if not l2:
                    continue
                q = l2.find('"')
                if q >= 0:
                    toks = l2[:q].split() + [("s", l2[q + 1:l2.rfind('"')])]
                else:
                    toks = l2.split()
                rows.append(toks)
            geom[GEOSEC[key]] = rows
        else:
            top[key] = _val(rest)
    return dict(top=top, props=props, geom=geom)
