"""Drive the real femmcli on a problem file: analyse, load the solution, run post-processor queries, return the
numbers each query printed (one tagged line per query, parsed back)."""
import os, re, subprocess

PRE = {"e": "e", "h": "h", "m": "m"}


def parse_number(x):
    """a real number, or a complex one in femmcli's `a+I*b` spelling; None for nil / anything else"""
    try:
        return float(x)
    except ValueError:
        pass
    m = re.fullmatch(r"([-+]?[0-9.eE+-]+?)([-+])I\*([0-9.eE+-]+)", x)
    if m:
        try:
            return complex(float(m.group(1)), float(m.group(2) + m.group(3)))
        except ValueError:
            return None
    m = re.fullmatch(r"([-+]?)I\*([0-9.eE+-]+)", x)
    if m:
        return complex(0.0, float(m.group(1) + m.group(2)))
    # an imaginary part of exactly one is printed without its factor: a+I, a-I, I, -I
    if x in ("I", "+I", "-I"):
        return complex(0.0, -1.0 if x[0] == "-" else 1.0)
    m = re.fullmatch(r"([-+]?[0-9.eE+-]+?)([-+])I", x)
    if m:
        try:
            return complex(float(m.group(1)), -1.0 if m.group(2) == "-" else 1.0)
        except ValueError:
            return None
    return None


class Session:
    def __init__(self, kind, filename, analyze=True):
        self.kind = kind
        self.pre = PRE[kind]
        self.lines = ['open("%s")' % filename]
        if analyze:
            self.lines.append("%si_analyze()" % self.pre)
        self.lines.append("%si_loadsolution()" % self.pre)
        self.tags = []

    def _emit(self, tag, expr, nret):
        vs = ",".join("v%d" % i for i in range(nret))
        self.lines.append("%s = %s" % (vs, expr))
        fmt = 'print("@@%s"' % tag + "".join(',tostring(v%d)' % i for i in range(nret)) + ")"
        # separate values with a space: femmcli's print joins with tabs
        self.lines.append(fmt)
        self.tags.append(tag)

    def point(self, tag, x, y):
        n = {"e": 8, "h": 7, "m": 14}[self.kind]
        self._emit(tag, "%so_getpointvalues(%.17g,%.17g)" % (self.pre, x, y), n)

    def select_blocks(self, pts):
        for (x, y) in pts:
            self.lines.append("%so_selectblock(%.17g,%.17g)" % (self.pre, x, y))

    def group_select(self, g=None):
        self.lines.append("%so_groupselectblock(%s)" % (self.pre, "" if g is None else g))

    def clear_blocks(self):
        self.lines.append("%so_clearblock()" % self.pre)

    def block_integral(self, tag, typ, nret=2):
        self._emit(tag, "%so_blockintegral(%d)" % (self.pre, typ), nret)

    def contour(self, pts):
        self.lines.append("%so_clearcontour()" % self.pre)
        for (x, y) in pts:
            self.lines.append("%so_addcontour(%.17g,%.17g)" % (self.pre, x, y))

    def line_integral(self, tag, typ, nret=2):
        self._emit(tag, "%so_lineintegral(%d)" % (self.pre, typ), nret)

    def conductor(self, tag, name):
        if self.kind == "m":
            self._emit(tag, 'mo_getcircuitproperties("%s")' % name, 3)
        else:
            self._emit(tag, '%so_getconductorproperties("%s")' % (self.pre, name), 2)

    def raw(self, line):
        self.lines.append(line)

    def run(self, build, cwd, timeout=600, env=None):
        sp = os.path.join(cwd, "session.lua")
        with open(sp, "w") as f:
            f.write("\n".join(self.lines) + "\n")
        r = subprocess.run([os.path.join(build, "cfemm", "bin", "femmcli"), "--lua-script=session.lua"], cwd=cwd, stdout=subprocess.PIPE,
                           stderr=subprocess.STDOUT, text=True, timeout=timeout, errors="replace", env=env)
        out = {}
        for l in r.stdout.splitlines():
            if l.startswith("@@"):
                t = l[2:].split()
                vals = []
                for x in t[1:]:
                    vals.append(parse_number(x))
                out[t[0]] = vals
        return r.returncode, out, r.stdout
