"""Exact-arithmetic certificate for a mesh written by fmesher (C01) and size / spacing / angle checks (C18).
All decisions about orientation, degeneracy and area use Fractions of the doubles in the files."""
import math
from fractions import Fraction
import meshgeom


def F(x):
    return Fraction(x)


def orient(a, b, c):
    return (b[0] - a[0]) * (c[1] - a[1]) - (b[1] - a[1]) * (c[0] - a[0])


class Mesh:
    def __init__(self, nodes, eles, edges):
        self.nodes = nodes
        self.eles = eles
        self.edges = edges
        self.xy = [(n[0], n[1]) for n in nodes]
        self.xyF = [(F(n[0]), F(n[1])) for n in nodes]
        self.edge_use = {}
        for t, (a, b, c, _) in enumerate(eles):
            for (u, v) in ((a, b), (b, c), (c, a)):
                self.edge_use.setdefault((min(u, v), max(u, v)), []).append((t, u, v))
        self.nbr = {}
        for (u, v) in self.edge_use:
            self.nbr.setdefault(u, set()).add(v)
            self.nbr.setdefault(v, set()).add(u)


def certificate(m):
    """-> list of (key, message); empty when the files describe a planar triangulation (no overlap, consistent orientation)"""
    out = []
    N = len(m.nodes)
    for t, (a, b, c, _) in enumerate(m.eles):
        if not (0 <= a < N and 0 <= b < N and 0 <= c < N):
            return [("index", "element %d refers to node %s out of range 0..%d" % (t, (a, b, c), N - 1))]
    for e, (a, b, _) in enumerate(m.edges):
        if not (0 <= a < N and 0 <= b < N):
            return [("index", "edge %d refers to node %s out of range" % (e, (a, b)))]
    area2 = Fraction(0)
    for t, (a, b, c, _) in enumerate(m.eles):
        o = orient(m.xyF[a], m.xyF[b], m.xyF[c])
        if o <= 0:
            out.append(("orientation", "element %d (%d, %d, %d) is %s" % (t, a, b, c, "degenerate" if o == 0 else "clockwise")))
            if len(out) > 3:
                return out
        area2 += o
    for (u, v), uses in m.edge_use.items():
        if len(uses) > 2:
            out.append(("edge-multiplicity", "edge (%d, %d) belongs to %d elements" % (u, v, len(uses))))
            return out
        if len(uses) == 2 and (uses[0][1], uses[0][2]) == (uses[1][1], uses[1][2]):
            out.append(("edge-orientation", "edge (%d, %d) is traversed in the same sense by both its elements %d and %d (they overlap)" % (u, v, uses[0][0], uses[1][0])))
            return out
    if out:
        return out
    # boundary loops (edges used once, in the sense of their element): the enclosed area must equal the sum of the element areas
    nxt = {}
    for (u, v), uses in m.edge_use.items():
        if len(uses) == 1:
            _, a, b = uses[0]
            if a in nxt:
                # a vertex where two boundary loops touch: allowed in principle, but our generated domains have none
                nxt.setdefault(("multi", a), []).append(b)
            else:
                nxt[a] = b
    loop_area2 = Fraction(0)
    seen = set()
    for start in [k for k in nxt if not isinstance(k, tuple)]:
        if start in seen:
            continue
        k = start
        guard = 0
        while k not in seen:
            seen.add(k)
            if k not in nxt:
                return [("boundary", "the boundary edges do not form closed loops at node %d" % k)]
            j = nxt[k]
            loop_area2 += m.xyF[k][0] * m.xyF[j][1] - m.xyF[j][0] * m.xyF[k][1]
            k = j
            guard += 1
            if guard > len(nxt) + 5:
                break
    if loop_area2 != area2:
        out.append(("area-balance", "the elements have total area %.17g but their boundary loops enclose %.17g: elements overlap or leave gaps"
                    % (float(area2) / 2, float(loop_area2) / 2)))
    return out


def chain_on_line(m, i0, i1, tol_rel=1e-12):
    """path of mesh edges from node i0 to node i1 along the straight line between them; None if there is none.
    Greedy walk: from the current node take the neighbour that is (within rounding) on the line and closest ahead."""
    a, b = m.xy[i0], m.xy[i1]
    L = math.hypot(b[0] - a[0], b[1] - a[1])
    ux, uy = (b[0] - a[0]) / L, (b[1] - a[1]) / L
    path = [i0]
    cur = i0
    tcur = 0.0
    for _ in range(len(m.nodes)):
        if cur == i1:
            return path
        best = None
        for j in m.nbr.get(cur, ()):
            x, y = m.xy[j]
            t = (x - a[0]) * ux + (y - a[1]) * uy
            d = abs((x - a[0]) * uy - (y - a[1]) * ux)
            if d <= tol_rel * max(L, 1e-300) * 16 and t > tcur and t <= L * (1 + 1e-12):
                if best is None or t < best[0]:
                    best = (t, j)
        if best is None:
            return None
        tcur, cur = best
        path.append(cur)
    return None


def chain_on_arc(m, i0, i1, angle_deg, expected_vertices, tol_rel=1e-9):
    """path of mesh edges from i0 to i1 whose vertices are the prescribed chord vertices (expected_vertices: exact coordinates, in
    order) plus points ON the chords between them.  -> (path or None, message)"""
    stops = [m.xy[i0]] + list(expected_vertices) + [m.xy[i1]]
    index_of = {p: k for k, p in enumerate(m.xy)}
    path = [i0]
    for s in range(len(stops) - 1):
        pa, pb = stops[s], stops[s + 1]
        if pa not in index_of or pb not in index_of:
            missing = pa if pa not in index_of else pb
            return None, "prescribed chord vertex (%.17g, %.17g) is not a mesh node" % missing
        sub = chain_on_line(m, index_of[pa], index_of[pb])
        if sub is None:
            return None, "chord from (%.9g, %.9g) to (%.9g, %.9g) is not a chain of mesh edges" % (pa[0], pa[1], pb[0], pb[1])
        path += sub[1:]
    return path, ""


def min_angle_deg(m, t):
    a, b, c, _ = m.eles[t]
    P = [m.xy[a], m.xy[b], m.xy[c]]
    best = 180.0
    for i in range(3):
        p, q, r = P[i], P[(i + 1) % 3], P[(i + 2) % 3]
        v1 = (q[0] - p[0], q[1] - p[1])
        v2 = (r[0] - p[0], r[1] - p[1])
        ang = math.degrees(math.atan2(abs(v1[0] * v2[1] - v1[1] * v2[0]), v1[0] * v2[0] + v1[1] * v2[1]))
        best = min(best, ang)
    return best


def area(m, t):
    a, b, c, _ = m.eles[t]
    return float(orient(m.xyF[a], m.xyF[b], m.xyF[c])) / 2
