"""Independent assembly of the linear-triangle Galerkin equations in SI units (numpy), used as the
property oracle of C03 / C04 / C05 / C06 / C11 on the solution files the real solvers write.
Nothing here shares code or scaling conventions with the repository: lengths are converted to metres,
the weak forms are the textbook ones (DESIGN.md appendix D); assignments of boundary conditions,
conductors and point properties to mesh items are taken *geometrically* from the drawn entities of the
generated problem, not from mesh markers."""
import math
import numpy as np
import scipy.sparse as sp
from femmio import UNIT_M
import meshgeom

EPS0 = 8.85418781762e-12
MU0 = 4e-7 * math.pi
KSB = 5.67032e-8


class Mesh:
    """solution-file mesh in metres with the geometric classification of nodes and element sides"""

    def __init__(self, prob, sol):
        self.prob = prob
        u = UNIT_M[prob.units]
        self.u = u
        self.xy_units = np.array([[n[0], n[1]] for n in sol["nodes"]])
        self.xy = self.xy_units * u
        self.vals = [n[2:] for n in sol["nodes"]]
        self.els = np.array([[int(e[0]), int(e[1]), int(e[2])] for e in sol["elements"]], dtype=int)
        self.lbl = np.array([int(e[3]) for e in sol["elements"]], dtype=int)
        self.ents = meshgeom.Entities(prob)
        self.n = len(self.xy)
        x, y = self.xy[:, 0], self.xy[:, 1]
        p = self.els
        self.area = 0.5 * ((x[p[:, 1]] - x[p[:, 0]]) * (y[p[:, 2]] - y[p[:, 0]]) - (x[p[:, 2]] - x[p[:, 0]]) * (y[p[:, 1]] - y[p[:, 0]]))
        self._classify()

    def _classify(self):
        prob, ents = self.prob, self.ents
        tol_xy = [(float(a), float(b)) for a, b in self.xy_units]
        # nodes: drawn point at the node, entities through the node
        self.node_pt = [None] * self.n
        self.node_ents = [[] for _ in range(self.n)]
        # only nodes on the boundary of elements that touch entities matter; classify all (cheap enough for small meshes)
        for i, xy in enumerate(tol_xy):
            on = self._node_entities(xy)
            self.node_ents[i] = on
            for e in on:
                if e[0] == "pt":
                    self.node_pt[i] = e[1]
        # element sides on entities
        self.side_ent = {}
        for k, (a, b, c) in enumerate(self.els):
            for s, (i, j) in enumerate(((a, b), (b, c), (c, a))):
                common = [e for e in self.node_ents[i] if e[0] != "pt" and e in self.node_ents[j]]
                if common:
                    # both end nodes on the same entity: the side lies on it if it is a chord of that entity
                    ent = ents.edge_entity(tol_xy[i], tol_xy[j])
                    if ent is not None:
                        self.side_ent[(k, s)] = ent

    def _node_entities(self, xy):
        out = []
        ents = self.ents
        for i, p in enumerate(ents.pts):
            if abs(p[0] - xy[0]) <= 1e-9 * max(1.0, abs(p[0])) and abs(p[1] - xy[1]) <= 1e-9 * max(1.0, abs(p[1])):
                out.append(("pt", i))
        for i, s in enumerate(self.prob.segs):
            if meshgeom.on_segment(xy, ents.pts[s["n0"]], ents.pts[s["n1"]], 1e-9):
                out.append(("seg", i))
        for i, pts in enumerate(ents.chords):
            if any(meshgeom.on_segment(xy, pts[k], pts[k + 1], 1e-8) for k in range(len(pts) - 1)):
                out.append(("arc", i))
        return out

    def depth_el(self, k):
        if self.prob.ptype == "planar":
            return self.prob.depth * self.u
        r = self.xy[self.els[k], 0].mean()
        return 2 * math.pi * r

    def kelvin(self, k):
        """factor multiplying the material constant of element k: 1, or in the conformally mapped exterior region of an
        axisymmetric problem (block label flagged external; FEMM manual, appendix on the Kelvin transformation)
        Ri*Ro / |centroid - (0, Zo)|^2 with the centroid and Zo, Ro, Ri all in the same (length) units"""
        prob = self.prob
        if prob.ptype == "planar" or not getattr(prob, "ext", None) or not prob.labels[self.lbl[k]].get("ext"):
            return 1.0
        zo, ro, ri = prob.ext
        r, z = self.xy_units[self.els[k]].mean(axis=0)
        return ri * ro / (r * r + (z - zo) ** 2)

    def depth_edge(self, i, j):
        if self.prob.ptype == "planar":
            return self.prob.depth * self.u
        return math.pi * (self.xy[i, 0] + self.xy[j, 0])

    def depth_node(self, i):
        if self.prob.ptype == "planar":
            return self.prob.depth * self.u
        return 2 * math.pi * self.xy[i, 0]

    def grads(self, k):
        a, b, c = self.els[k]
        x, y = self.xy[:, 0], self.xy[:, 1]
        p = np.array([y[b] - y[c], y[c] - y[a], y[a] - y[b]])
        q = np.array([x[c] - x[b], x[a] - x[c], x[b] - x[a]])
        return p, q, self.area[k]


def electrostatics_system(mesh):
    """K (sparse, SI), f, fixed {node: V}, conductor membership {node: conductor index}"""
    prob = mesh.prob
    n = mesh.n
    rows, cols, vals = [], [], []
    f = np.zeros(n)
    for k in range(len(mesh.els)):
        lab = prob.labels[mesh.lbl[k]]
        mat = prob.blockprops[lab["block"]]
        p, q, a = mesh.grads(k)
        D = mesh.depth_el(k) * mesh.kelvin(k)
        Ke = D * EPS0 * (mat.get("ex", 1.0) * np.outer(p, p) + mat.get("ey", 1.0) * np.outer(q, q)) / (4 * a)
        idx = mesh.els[k]
        for i in range(3):
            f[idx[i]] += mesh.depth_el(k) * mat.get("qv", 0.0) * a / 3
            for j in range(3):
                rows.append(idx[i]); cols.append(idx[j]); vals.append(Ke[i, j])
    mesh.K_stiff = sp.csr_matrix((list(vals), (list(rows), list(cols))), shape=(n, n))
    # boundary terms, per element side lying on an entity with a boundary property
    done_type2 = set()
    for (k, s), ent in sorted(mesh.side_ent.items()):
        e = mesh.ents.get(ent)
        if e["bc"] < 0:
            continue
        bp = prob.bdryprops[e["bc"]]
        i, j = mesh.els[k][s], mesh.els[k][(s + 1) % 3]
        l = math.hypot(*(mesh.xy[i] - mesh.xy[j]))
        D = mesh.depth_edge(i, j)
        if bp["type"] == 1:
            c0, c1 = bp.get("c0", 0.0), bp.get("c1", 0.0)
            for (a_, b_, w) in ((i, i, 2), (j, j, 2), (i, j, 1), (j, i, 1)):
                rows.append(a_); cols.append(b_); vals.append(D * l * c0 * w / 6)
            f[i] -= D * l * c1 / 2
            f[j] -= D * l * c1 / 2
        elif bp["type"] == 2:
            key = (min(i, j), max(i, j))
            if key in done_type2:
                continue
            done_type2.add(key)
            f[i] += D * l * bp.get("qs", 0.0) / 2
            f[j] += D * l * bp.get("qs", 0.0) / 2
    fixed, cond = {}, {}
    for i in range(n):
        for ent in mesh.node_ents[i]:
            e = mesh.ents.get(ent)
            if ent[0] == "pt" and e["bc"] >= 0:
                pp = prob.pointprops[e["bc"]]
                if pp.get("q", 0.0) == 0:
                    fixed[i] = pp.get("V", 0.0)
                else:
                    f[i] += mesh.depth_node(i) * pp["q"]
            if ent[0] != "pt" and e["bc"] >= 0 and prob.bdryprops[e["bc"]]["type"] == 0:
                fixed[i] = prob.bdryprops[e["bc"]].get("Vs", 0.0)
        for ent in mesh.node_ents[i]:
            e = mesh.ents.get(ent)
            if e["cond"] >= 0:
                cond[i] = e["cond"]
    for i, c in cond.items():
        if prob.circprops[c].get("type", 1) == 1:
            fixed[i] = prob.circprops[c].get("V", 0.0)
    K = sp.csr_matrix((vals, (rows, cols)), shape=(n, n))
    return K, f, fixed, cond


def check_solution(K, f, V, fixed, cond, circprops, reported=None, tol=1e-6, K_stiff=None, f_abs=None):
    """-> list of findings (strings + data).  Scale-aware residual test at the free nodes, prescribed values,
    equipotential floating conductors with their prescribed charge, reported conductor charges."""
    out = []
    n = len(V)
    r = K @ V - f
    if not np.all(np.isfinite(V)) or not np.all(np.isfinite(r)):
        bad = int(np.argmax(~np.isfinite(V))) if not np.all(np.isfinite(V)) else int(np.argmax(~np.isfinite(r)))
        return [("non-finite", "the written solution (or the system it is checked against) is not finite at node %d: value %s" % (bad, V[bad]), dict(node=bad))], \
            dict(global_residual=float("nan"), worst_row=None, trivial=False, charges={})
    # row scale: the magnitudes of the terms that meet in the row; `f_abs` = the sources BEFORE they cancel (a circuit whose voltage
    # offsets the block's own current density leaves a net source many orders below either part, and the solver converges relative
    # to the parts)
    absrow = abs(K) @ np.abs(V) + (np.abs(f) if f_abs is None else np.maximum(np.abs(f), f_abs))
    floating = {i: c for i, c in cond.items() if circprops[c].get("type", 1) == 0}
    free = [i for i in range(n) if i not in fixed and i not in floating]
    # excitation scale of the problem: prescribed values, sources, conductor charges
    # (every prescribed conductor voltage counts, attached to the mesh or not: it is part of the system the
    #  solver's convergence test is relative to)
    vref = max([abs(v) for v in fixed.values()] + [abs(cp.get("V", 0.0)) for cp in circprops if cp.get("type", 1) == 1] + [0.0])
    qref = max([abs(cp.get("q", 0.0)) for cp in circprops if cp.get("type", 1) == 0] + [0.0])
    kdiag = float(abs(K).max())
    excitation = max(kdiag * vref, float(np.abs(f).max()), qref)
    scale = max(absrow.max(), excitation, 1e-300)
    res = dict(global_residual=0.0, worst_row=None, trivial=excitation == 0.0)
    if excitation == 0.0:
        # nothing drives the problem: the field must vanish
        if np.abs(V).max() > 1e-9:
            out.append(("zero-excitation", "no excitation but max|V| = %.3g" % np.abs(V).max(), {}))
        res["charges"] = {}
        return out, res
    # the solver converges relative to the whole system (Precision * |b|): rows whose own magnitude is far below the
    # excitation scale cannot be resolved better than that, so the row scale is floored at 1e-3 of the excitation scale
    rownorm = np.maximum(absrow, 1e-3 * scale)
    gnorm = np.linalg.norm(r[free]) / max(np.linalg.norm(absrow[free]), 1e-3 * scale * math.sqrt(max(len(free), 1))) if free else 0.0
    worst = max(free, key=lambda i: abs(r[i]) / rownorm[i]) if free else None
    res["global_residual"] = float(gnorm)
    if worst is not None:
        res["worst_row"] = (int(worst), float(abs(r[worst]) / rownorm[worst]))
    if gnorm > tol:
        out.append(("residual", "free-node Galerkin residual %.3g (tolerance %.3g), worst row %s" % (gnorm, tol, res["worst_row"]), res))
    vscale = max(np.abs(V).max(), 1e-300)
    for i, v in fixed.items():
        if abs(V[i] - v) > 1e-9 * max(vscale, abs(v)):
            out.append(("prescribed-value", "node %d holds %.12g, prescribed %.12g" % (i, V[i], v), dict(node=int(i))))
            break
    charges = {}
    for c, cp in enumerate(circprops):
        members = [i for i, cc in cond.items() if cc == c]
        if not members:
            continue
        q = float(sum(r[i] for i in members))
        charges[c] = q
        qscale = max(float(sum(absrow[i] for i in members)), 1e-6 * scale) + 1e-300
        if cp.get("type", 1) == 0:
            vv = [V[i] for i in members]
            if max(vv) - min(vv) > 1e-9 * vscale:
                out.append(("floating-not-equipotential", "floating conductor %d spans %.3g V" % (c, max(vv) - min(vv)), dict(conductor=c)))
            if abs(q - cp.get("q", 0.0)) > 100 * tol * qscale:
                out.append(("floating-charge", "floating conductor %d carries %.6g, prescribed %.6g" % (c, q, cp.get("q", 0.0)), dict(conductor=c)))
        elif reported is not None and c < len(reported):
            # the reported charge is the flux integral of the potentials, int eps grad V . grad P_c, i.e. the
            # stiffness part of the reaction (charges sitting on the conductor's own nodes are not part of it)
            qf = float(sum((K_stiff @ V)[i] for i in members)) if K_stiff is not None else q
            if abs(qf - reported[c]) > 100 * tol * qscale:
                out.append(("reported-charge", "conductor %d: reported %.9g, flux implied by the potentials %.9g" % (c, reported[c], qf), dict(conductor=c)))
    res["charges"] = charges
    return out, res


# ------------------------------------------------------------------------------------------------ heat flow
def getk(mat, T):
    """piecewise-linear, clamped k(T) of a heat material: (kx, ky)"""
    tk = mat.get("TK", [])
    if not tk:
        return mat.get("Kx", 1.0), mat.get("Ky", 1.0)
    if len(tk) == 1 or T <= tk[0][0]:
        return tk[0][1], tk[0][1]
    if T >= tk[-1][0]:
        return tk[-1][1], tk[-1][1]
    for (t0, k0), (t1, k1) in zip(tk[:-1], tk[1:]):
        if t0 <= T <= t1:
            k = k0 + (k1 - k0) * (T - t0) / (t1 - t0)
            return k, k
    return mat.get("Kx", 1.0), mat.get("Ky", 1.0)


def heat_system(mesh, T, Tprev=None):
    """nonlinear Galerkin equations of div(k grad T) + q = C dT/dt evaluated AT the temperature field T:
    K(T) (sparse, SI), f(T); radiation enters through its exact value beta*sigma*(T_m^4 - Tinf^4) at the edge mean
    temperature written as c0(T_m)*T + c1(T_m) (identical at a fixed point of the iteration)"""
    prob = mesh.prob
    n = mesh.n
    rows, cols, vals = [], [], []
    f = np.zeros(n)
    axi = prob.ptype != "planar"
    for k in range(len(mesh.els)):
        lab = prob.labels[mesh.lbl[k]]
        mat = prob.blockprops[lab["block"]]
        idx = mesh.els[k]
        ks = [getk(mat, T[i]) for i in idx]
        kx = sum(a for a, _ in ks) / 3
        ky = sum(b for _, b in ks) / 3
        p, q, a = mesh.grads(k)
        D = mesh.depth_el(k)
        Ke = D * mesh.kelvin(k) * (kx * np.outer(p, p) + ky * np.outer(q, q)) / (4 * a)
        for i in range(3):
            f[idx[i]] += D * mat.get("qv", 0.0) * a / 3
            for j in range(3):
                rows.append(idx[i]); cols.append(idx[j]); vals.append(Ke[i, j])
            if prob.dt != 0 and Tprev is not None:
                m = D * mat.get("Kt", 0.0) * a / (3 * prob.dt)      # lumped capacity
                rows.append(idx[i]); cols.append(idx[i]); vals.append(m)
                f[idx[i]] += m * Tprev[idx[i]]
    mesh.K_stiff = sp.csr_matrix((list(vals), (list(rows), list(cols))), shape=(n, n))
    for (k, s), ent in sorted(mesh.side_ent.items()):
        e = mesh.ents.get(ent)
        if e["bc"] < 0:
            continue
        bp = prob.bdryprops[e["bc"]]
        i, j = mesh.els[k][s], mesh.els[k][(s + 1) % 3]
        l = math.hypot(*(mesh.xy[i] - mesh.xy[j]))
        t = bp["type"]
        if t == 1:
            c0, c1 = 0.0, bp.get("qs", 0.0)
        elif t == 2:
            c0, c1 = bp.get("h", 0.0), -bp.get("h", 0.0) * bp.get("Tinf", 0.0)
        elif t == 3:
            Tm = (T[i] + T[j]) / 2
            c0 = 4 * bp.get("beta", 0.0) * KSB * Tm ** 3
            c1 = -bp.get("beta", 0.0) * KSB * (bp.get("Tinf", 0.0) ** 4 + 3 * Tm ** 4)
        else:
            continue
        if axi:
            ri, rj = mesh.xy[i, 0], mesh.xy[j, 0]
            w = 2 * math.pi * c0 * l
            for (a_, b_, wt) in ((i, i, (3 * ri + rj) / 12), (j, j, (ri + 3 * rj) / 12), (i, j, (ri + rj) / 12), (j, i, (ri + rj) / 12)):
                rows.append(a_); cols.append(b_); vals.append(w * wt)
            f[i] -= 2 * math.pi * c1 * l * (2 * ri + rj) / 6
            f[j] -= 2 * math.pi * c1 * l * (ri + 2 * rj) / 6
        else:
            D = prob.depth * mesh.u
            for (a_, b_, wt) in ((i, i, 2), (j, j, 2), (i, j, 1), (j, i, 1)):
                rows.append(a_); cols.append(b_); vals.append(D * l * c0 * wt / 6)
            f[i] -= D * l * c1 / 2
            f[j] -= D * l * c1 / 2
    fixed, cond = {}, {}
    for i in range(n):
        for ent in mesh.node_ents[i]:
            e = mesh.ents.get(ent)
            if ent[0] == "pt" and e["bc"] >= 0:
                pp = prob.pointprops[e["bc"]]
                if pp.get("q", 0.0) == 0:
                    fixed[i] = pp.get("V", 0.0)
                else:
                    f[i] += mesh.depth_node(i) * pp["q"]
            if ent[0] != "pt" and e["bc"] >= 0 and prob.bdryprops[e["bc"]]["type"] == 0:
                fixed[i] = prob.bdryprops[e["bc"]].get("Tset", 0.0)
        for ent in mesh.node_ents[i]:
            e = mesh.ents.get(ent)
            if e["cond"] >= 0:
                cond[i] = e["cond"]
    for i, c in cond.items():
        if prob.circprops[c].get("type", 1) == 1:
            fixed[i] = prob.circprops[c].get("V", 0.0)
    K = sp.csr_matrix((vals, (rows, cols)), shape=(n, n))
    return K, f, fixed, cond


# ------------------------------------------------------------------------------------------------ magnetics (planar)
def lam_mu(mat):
    """effective relative permeabilities (mu1 along x, mu2 along y) of a linear, possibly laminated material"""
    t = mat.get("LamFill", 1.0)
    lt = mat.get("LamType", 0)
    mx, my = mat.get("Mu_x", 1.0), mat.get("Mu_y", 1.0)
    if lt == 0:
        return mx * t + (1 - t), my * t + (1 - t)
    if lt == 1:
        return mx * t + (1 - t), mx / (t + mx * (1 - t))
    if lt == 2:
        return my / (t + my * (1 - t)), my * t + (1 - t)
    return 1.0, 1.0


def label_sigma(prob, l):
    """bulk conductivity (S/m) of the region of label l: a wound region (|turns| > 1 in a circuit) is stranded and
    carries no bulk eddy / conduction current"""
    lab = prob.labels[l]
    if lab["circ"] >= 0 and abs(lab["turns"]) > 1:
        return 0.0
    return prob.blockprops[lab["block"]].get("Sigma", 0.0) * 1e6


def circuit_current_densities(mesh):
    """additional current density (A/m^2) per label from the circuit properties: a series circuit drives every one
    of its labels with I*turns; a parallel circuit shares I over all its labels; the current of a region spreads
    uniformly if none of it conducts, otherwise proportionally to the conductivity"""
    prob = mesh.prob
    nl = len(prob.labels)
    area = np.zeros(nl); cond_area = np.zeros(nl); jb = np.zeros(nl)
    for k in range(len(mesh.els)):
        l = mesh.lbl[k]
        mat = prob.blockprops[prob.labels[l]["block"]]
        area[l] += mesh.area[k]
        cond_area[l] += mesh.area[k] * label_sigma(prob, l)
        jb[l] += mesh.area[k] * mat.get("J_re", 0.0) * 1e6
    J = {}
    for c, cp in enumerate(prob.circprops):
        labs = [l for l in range(nl) if prob.labels[l]["circ"] == c]
        if not labs:
            continue
        groups = [[l] for l in labs] if cp.get("type", 1) == 1 else [labs]
        for g in groups:
            turns = prob.labels[g[0]]["turns"] if cp.get("type", 1) == 1 else 1
            I = cp.get("I_re", 0.0) * turns
            A = sum(area[l] for l in g); CA = sum(cond_area[l] for l in g); JB = sum(jb[l] for l in g)
            for l in g:
                sig = label_sigma(prob, l)
                if CA == 0:
                    J[l] = ("J", (I - JB) / A if A else 0.0)
                else:
                    J[l] = ("sigma", sig * (I - JB) / CA)
    return J


def magnet_direction(lab, centroid):
    """direction of magnetisation in degrees: the label's angle, or its expression in x, y, r, z, theta (degrees), R
    evaluated at the element centroid in length units (FEMM manual, block label dialog).  The expressions generated by
    the checks are arithmetic that reads the same in Lua and in Python."""
    fn = lab.get("magdirfctn", "")
    if not fn:
        return lab.get("magdir", 0.0)
    cx, cy = float(centroid[0]), float(centroid[1])
    env = dict(x=cx, y=cy, r=cx, z=cy, theta=math.degrees(math.atan2(cy, cx)), R=math.hypot(cx, cy))
    return float(eval(fn, {"__builtins__": {}}, env))


def magnetostatic_system(mesh):
    prob = mesh.prob
    n = mesh.n
    rows, cols, vals = [], [], []
    f = np.zeros(n)
    Jc = circuit_current_densities(mesh)
    for k in range(len(mesh.els)):
        l = mesh.lbl[k]
        lab = prob.labels[l]
        mat = prob.blockprops[lab["block"]]
        mu1, mu2 = lam_mu(mat)
        p, q, a = mesh.grads(k)
        Ke = (np.outer(p, p) / (MU0 * mu2) + np.outer(q, q) / (MU0 * mu1)) / (4 * a)
        idx = mesh.els[k]
        J = mat.get("J_re", 0.0) * 1e6 + (Jc[l][1] if l in Jc else 0.0)
        for i in range(3):
            f[idx[i]] += J * a / 3
            for j in range(3):
                rows.append(idx[i]); cols.append(idx[j]); vals.append(Ke[i, j])
        hc = mat.get("H_c", 0.0)
        if hc != 0:
            th = math.radians(magnet_direction(lab, mesh.xy_units[list(idx)].mean(axis=0)))
            for s in range(3):
                i, j = idx[s], idx[(s + 1) % 3]
                dx, dy = mesh.xy[j] - mesh.xy[i]
                v = 0.5 * hc * (math.cos(th) * dx + math.sin(th) * dy)
                f[i] -= v
                f[j] -= v
    for (k, s), ent in sorted(mesh.side_ent.items()):
        e = mesh.ents.get(ent)
        if e["bc"] < 0:
            continue
        bp = prob.bdryprops[e["bc"]]
        if bp["type"] != 2:
            continue
        i, j = mesh.els[k][s], mesh.els[k][(s + 1) % 3]
        l = math.hypot(*(mesh.xy[i] - mesh.xy[j]))
        c0, c1 = bp.get("c0", 0.0), bp.get("c1", 0.0)
        for (a_, b_, w) in ((i, i, 2), (j, j, 2), (i, j, 1), (j, i, 1)):
            rows.append(a_); cols.append(b_); vals.append(l * c0 * w / 6)
        f[i] -= l * c1 / 2
        f[j] -= l * c1 / 2
    fixed = {}
    for i in range(n):
        x, y = mesh.xy_units[i]
        for ent in mesh.node_ents[i]:
            e = mesh.ents.get(ent)
            if ent[0] == "pt" and e["bc"] >= 0:
                pp = prob.pointprops[e["bc"]]
                if pp.get("I_re", 0.0) == 0 and pp.get("I_im", 0.0) == 0:
                    fixed[i] = pp.get("A_re", 0.0)
                else:
                    f[i] += pp.get("I_re", 0.0)
        for ent in mesh.node_ents[i]:
            e = mesh.ents.get(ent)
            if ent[0] != "pt" and e["bc"] >= 0 and prob.bdryprops[e["bc"]]["type"] == 0:
                bp = prob.bdryprops[e["bc"]]
                if prob.coords == "cartesian":
                    a = bp.get("A_0", 0.0) + x * bp.get("A_1", 0.0) + y * bp.get("A_2", 0.0)
                else:
                    r = math.hypot(x, y)
                    t = 0.0 if (x == 0 and y == 0) else math.degrees(math.atan2(y, x))
                    a = bp.get("A_0", 0.0) + r * bp.get("A_1", 0.0) + t * bp.get("A_2", 0.0)
                fixed[i] = a * math.cos(math.radians(bp.get("Phi", 0.0)))
    K = sp.csr_matrix((vals, (rows, cols)), shape=(n, n))
    return K, f, fixed, Jc


def harmonic_mu(mat, w):
    """complex effective relative permeabilities of a linear material in a time-harmonic problem (FEMM manual, "laminations" and
    "hysteresis lag"): mu e^{-j theta} for a solid material; for laminations in the plane of thickness d, conductivity sigma and
    fill t, mu e^{-j theta} tanh(K)/K t + (1 - t) with K = e^{-j theta/2} (1 + j) d / (2 delta), delta = sqrt(2 / (w sigma mu0 mu));
    (0.4*pi = mu0 * 1e6 (S/m per MS/m) in the solver's own constant)"""
    import cmath
    out = []
    lt = mat.get("LamType", 0)
    if lt != 0:
        return 1.0, 1.0        # stranded regions without proximity effect (types 1, 2 are refused by the solver)
    t = mat.get("LamFill", 1.0)
    d = mat.get("d_lam", 0.0) * 1e-3
    sig = mat.get("Sigma", 0.0) * 1e6
    for mu, th in ((mat.get("Mu_x", 1.0), mat.get("Phi_hx", 0.0)), (mat.get("Mu_y", 1.0), mat.get("Phi_hy", 0.0))):
        th = math.radians(th)
        m = mu * cmath.exp(-1j * th)
        if d != 0:
            if sig != 0:
                delta = math.sqrt(2.0 / (w * sig * MU0 * mu))
                K = cmath.exp(-1j * th / 2) * (1 + 1j) * d / (2 * delta)
                m = m * cmath.tanh(K) / K * t + (1 - t)
            else:
                m = m * t + (1 - t)
        out.append(m)
    return out[0], out[1]


def harmonic_system(mesh, records, prox=None, f_abs_out=None):
    """time-harmonic planar magnetics, linear unlaminated materials: (K + j w sigma M) A = J_block + J_applied with the
    per-label applied current density taken from the records written with the solution (case 0: -sigma*dV, case 1: J)"""
    prob = mesh.prob
    n = mesh.n
    w = 2 * math.pi * prob.freq
    rows, cols, vals = [], [], []
    f = np.zeros(n, dtype=complex)
    mass = np.array([[2, 1, 1], [1, 2, 1], [1, 1, 2]]) / 12.0
    for k in range(len(mesh.els)):
        l = mesh.lbl[k]
        lab = prob.labels[l]
        mat = prob.blockprops[lab["block"]]
        mu1, mu2 = harmonic_mu(mat, w)
        if mat.get("LamType", 0) > 2 and prox is not None and l in prox:
            # stranded region: the proximity-effect permeability is a curve fit of the code (GetFillFactor), taken as given
            mu1 = mu2 = prox[l]
        sig = label_sigma(prob, l)
        if mat.get("LamType", 0) == 0 and mat.get("d_lam", 0.0) > 0:
            sig = 0.0          # in-plane laminations: eddy currents live in the complex permeability
        if mat.get("LamType", 0) > 2:
            sig = 0.0          # stranded conductors carry no bulk eddy currents
        p, q, a = mesh.grads(k)
        with np.errstate(all="ignore"):
            Ke = (np.outer(p, p) / (MU0 * mu2) + np.outer(q, q) / (MU0 * mu1)) / (4 * a) + 1j * w * sig * a * mass
        idx = mesh.els[k]
        case, val = records[l]
        Jadd = (-sig * val) if case == 0 else val * 1e6
        J = (mat.get("J_re", 0.0) + 1j * mat.get("J_im", 0.0)) * 1e6 + Jadd
        if f_abs_out is not None:
            if not f_abs_out:
                f_abs_out.append(np.zeros(n))
            for i in range(3):
                f_abs_out[0][idx[i]] += (abs((mat.get("J_re", 0.0) + 1j * mat.get("J_im", 0.0)) * 1e6) + abs(Jadd)) * a / 3
        for i in range(3):
            f[idx[i]] += J * a / 3
            for j in range(3):
                rows.append(idx[i]); cols.append(idx[j]); vals.append(Ke[i, j])
    for (k, s), ent in sorted(mesh.side_ent.items()):
        e = mesh.ents.get(ent)
        if e["bc"] < 0:
            continue
        bp = prob.bdryprops[e["bc"]]
        if bp["type"] not in (1, 2):
            continue
        i, j = mesh.els[k][s], mesh.els[k][(s + 1) % 3]
        l = math.hypot(*(mesh.xy[i] - mesh.xy[j]))
        if bp["type"] == 1:
            # small skin depth: (1/mu0) dA/dn + (1 + j) / (mu0 mu_r delta) A = 0
            delta = math.sqrt(2.0 / (w * bp.get("Sigma_ssd", 0.0) * 1e6 * MU0 * bp.get("Mu_ssd", 0.0)))
            c0 = (1 + 1j) / (MU0 * bp.get("Mu_ssd", 0.0) * delta)
            c1 = 0.0
        else:
            c0 = bp.get("c0", 0.0) + 1j * bp.get("c0i", 0.0)
            c1 = bp.get("c1", 0.0) + 1j * bp.get("c1i", 0.0)
        for (a_, b_, wt) in ((i, i, 2), (j, j, 2), (i, j, 1), (j, i, 1)):
            rows.append(a_); cols.append(b_); vals.append(l * c0 * wt / 6)
        f[i] -= l * c1 / 2
        f[j] -= l * c1 / 2
    fixed = {}
    for i in range(n):
        x, y = mesh.xy_units[i]
        for ent in mesh.node_ents[i]:
            e = mesh.ents.get(ent)
            if ent[0] == "pt" and e["bc"] >= 0:
                pp = prob.pointprops[e["bc"]]
                if pp.get("I_re", 0.0) == 0 and pp.get("I_im", 0.0) == 0:
                    fixed[i] = pp.get("A_re", 0.0) + 1j * pp.get("A_im", 0.0)
                else:
                    f[i] += pp.get("I_re", 0.0) + 1j * pp.get("I_im", 0.0)
        for ent in mesh.node_ents[i]:
            e = mesh.ents.get(ent)
            if ent[0] != "pt" and e["bc"] >= 0 and prob.bdryprops[e["bc"]]["type"] == 0:
                bp = prob.bdryprops[e["bc"]]
                a = bp.get("A_0", 0.0) + x * bp.get("A_1", 0.0) + y * bp.get("A_2", 0.0)
                ph = math.radians(bp.get("Phi", 0.0))
                fixed[i] = a * (math.cos(ph) + 1j * math.sin(ph))
    K = sp.csr_matrix((vals, (rows, cols)), shape=(n, n))
    return K, f, fixed


def circuit_totals(mesh, records, A):
    """total current (A) carried by each label region in a harmonic solution: int (J_block + J_applied - j w sigma A)"""
    prob = mesh.prob
    w = 2 * math.pi * prob.freq
    tot = {}
    for k in range(len(mesh.els)):
        l = mesh.lbl[k]
        mat = prob.blockprops[prob.labels[l]["block"]]
        sig = label_sigma(prob, l)
        case, val = records[l]
        Jadd = (-sig * val) if case == 0 else val * 1e6
        J = (mat.get("J_re", 0.0) + 1j * mat.get("J_im", 0.0)) * 1e6 + Jadd
        a = mesh.area[k]
        Aavg = A[mesh.els[k]].mean()
        tot[l] = tot.get(l, 0) + (J - 1j * w * sig * Aavg) * a
    return tot
