"""Problem generators shared by the checks (DESIGN.md 2.7).  Every random choice comes from the rng passed in.
A generated problem carries, besides the femmio.Problem, the *intended meaning* used by the oracles:
  regions : list of dict(outer=[(x,y)...], inner=[[...]...], label=index into problem.labels or None (hole/unlabelled))
  entity meaning is read directly from problem.nodes/segs/arcs (bc, cond indices).
Coordinates are small dyadic numbers so that exact-arithmetic oracles are cheap and the mesher copies them verbatim."""
import math
from femmio import Problem, UNITS


def q(x, den=8):
    return round(x * den) / den


def rect_loop(x0, y0, x1, y1):
    return [(x0, y0), (x1, y0), (x1, y1), (x0, y1)]


class Builder:
    def __init__(self, kind, rng):
        self.p = Problem(kind)
        self.rng = rng
        self.regions = []
        self.node_index = {}
        self.seg_index = {}

    def node(self, x, y):
        k = (x, y)
        if k not in self.node_index:
            self.node_index[k] = self.p.add_node(x, y)
        return self.node_index[k]

    def seg(self, a, b, **kw):
        k = (min(a, b), max(a, b))
        if k not in self.seg_index:
            if self.rng.random() < 0.5:
                a, b = b, a
            self.seg_index[k] = self.p.add_seg(a, b, **kw)
        return self.seg_index[k]

    def loop(self, pts, **kw):
        ids = [self.node(x, y) for (x, y) in pts]
        return [self.seg(ids[i], ids[(i + 1) % len(ids)], **kw) for i in range(len(ids))]


def materials(kind, rng, n):
    out = []
    for i in range(n):
        name = "mat%d" % i
        if kind == "e":
            ex = rng.choice([1.0, 2.0, 4.0, 7.5])
            out.append(dict(name=name, ex=ex, ey=ex if rng.random() < 0.6 else rng.choice([1.0, 3.0, 5.0]),
                            qv=0.0 if rng.random() < 0.6 else rng.choice([1e-6, -2e-6, 5e-7])))
        elif kind == "h":
            kx = rng.choice([0.5, 1.0, 10.0, 45.0])
            out.append(dict(name=name, Kx=kx, Ky=kx if rng.random() < 0.6 else rng.choice([0.2, 2.0, 30.0]), Kt=0.0,
                            qv=0.0 if rng.random() < 0.6 else rng.choice([100.0, 1000.0, -50.0])))
        else:
            mu = rng.choice([1.0, 1.0, 100.0, 500.0, 2000.0])
            m = dict(name=name, Mu_x=mu, Mu_y=mu if rng.random() < 0.6 else rng.choice([1.0, 50.0, 200.0]),
                     J_re=0.0 if rng.random() < 0.5 else rng.choice([1.0, -2.5, 0.5]))
            r = rng.random()
            if r < 0.2:
                m["H_c"] = rng.choice([1e5, 5e5, 9e5])
            elif r < 0.45:
                m["LamType"] = rng.choice([0, 1, 2])
                m["LamFill"] = rng.choice([0.5, 0.9, 0.98])
            if rng.random() < 0.3:
                m["Sigma"] = rng.choice([1.0, 10.0, 58.0])
            out.append(m)
    return out


def bdry(kind, rng, name, t):
    """boundary property of the requested generic flavour: 'fixed', 'mixed', 'flux'"""
    if kind == "e":
        if t == "fixed":
            return dict(name=name, type=0, Vs=rng.choice([0.0, 10.0, -5.0, 100.0]))
        if t == "mixed":
            return dict(name=name, type=1, c0=rng.choice([1e-10, 5e-11]), c1=rng.choice([0.0, 1e-9]))
        return dict(name=name, type=2, qs=rng.choice([1e-8, -3e-8]))
    if kind == "h":
        if t == "fixed":
            return dict(name=name, type=0, Tset=rng.choice([300.0, 350.0, 280.0]))
        if t == "mixed":
            return dict(name=name, type=2, h=rng.choice([5.0, 25.0]), Tinf=rng.choice([290.0, 300.0]))
        return dict(name=name, type=1, qs=rng.choice([100.0, -50.0]))
    if t == "fixed":
        return dict(name=name, type=0, A_0=rng.choice([0.0, 0.0, 1e-3]), A_1=rng.choice([0.0, 1e-3]), A_2=rng.choice([0.0, -2e-3]))
    return dict(name=name, type=2, c0=rng.choice([1e5, 1e6]), c1=rng.choice([0.0, 10.0]))


def gen_rects(kind, rng, units=None, assign=True, mix=False):
    """outer box, grid of disjoint inner boxes: material regions, holes (conductors) or nested boxes;
    optionally a vertical interface splitting the background"""
    b = Builder(kind, rng)
    p = b.p
    p.units = units or rng.choice(UNITS)
    p.depth = rng.choice([1.0, 2.5, 10.0])
    p.minangle = rng.choice([20.0, 25.0, 30.0, 33.0])
    W, H = rng.randint(4, 10), rng.randint(3, 8)
    nmat = rng.randint(2, 4)
    p.blockprops = materials(kind, rng, nmat)
    # boundary / conductor / point properties in random definition order
    p.bdryprops = [bdry(kind, rng, "bFixed", "fixed"), bdry(kind, rng, "bMixed", "mixed")]
    if kind != "m":
        p.bdryprops.append(bdry(kind, rng, "bFlux", "flux"))
    rng.shuffle(p.bdryprops)
    bidx = {bp["name"]: i for i, bp in enumerate(p.bdryprops)}
    if kind == "m":
        p.circprops = [dict(name="c%d" % i, I_re=rng.choice([1.0, -2.0, 0.5]), type=rng.choice([0, 1])) for i in range(rng.randint(0, 2))]
        p.pointprops = [dict(name="pp0", A_re=0.0, I_re=rng.choice([0.0, 0.5]))]
    else:
        p.circprops = [dict(name="c%d" % i, V=rng.choice([0.0, 10.0, 50.0, 320.0]), q=0.0, type=1) for i in range(rng.randint(1, 3))]
        if rng.random() < 0.5:
            p.circprops.append(dict(name="cq", V=0.0, q=rng.choice([1e-9, -2e-9]) if kind == "e" else rng.choice([5.0, -3.0]), type=0))
        p.pointprops = [dict(name="pp0", V=rng.choice([0.0, 5.0, 300.0]), q=0.0),
                        dict(name="pp1", V=0.0, q=rng.choice([1e-9, -1e-9]) if kind == "e" else rng.choice([2.0, -1.0]))]
    # geometry
    outer = rect_loop(0.0, 0.0, float(W), float(H))
    osegs = b.loop(outer)
    gx, gy = rng.randint(1, 3), rng.randint(1, 2)
    cw, ch = W / gx, H / gy
    inner_loops = []
    boxes = []
    for i in range(gx):
        for j in range(gy):
            if rng.random() < 0.65:
                x0 = q(i * cw + cw * rng.uniform(0.15, 0.3)); x1 = q(i * cw + cw * rng.uniform(0.6, 0.85))
                y0 = q(j * ch + ch * rng.uniform(0.15, 0.3)); y1 = q(j * ch + ch * rng.uniform(0.6, 0.85))
                if x1 - x0 >= 0.25 and y1 - y0 >= 0.25:
                    boxes.append((x0, y0, x1, y1))
    bg_holes = []
    used_cond = 0
    for (x0, y0, x1, y1) in boxes:
        lp = rect_loop(x0, y0, x1, y1)
        sg = b.loop(lp)
        role = rng.choice(["material", "hole", "nested"]) if kind != "m" else rng.choice(["material", "material", "nested"])
        bg_holes.append(lp)
        if role == "hole":
            p.add_hole((x0 + x1) / 2, (y0 + y1) / 2)
            b.regions.append(dict(outer=lp, inner=[], label=None, role="hole"))
            if assign and p.circprops:
                c = used_cond % len(p.circprops)
                used_cond += 1
                for s in sg:
                    p.segs[s]["cond"] = c
        elif role == "material":
            li = p.add_label((x0 + x1) / 2, (y0 + y1) / 2, rng.randrange(nmat),
                             meshsize=rng.choice([-1.0, -1.0, 0.5, 0.25]))
            b.regions.append(dict(outer=lp, inner=[], label=li, role="material"))
        else:
            mx0, mx1 = q(x0 + (x1 - x0) * 0.3, 16), q(x0 + (x1 - x0) * 0.7, 16)
            my0, my1 = q(y0 + (y1 - y0) * 0.3, 16), q(y0 + (y1 - y0) * 0.7, 16)
            if mx1 - mx0 > 0.1 and my1 - my0 > 0.1:
                ilp = rect_loop(mx0, my0, mx1, my1)
                b.loop(ilp)
                li2 = p.add_label((mx0 + mx1) / 2, (my0 + my1) / 2, rng.randrange(nmat))
                b.regions.append(dict(outer=ilp, inner=[], label=li2, role="material"))
                li = p.add_label(q((x0 + mx0) / 2, 64), (y0 + y1) / 2, rng.randrange(nmat))
                b.regions.append(dict(outer=lp, inner=[ilp], label=li, role="material"))
            else:
                li = p.add_label((x0 + x1) / 2, (y0 + y1) / 2, rng.randrange(nmat))
                b.regions.append(dict(outer=lp, inner=[], label=li, role="material"))
    # background label: somewhere not inside a box: left-bottom corner strip
    bx, by = 0.0625, 0.0625
    li = p.add_label(bx, by, rng.randrange(nmat), meshsize=rng.choice([-1.0, 1.0, 0.5]))
    b.regions.append(dict(outer=outer, inner=bg_holes, label=li, role="background"))
    if assign:
        # outer boundary: at least one fixed side
        kinds = ["bFixed", rng.choice(["bFixed", "bMixed", None]), rng.choice(["bFixed", "bMixed", "bFlux" if kind != "m" else None, None]),
                 rng.choice([None, "bMixed"])]
        rng.shuffle(kinds)
        for s, kn in zip(osegs, kinds):
            if kn is not None and kn in bidx:
                p.segs[s]["bc"] = bidx[kn]
        if mix and kind != "m" and p.circprops:
            # entities carrying BOTH a boundary property and a conductor, and nodes with both kinds of assignment
            for s in p.segs:
                if rng.random() < 0.35:
                    if s["bc"] >= 0 and s["cond"] < 0:
                        s["cond"] = rng.randrange(len(p.circprops))
                    elif s["cond"] >= 0 and s["bc"] < 0:
                        s["bc"] = rng.randrange(len(p.bdryprops))
            if p.pointprops:
                p.add_node(q(W - 0.5), q(H - 0.375), bc=rng.randrange(len(p.pointprops)), cond=rng.randrange(len(p.circprops)))
        # a point property on an extra node inside the background (not for conductor-less kinds)
        if rng.random() < 0.5 and p.pointprops:
            n = p.add_node(q(W - 0.125), q(H - 0.125), bc=rng.randrange(len(p.pointprops)))
        if kind != "m" and rng.random() < 0.3 and p.circprops:
            # a node that is itself a conductor
            p.add_node(q(W - 0.25), 0.125, cond=rng.randrange(len(p.circprops)))
        if kind == "m" and p.circprops:
            for lab in p.labels:
                if rng.random() < 0.4:
                    lab["circ"] = rng.randrange(len(p.circprops))
                    lab["turns"] = rng.choice([1, 10, -5])
    # shuffle definition order of labels (changes region attribute numbering)
    order = list(range(len(p.labels)))
    rng.shuffle(order)
    p.labels = [p.labels[i] for i in order]
    inv = {old: new for new, old in enumerate(order)}
    for r in b.regions:
        if r["label"] is not None:
            r["label"] = inv[r["label"]]
    p.regions = b.regions
    p.family = "rects"
    return p


def arc_points(c, r, a0, a1, n):
    return [(c[0] + r * math.cos(a0 + (a1 - a0) * k / n), c[1] + r * math.sin(a0 + (a1 - a0) * k / n)) for k in range(n + 1)]


def gen_disc(kind, rng, units=None):
    """a box containing a circle (two 180-degree arcs) that is a material region or a conductor hole"""
    b = Builder(kind, rng)
    p = b.p
    p.units = units or rng.choice(UNITS)
    p.minangle = rng.choice([20.0, 30.0])
    nmat = 2
    p.blockprops = materials(kind, rng, nmat)
    p.bdryprops = [bdry(kind, rng, "bFixed", "fixed")]
    if kind != "m":
        p.circprops = [dict(name="c0", V=rng.choice([10.0, 100.0]), q=0.0, type=1)]
    W = rng.randint(4, 8)
    outer = rect_loop(0.0, 0.0, float(W), float(W))
    for s in b.loop(outer):
        p.segs[s]["bc"] = 0
    cx = cy = W / 2
    r = rng.choice([0.5, 1.0, 1.25])
    n0 = b.node(cx - r, cy)
    n1 = b.node(cx + r, cy)
    maxseg = rng.choice([5.0, 10.0, 20.0, 7.0])
    a0 = p.add_arc(n0, n1, 180.0, maxseg)     # lower half, counter-clockwise from n0 to n1
    a1 = p.add_arc(n1, n0, 180.0, maxseg)
    nseg = math.ceil(180.0 / maxseg)
    lower = arc_points((cx, cy), r, math.pi, 2 * math.pi, nseg)
    upper = arc_points((cx, cy), r, 0.0, math.pi, nseg)
    circ = lower[:-1] + upper[:-1]
    role = rng.choice(["material", "hole"]) if kind != "m" else "material"
    if role == "hole":
        p.add_hole(cx, cy)
        p.arcs[a0]["cond"] = 0
        p.arcs[a1]["cond"] = 0
        b.regions.append(dict(outer=circ, inner=[], label=None, role="hole"))
    else:
        li = p.add_label(cx, cy, 1, meshsize=rng.choice([-1.0, 0.25]))
        b.regions.append(dict(outer=circ, inner=[], label=li, role="material"))
    li = p.add_label(0.125, 0.125, 0)
    b.regions.append(dict(outer=outer, inner=[circ], label=li, role="background"))
    p.regions = b.regions
    p.family = "disc"
    return p


def gen_any(kind, rng, units=None, mix=False):
    return gen_rects(kind, rng, units, mix=mix) if rng.random() < 0.7 else gen_disc(kind, rng, units)


def point_source_on_constrained(p, rng, prob=0.5):
    """electrostatics / heat flow: give an end point of a fixed-value segment (boundary type 0) or of a fixed-value conductor a point
    property with a NON-ZERO source.  The prescribed value of the segment / conductor still has to be met there (the source of a
    constrained node does not enter its equation)."""
    src = [i for i, pp in enumerate(p.pointprops) if pp.get("q", 0.0) != 0]
    cands = []
    for s in list(p.segs) + list(p.arcs):
        fixed_b = s["bc"] >= 0 and p.bdryprops[s["bc"]]["type"] == 0
        fixed_c = s["cond"] >= 0 and p.circprops[s["cond"]].get("type", 1) == 1
        if fixed_b or fixed_c:
            cands += [s["n0"], s["n1"]]
    cands = sorted(set(n for n in cands if p.nodes[n]["bc"] < 0))
    if src and cands and rng.random() < prob:
        p.nodes[rng.choice(cands)]["bc"] = rng.choice(src)
        return True
    return False


def use_all_bdry(p, types):
    """put every boundary property of the given types that no line carries onto a free line of the outer box (not on the axis of an
    axisymmetric problem): a condition that is defined but carried by nothing is not exercised"""
    used = {s["bc"] for s in p.segs if s["bc"] >= 0}
    n = 0
    for bi, b in enumerate(p.bdryprops):
        if b["type"] in types and bi not in used:
            free = [s for s in p.segs[:4] if s["bc"] < 0 and s.get("cond", -1) < 0 and
                    not (p.ptype == "axi" and p.nodes[s["n0"]]["x"] == 0 and p.nodes[s["n1"]]["x"] == 0)]
            if free:
                free[-1]["bc"] = bi
                used.add(bi)
                n += 1
    return n
