"""C07 — (anti)periodic boundaries pair the right nodes and the solution repeats.

stage A: Properties/C07.lean over Model/Periodic.lean and Model/Sparse.lean: pair bookkeeping (k+1 pairs, each node of either
         partner once), interior nodes of the second partner are the images of those of the first under any affine map
         taking end points to end points, arc nodes on the circle / equal chords / images under the rigid motion; self pairs:
         AntiPeriodicity(i,i) isolates the row with zero right-hand side, Periodicity(i,i) is the identity; with the C09
         theorems (equal / opposite values on tied pairs)
stage B: interior nodes of straight partners in the real .node / .pbc vs Model/Periodic.lean at Float, bit for bit
stage P: generated periodic cells (translational with one or two independent pairs sharing corners, rotational sectors with
         apex self pair or shaft hole, congruent arc sides) x three physics x periodic / antiperiodic: every mesh node on
         either partner is listed exactly once against its image under the rigid motion of the drawn geometry, flagged with
         the condition's sign; the solved potentials of every listed pair are equal / opposite; invalid assignments (three
         entities, line + arc, unequal lengths) are rejected by the mesher
"""
import math, os, shutil, subprocess, sys
sys.path.insert(0, os.path.join(os.path.dirname(os.path.dirname(os.path.abspath(__file__))), "harness", "py"))
from tools import vlib
from tools.vlib import d2tok, tok2d
import femmio
import cuthill_tie
from runner import Run

PER = {"m": (4, 5), "e": (3, 4), "h": (4, 5)}


def base_problem(kind, rng, anti):
    p = femmio.Problem(kind)
    p.units = rng.choice(["centimeters", "millimeters", "inches"])
    p.precision = 1e-10
    p.smartmesh = rng.choice([0, 1])
    p.minangle = rng.choice([20.0, 30.0])
    t = PER[kind][1 if anti else 0]
    if kind == "m":
        p.blockprops = [dict(name="air", Mu_x=1.0, Mu_y=1.0), dict(name="coil", Mu_x=1.0, Mu_y=1.0, J_re=rng.choice([1.0, -2.0])),
                        dict(name="iron", Mu_x=rng.choice([50.0, 500.0]), Mu_y=rng.choice([50.0, 500.0]))]
        p.bdryprops = [dict(name="per1", type=t), dict(name="per2", type=t), dict(name="zero", type=0)]
    elif kind == "e":
        p.blockprops = [dict(name="air", ex=1.0, ey=1.0), dict(name="charged", ex=2.0, ey=2.0, qv=rng.choice([1e-6, -2e-6])),
                        dict(name="diel", ex=rng.choice([3.0, 8.0]), ey=rng.choice([3.0, 8.0]))]
        p.bdryprops = [dict(name="per1", type=t), dict(name="per2", type=t), dict(name="zero", type=0, Vs=0.0)]
    else:
        p.blockprops = [dict(name="air", Kx=1.0, Ky=1.0), dict(name="heated", Kx=2.0, Ky=2.0, qv=rng.choice([1000.0, -500.0])),
                        dict(name="metal", Kx=rng.choice([20.0, 45.0]), Ky=rng.choice([20.0, 45.0]))]
        p.bdryprops = [dict(name="per1", type=t), dict(name="per2", type=t), dict(name="zero", type=0, Tset=0.0)]
    # half of the problems carry a source in the background region too, i.e. in the elements next to the paired sides: the right-hand
    # sides of tied unknowns are then non-zero and not already (anti)symmetric, so the way a tie combines them matters
    if rng.random() < 0.5:
        p.blockprops[0][{"m": "J_re", "e": "qv", "h": "qv"}[kind]] = {"m": rng.choice([0.5, -0.25]), "e": rng.choice([5e-7, -1e-6]), "h": rng.choice([300.0, -200.0])}[kind]
        p.background_source = True
    return p


def add_box(p, x0, y0, x1, y1, block, ms):
    n = [p.add_node(x0, y0), p.add_node(x1, y0), p.add_node(x1, y1), p.add_node(x0, y1)]
    for i in range(4):
        p.add_seg(n[i], n[(i + 1) % 4])
    p.add_label((x0 + x1) / 2, (y0 + y1) / 2, block, meshsize=ms)


def gen_translational(kind, rng, anti, two_pairs):
    p = base_problem(kind, rng, anti)
    W, H = float(rng.randint(4, 8)), float(rng.randint(3, 6))
    a, b, c, d = p.add_node(0, 0), p.add_node(W, 0), p.add_node(W, H), p.add_node(0, H)
    ms = rng.choice([-1.0, 0.3, 0.7, 1.1])
    p.add_seg(a, b, bc=1 if two_pairs else 2, maxside=rng.choice([-1.0, 0.9]))
    p.add_seg(b, c, bc=0, maxside=ms)
    p.add_seg(d, c, bc=1 if two_pairs else 2, maxside=rng.choice([-1.0, 0.6]))   # drawn in the other sense on purpose
    p.add_seg(d, a, bc=0, maxside=rng.choice([-1.0, 0.5]))
    p.add_label(0.4, 0.35, 0, meshsize=rng.choice([0.5, 0.8]))
    add_box(p, W * 0.15, H * 0.55, W * 0.4, H * 0.85, 1, 0.4)
    add_box(p, W * 0.55, H * 0.15, W * 0.9, H * 0.5, 2, 0.5)
    if two_pairs:
        # something must fix the level of the potential
        k = p.add_node(W * 0.5, H * 0.9)
        if kind == "m":
            p.pointprops = [dict(name="pin", A_re=0.0)]
        else:
            p.pointprops = [dict(name="pin", V=0.0)]
        p.nodes[k]["bc"] = 0
    sides = [dict(bc="per1", kind="line", A=((0, 0), (0, H)), motion=("t", W, 0.0))]
    if two_pairs:
        sides.append(dict(bc="per2", kind="line", A=((0, 0), (W, 0)), motion=("t", 0.0, H)))
        # every other cell with two pairs mixes the two kinds: the property defined FIRST (used by the left / right sides) gets the other
        # sign than the one defined last, so each pair has to be written with the sign of its own property
        gen_translational.calls2 = getattr(gen_translational, "calls2", 0) + 1
        if gen_translational.calls2 % 2 == 0:
            p.bdryprops[0]["type"] = PER[kind][0 if anti else 1]
            sides[0]["anti"] = not anti
    return p, sides, max(W, H)


def gen_sector(kind, rng, anti, hole):
    p = base_problem(kind, rng, anti)
    R = float(rng.randint(4, 8))
    th = math.radians(rng.choice([90.0, 60.0, 45.0, 120.0]))
    r0 = R * 0.25 if hole else 0.0
    c, s = math.cos(th), math.sin(th)
    if hole:
        i0, i1 = p.add_node(r0, 0), p.add_node(r0 * c, r0 * s)
    else:
        i0 = i1 = p.add_node(0, 0)
    o0, o1 = p.add_node(R, 0), p.add_node(R * c, R * s)
    ms = rng.choice([-1.0, 0.4, 0.9])
    p.add_seg(i0, o0, bc=0, maxside=ms)
    p.add_seg(o1, i1, bc=0, maxside=rng.choice([-1.0, 0.7]))
    p.add_arc(o0, o1, math.degrees(th), maxseg=rng.choice([5.0, 10.0]), bc=2)
    if hole:
        p.add_arc(i0, i1, math.degrees(th), maxseg=10.0, bc=-1)
    rm = (r0 + R) / 2
    p.add_label(rm * math.cos(th * 0.5), rm * math.sin(th * 0.5), 0, meshsize=rng.choice([0.5, 0.8]))
    # an off-axis source block (a small box well inside the sector)
    a1 = th * 0.3
    cx, cy = 0.7 * R * math.cos(a1), 0.7 * R * math.sin(a1)
    add_box(p, cx - 0.08 * R, cy - 0.06 * R, cx + 0.08 * R, cy + 0.06 * R, 1, 0.3)
    if not hole:
        # a free point close to the apex, off the bisector: the mesh around the apex must not be mirror symmetric, or a node that is
        # wrongly left free there still comes out (nearly) zero by symmetry
        a2 = th * 0.27
        p.add_node(0.12 * R * math.cos(a2), 0.12 * R * math.sin(a2))
    sides = [dict(bc="per1", kind="line", A=((r0, 0.0), (R, 0.0)), motion=("r", th))]
    return p, sides, R


def gen_arcsides(kind, rng, anti):
    p = base_problem(kind, rng, anti)
    W, H = float(rng.randint(5, 8)), float(rng.randint(3, 5))
    ang = rng.choice([40.0, 60.0, 90.0])
    a, b, c, d = p.add_node(0, 0), p.add_node(W, 0), p.add_node(W, H), p.add_node(0, H)
    p.add_seg(a, b, bc=2)
    p.add_seg(c, d, bc=2)
    # both sides bulge to the right: arcs run counter-clockwise from the lower to the upper node
    # (the order in which the two partners are listed in the file decides which of them the mesher treats as "the second arc", whose
    #  chain of chords it attaches from the other end: both orders are produced)
    ms0, ms1 = rng.choice([5.0, 10.0, 2.5]), rng.choice([5.0, 10.0])
    gen_arcsides.calls = getattr(gen_arcsides, "calls", 0) + 1
    if (gen_arcsides.calls // 2) % 2 == 0:
        p.add_arc(a, d, ang, maxseg=ms0, bc=0)
        p.add_arc(b, c, ang, maxseg=ms1, bc=0)
    else:
        p.add_arc(b, c, ang, maxseg=ms1, bc=0)
        p.add_arc(a, d, ang, maxseg=ms0, bc=0)
    p.add_label(W * 0.5, H * 0.12, 0, meshsize=rng.choice([0.5, 0.8]))
    add_box(p, W * 0.45, H * 0.55, W * 0.7, H * 0.85, 1, 0.4)
    sides = [dict(bc="per1", kind="arc", A=((0.0, 0.0), (0.0, H), ang), motion=("t", W, 0.0))]
    return p, sides, max(W, H)


def apply_motion(m, x, y):
    if m[0] == "t":
        return x + m[1], y + m[2]
    c, s = math.cos(m[1]), math.sin(m[1])
    return c * x - s * y, s * x + c * y


def on_side(side, x, y, size):
    """distance test: is (x, y) on partner A of this side (drawn geometry)"""
    tol = 1e-7 * size
    if side["kind"] == "line":
        (x0, y0), (x1, y1) = side["A"]
        L = math.hypot(x1 - x0, y1 - y0)
        t = ((x - x0) * (x1 - x0) + (y - y0) * (y1 - y0)) / (L * L)
        d = abs((x - x0) * (y1 - y0) - (y - y0) * (x1 - x0)) / L
        return d < tol and -1e-9 <= t <= 1 + 1e-9
    (x0, y0), (x1, y1), ang = side["A"]
    th = math.radians(ang)
    dd = math.hypot(x1 - x0, y1 - y0)
    R = dd / (2 * math.sin(th / 2))
    mx, my = (x0 + x1) / 2, (y0 + y1) / 2
    ux, uy = -(y1 - y0) / dd, (x1 - x0) / dd
    cx, cy = mx + ux * R * math.cos(th / 2), my + uy * R * math.cos(th / 2)
    if abs(math.hypot(x - cx, y - cy) - R) > tol:
        return False
    a0 = math.atan2(y0 - cy, x0 - cx)
    a = math.atan2(y - cy, x - cx)
    da = (a - a0) % (2 * math.pi)
    return da <= th + 1e-7 or da >= 2 * math.pi - 1e-7


def main(argv):
    ck = vlib.Check("C07", "proof", argv)
    ck.cov["rule"] = ("generated cells: translational (one pair; two independent pairs sharing the four corners), rotational sectors of 45-120 degrees with the "
                      "apex in the model (self pair) or a shaft hole, congruent arc sides; x magnetics / electrostatics / heat x periodic / antiperiodic x "
                      "segment spacings and smart-mesh settings; plus invalid assignments; a case is non-trivial when the solution is not identically zero")
    ck.assumptions += ["planar problems (static for all three physics, time-harmonic for every second magnetics cell)"]
    ck.run_stage_a()
    build = vlib.build_repo("plain")
    mx = vlib.model_exe()
    rng = ck.rng
    stats = dict(problems=0, by_family={}, by_kind={}, pairs=0, self_pairs=0, model_points_compared=0, worst_pair_mismatch=0.0, worst_image_error=0.0,
                 invalid_rejected=0)
    work = vlib.workdir("C07")
    nviol = 0
    fams = ["trans1", "trans2", "sector-apex", "sector-hole", "arcsides"]
    nprob = 30 if ck.tier == "quick" else 300
    try:
        for t in range(nprob):
            kind = "meh"[t % 3]
            fam = fams[(t // 3) % 5]
            anti = (t // 15) % 2 == 1 if ck.tier == "quick" else rng.random() < 0.5
            if fam == "trans1":
                p, sides, size = gen_translational(kind, rng, anti, False)
            elif fam == "trans2":
                p, sides, size = gen_translational(kind, rng, anti, True)
            elif fam == "sector-apex":
                p, sides, size = gen_sector(kind, rng, anti, False)
            elif fam == "sector-hole":
                p, sides, size = gen_sector(kind, rng, anti, True)
            else:
                p, sides, size = gen_arcsides(kind, rng, anti)
            harmonic = kind == "m" and (t // 3) % 2 == 1
            if harmonic:
                # the complex solver's (anti)periodic ties on a whole problem: eddy currents in the iron, phase-shifted source
                p.freq = rng.choice([50.0, 400.0])
                p.blockprops[2]["Sigma"] = rng.choice([1.0, 5.0])
                p.blockprops[1]["J_im"] = rng.choice([0.0, 0.5])
                stats["harmonic_problems"] = stats.get("harmonic_problems", 0) + 1
            run = Run(build, work, "p%d" % t, p)
            stats["problems"] += 1
            stats["by_family"][fam] = stats["by_family"].get(fam, 0) + 1
            stats["by_kind"][kind] = stats["by_kind"].get(kind, 0) + 1
            tag = "%s:%s:%s" % (kind, fam, "anti" if anti else "per")
            if run.mesh(timeout=300) != 0:
                ck.case((tag, t), nontrivial=True)
                if nviol < 5:
                    nviol += 1
                    ck.violation("mesher-failed:" + tag, "fmesher fails on a valid %s cell (%s, %s): %s" % (fam, kind, "antiperiodic" if anti else "periodic", run.mesh_out[-300:]),
                                 dict(files=run.files()))
                continue
            nodes = femmio.read_node(run.snap(".node"))
            pbc, _ = femmio.read_pbc(run.snap(".pbc"))
            xy = [(n[0], n[1]) for n in nodes]
            bad = None
            listed = {}
            for (i, j, tflag) in pbc:
                listed.setdefault(i, []).append((j, tflag))
                if j != i:
                    listed.setdefault(j, []).append((i, tflag))
            stats["pairs"] += len(pbc)
            stats["self_pairs"] += sum(1 for (i, j, _) in pbc if i == j)
            for side in sides:
                A_nodes = [k for k, (x, y) in enumerate(xy) if on_side(side, x, y, size)]
                B_nodes = []
                for k, (x, y) in enumerate(xy):
                    # on partner B  <=>  its pre-image is on A
                    inv = ("t", -side["motion"][1], -side["motion"][2]) if side["motion"][0] == "t" else ("r", -side["motion"][1])
                    px, py = apply_motion(inv, x, y)
                    if on_side(side, px, py, size):
                        B_nodes.append(k)
                if len(A_nodes) != len(B_nodes):
                    bad = ("subdivision", "the two partners of '%s' carry %d and %d mesh nodes" % (side["bc"], len(A_nodes), len(B_nodes)))
                    break
                for k in A_nodes:
                    ix, iy = apply_motion(side["motion"], *xy[k])
                    partners = [j for (j, _) in listed.get(k, []) if math.hypot(xy[j][0] - ix, xy[j][1] - iy) < 1e-7 * size]
                    flags = [tf for (j, tf) in listed.get(k, []) if j in partners]
                    if not partners:
                        bad = ("unlisted", "mesh node %d at (%.9g, %.9g) on the first partner of '%s' is not listed against its image (%.9g, %.9g); it is listed with %s"
                               % (k, xy[k][0], xy[k][1], side["bc"], ix, iy, [(j, xy[j]) for (j, _) in listed.get(k, [])][:3]))
                        break
                    if len(partners) > 1:
                        bad = ("duplicate", "mesh node %d on '%s' is listed %d times against its image" % (k, side["bc"], len(partners)))
                        break
                    if any(bool(f) != side.get("anti", anti) for f in flags):
                        bad = ("sign", "pair (%d, %d) of '%s' is flagged %s, the condition is %s" % (k, partners[0], side["bc"], flags, "antiperiodic" if side.get("anti", anti) else "periodic"))
                        break
                    err = math.hypot(xy[partners[0]][0] - ix, xy[partners[0]][1] - iy) / size
                    stats["worst_image_error"] = max(stats["worst_image_error"], err)
                if bad:
                    break
            # nothing else may be listed
            if not bad:
                on_any = set()
                for side in sides:
                    for k, (x, y) in enumerate(xy):
                        inv = ("t", -side["motion"][1], -side["motion"][2]) if side["motion"][0] == "t" else ("r", -side["motion"][1])
                        if on_side(side, x, y, size) or on_side(side, *apply_motion(inv, x, y), size):
                            on_any.add(k)
                extra = [k for k in listed if k not in on_any]
                if extra:
                    bad = ("stray", "node %d at %s is listed in the .pbc file but lies on no periodic boundary" % (extra[0], xy[extra[0]]))
            if bad:
                ck.case((tag, t), nontrivial=True)
                if nviol < 5:
                    nviol += 1
                    ck.violation("pairing:%s:%s" % (tag, bad[0]), "%s cell, %s, %s: %s" % (fam, kind, "antiperiodic" if anti else "periodic", bad[1]), dict(files=run.files()))
                continue
            # ---- stage B: interior nodes of straight partners vs the model, bit for bit
            for side in sides:
                if side["kind"] != "line":
                    continue
                (x0, y0), (x1, y1) = side["A"]
                a0 = min(range(len(xy)), key=lambda k: math.hypot(xy[k][0] - x0, xy[k][1] - y0))
                a1 = min(range(len(xy)), key=lambda k: math.hypot(xy[k][0] - x1, xy[k][1] - y1))
                A_nodes = [k for k, (x, y) in enumerate(xy) if on_side(side, x, y, size)]
                kk = len(A_nodes) - 1
                if kk < 2:
                    continue
                def partner(k):
                    ix, iy = apply_motion(side["motion"], *xy[k])
                    return min((j for (j, _) in listed[k]), key=lambda j: math.hypot(xy[j][0] - ix, xy[j][1] - iy))
                b0, b1 = partner(a0), partner(a1)
                got = set()
                for k in A_nodes:
                    if k in (a0, a1):
                        continue
                    j = partner(k)
                    got.add((xy[k], xy[j]))
                # the mesher may have oriented the first partner either way
                ok = False
                for (s0, s1, e0, e1) in ((a0, a1, b0, b1), (a1, a0, b1, b0)):
                    line = "line " + " ".join(d2tok(v) for v in (*xy[s0], *xy[s1], *xy[e0], *xy[e1])) + " %d" % kk
                    rep, _, _ = vlib.run_lines([mx, "periodic"], [line])
                    vals = [tok2d(x) for x in rep[0].split()] if rep and rep[0] != "bad-op" else []
                    model = {((vals[i], vals[i + 1]), (vals[i + 2], vals[i + 3])) for i in range(0, len(vals), 4)}
                    # partners may also have been taken in the other order (B first): compare both ways
                    if model == got or {(b, a) for (a, b) in model} == got:
                        ok = True
                        break
                stats["model_points_compared"] += len(got)
                if not ok:
                    # distance between the sets, for the report
                    ck.obligation_broken("correspondence fmesher periodic subdivision<->Model/Periodic.lean linePoint: interior nodes of '%s' differ from a0+(a1-a0)(j+1)/k (k=%d)"
                                         % (side["bc"], kk), dict(files=run.files(), impl=sorted(got)[:4]))
                    break
            # ---- solution repeats
            if run.solve(timeout=600) != 0:
                ck.case((tag, t), nontrivial=True)
                if nviol < 5:
                    nviol += 1
                    ck.violation("solver-failed:" + tag, "the solver fails on a valid periodic cell: %s" % run.solve_out[-300:], dict(files=run.files()))
                continue
            sol = femmio.read_solution(run.solution_path(), kind)
            # the renumbering of the nodes - and of the (anti)periodic pair list through it - against Model/Cuthill.lean
            cuthill_tie.tie(ck, stats, mx, run, sol, {"m": "fsolver", "e": "esolver", "h": "hsolver"}[kind])
            # the solvers renumber the nodes: potentials are looked up by position
            from scipy.spatial import cKDTree
            tree = cKDTree([(n[0], n[1]) for n in sol["nodes"]])
            dist, where = tree.query(xy)
            if max(dist) > 1e-7 * size:
                ck.obligation_broken("oracle: mesh nodes cannot be matched with the nodes of the solution file by position (%.3g)" % max(dist), dict(files=run.files()))
                continue
            V = [complex(sol["nodes"][w][2], sol["nodes"][w][3]) if harmonic else sol["nodes"][w][2] for w in where]
            scale = max(abs(v) for v in V) or 0.0
            ck.case((tag, t, len(pbc)), nontrivial=scale > 0,
                    sample=dict(family=fam, physics=kind, antiperiodic=anti, pairs=len(pbc), nodes=len(V)) if t < 3 else None)
            worst, wp = 0.0, None
            for (i, j, fl_) in pbc:
                # (the flag of every listed pair was compared with the sign of its own property above)
                s = -1.0 if fl_ else 1.0
                dv = abs(V[i] - s * V[j])
                if i == j and fl_:
                    # a node opposite to itself is decoupled with a zero right-hand side (theorem antiPeriodicity_self): the iteration
                    # leaves it at exactly zero, so anything above rounding is a coupled (free) node
                    dv *= 1e6
                if dv > worst:
                    worst, wp = dv, (i, j)
            rel = worst / scale if scale else 0.0
            stats["worst_pair_mismatch"] = max(stats["worst_pair_mismatch"], rel)
            if not (rel <= 1e-6) and nviol < 5:
                nviol += 1
                i, j = wp
                ck.violation("solution:%s" % tag, "%s cell, %s, %s: listed pair (%d, %d) has potentials %s and %s (largest potential %.6g)%s"
                             % (fam, kind, "antiperiodic" if anti else "periodic", i, j, V[i], V[j], scale, " — a self pair" if i == j else ""),
                             dict(files=run.files(), pair=wp))
        # ================= invalid assignments are rejected
        for t, what in enumerate(["three-lines", "line-and-arc", "unequal-lengths"] * (1 if ck.tier == "quick" else 4)):
            kind = "meh"[t % 3]
            p, sides, size = gen_translational(kind, rng, False, False)
            if what == "three-lines":
                p.segs[0]["bc"] = 0
            elif what == "line-and-arc":
                # replace the right side by an arc carrying the same condition
                seg = p.segs.pop(1)
                p.add_arc(seg["n0"], seg["n1"], 30.0, maxseg=5.0, bc=0)
            else:
                # move the upper right corner: the two sides have different lengths
                p.nodes[2]["y"] += 0.5
            run = Run(build, work, "inv%d" % t, p)
            rc = run.mesh(timeout=300)
            ck.case(("invalid", what, kind), nontrivial=True)
            if rc == 0:
                if nviol < 6:
                    nviol += 1
                    ck.violation("invalid-accepted:" + what, "fmesher meshes a %s problem whose periodic condition is assigned to %s instead of reporting an error"
                                 % (kind, what.replace("-", " ")), dict(files=run.files()))
            else:
                stats["invalid_rejected"] += 1
    finally:
        shutil.rmtree(work, ignore_errors=True)
    ck.notes["input_distribution"] = stats
    return ck.finish()
