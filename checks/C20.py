"""C20 — a missing input is reported as failure, never a crash or a bogus result.

stage A: translator tools/translate_exit.py regenerates Generated/ExitTable.lean from the current source;
         Properties/C20.lean decides the whole decision table (decide) for each solver and fmesher
stage B: every enumerated fault is executed on the real binaries and compared with Model/Exit.lean's prediction
stage P: the property's own oracle on each execution: exit status 0 <=> fresh output produced; any fault =>
         non-zero exit, no abnormal termination, no fresh solution file
(the space is finite: quick = thorough = exhaustive enumeration)
"""
import os, shutil, stat, subprocess, sys, time, random
sys.path.insert(0, os.path.join(os.path.dirname(os.path.dirname(os.path.abspath(__file__))), "harness", "py"))
from tools import vlib, translate_exit
import femmio, gen

NOBODY = ["setpriv", "--reuid=65534", "--regid=65534", "--clear-groups"]
SOLVER = {"e": "esolver", "h": "hsolver", "m": "fsolver"}
OLD = 946684800  # 2000-01-01


def run(cmd, cwd, timeout=120):
    try:
        r = subprocess.run(NOBODY + cmd, cwd=cwd, stdout=subprocess.PIPE, stderr=subprocess.STDOUT, text=True, timeout=timeout,
                           errors="replace", stdin=subprocess.DEVNULL)
        return r.returncode, r.stdout
    except subprocess.TimeoutExpired:
        return -999, "timeout"


def small_problem(kind, prev=None):
    rng = random.Random(7)
    p = gen.gen_rects(kind, rng, units="centimeters")
    p.smartmesh = 0
    for lab in p.labels:
        lab["meshsize"] = 2.0
    if prev is not None:
        p.prevsoln = prev
        if kind == "h":
            p.dt = 5.0
            for b in p.blockprops:
                b["Kt"] = 1.0
        if kind == "m":
            p.prevtype = 1
    return p


def main(argv):
    ck = vlib.Check("C20", "proof", argv)
    ck.cov["rule"] = ("exhaustive enumeration: {fmesher, esolver, hsolver, fsolver} x every file the tool reads x {absent, unreadable} "
                      "+ analysis preconditions (region without material, no block labels) + referenced previous solution "
                      "{absent, unreadable} + unwritable output + femmcli {script, open, analyze, loadsolution}; every case is a "
                      "distinct fault; the all-present runs are the trivial cases")
    ck.cov["exhaustive"] = True
    ck.assumptions += ["'unreadable' is produced by mode 000 and running the tool as uid 65534 through setpriv",
                       "a crash is recognised by a negative return code (signal) or a sanitizer-free abnormal exit >= 128"]
    # ---- stage A: translate + theorems
    try:
        text = translate_exit.generate(vlib.REPO)
        with vlib.LeanLock():
            vlib.write_if_changed(os.path.join(vlib.LEAN, "XfemmVerif", "Generated", "ExitTable.lean"), text)
    except translate_exit.TranslateError as e:
        ck.obligation_broken("translator errs: pattern no longer matches the source: %s" % e)
    ck.run_stage_a()
    build = vlib.build_repo("plain")
    mx = vlib.model_exe()
    work = vlib.workdir("C20")
    os.chmod(work, 0o777)
    os.chmod(os.path.dirname(work), 0o755)
    stats = dict(cases=0, by_tool={}, crashes=0, faults=dict(absent=0, unreadable=0, precondition=0, prev=0, unwritable=0, none=0))
    tool = lambda n: os.path.join(build, "cfemm", "bin", n)
    # binaries must be executable by nobody
    for d in (build, os.path.join(build, "cfemm"), os.path.join(build, "cfemm", "bin")):
        try:
            os.chmod(d, os.stat(d).st_mode | 0o055)
        except OSError:
            pass

    def judge(name, toolname, rc, out, outputs, want_ok, fault, model_line=None, kind=None):
        """property oracle + model comparison for one execution"""
        stats["cases"] += 1
        stats["by_tool"][toolname] = stats["by_tool"].get(toolname, 0) + 1
        fresh = [f for f in outputs if os.path.exists(f) and os.path.getmtime(f) > OLD + 10]
        crashed = rc < 0 or rc >= 128 and rc not in (254, 253, 255)
        ck.case((toolname, name), nontrivial=not want_ok,
                sample=dict(tool=toolname, case=name, exit=rc, fresh_output=bool(fresh)) if stats["cases"] in (1, 5, 20, 40) else None)
        rep = dict(tool=toolname, case=name, fault=fault, exit_status=rc, fresh_outputs=fresh, tail=out[-400:])
        if crashed or rc == -999:
            stats["crashes"] += 1
            ck.violation("%s:%s:crash" % (toolname, name), "%s terminated abnormally (status %s) on case '%s'" % (toolname, rc, name), rep)
        elif want_ok and (rc != 0 or not fresh):
            ck.violation("%s:%s:false-failure" % (toolname, name), "%s with all inputs present: exit %s, fresh output: %s" % (toolname, rc, bool(fresh)), rep)
        elif not want_ok and rc == 0:
            ck.violation("%s:%s:exit0-on-failure" % (toolname, name), "%s exits 0 although %s" % (toolname, fault), rep)
        elif not want_ok and fresh:
            ck.violation("%s:%s:fresh-output-on-failure" % (toolname, name), "%s leaves a fresh output file although %s" % (toolname, fault), rep)
        if model_line:
            pred, _, _ = vlib.run_lines([mx, "exit"], [model_line])
            pred = pred[0] if pred else "?"
            obs = "exit %d %d" % (rc if rc < 128 else rc - 256, 1 if fresh else 0)
            if toolname == "fmesher":
                obs = "exit %d" % (rc if rc < 128 else rc - 256)
            agree = pred.startswith(obs) or (pred.startswith("undefined") and (crashed or rc == 0))
            if not agree:
                # -N exit codes appear as 256-N
                ck.obligation_broken("correspondence exit: Model/Exit.lean predicts '%s' for %s/%s, the binary gives '%s'" % (pred, toolname, name, obs),
                                     dict(case=name, tool=toolname, model=pred, observed=obs))

    try:
        for kind in "ehm":
            sol = SOLVER[kind]
            ext, sext = femmio.EXT[kind], femmio.SOL[kind]
            master = os.path.join(work, "master_" + kind)
            os.makedirs(master)
            os.chmod(master, 0o777)
            p = small_problem(kind)
            p.write(os.path.join(master, "p" + ext))
            rc, out = run([tool("fmesher"), os.path.join(master, "p" + ext)], master)
            if rc != 0:
                ck.violation("setup:mesher", "fmesher failed on the well-formed base problem (%s): %s" % (kind, out[-300:]), dict(kind=kind))
                continue
            meshfiles = [".node", ".ele", ".edge", ".pbc"]

            def fresh_dir(name, with_mesh=True, prob=None):
                d = os.path.join(work, "%s_%s" % (kind, name))
                os.makedirs(d)
                os.chmod(d, 0o777)
                (prob or p).write(os.path.join(d, "p" + ext))
                if with_mesh:
                    for m in meshfiles:
                        shutil.copy(os.path.join(master, "p" + m), os.path.join(d, "p" + m))
                for f in os.listdir(d):
                    os.chmod(os.path.join(d, f), 0o666)
                # a stale solution file from an "earlier run": must not look fresh after a failed run
                stale = os.path.join(d, "p" + sext)
                with open(stale, "w") as f:
                    f.write("stale\n")
                os.chmod(stale, 0o666)
                os.utime(stale, (OLD, OLD))
                return d

            def bits(**kw):
                b = dict(problem=1, node=1, pbc=1, ele=1, edge=1, materials=1, prevNeeded=0, prevOk=0, writable=1)
                b.update(kw)
                return "solver %s %d %d %d %d %d %d %d %d %d" % (sol, b["problem"], b["node"], b["pbc"], b["ele"], b["edge"], b["materials"],
                                                                b["prevNeeded"], b["prevOk"], b["writable"])
            # all present
            d = fresh_dir("ok")
            rc, out = run([tool(sol), os.path.join(d, "p")], d)
            judge("all-present", sol, rc, out, [os.path.join(d, "p" + sext)], True, "nothing", bits(), kind)
            stats["faults"]["none"] += 1
            # each file absent / unreadable
            for f, key in ((ext, "problem"), (".node", "node"), (".ele", "ele"), (".edge", "edge"), (".pbc", "pbc")):
                for fk in ("absent", "unreadable"):
                    d = fresh_dir("%s_%s" % (key, fk))
                    path = os.path.join(d, "p" + f)
                    if fk == "absent":
                        os.remove(path)
                    else:
                        os.chmod(path, 0)
                    rc, out = run([tool(sol), os.path.join(d, "p")], d)
                    stats["faults"][fk] += 1
                    judge("%s-%s" % (key, fk), sol, rc, out, [os.path.join(d, "p" + sext)], False, "p%s is %s" % (f, fk), bits(**{key: 0}), kind)
            # region without material (label removed -> attribute 0, no default label)
            pm = small_problem(kind)
            victim = next(i for i, l in enumerate(pm.labels) if True)
            del pm.labels[victim]
            dm = os.path.join(work, "%s_nomat_mesh" % kind)
            os.makedirs(dm); os.chmod(dm, 0o777)
            pm.write(os.path.join(dm, "p" + ext))
            rcm, outm = run([tool("fmesher"), os.path.join(dm, "p" + ext)], dm)
            stats["faults"]["precondition"] += 1
            if rcm == 0:
                old_master, master2 = master, dm
                d = os.path.join(work, "%s_nomat" % kind)
                shutil.copytree(dm, d)
                os.chmod(d, 0o777)
                for f in os.listdir(d):
                    os.chmod(os.path.join(d, f), 0o666)
                rc, out = run([tool(sol), os.path.join(d, "p")], d)
                judge("region-without-material", sol, rc, out, [os.path.join(d, "p" + sext)], False, "a meshed region has no block label",
                      bits(materials=0), kind)
            else:
                judge("region-without-material(mesher)", "fmesher", rcm, outm, [], False, "a region has no block label", None, kind)
            # no block labels at all
            pn = small_problem(kind)
            pn.labels = []
            dn = os.path.join(work, "%s_nolabels" % kind)
            os.makedirs(dn); os.chmod(dn, 0o777)
            pn.write(os.path.join(dn, "p" + ext))
            rcn, outn = run([tool("fmesher"), os.path.join(dn, "p" + ext)], dn)
            stats["faults"]["precondition"] += 1
            if rcn == 0:
                rc, out = run([tool(sol), os.path.join(dn, "p")], dn)
                judge("no-block-labels", sol, rc, out, [os.path.join(dn, "p" + sext)], False, "the problem has no block labels", None, kind)
            else:
                judge("no-block-labels(mesher)", "fmesher", rcn, outn, [], False, "the problem has no block labels", None, kind)
            # a problem file that exists but holds nothing the mesher can triangulate: empty (zero bytes), and a drawing of two points
            # without any line (Triangle refuses fewer than three vertices): the mesher has to report failure and leave no mesh files
            for nm_, mk_ in (("problem-file-empty", None), ("drawing-of-two-points", "two")):
                dz = os.path.join(work, "%s_%s" % (kind, nm_))
                os.makedirs(dz); os.chmod(dz, 0o777)
                if mk_ is None:
                    open(os.path.join(dz, "p" + ext), "w").close()
                else:
                    p2 = small_problem(kind)
                    p2.nodes, p2.segs, p2.arcs, p2.labels, p2.holes = p2.nodes[:2], [], [], [], []
                    p2.write(os.path.join(dz, "p" + ext))
                rcz, outz = run([tool("fmesher"), os.path.join(dz, "p" + ext)], dz)
                stats["faults"]["precondition"] += 1
                judge(nm_ + "(mesher)", "fmesher", rcz, outz, [os.path.join(dz, "p" + e_) for e_ in (".node", ".ele", ".edge")], False,
                      "the problem file holds nothing that can be meshed", None, kind)
            # unwritable output
            d = fresh_dir("unwritable")
            os.chmod(os.path.join(d, "p" + sext), 0o444)
            os.chmod(d, 0o555)
            rc, out = run([tool(sol), os.path.join(d, "p")], d)
            os.chmod(d, 0o777)
            stats["faults"]["unwritable"] += 1
            judge("output-unwritable", sol, rc, out, [os.path.join(d, "p" + sext)], False, "the solution file cannot be written", bits(writable=0), kind)
            # referenced previous solution absent / unreadable
            if kind in "hm":
              # configurations: previous-solution type x with / without circuit (conductor) properties
              # (fsolver's LoadProblemFile has early returns depending on both)
              variants = [(pt, cv) for pt in ((0, 1, 2) if kind == "m" else (0,)) for cv in ("as-generated", "no-circuits", "one-circuit")]
              for (pt, cv) in variants:
                def mk(prevname):
                    pp = small_problem(kind, prev=prevname)
                    if kind == "m":
                        pp.prevtype = pt
                        pp.freq = 50.0 if pt == 1 else 0.0
                    if cv == "no-circuits":
                        pp.circprops = []
                        for lab in pp.labels:
                            lab["circ"] = -1
                        for e in pp.segs + pp.arcs + pp.nodes:
                            e["cond"] = -1
                    elif cv == "one-circuit" and kind == "m":
                        pp.circprops = [dict(name="c0", I_re=1.0, type=1)]
                        for lab in pp.labels:
                            lab["circ"] = -1
                        pp.labels[0]["circ"] = 0
                    return pp
                if cv == "one-circuit" and kind != "m":
                    continue
                vname = "type%d,%s" % (pt, cv)
                # positive control: the same configuration with a valid previous solution must succeed,
                # otherwise the configuration itself is not well-formed and the fault cases say nothing
                base = mk("")
                base.prevtype = 0
                base.freq = 0.0
                base.dt = 0.0
                dctl = fresh_dir("prevctl_%d_%s" % (pt, cv), prob=base)
                os.remove(os.path.join(dctl, "p" + sext))
                rc0, out0 = run([tool(sol), os.path.join(dctl, "p")], dctl)
                if rc0 != 0 or not os.path.exists(os.path.join(dctl, "p" + sext)):
                    continue
                dok = fresh_dir("prevok_%d_%s" % (pt, cv), prob=mk("prev" + sext))
                shutil.copy(os.path.join(dctl, "p" + sext), os.path.join(dok, "prev" + sext))
                os.chmod(os.path.join(dok, "prev" + sext), 0o666)
                rc1, out1 = run([tool(sol), os.path.join(dok, "p")], dok)
                fresh1 = os.path.exists(os.path.join(dok, "p" + sext)) and os.path.getmtime(os.path.join(dok, "p" + sext)) > OLD + 10
                stats.setdefault("prev_controls", {})[vname + "/" + kind] = "ok" if (rc1 == 0 and fresh1) else "rejected(rc=%d)" % rc1
                if not (rc1 == 0 and fresh1):
                    continue
                for fk in ("absent", "unreadable"):
                    d = fresh_dir("prev_%s_%d_%s" % (fk, pt, cv), prob=mk("prev" + sext))
                    if fk == "unreadable":
                        shutil.copy(os.path.join(dctl, "p" + sext), os.path.join(d, "prev" + sext))
                        os.chmod(os.path.join(d, "prev" + sext), 0)
                    rc, out = run([tool(sol), os.path.join(d, "p")], d)
                    stats["faults"]["prev"] += 1
                    judge("previous-solution-%s(%s)" % (fk, vname), sol, rc, out, [os.path.join(d, "p" + sext)], False,
                          "the referenced previous solution is " + fk, bits(prevNeeded=1, prevOk=0) if kind == "h" else None, kind)
            # fmesher: problem absent / unreadable
            for fk in ("absent", "unreadable"):
                d = os.path.join(work, "%s_mesher_%s" % (kind, fk))
                os.makedirs(d); os.chmod(d, 0o777)
                path = os.path.join(d, "p" + ext)
                if fk == "unreadable":
                    p.write(path)
                    os.chmod(path, 0)
                rc, out = run([tool("fmesher"), path], d)
                stats["faults"][fk] += 1
                judge("problem-%s(%s)" % (fk, ext), "fmesher", rc, out, [os.path.join(d, "p" + m) for m in meshfiles], False,
                      "the problem file is " + fk, "mesher 2 0 1", kind)
            # ---- femmcli
            pre = {"e": "e", "h": "h", "m": "m"}[kind]

            def lua_case(name, script, want_ok, fault, outputs, setup=None):
                d = os.path.join(work, "%s_cli_%s" % (kind, name))
                os.makedirs(d); os.chmod(d, 0o777)
                p.write(os.path.join(d, "p" + ext))
                os.chmod(os.path.join(d, "p" + ext), 0o666)
                if setup:
                    setup(d)
                sp = os.path.join(d, "s.lua")
                if script is not None:
                    with open(sp, "w") as f:
                        f.write(script)
                    os.chmod(sp, 0o644)
                rc, out = run([tool("femmcli"), "--lua-script=" + sp], d, timeout=180)
                judge("femmcli-" + name, "femmcli", rc, out, [os.path.join(d, o) for o in outputs], want_ok, fault, None, kind)
            lua_case("ok", 'open("p%s")\n%si_analyze()\n%si_loadsolution()\n' % (ext, pre, pre), True, "nothing", ["p" + sext])
            lua_case("script-absent", None, False, "the script file is absent", [])
            lua_case("open-absent", 'open("missing%s")\n' % ext, False, "open() names an absent file", [])

            def unread(d):
                os.chmod(os.path.join(d, "p" + ext), 0)
            lua_case("open-unreadable", 'open("p%s")\n' % ext, False, "open() names an unreadable file", [], setup=unread)
            lua_case("loadsolution-absent", 'open("p%s")\n%si_loadsolution()\n' % (ext, pre), False, "the solution to post-process is absent", [])

            def nomat(d):
                pm.write(os.path.join(d, "p" + ext))
                os.chmod(os.path.join(d, "p" + ext), 0o666)
            lua_case("analyze-region-without-material", 'open("p%s")\n%si_analyze()\n' % (ext, pre), False,
                     "a region has no block label", ["p" + sext], setup=nomat)
            stats["faults"]["precondition"] += 1
    finally:
        subprocess.run(["chmod", "-R", "u+rwX", work])
        shutil.rmtree(work, ignore_errors=True)
    ck.notes["input_distribution"] = stats
    return ck.finish()
