"""C10 — declaring the same drawing in other length units rescales results exactly.

stage A: translator tools/translate_units.py regenerates Generated/Units.lean (every length-unit table of solvers and
         post-processors, exact rationals) from the current source; Properties/C10.lean: all tables are the same six lengths
         (decide over the whole table), scaling laws of the element model (stiffness scale-free, areas s^2, sources s^2)
stage P: metamorphic runs on the REAL tools: the same numbers declared in all six units (depth in the same unit):
         mesh files byte-identical; node coordinates reported in the declared unit; nodal values, point values, block
         integrals, conductor / circuit properties related to the metres run by the dimensional scaling law of the physics
         (voltage-driven, source-driven and current-driven variants; planar and axisymmetric; static and harmonic)
"""
import copy, math, os, shutil, sys
sys.path.insert(0, os.path.join(os.path.dirname(os.path.dirname(os.path.abspath(__file__))), "harness", "py"))
from tools import vlib, translate_units
import femmio, gen, lua_post
from femmio import UNIT_M, UNITS
from runner import Run


def variant(kind, rng, mode, axi):
    """mode: 'bc' (driven by prescribed boundary / conductor values), 'src' (driven by a source density, zero boundary
    values), 'cur' (magnetics: driven by a circuit current)"""
    p = gen.gen_rects(kind, rng, units="meters")
    while mode == "mag" and not [r for r in p.regions if r["role"] == "material" and r["label"] is not None]:
        p = gen.gen_rects(kind, rng, units="meters")      # a magnet filling the whole box under A = 0 produces no field
    p.ptype = "axi" if axi else "planar"
    p.smartmesh = rng.choice([0, 1])
    p.precision = 1e-10
    p.depth = rng.choice([1.0, 2.0])
    for lab in p.labels:
        if lab["meshsize"] <= 0:
            lab["meshsize"] = 1.0
    # strip every excitation, then add the one of this mode
    for m in p.blockprops:
        for k in ("qv", "J_re", "H_c"):
            if k in m:
                m[k] = 0.0
        m.pop("Sigma", None)
        if kind == "m":
            m.pop("LamType", None); m.pop("LamFill", None)
    p.bdryprops = [b for b in p.bdryprops if b["type"] == 0]
    for s in p.segs:
        s["bc"] = -1
    for s in p.segs[:4]:
        s["bc"] = 0
    b0 = p.bdryprops[0]
    for n in p.nodes:
        n["bc"] = -1
    p.pointprops = []
    if kind == "m":
        for lab in p.labels:
            lab["circ"] = -1
        p.circprops = []
        b0.update(A_0=0.0, A_1=0.0, A_2=0.0)
        if mode == "bc":
            b0.update(A_0=1e-3, A_1=2e-3, A_2=-1e-3)
            # the prescription A0 + A1 r + A2 theta of [Coordinates] = polar (file format only; r in the declared unit) in half of them
            if (len(p.nodes) + len(p.segs)) % 2 == 0:        # (decided by the drawing, so that the random stream of the other variants is unchanged)
                p.coords = "polar"
                b0.update(A_2=1e-5)
        elif mode == "src":
            p.blockprops[p.labels[0]["block"]]["J_re"] = 1.5
        elif mode == "mag":
            # driven by a permanent magnet whose direction is a number or an expression of the position IN THE DECLARED UNIT
            # (x, y, r, z, R, theta): the same numbers in another unit are the same directions on the scaled drawing
            lab = p.labels[rng.choice([r["label"] for r in p.regions if r["role"] == "material" and r["label"] is not None])]
            m = dict(p.blockprops[lab["block"]], name="magnet", H_c=5e5)
            p.blockprops.append(m)
            lab["block"] = len(p.blockprops) - 1
            lab["magdir"] = 30.0
            lab["magdirfctn"] = rng.choice(["45*x+10*y", "R*20-30", "theta+90", "", "z*15+x"])
        elif mode == "cur":
            p.circprops = [dict(name="coil", I_re=10.0, type=1)]
            p.labels[0]["circ"] = 0
            p.labels[0]["turns"] = 5
        else:
            # mutual coupling: a driven stranded coil and a solid one-turn conductor carrying exactly 0 A whose flux
            # linkage is read back (the usual way to obtain a mutual inductance)
            p.circprops = [dict(name="ring", I_re=0.0, type=1), dict(name="coil", I_re=10.0, type=1)]
            p.labels[0]["circ"] = 1
            p.labels[0]["turns"] = 5
            other = 1 if len(p.labels) > 1 else 0
            p.labels[other]["circ"] = 0
            p.labels[other]["turns"] = 1
            p.blockprops[p.labels[other]["block"]]["Sigma"] = 58.0
            if p.labels[other]["block"] == p.labels[0]["block"]:
                p.blockprops.append(dict(p.blockprops[p.labels[other]["block"]], name="cu"))
                p.labels[other]["block"] = len(p.blockprops) - 1
                p.blockprops[p.labels[0]["block"]].pop("Sigma", None)
    else:
        vkey = "Vs" if kind == "e" else "Tset"
        b0[vkey] = 0.0
        for c in p.circprops:
            c["V"] = 0.0; c["q"] = 0.0; c["type"] = 1
        if mode == "bc":
            b0[vkey] = 0.0
            if p.circprops:
                p.circprops[0]["V"] = 25.0
            else:
                p.circprops = [dict(name="c0", V=25.0, q=0.0, type=1)]
            if not any(s["cond"] == 0 for s in p.segs):
                p.add_node(1.0, 1.0, cond=0)
            if kind == "h":
                # a conductivity that depends on the temperature (the solver then makes several passes over its assembly): the temperature
                # field of a boundary-driven problem is still the same in every unit, the conductor heat flows scale with the length
                p.blockprops[p.labels[0]["block"]]["TK"] = [(0.0, 1.0), (10.0, 1.5), (25.0, 3.0)]
        else:
            p.blockprops[p.labels[0]["block"]]["qv"] = 1e-6 if kind == "e" else 100.0
    return p


# exponent k: Q(unit) = Q(metres) * s^k, s = metres per unit
LAWS = {
    ("e", "bc"): dict(value=0, field=-1, energy=1, terminal=1),
    ("e", "src"): dict(value=2, field=1, energy=5, terminal=None),
    ("h", "bc"): dict(value=0, field=-1, energy=None, terminal=1),
    ("h", "src"): dict(value=2, field=1, energy=None, terminal=None),
    ("m", "bc"): dict(value=0, field=-1, energy=1, terminal=None),
    ("m", "src"): dict(value=2, field=1, energy=5, terminal=None),
    ("m", "mag"): dict(value=1, field=0, energy=3, terminal=None),
    ("m", "cur"): dict(value=0, field=-1, energy=1, terminal=1),
    ("m", "mut"): dict(value=0, field=-1, energy=1, terminal=1),
}


def main(argv):
    ck = vlib.Check("C10", "proof", argv)
    ck.cov["rule"] = ("one generated drawing per (physics, drive mode, planar/axisymmetric[, harmonic]) declared with the same numbers in "
                      "all six units; compared quantities: mesh files, reported coordinates, nodal values, point values (potential, "
                      "field), block integrals (energy, area, volume), conductor / circuit properties; non-trivial = non-zero field")
    ck.assumptions += ["time-harmonic scaling is checked for non-conducting problems only (with eddy currents the dimensionless group "
                       "omega*sigma*mu*L^2 changes with the unit, no pure power law exists)"]
    try:
        text = translate_units.generate(vlib.REPO)
        with vlib.LeanLock():
            vlib.write_if_changed(os.path.join(vlib.LEAN, "XfemmVerif", "Generated", "Units.lean"), text)
    except translate_units.TranslateError as e:
        ck.obligation_broken("translator units: pattern no longer matches the source: %s" % e)
    ck.run_stage_a()
    build = vlib.build_repo("plain")
    work = vlib.workdir("C10")
    rng = ck.rng
    stats = dict(variants=0, unit_runs=0, quantities_compared=0, worst_relative_deviation=0.0, by_physics={})
    combos = [("e", "bc", False), ("e", "src", True), ("h", "bc", True), ("h", "src", False), ("m", "bc", False), ("m", "src", False),
              ("m", "cur", False), ("e", "bc", True), ("m", "bc", "harmonic"), ("m", "mut", True), ("m", "mut", False), ("m", "src", True),
              ("m", "mag", False), ("m", "mag", True), ("m", "mag", False), ("h", "bc", False)]
    if ck.tier == "thorough":
        combos = combos * 4
    try:
        for t, (kind, mode, axi) in enumerate(combos):
            harmonic = axi == "harmonic"
            base = variant(kind, rng, mode, axi is True)
            if harmonic:
                base.freq = 60.0
            law = dict(LAWS[(kind, mode)])
            if kind == "m" and axi is True:
                # the axisymmetric magnetics solution file and point values carry the flux 2*pi*r*A, one power of length more
                law["value"] += 1
            stats["variants"] += 1
            stats["by_physics"][kind] = stats["by_physics"].get(kind, 0) + 1
            ck.case((kind, mode, str(axi), t), nontrivial=True, sample=dict(physics=kind, mode=mode, axisymmetric=axi is True, harmonic=harmonic,
                                                                            nodes=len(base.nodes)) if t < 4 else None)
            results = {}
            probe = [(0.0625 + 0.3, 0.0625 + 0.2), (1.1, 0.7)]
            lab0 = base.labels[0]
            for unit in UNITS:
                p = copy.deepcopy(base)
                p.units = unit
                run = Run(build, work, "v%d_%s" % (t, unit), p)
                stats["unit_runs"] += 1
                if run.mesh() != 0 or run.solve() != 0:
                    ck.violation("tool-failed:%s" % kind, "mesher/solver failed for units %s: %s" % (unit, (run.mesh_out + run.solve_out)[-300:]), dict(files=run.files()))
                    results = None
                    break
                sol = femmio.read_solution(run.solution_path(), kind)
                if any(n[2] != n[2] for n in sol["nodes"]):
                    ck.violation("nan-solution:%s:%s:%s" % (kind, "axi" if axi is True else "planar", unit),
                                 "the solver wrote NaN potentials (and exit status 0) for the drawing declared in %s" % unit, dict(files=run.files()))
                    results[unit] = None
                    continue
                s = lua_post.Session(kind, "p" + femmio.EXT[kind], analyze=False)
                for i, (x, y) in enumerate(probe):
                    s.point("pt%d" % i, x, y)
                s.group_select()
                if kind == "e":
                    s.block_integral("W", 0); s.block_integral("area", 1); s.block_integral("vol", 2)
                    s.conductor("term", p.circprops[0]["name"])
                elif kind == "h":
                    s.block_integral("area", 1); s.block_integral("vol", 2)
                    s.conductor("term", p.circprops[0]["name"])
                else:
                    s.block_integral("W", 2); s.block_integral("area", 5); s.block_integral("vol", 10)
                    if p.circprops:
                        s.conductor("term", p.circprops[0]["name"])
                rc, out, raw = s.run(build, run.dir)
                if rc != 0:
                    ck.violation("post-failed:%s" % kind, "femmcli post-processing failed for units %s (rc=%s): %s" % (unit, rc, raw[-300:]), dict(files=run.files()))
                    results = None
                    break
                results[unit] = dict(mesh={e: open(run.snap(e), "rb").read() for e in (".node", ".ele", ".edge")}, sol=sol, post=out, run=run)
            if not results or not results.get("meters"):
                continue
            ref = results["meters"]
            for unit in UNITS:
                if unit == "meters" or not results.get(unit):
                    continue
                r = results[unit]
                sfac = UNIT_M[unit]
                if r["mesh"] != ref["mesh"]:
                    ck.violation("mesh-differs:%s" % kind, "the mesh files differ between metres and %s for the same numbers" % unit,
                                 dict(files=r["run"].files()))
                    break
                mesh_nodes = femmio.read_node(r["run"].snap(".node"))
                if not vlib.same_point_set(mesh_nodes, r["sol"]["nodes"]):
                    ck.violation("coords-not-in-declared-unit:%s" % kind, "node coordinates in the solution file are not the declared-unit coordinates (%s)" % unit,
                                 dict(files=r["run"].files()))
                    break

                def cmpq(name, got, want, k):
                    if k is None:
                        return
                    if got is None or want is None or got != got or want != want:
                        # a result that comes back empty (femmcli prints nothing for NaN) is not "equal by default"
                        ck.violation("nan-solution:m:axi:microns" if (kind == "m" and axi is True and unit == "microns") else
                                     "result-missing:%s:%s:%s" % (kind, mode, name.split("[")[0]),
                                     "%s comes back as %r in %s and %r in metres" % (name, got, unit, want),
                                     dict(physics=kind, mode=mode, unit=unit, quantity=name, files=r["run"].files()))
                        return
                    stats["quantities_compared"] += 1
                    exp = want * sfac ** k
                    sc = max(abs(exp), abs(got), 1e-300)
                    if name.startswith("field"):
                        # a field is a difference quotient of potentials that are converged to ~1e-7 of THEIR scale: a point where the
                        # field is weak is compared against the field scale of the problem (1 % of the strongest probed field)
                        sc = max(sc, 1e-2 * field_scale * sfac ** k)
                    dev = abs(got - exp) / sc
                    if abs(exp) < 1e-12 * ref_scale.get(name.split("[")[0], 1.0) and abs(got) < 1e-12 * ref_scale.get(name.split("[")[0], 1.0) * sfac ** k:
                        return
                    stats["worst_relative_deviation"] = max(stats["worst_relative_deviation"], dev)
                    # potentials are reproduced to 1e-6 of their scale (the solvers' convergence); a field is their difference quotient over
                    # an element (L/h ~ 30-100 times less accurate)
                    if not (dev <= (1e-5 if name.startswith("field") else 1e-6)):
                        ck.violation("nan-solution:m:axi:microns" if (kind == "m" and axi is True and unit == "microns") else
                                     "scaling:%s:%s:%s" % (kind, mode, name.split("[")[0]),
                                     "%s in %s is %.9g, the scaling law (x s^%s, s=%g) from the metres run gives %.9g" % (name, unit, got, k, sfac, exp),
                                     dict(physics=kind, mode=mode, unit=unit, quantity=name, got=got, expected=exp, files=r["run"].files()))
                # nodal values (same renumbering because the mesh is identical)
                vals_ref = [n[2] for n in ref["sol"]["nodes"]]
                ref_scale = dict(nodal=max(abs(v) for v in vals_ref) or 1.0)
                worst = max(abs(n[2] - v * sfac ** law["value"]) for n, v in zip(r["sol"]["nodes"], vals_ref)) / (ref_scale["nodal"] * sfac ** law["value"])
                stats["quantities_compared"] += 1
                stats["worst_relative_deviation"] = max(stats["worst_relative_deviation"], worst)
                if not (worst <= 1e-6):
                    ck.violation("nan-solution:m:axi:microns" if (kind == "m" and axi is True and unit == "microns") else
                                 "scaling:%s:%s:nodal" % (kind, mode), "nodal values in %s deviate from the scaling law (x s^%d) by %.3g" % (unit, law["value"], worst),
                                 dict(physics=kind, mode=mode, unit=unit, files=r["run"].files()))
                    continue
                po, pr = r["post"], ref["post"]
                fidx0 = (3, 4) if kind in "eh" else (1, 2)
                field_scale = max([math.hypot(abs(pr["pt%d" % i][fidx0[0]]), abs(pr["pt%d" % i][fidx0[1]])) for i in range(len(probe))
                                   if pr.get("pt%d" % i) and all(v is not None for v in pr["pt%d" % i][:5])] + [0.0])
                for i in range(len(probe)):
                    a_, b_ = po.get("pt%d" % i), pr.get("pt%d" % i)
                    if not a_ or not b_ or any(v is None for v in a_[:5]) or any(v is None for v in b_[:5]):
                        continue      # the probe point lies in a hole of this drawing
                    ref_scale["value"] = ref_scale["nodal"]
                    cmpq("value[pt%d]" % i, abs(a_[0]) if isinstance(a_[0], complex) else a_[0], abs(b_[0]) if isinstance(b_[0], complex) else b_[0], law["value"])
                    fidx = (3, 4) if kind in "eh" else (1, 2)
                    fa = math.hypot(abs(a_[fidx[0]]), abs(a_[fidx[1]])); fb = math.hypot(abs(b_[fidx[0]]), abs(b_[fidx[1]]))
                    ref_scale["field"] = fb or 1.0
                    cmpq("field[pt%d]" % i, fa, fb, law["field"])
                if "W" in po and "W" in pr:
                    ref_scale["energy"] = abs(pr["W"][0]) or 1.0
                    cmpq("energy", po["W"][0].real if isinstance(po["W"][0], complex) else po["W"][0],
                         pr["W"][0].real if isinstance(pr["W"][0], complex) else pr["W"][0], law["energy"])
                cmpq("area", po["area"][0], pr["area"][0], 2)
                cmpq("volume", po["vol"][0], pr["vol"][0], 3)
                if "term" in po and "term" in pr and law["terminal"] is not None:
                    idx = 1 if kind in "eh" else 2       # charge / heat flow ; flux linkage
                    if len(po["term"]) <= idx or len(pr["term"]) <= idx or po["term"][idx] is None or pr["term"][idx] is None:
                        ck.violation("terminal-missing:%s:%s" % (kind, mode), "the conductor / circuit property query returned %r (metres: %r)" % (po["term"], pr["term"]),
                                     dict(physics=kind, mode=mode, unit=unit, files=r["run"].files()))
                        continue
                    ga, gb = po["term"][idx], pr["term"][idx]
                    if isinstance(ga, complex):
                        ga, gb = abs(ga), abs(gb)
                    ref_scale["terminal"] = abs(gb) or 1.0
                    cmpq("terminal", ga, gb, law["terminal"])
    finally:
        shutil.rmtree(work, ignore_errors=True)
    ck.notes["input_distribution"] = stats
    return ck.finish()
