"""C18 — requested mesh sizes, segment spacings and minimum angle are honoured.

stage A: Properties/C18.lean over Model/Discretize.lean: equal parts of a cut line no longer than the requested maximum, cut points
         on the line in order, arc cut points on the circle / equal chords / chain closing at the second end point, centre of
         getCircle, chain of pieces is a path, area constraint of a label (user / default / forced), mesh size <-> area
         (C14).  Triangle is an external call (assumed to respect area and angle bounds; PARTIAL)
stage B: arc cut points of the real mesh vs Model/Discretize.lean at Float, bit for bit (shared with C01); area constraint
         selection vs the model on generated triples
stage P: on the real mesh files of generated problems: every element's exact area <= pi d^2/4 of its label's mesh size; every mesh
         edge on a line with a maximum segment length is no longer than it; every arc is ceil(a/m) equal chords with vertices
         on its circle and refinement only subdivides the chords; smallest angle >= MinAngle where the drawing has no acute
         angle
"""
import math, os, shutil, sys
sys.path.insert(0, os.path.join(os.path.dirname(os.path.dirname(os.path.abspath(__file__))), "harness", "py"))
from tools import vlib
from tools.vlib import d2tok, tok2d
import femmio, gen, meshcheck, meshgeom
from runner import Run
from checks import C07 as per
from checks import C01 as c01


def main(argv):
    ck = vlib.Check("C18", "proof", argv)
    ck.cov["rule"] = ("generated problems (nested rectangles, box with circle, periodic cells) x three file types x label mesh sizes 0.2-2, line spacings "
                      "0.3-1.5, arc spacings 1-30 degrees (spans 10-180), min angle 1-33 degrees, smart mesh on / off, force-max-mesh on / off; "
                      "a mesh is non-trivial when at least one size / spacing request applies to it")
    ck.assumptions += ["Triangle (external C library) is assumed to respect the area bound of each region and its -q angle bound; checked per run",
                       "the minimum-angle clause is checked on drawings without acute angles (rectangles, circles, right-angled sectors)"]
    ck.run_stage_a()
    build = vlib.build_repo("plain")
    mx = vlib.model_exe()
    rng = ck.rng
    stats = dict(problems=0, by_family={}, elements=0, nodes=0, lines=0, arcs=0, model_arc_vertices=0, periodic_arcs_single_chord=0, sized_elements=0,
                 spaced_edges=0, worst_area_ratio=0.0, worst_edge_ratio=0.0, smallest_angle_margin=None, respaced_periodic_arcs=0, area_constraints_compared=0)
    # ---- stage B: area constraint selection vs the model
    lines, exp = [], []
    for _ in range(200):
        u = rng.choice([-1.0, 0.0, 0.1, 0.5, 2.0, 7.0])
        d = rng.choice([0.05, 0.5, 1.0, 4.0])
        f = rng.random() < 0.5
        lines.append("area %s %s %d" % (d2tok(u), d2tok(d), 1 if f else 0))
        exp.append(d if u <= 0 else (d if (u > d and f) else u))
    rep, _, _ = vlib.run_lines([mx, "discretize"], lines)
    for l, r, e in zip(lines, rep, exp):
        stats["area_constraints_compared"] += 1
        if not r.startswith("x") or tok2d(r) != e:
            ck.obligation_broken("self-test of Model/Discretize.lean areaConstraint against the rule read from initHolesAndRegions: %s -> %s, expected %r" % (l, r, e))
            break
    work = vlib.workdir("C18")
    nviol = 0
    nprob = 36 if ck.tier == "quick" else 400
    fams = ["rects", "disc", "rects", "trans1", "sector-hole", "arcsides", "rects", "disc", "sector-apex", "arcsides", "rects", "trans2"]
    try:
        for t in range(nprob):
            kind = "meh"[t % 3]
            fam = fams[(t // 3) % len(fams)]
            periodic = ()
            if fam == "rects":
                p = gen.gen_rects(kind, rng)
            elif fam == "disc":
                p = gen.gen_disc(kind, rng)
                for a in p.arcs:
                    a["maxseg"] = rng.choice([1.0, 2.5, 5.0, 7.0, 10.0, 30.0])
            else:
                anti = rng.random() < 0.5
                periodic = ("per1", "per2")
                if fam == "trans1":
                    p, _, _ = per.gen_translational(kind, rng, anti, False)
                elif fam == "trans2":
                    p, _, _ = per.gen_translational(kind, rng, anti, True)
                elif fam == "sector-apex":
                    p, _, _ = per.gen_sector(kind, rng, anti, False)
                elif fam == "sector-hole":
                    p, _, _ = per.gen_sector(kind, rng, anti, True)
                else:
                    p, _, _ = per.gen_arcsides(kind, rng, anti)
                    # the two partners ask for different spacings, the finer one second in the list
                    p.arcs[0]["maxseg"] = rng.choice([10.0, 20.0])
                    p.arcs[1]["maxseg"] = rng.choice([2.0, 4.0, 5.0])
            p.minangle = rng.choice([1.0, 10.0, 20.0, 25.0, 30.0, 33.0])
            p.smartmesh = rng.choice([0, 1, None])
            p.forcemaxmesh = rng.choice([0, 1, None])
            for lab in p.labels:
                if rng.random() < 0.6:
                    lab["meshsize"] = rng.choice([0.2, 0.3, 0.6, 1.0, 2.0])
            for s in p.segs:
                if rng.random() < 0.3 and not (s["bc"] >= 0 and p.bdryprops[s["bc"]]["name"] in periodic):
                    s["maxside"] = rng.choice([0.3, 0.5, 0.9, 1.5])
            run = Run(build, work, "p%d" % t, p)
            stats["problems"] += 1
            stats["by_family"][fam] = stats["by_family"].get(fam, 0) + 1
            tag = "%s:%s" % (kind, fam)
            if run.mesh(timeout=600) != 0:
                ck.case((tag, t), nontrivial=True)
                if nviol < 5:
                    nviol += 1
                    ck.violation("mesher-failed:" + tag, "fmesher fails on a well-formed problem: %s" % " ".join(run.mesh_out[-300:].split()), dict(files=run.files()))
                continue
            m = meshcheck.Mesh(femmio.read_node(run.snap(".node")), femmio.read_ele(run.snap(".ele")), femmio.read_edge(run.snap(".edge")))
            requests = sum(1 for l in p.labels if l["meshsize"] > 0) + sum(1 for s in p.segs if s["maxside"] > 0) + len(p.arcs)
            ck.case((tag, t, len(m.eles)), nontrivial=requests > 0,
                    sample=dict(family=fam, physics=kind, elements=len(m.eles), requests=requests, minangle=p.minangle) if t < 3 else None)
            bad = None
            # (1) conformity incl. arcs as ceil(a/m) equal chords whose refinement only subdivides chords (shared with C01)
            res = c01.verify(ck, mx, p, run, tag, stats, periodic)
            if res:
                bad = ("conformity:" + res[0], res[1])
            # (2) element areas
            if not bad:
                for ti, (a, b, c, attr) in enumerate(m.eles):
                    if not (1 <= attr <= len(p.labels)):
                        bad = ("attribute", "element %d carries region attribute %d, there are %d block labels" % (ti, attr, len(p.labels)))
                        break
                    d = p.labels[attr - 1]["meshsize"]
                    if d > 0:
                        stats["sized_elements"] += 1
                        ar = meshcheck.area(m, ti)
                        bound = math.pi * d * d / 4
                        stats["worst_area_ratio"] = max(stats["worst_area_ratio"], ar / bound)
                        if ar > bound * (1 + 1e-12):
                            bad = ("area", "element %d of the block label at (%g, %g) with mesh size %g has area %.12g, the circle of that diameter has %.12g"
                                   % (ti, p.labels[attr - 1]["x"], p.labels[attr - 1]["y"], d, ar, bound))
                            break
            # (3) spacing on lines
            if not bad:
                index_of = {}
                for k, q in enumerate(m.xy):
                    index_of.setdefault(q, k)
                for k, s in enumerate(p.segs):
                    if s["maxside"] <= 0:
                        continue
                    a, b = p.nodes[s["n0"]], p.nodes[s["n1"]]
                    ch = meshcheck.chain_on_line(m, index_of[(a["x"], a["y"])], index_of[(b["x"], b["y"])])
                    for u, v in zip(ch, ch[1:]):
                        L = math.hypot(m.xy[u][0] - m.xy[v][0], m.xy[u][1] - m.xy[v][1])
                        stats["spaced_edges"] += 1
                        stats["worst_edge_ratio"] = max(stats["worst_edge_ratio"], L / s["maxside"])
                        if L > s["maxside"] * (1 + 1e-12):
                            bad = ("spacing", "mesh edge (%d, %d) on line %d is %.12g long, the line asks for at most %g" % (u, v, k, L, s["maxside"]))
                            break
                    if bad:
                        break
            # (4) periodic problems: boundary arcs get finer chords than asked for (known finding) — reported once per run
            if not bad and periodic:
                for k, a_ in enumerate(p.arcs):
                    verts, kk, why = c01.circle_vertices(m, p, a_)
                    kmin = int(math.ceil(a_["angle"] / a_["maxseg"] - 1e-9))
                    if verts is not None and kk > kmin:
                        stats["respaced_periodic_arcs"] += 1
            # (5) minimum angle
            if not bad and fam != "sector-apex":
                worst = min(meshcheck.min_angle_deg(m, ti) for ti in range(len(m.eles)))
                margin = worst - p.minangle
                if not periodic:
                    stats["smallest_angle_margin"] = margin if stats["smallest_angle_margin"] is None else min(stats["smallest_angle_margin"], margin)
                if margin < -1e-6:
                    bad = ("min-angle", "the smallest angle of the mesh is %.6f degrees, the problem asks for at least %g" % (worst, p.minangle))
            if bad and periodic and bad[0] in ("area", "min-angle"):
                # the second pass of the periodic triangulation forbids new points on the boundary (-Y): known finding, counted per run
                stats.setdefault("periodic_" + bad[0].replace("-", "_"), []).append("%s problem, family %s: %s" % (kind, fam, bad[1]))
                bad = None
            if bad and nviol < 5:
                nviol += 1
                ck.violation("sizes:%s:%s" % (tag, bad[0]), "%s problem, family %s (min angle %g, smart mesh %s, force max mesh %s): %s"
                             % (kind, fam, p.minangle, p.smartmesh, p.forcemaxmesh, bad[1]), dict(files=run.files()))
        for clause in ("area", "min_angle"):
            lst = stats.pop("periodic_" + clause, [])
            stats["periodic_%s_exceeded" % clause] = len(lst)
            if lst:
                ck.violation("sizes:periodic:" + clause.replace("_", "-"), "periodic problems (%d meshes), e.g. %s" % (len(lst), lst[0]), dict(examples=lst[:5]))
        if stats["respaced_periodic_arcs"]:
            ck.violation("arc-chords:periodic:respaced", "periodic problems: %d boundary arcs were cut into MORE equal chords than ceil(span / max segment angle) — the periodic "
                         "triangulation re-derives their spacing from its trial mesh" % stats["respaced_periodic_arcs"], dict(count=stats["respaced_periodic_arcs"]))
    finally:
        shutil.rmtree(work, ignore_errors=True)
    ck.notes["input_distribution"] = stats
    return ck.finish()
