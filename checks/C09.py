"""C09 — linear solvers return the solution of the system they were given.

stage A: Properties/C09.lean (model ⊨ property, all sizes / histories)
stage B: `sparse` line protocol: real CBigLinProb vs Model/Sparse.lean at Float (bits) and at Rat (exact)
stage P: semantic oracle, independent of the model: exact accumulation (dyadic values), dense
         constrained solve (numpy) vs the vector PCGSolve returns, true residual
stage C: shrink the op list of a disagreement
"""
import json, os, sys
from fractions import Fraction
import numpy as np
from tools import vlib
from tools.vlib import d2tok, tok2d, ulp_diff

PREC = 1e-10
PREC_RESOLVE = 1e-8         # FEMM's default precision, used by the warm-started re-solve family
LAMBDA = 1.5


def gen_graph(rng, n):
    """connected sparse symmetric pattern with a small bandwidth after natural ordering"""
    edges = set()
    kind = rng.choice(["chain", "grid", "random", "band"])
    if kind == "chain" or n < 4:
        for i in range(n - 1):
            edges.add((i, i + 1))
    elif kind == "grid":
        w = max(2, int(n ** 0.5))
        for i in range(n):
            if (i + 1) % w and i + 1 < n:
                edges.add((i, i + 1))
            if i + w < n:
                edges.add((i, i + w))
            if rng.random() < 0.5 and (i + 1) % w and i + w + 1 < n:
                edges.add((i, i + w + 1))
    elif kind == "band":
        bw = rng.randint(1, min(6, n - 1))
        for i in range(n):
            for d in range(1, bw + 1):
                if i + d < n and rng.random() < 0.7:
                    edges.add((i, i + d))
        for i in range(n - 1):
            edges.add((i, i + 1))
    else:
        for i in range(1, n):
            edges.add((rng.randrange(i), i))
        for _ in range(rng.randint(0, 2 * n)):
            a, b = rng.randrange(n), rng.randrange(n)
            if a != b:
                edges.add((min(a, b), max(a, b)))
    return sorted(edges), kind


def dy(rng, lo=-8, hi=8, den=8):
    """small dyadic number: sums of these are exact in double arithmetic"""
    return rng.randint(lo * den, hi * den) / den


def scenario_storage(rng, n):
    """random put/addto/get history with dyadic values; returns (lines, expect) where expect maps the
    index of a `get` line to the exactly known value"""
    lines = ["create %d %d" % (n, rng.choice([0, 0, rng.randint(1, n)]))]
    exact = {}
    expect = {}
    for _ in range(rng.randint(5, 60)):
        p, q = rng.randrange(n), rng.randrange(n)
        k = (min(p, q), max(p, q))
        r = rng.random()
        if r < 0.3:
            v = dy(rng)
            exact[k] = v
            lines.append("put %s %d %d" % (d2tok(v), p, q))
        elif r < 0.7:
            v = dy(rng)
            exact[k] = exact.get(k, 0.0) + v
            lines.append("addto %s %d %d" % (d2tok(v), p, q))
        else:
            expect[len(lines)] = exact.get(k, 0.0)
            lines.append("get %d %d" % (p, q))
    for p in range(n):
        for q in range(n):
            if rng.random() < 0.3:
                expect[len(lines)] = exact.get((min(p, q), max(p, q)), 0.0)
                lines.append("get %d %d" % (p, q))
    lines.append("dump")
    return lines, expect


def scenario_system(rng, n, exact_vals):
    """SPD system assembled by AddTo in shuffled element-like order, constraint ops, solve"""
    edges, kind = gen_graph(rng, n)
    bw_actual = max([b - a for a, b in edges], default=0)
    hint = rng.choice([0, bw_actual + 1, bw_actual + 1 + rng.randint(0, 3)])
    lines = ["create %d %d" % (n, hint)]
    contrib = []
    A = np.zeros((n, n))
    for (a, b) in edges:
        parts = rng.randint(1, 3)
        for _ in range(parts):
            w = (rng.randint(1, 32) / 8) if exact_vals else rng.uniform(0.1, 10.0) * 10 ** rng.uniform(-2, 2)
            contrib += [(w, a, a), (w, b, b), (-w, a, b) if rng.random() < 0.5 else (-w, b, a)]
    for i in range(n):
        s = (rng.randint(1, 16) / 8) if exact_vals else rng.uniform(0.01, 2.0)
        contrib.append((s, i, i))
    rng.shuffle(contrib)
    for (v, p, q) in contrib:
        lines.append("addto %s %d %d" % (d2tok(v), p, q))
    bvec = [dy(rng) if exact_vals else rng.uniform(-5, 5) for _ in range(n)]
    for i, v in enumerate(bvec):
        lines.append("setb %d %s" % (i, d2tok(v)))
    lines.append("dump")
    # constraint operations on pairwise distinct unknowns
    free = list(range(n))
    rng.shuffle(free)
    cons = []
    nc = rng.randint(0, min(6, n // 2))
    for _ in range(nc):
        r = rng.random()
        if r < 0.4 and len(free) >= 1:
            i = free.pop()
            x = dy(rng) if exact_vals else rng.uniform(-3, 3)
            cons.append(("setvalue", i, x))
        elif len(free) >= 2:
            i, j = free.pop(), free.pop()
            cons.append(("periodic" if r < 0.7 else "antiperiodic", i, j))
    if hint != 0:
        # contract of the band hint (theorem setValue_solves_constrained, hypothesis hband; the callers
        # apply the (anti)periodic ties "the last thing before the solver is called", cuthill.cpp):
        # ties create entries outside the band, so with a non-zero hint every SetValue comes first
        cons.sort(key=lambda c: c[0] != "setvalue")
    for c in cons:
        lines.append("%s %d %s" % (c[0], c[1], d2tok(c[2]) if c[0] == "setvalue" else "%d" % c[2]))
    lines.append("dump")
    x = [rng.uniform(-1, 1) for _ in range(n)]
    lines.append("multa " + " ".join(d2tok(v) for v in x))
    lines.append("multpc %s " % d2tok(LAMBDA) + " ".join(d2tok(v) for v in x))
    flag = rng.random() < 0.3
    if flag:
        lines.append("setv " + " ".join(d2tok(rng.uniform(-1, 1)) for _ in range(n)))
    lines.append("solve %d %s %s %d" % (1 if flag else 0, d2tok(PREC), d2tok(LAMBDA), 40 * n + 200))
    return lines, dict(kind=kind, n=n, hint=hint, bw=bw_actual, cons=cons, warm=flag)


def parse_dump(reply):
    head, _, btxt = reply.partition("|")
    toks = head.split()
    n = int(toks[0])
    A = np.zeros((n, n))
    ents = []
    for t in toks[1:]:
        p, c, v = t.split(",")
        ents.append((int(p), int(c)))
        A[int(p), int(c)] = tok2d(v)
        A[int(c), int(p)] = tok2d(v)
    b = np.array([tok2d(t) for t in btxt.split()])
    return n, A, b, ents


def constrained_reference(A, b, cons):
    """dense solution of the constrained system, built from the *meaning* of the operations:
    fixed unknowns substituted, tied unknowns merged (y_j = s*y_i) — independent of model and code"""
    n = len(b)
    fixed = {}
    tie = {}
    for c in cons:
        if c[0] == "setvalue":
            fixed[c[1]] = c[2]
        else:
            tie[c[2]] = (c[1], 1.0 if c[0] == "periodic" else -1.0)
    red = [k for k in range(n) if k not in fixed and k not in tie]
    col = {k: idx for idx, k in enumerate(red)}
    T = np.zeros((n, len(red)))
    y0 = np.zeros(n, dtype=(complex if np.iscomplexobj(A) or np.iscomplexobj(b) else float))
    for k in range(n):
        if k in fixed:
            y0[k] = fixed[k]
        elif k in tie:
            T[k, col[tie[k][0]]] = tie[k][1]
        else:
            T[k, col[k]] = 1.0
    Ar = T.T @ A @ T
    br = T.T @ (b - A @ y0)
    z = np.linalg.solve(Ar, br) if len(red) else np.zeros(0)
    return T @ z + y0, float(np.linalg.cond(Ar)) if len(red) else 1.0


def scenario_resolve(rng, n):
    """the pattern of a nonlinear loop: assemble, cold solve, then three rounds of Wipe, re-assembly with slightly drifted coefficients and a
    WARM-started solve from the previous solution, at a coefficient scale between 1e-9 and 1e6 (the same problem in other units)"""
    edges, kind = gen_graph(rng, n)
    scale = rng.choice([1e-9, 1e-6, 1e-3, 1.0, 1e3, 1e6])
    lines = ["create %d 0" % n]
    base = []
    for (a, b) in edges:
        base.append((rng.uniform(0.5, 4.0), a, b))
    diag = [rng.uniform(0.05, 1.0) for _ in range(n)]
    bvec = [rng.uniform(-5, 5) for _ in range(n)]
    solves = []
    for rnd in range(4):
        if rnd:
            lines.append("wipe")
        drift = 1.0 + 1e-5 * rnd
        for (w, a, b) in base:
            w = w * scale * (drift if (a + b) % 2 else 1.0)
            lines += ["addto %s %d %d" % (d2tok(w), a, a), "addto %s %d %d" % (d2tok(w), b, b), "addto %s %d %d" % (d2tok(-w), a, b)]
        for i in range(n):
            lines.append("addto %s %d %d" % (d2tok(diag[i] * scale), i, i))
        for i, v in enumerate(bvec):
            lines.append("setb %d %s" % (i, d2tok(v * scale)))
        lines.append("dump")
        lines.append("solve %d %s %s %d" % (1 if rnd else 0, d2tok(PREC_RESOLVE), d2tok(LAMBDA), 40 * n + 200))
        solves.append(len(lines) - 1)
    return lines, dict(kind=kind, n=n, scale=scale, solves=solves)


def scenario_recreate(rng, k):
    """one object used twice: a chain (band hint 2) is assembled and solved, then `Create()` is called again on the same object for a k x k
    grid problem of the same size with the hint the grid needs, a prescribed value, and a solve"""
    n = k * k
    lines = ["create %d 2" % n]
    for i in range(n - 1):
        w = rng.uniform(0.5, 2.0)
        lines += ["addto %s %d %d" % (d2tok(w), i, i), "addto %s %d %d" % (d2tok(w), i + 1, i + 1), "addto %s %d %d" % (d2tok(-w), i, i + 1)]
    for i in range(n):
        lines += ["addto %s %d %d" % (d2tok(0.3), i, i), "setb %d %s" % (i, d2tok(rng.uniform(-1, 1)))]
    lines.append("solve 0 %s %s %d" % (d2tok(PREC), d2tok(LAMBDA), 40 * n + 200))
    lines.append("recreate %d %d" % (n, k + 1))
    for i in range(n):
        r_, c_ = divmod(i, k)
        for j in ([i + 1] if c_ + 1 < k else []) + ([i + k] if r_ + 1 < k else []):
            w = rng.uniform(0.5, 2.0)
            lines += ["addto %s %d %d" % (d2tok(w), i, i), "addto %s %d %d" % (d2tok(w), j, j), "addto %s %d %d" % (d2tok(-w), i, j)]
        lines += ["addto %s %d %d" % (d2tok(0.2), i, i), "setb %d %s" % (i, d2tok(rng.uniform(-1, 1)))]
    lines.append("dump")
    fixed = rng.sample(range(n), 2)
    cons = [("setvalue", i, rng.uniform(-3, 3)) for i in fixed]
    for c in cons:
        lines.append("setvalue %d %s" % (c[1], d2tok(c[2])))
    lines.append("dump")
    lines.append("solve 0 %s %s %d" % (d2tok(PREC), d2tok(LAMBDA), 40 * n + 200))
    return lines, dict(n=n, cons=cons)


def close(a, b, scale, ulps=4, rel=1e-13):
    return ulp_diff(a, b) <= ulps or abs(a - b) <= rel * scale


def compare_replies(lines, rc, rm, what, solve_rel=1e-9):
    """first difference between implementation and Float-model replies, or None"""
    if len(rc) != len(lines) or len(rm) != len(lines):
        return dict(at=min(len(rc), len(rm)), line="<eof>", impl=len(rc), model=len(rm), what="reply count differs")
    for k, (l, a, b) in enumerate(zip(lines, rc, rm)):
        if a == b:
            continue
        ta, tb = a.split(), b.split()
        op = l.split()[0]
        if op == "solve":
            if ta[0] != tb[0] or len(ta) != len(tb):
                return dict(at=k, line=l[:200], impl=a[:300], model=b[:300], what="solver outcome differs")
            va = [tok2d(t) for t in ta[1:] if t.startswith("x")]
            vb = [tok2d(t) for t in tb[1:] if t.startswith("x")]
            sc = max([abs(v) for v in va + vb] + [1e-300])
            if any(abs(x - y) > solve_rel * sc for x, y in zip(va, vb)):
                return dict(at=k, line=l[:200], impl=a[:300], model=b[:300], what="solution vectors differ")
            continue
        if len(ta) != len(tb):
            return dict(at=k, line=l[:200], impl=a[:300], model=b[:300], what="reply shape differs")
        vals = []
        for x, y in zip(ta, tb):
            if x == y:
                continue
            xs, ys = x.split(","), y.split(",")
            if xs[:-1] != ys[:-1] or not xs[-1].startswith("x") or not ys[-1].startswith("x"):
                return dict(at=k, line=l[:200], impl=a[:300], model=b[:300], what="structure differs at %s / %s" % (x, y))
            vals.append((tok2d(xs[-1]), tok2d(ys[-1])))
        allv = [abs(tok2d(t.split(",")[-1])) for t in ta if t.split(",")[-1].startswith("x")]
        sc = max(allv + [1e-300])
        for (x, y) in vals:
            if not close(x, y, sc):
                return dict(at=k, line=l[:200], impl=d2tok(x) + "=%r" % x, model=d2tok(y) + "=%r" % y, what="value differs")
    return None



# ----------------------------------------------------------------------------- the complex solver (cspars.cpp)
def ctok(z):
    return d2tok(z.real) + " " + d2tok(z.imag)


def scenario_complex(rng, nodes, exact_vals):
    """complex-symmetric system of the kind Harmonic2D assembles: sign * (stiffness + j * mass) on the node rows (band
    pattern), optional circuit rows beyond NumNodes (imaginary couplings to the nodes of a conductor, imaginary diagonal),
    constraint operations, products, divisions, a solve"""
    ncirc = rng.choice([0, 0, 1, 2])
    n = nodes + ncirc
    bw = rng.randint(1, max(1, min(5, nodes - 1)))
    hint = rng.choice([0, bw + 1, bw + 1 + rng.randint(0, 3)])
    sign = rng.choice([-1.0, 1.0])
    lines = ["create %d %d %d" % (n, hint, nodes)]
    contrib = []
    for i in range(nodes):
        for d in range(1, bw + 1):
            if i + d < nodes and (d == 1 or rng.random() < 0.6):
                if exact_vals:
                    w = rng.randint(1, 32) / 8
                    m = rng.randint(0, 8) / 8
                else:
                    w = rng.uniform(0.1, 10.0) * 10 ** rng.uniform(-1, 1)
                    m = rng.choice([0.0, rng.uniform(0.0, 1.0) * 10 ** rng.uniform(-2, 1)])
                contrib += [(sign * complex(w, 2 * m), i, i), (sign * complex(w, 2 * m), i + d, i + d),
                            (sign * complex(-w, m), i, i + d) if rng.random() < 0.5 else (sign * complex(-w, m), i + d, i)]
    for i in range(nodes):
        sft = (rng.randint(1, 16) / 8) if exact_vals else rng.uniform(0.01, 2.0)
        contrib.append((sign * complex(sft, 0.0), i, i))
    rng.shuffle(contrib)
    for (v, p_, q_) in contrib:
        lines.append("addto %s %d %d" % (ctok(v), p_, q_))
    for k in range(nodes, n):
        members = [i for i in range(nodes) if rng.random() < 0.35] or [rng.randrange(nodes)]
        tot = 0.0
        for i in members:
            m = (rng.randint(1, 8) / 8) if exact_vals else rng.uniform(0.05, 1.0)
            tot += m
            lines.append("put %s %d %d" % (ctok(sign * complex(0.0, m)), i, k) if rng.random() < 0.5 else
                         "put %s %d %d" % (ctok(sign * complex(0.0, m)), k, i))
        lines.append("addto %s %d %d" % (ctok(sign * complex(0.0, 3 * tot + 0.5)), k, k))
    zero_rhs = rng.random() < 0.06        # no excitation at all: the solution is the zero vector (not NaN)
    # sources in time quadrature: pairs (x, j x) and nothing else - a NON-zero right-hand side whose unconjugated square sum b.b is exactly
    # zero (two-phase windings, point currents at 0 and 90 degrees); every ninth system
    scenario_complex.calls = getattr(scenario_complex, "calls", 0) + 1
    quad_rhs = (not zero_rhs) and scenario_complex.calls % 9 == 4 and nodes >= 4
    bq = [0j] * n
    if quad_rhs:
        idx_ = list(range(nodes))
        rng.shuffle(idx_)
        for k_ in range(rng.randint(1, max(1, nodes // 4))):
            x_ = (rng.randint(1, 16) / 8) if exact_vals else rng.uniform(0.1, 5.0)
            bq[idx_[2 * k_]] = complex(x_, 0.0)
            bq[idx_[2 * k_ + 1]] = complex(0.0, x_)
    for i in range(n):
        v = complex(dy(rng), dy(rng)) if exact_vals else complex(rng.uniform(-5, 5), rng.uniform(-5, 5))
        lines.append("setb %d %s" % (i, ctok(0j if zero_rhs else bq[i] if quad_rhs else v)))
    lines.append("dump")
    free = list(range(nodes))
    rng.shuffle(free)
    cons = []
    for _ in range(0 if quad_rhs else rng.randint(0, min(6, nodes // 2))):
        r = rng.random()
        if r < 0.4 and len(free) >= 1:
            i = free.pop()
            x = complex(dy(rng), dy(rng)) if exact_vals else complex(rng.uniform(-3, 3), rng.uniform(-3, 3))
            cons.append(("setvalue", i, 0j if zero_rhs else x))
        elif len(free) >= 2:
            i, j = free.pop(), free.pop()
            cons.append(("periodic" if r < 0.7 else "antiperiodic", i, j))
    if hint != 0:
        cons.sort(key=lambda c: c[0] != "setvalue")
    for c in cons:
        lines.append("%s %d %s" % (c[0], c[1], ctok(c[2]) if c[0] == "setvalue" else "%d" % c[2]))
    lines.append("dump")
    x = [complex(rng.uniform(-1, 1), rng.uniform(-1, 1)) for _ in range(n)]
    lines.append("multa " + " ".join(ctok(v) for v in x))
    lines.append("multpc %s " % d2tok(LAMBDA) + " ".join(ctok(v) for v in x))
    lines.append("appa %s " % d2tok(LAMBDA) + " ".join(ctok(v) for v in x))
    for _ in range(4):
        num = complex(rng.uniform(-1, 1), rng.uniform(-1, 1))
        den = complex(rng.uniform(-1, 1) * 10 ** rng.randint(-3, 3), rng.uniform(-1, 1) * 10 ** rng.randint(-3, 3))
        if rng.random() < 0.2:
            den = complex(den.real, den.real * rng.choice([1, -1]))       # |re| == |im|: the else branch at the boundary
        if rng.random() < 0.1:
            den = complex(0.0, den.imag) if rng.random() < 0.5 else complex(den.real, 0.0)
        if exact_vals:
            num = complex(dy(rng), dy(rng))
            den = complex(dy(rng), dy(rng)) or complex(1, 0)
        lines.append("div %s %s" % (ctok(num), ctok(den)))
    flag = rng.random() < 0.3
    if flag:
        lines.append("setv " + " ".join(ctok(complex(rng.uniform(-1, 1), rng.uniform(-1, 1))) for _ in range(n)))
    lines.append("solve %d %s %s %d" % (1 if flag else 0, d2tok(PREC), d2tok(LAMBDA), 60 * n + 400))
    return lines, dict(n=n, nodes=nodes, circuits=ncirc, hint=hint, bw=bw, cons=cons, warm=flag, sign=sign, zero_rhs=zero_rhs, quad_rhs=quad_rhs)


def pieces(reply):
    """reply -> list of ('f', float) / ('s', text) pieces (tokens split at blanks and commas)"""
    out = []
    for t in reply.replace(",", " , ").split():
        if len(t) == 17 and t[0] == "x":
            out.append(("f", tok2d(t)))
        elif "/" in t and t.replace("/", "").replace("-", "").isdigit():
            out.append(("q", rat(t)))
        else:
            out.append(("s", t))
    return out


def compare_complex(lines, rc, rm, exact_model=False, solve_rel=1e-9):
    """first difference between implementation and model replies (Float model: <= 4 ulp or 1e-13 * scale; solve: 1e-9;
    exact model: 1e-11 * scale, solve / preconditioner / normal-equation products skipped)"""
    if len(rc) != len(lines) or len(rm) != len(lines):
        return dict(at=min(len(rc), len(rm)), line="<eof>", impl=len(rc), model=len(rm), what="reply count differs")
    for k, (l, a, b) in enumerate(zip(lines, rc, rm)):
        if a == b:
            continue
        op = l.split()[0]
        if exact_model and op in ("solve", "multpc", "appa"):
            continue
        pa, pb = pieces(a), pieces(b)
        if op == "solve":
            pa = [x for x in pa if x[0] != "s" or x[1] in ("singular", "converged", "nofuel")]
            pb = [x for x in pb if x[0] != "s" or x[1] in ("singular", "converged", "nofuel")]
            pa = [x for i_, x in enumerate(pa) if not (i_ == 1 and x[0] == "s")]
            pb = [x for i_, x in enumerate(pb) if not (i_ == 1 and x[0] == "s")]
        if len(pa) != len(pb):
            return dict(at=k, line=l[:200], impl=a[:300], model=b[:300], what="reply shape differs")
        fa = [float(x[1]) for x in pa if x[0] != "s"]
        sc = max([abs(v) for v in fa if v == v and abs(v) != float("inf")] + [1e-300])
        for x, y in zip(pa, pb):
            if (x[0] == "s") != (y[0] == "s") or (x[0] == "s" and x[1] != y[1]):
                return dict(at=k, line=l[:200], impl=a[:300], model=b[:300], what="structure differs at %s / %s" % (x[1], y[1]))
            if x[0] == "s":
                continue
            if exact_model:
                if abs(Fraction(x[1]) - Fraction(y[1])) > Fraction(1, 10 ** 11) * Fraction(sc):
                    return dict(at=k, line=l[:200], impl=float(x[1]), model=float(y[1]), what="value differs from exact model")
            elif op == "solve":
                if abs(x[1] - y[1]) > solve_rel * sc:
                    return dict(at=k, line=l[:200], impl=a[:300], model=b[:300], what="solution vectors differ")
            elif not (close(x[1], y[1], sc) or (x[1] != x[1] and y[1] != y[1])):
                return dict(at=k, line=l[:200], impl=repr(x[1]), model=repr(y[1]), what="value differs")
    return None


def parse_cdump(reply):
    head, _, btxt = reply.partition("|")
    toks = head.split()
    n = int(toks[0])
    A = np.zeros((n, n), dtype=complex)
    for t in toks[1:]:
        p_, c_, re_, im_ = t.split(",")
        A[int(p_), int(c_)] = A[int(c_), int(p_)] = complex(tok2d(re_), tok2d(im_))
    bt = btxt.split()
    b = np.array([complex(tok2d(bt[2 * i]), tok2d(bt[2 * i + 1])) for i in range(n)])
    return n, A, b


def complex_part(ck, build, mx, stats):
    """stage B + P for CBigComplexLinProb"""
    try:
        hx = vlib.compile_harness("csparse_harness", build, ("femm", "luacomplex"))
    except vlib.BuildError as e:
        ck.obligation_broken("correspondence csparse_harness<->CBigComplexLinProb: " + str(e)[:400])
        return
    rng = ck.rng
    nsys = 120 if ck.tier == "quick" else 1200
    maxn = 50 if ck.tier == "quick" else 300
    cst = dict(systems=0, rat=0, circuits=0, warm=0, constraints=dict(setvalue=0, periodic=0, antiperiodic=0),
               hints=dict(zero=0, band=0), divisions=0, worst_true_relative_residual=0.0, worst_distance_to_dense=0.0)
    stats["complex"] = cst

    def run(lines, scalar):
        r, e, c = vlib.run_lines([mx, "csparse", scalar], lines)
        return r

    for t in range(nsys):
        small = t % 4 == 0
        nodes = rng.randint(2, 8) if small else rng.randint(2, maxn)
        lines, meta = scenario_complex(rng, nodes, exact_vals=small)
        rc, ec, code = vlib.run_lines([hx], lines)
        rm = run(lines, "float")
        cst["systems"] += 1
        cst["circuits"] += meta["circuits"]
        cst["warm"] += int(meta["warm"])
        cst["zero_rhs"] = cst.get("zero_rhs", 0) + int(meta["zero_rhs"])
        cst["quadrature_rhs"] = cst.get("quadrature_rhs", 0) + int(meta["quad_rhs"])
        cst["hints"]["zero" if meta["hint"] == 0 else "band"] += 1
        cst["divisions"] += 4
        for c in meta["cons"]:
            cst["constraints"][c[0]] += 1
        ck.case(("complex", meta["n"], meta["circuits"], str(meta["cons"]), len(lines)), nontrivial=True,
                sample=dict(family="complex", n=meta["n"], nodes=nodes, hint=meta["hint"], constraints=[(c[0], c[1]) for c in meta["cons"]],
                            first_ops=lines[:3]) if t < 2 else None)
        if code != 0:
            ck.violation("harness-abort:complex", "csparse harness terminated abnormally (rc=%d): %s" % (code, ec[-300:]),
                         dict(engine="csparse", ops=lines))
            continue
        d = compare_complex(lines, rc, rm)
        if d:
            if not ck.broken_detail:
                def fails(cand):
                    a, _, _ = vlib.run_lines([hx], cand)
                    return compare_complex(cand, a, run(cand, "float")) is not None
                sm = shrink(lines, fails) if len(lines) < 3000 else lines
                a, _, _ = vlib.run_lines([hx], sm)
                d2 = compare_complex(sm, a, run(sm, "float")) or d
                ck.obligation_broken("correspondence csparse: CBigComplexLinProb vs Model/CSparse.lean (%s)" % d2["what"],
                                     dict(engine="csparse", ops=sm, first_difference=d2,
                                          repro="feed <ops> to the csparse harness and to `xfemm_model csparse float`"))
            else:
                ck.obligation_broken("correspondence csparse: CBigComplexLinProb vs Model/CSparse.lean (%s)" % d["what"])
        elif small:
            cst["rat"] += 1
            d = compare_complex(lines, rc, run(lines, "rat"), exact_model=True)
            if d:
                ck.obligation_broken("correspondence csparse (exact instance): " + d["what"],
                                     dict(engine="csparse", scalar="rat", ops=lines, first_difference=d))
        # ---- stage P: the implementation's own output against the meaning of the operations
        dumps = [k for k, l in enumerate(lines) if l == "dump"]
        _, A0, b0 = parse_cdump(rc[dumps[0]])
        _, A1, b1 = parse_cdump(rc[dumps[1]])
        for k, l in enumerate(lines):
            if l.startswith("div "):
                tk = l.split()
                num = complex(tok2d(tk[1]), tok2d(tk[2]))
                den = complex(tok2d(tk[3]), tok2d(tk[4]))
                got = rc[k].split()
                q = complex(tok2d(got[0]), tok2d(got[1]))
                if den != 0 and abs(q * den - num) > 1e-14 * max(abs(num), 1e-300) * 8:
                    ck.violation("complex-division", "CComplex division: (%r)/(%r) returned %r, whose product with the divisor is off by %.3g"
                                 % (num, den, q, abs(q * den - num)), dict(engine="csparse", ops=[lines[0], l], observed=[q.real, q.imag]))
        srep = rc[-1].split()
        if srep[0] == "singular":
            continue
        vt = [tok2d(t_) for t_ in srep if len(t_) == 17 and t_[0] == "x"]
        V = np.array([complex(vt[2 * i], vt[2 * i + 1]) for i in range(meta["n"])])
        if not np.all(np.isfinite(V)):
            ck.violation("solve-nonfinite:complex", "PBCGSolveMod returned a vector that is not finite (n=%d, zero right-hand side: %s)" % (meta["n"], meta["zero_rhs"]),
                         dict(engine="csparse", ops=lines))
            continue
        ref, cond = constrained_reference(A0, b0.astype(complex), meta["cons"])
        res = np.linalg.norm(b1 - A1 @ V) / max(np.linalg.norm(b1), 1e-300)
        err = np.linalg.norm(V - ref) / max(np.linalg.norm(ref), 1e-300)
        cst["worst_true_relative_residual"] = max(cst["worst_true_relative_residual"], float(res))
        cst["worst_distance_to_dense"] = max(cst["worst_distance_to_dense"], float(err))
        tol_res = 1e2 * PREC + 1e-13 * cond
        tol_err = 1e3 * PREC * max(1.0, cond)
        if not (res <= tol_res) or not (err <= tol_err):
            ck.violation("solve-constrained:complex", "PBCGSolveMod result is not the solution of the constrained complex system: relative "
                         "residual %.3g (tol %.3g), distance to dense constrained solve %.3g (tol %.3g), n=%d constraints=%s"
                         % (res, tol_res, err, tol_err, meta["n"], [(c[0], c[1]) for c in meta["cons"]]),
                         dict(engine="csparse", ops=lines, residual=float(res), error=float(err), cond=cond))


def rat(tok):
    if "/" in tok:
        a, b = tok.split("/")
        return Fraction(int(a), int(b))
    raise ValueError(tok)


def compare_rat(lines, rc, rr):
    """implementation (doubles) vs exact-rational model, non-solve replies"""
    for k, (l, a, b) in enumerate(zip(lines, rc, rr)):
        op = l.split()[0]
        if op in ("solve", "multpc"):
            continue
        ta, tb = a.split(), b.split()
        if len(ta) != len(tb):
            return dict(at=k, line=l[:200], impl=a[:300], model=b[:300], what="reply shape differs (rat)")
        fa, fb = [], []
        for x, y in zip(ta, tb):
            if x == y:
                continue
            xs, ys = x.split(","), y.split(",")
            if xs[:-1] != ys[:-1]:
                return dict(at=k, line=l[:200], impl=a[:300], model=b[:300], what="structure differs (rat)")
            try:
                fa.append(Fraction(tok2d(xs[-1])))
                fb.append(rat(ys[-1]))
            except Exception:
                return dict(at=k, line=l[:200], impl=a[:300], model=b[:300], what="token differs (rat)")
        sc = max([abs(v) for v in fa + fb] + [Fraction(1, 10 ** 300)])
        for x, y in zip(fa, fb):
            if abs(x - y) > Fraction(1, 10 ** 11) * sc:
                return dict(at=k, line=l[:200], impl=float(x), model=float(y), what="value differs from exact model")
    return None


def shrink(lines, fails):
    """delta-debug the op list (first line `create` is kept)"""
    cur = lines[:]
    chunk = max(1, (len(cur) - 1) // 2)
    while chunk >= 1:
        i = 1
        changed = False
        while i < len(cur):
            cand = cur[:i] + cur[i + chunk:]
            if len(cand) > 1 and fails(cand):
                cur = cand
                changed = True
            else:
                i += chunk
        if not changed:
            chunk //= 2
    return cur


def main(argv):
    ck = vlib.Check("C09", "proof", argv)
    ck.cov["rule"] = ("op histories over the sparse-matrix API (create/put/addto/get/setb/setvalue/periodic/antiperiodic/"
                      "multa/multpc/solve/dump) generated from one PRNG; a case is non-trivial if it has >= 3 ops beyond "
                      "create; distinct by (family, n, pattern kind, constraint list, #ops)")
    ck.assumptions += ["IEEE rounding of the C++ is observed (bit comparison with the Float instance), not proved",
                       "PCG termination / attained accuracy is runtime behaviour: observed against a dense solve"]
    ck.run_stage_a()
    build = vlib.build_repo("plain")
    try:
        hx = vlib.compile_harness("sparse_harness", build, ("femm",))
    except vlib.BuildError as e:
        ck.obligation_broken("correspondence sparse_harness<->CBigLinProb: " + str(e)[:400])
        return ck.finish()
    mx = vlib.model_exe()
    nsys = 160 if ck.tier == "quick" else 1500
    nsto = 100 if ck.tier == "quick" else 1000
    maxn = 60 if ck.tier == "quick" else 400
    rng = ck.rng
    worst_res, worst_err = 0.0, 0.0
    stats = dict(storage=0, system=0, rat=0, constraints=dict(setvalue=0, periodic=0, antiperiodic=0),
                 kinds={}, warm=0, hints=dict(zero=0, tight=0, loose=0), singular=0)

    def run_both(lines, rat_too):
        rc, ec, cc = vlib.run_lines([hx], lines)
        rm, em, cm = vlib.run_lines([mx, "sparse", "float"], lines)
        rr = None
        if rat_too:
            rr, _, _ = vlib.run_lines([mx, "sparse", "rat"], [l for l in lines])
        return rc, rm, rr, (cc, ec)

    def report(lines, d, kind):
        """model and implementation disagree: the correspondence is broken (not yet a violation);
        the semantic oracle below decides whether the property fails on a concrete input"""
        def fails(cand):
            rc, rm, rr, _ = run_both(cand, False)
            return compare_replies(cand, rc, rm, kind) is not None
        if ck.broken_detail:
            ck.obligation_broken("correspondence sparse: CBigLinProb vs Model/Sparse.lean (%s)" % d["what"])
            return
        small = shrink(lines, fails) if len(lines) < 4000 else lines
        rc, rm, _, _ = run_both(small, False)
        d2 = compare_replies(small, rc, rm, kind) or d
        ck.obligation_broken("correspondence sparse: CBigLinProb vs Model/Sparse.lean (%s)" % d2["what"],
                             dict(engine="sparse", ops=small, first_difference=d2,
                                  repro="feed <ops> to the sparse harness and to `xfemm_model sparse float`"))

    # ---- storage histories (exact dyadic values): implementation vs model vs abstract map
    for t in range(nsto):
        n = rng.randint(1, 12)
        lines, expect = scenario_storage(rng, n)
        rc, rm, rr, (code, err) = run_both(lines, True)
        stats["storage"] += 1
        ck.case(("storage", n, len(lines), hash(tuple(lines)) & 0xffff), nontrivial=len(lines) > 3,
                sample=dict(family="storage", ops=lines[:8] + ["..."]) if t == 0 else None)
        if code != 0:
            ck.violation("harness-abort", "sparse harness terminated abnormally (rc=%d): %s" % (code, err[-300:]),
                         dict(engine="sparse", ops=lines))
            continue
        bad = [(k, v, rc[k]) for k, v in expect.items() if k < len(rc) and tok2d(rc[k]) != v]
        if bad:
            k, v, got = bad[0]
            ck.violation("storage-exact", "entry read back is not the exact accumulated value: op %r expected %r got %r"
                         % (lines[k], v, tok2d(got)), dict(engine="sparse", ops=lines[:k + 1], expected=v, observed=tok2d(got)))
            continue
        d = compare_replies(lines, rc, rm, "storage")
        if d:
            report(lines, d, "storage")
            continue
        d = compare_rat(lines, rc, rr)
        stats["rat"] += 1
        if d:
            ck.obligation_broken("correspondence sparse (exact instance): " + d["what"],
                                 dict(engine="sparse", scalar="rat", ops=lines, first_difference=d))

    # ---- systems with constraints and a solve
    for t in range(nsys):
        small = t % 4 == 0
        n = rng.randint(2, 9) if small else rng.randint(2, maxn)
        lines, meta = scenario_system(rng, n, exact_vals=small)
        rc, rm, rr, (code, err) = run_both(lines, small)
        stats["system"] += 1
        stats["kinds"][meta["kind"]] = stats["kinds"].get(meta["kind"], 0) + 1
        stats["warm"] += int(meta["warm"])
        stats["hints"]["zero" if meta["hint"] == 0 else "tight" if meta["hint"] == meta["bw"] + 1 else "loose"] += 1
        for c in meta["cons"]:
            stats["constraints"][c[0]] += 1
        ck.case(("system", n, meta["kind"], str(meta["cons"]), len(lines)), nontrivial=True,
                sample=dict(family="system", n=n, pattern=meta["kind"], hint=meta["hint"], constraints=meta["cons"],
                            first_ops=lines[:4]) if t < 3 else None)
        if code != 0:
            ck.violation("harness-abort", "sparse harness terminated abnormally (rc=%d): %s" % (code, err[-300:]),
                         dict(engine="sparse", ops=lines))
            continue
        d = compare_replies(lines, rc, rm, "system")
        if d:
            report(lines, d, "system")
        elif small:
            stats["rat"] += 1
            d = compare_rat(lines, rc, rr)
            if d:
                ck.obligation_broken("correspondence sparse (exact instance): " + d["what"],
                                     dict(engine="sparse", scalar="rat", ops=lines, first_difference=d))
        # ---- stage P: semantic oracle on the implementation's own output
        dumps = [k for k, l in enumerate(lines) if l == "dump"]
        _, A0, b0, _ = parse_dump(rc[dumps[0]])
        _, A1, b1, ents = parse_dump(rc[dumps[1]])
        if any(b > a for (a, _), (b, _) in zip(ents[1:], ents[:-1]) if False):
            pass
        srep = rc[-1].split()
        if srep[0] == "singular":
            stats["singular"] += 1
            continue
        V = np.array([tok2d(t) for t in srep[1:] if t.startswith("x")])
        if len(V) != n:
            V = np.array([tok2d(t) for t in srep[2:]])
        ref, cond = constrained_reference(A0, b0, meta["cons"])
        res = np.linalg.norm(b1 - A1 @ V) / max(np.linalg.norm(b1), 1e-300)
        err = np.linalg.norm(V - ref) / max(np.linalg.norm(ref), 1e-300)
        worst_res, worst_err = max(worst_res, res), max(worst_err, err)
        tol_res = 1e3 * PREC * max(1.0, cond ** 0.5)
        tol_err = 1e3 * PREC * max(1.0, cond)
        if not (res <= tol_res) or not (err <= tol_err):
            ck.violation("solve-constrained", "PCGSolve result is not the solution of the constrained system: relative residual %.3g "
                         "(tol %.3g), distance to dense constrained solve %.3g (tol %.3g), n=%d constraints=%s"
                         % (res, tol_res, err, tol_err, n, meta["cons"]),
                         dict(engine="sparse", ops=lines, constraints=meta["cons"], residual=res, error=err, cond=cond))
    # ---- warm-started re-solves after Wipe + re-assembly, at several coefficient scales
    nres = 24 if ck.tier == "quick" else 240
    stats["resolve"] = dict(histories=0, warm_solves=0, scales={})
    for t in range(nres):
        n = rng.randint(6, maxn)
        lines, meta = scenario_resolve(rng, n)
        rc, rm, _, (code, err) = run_both(lines, False)
        stats["resolve"]["histories"] += 1
        stats["resolve"]["scales"]["%g" % meta["scale"]] = stats["resolve"]["scales"].get("%g" % meta["scale"], 0) + 1
        ck.case(("resolve", n, meta["kind"], meta["scale"]), nontrivial=True,
                sample=dict(family="re-solve", n=n, scale=meta["scale"], pattern=meta["kind"]) if t == 0 else None)
        if code != 0:
            ck.violation("harness-abort", "sparse harness terminated abnormally (rc=%d): %s" % (code, err[-300:]), dict(engine="sparse", ops=lines))
            continue
        d = compare_replies(lines, rc, rm, "system")
        if d:
            report(lines, d, "system")
        for rnd, k in enumerate(meta["solves"]):
            srep = rc[k].split()
            if srep[0] == "singular":
                continue
            _, A1, b1, _ = parse_dump(rc[k - 1])
            V = np.array([tok2d(t_) for t_ in srep[1:] if t_.startswith("x")])
            if len(V) != n:
                V = np.array([tok2d(t_) for t_ in srep[2:]])
            ref = np.linalg.solve(A1, b1)
            cond = np.linalg.cond(A1)
            res = np.linalg.norm(b1 - A1 @ V) / max(np.linalg.norm(b1), 1e-300)
            errv = np.linalg.norm(V - ref) / max(np.linalg.norm(ref), 1e-300)
            stats["resolve"]["warm_solves"] += int(rnd > 0)
            worst_res, worst_err = max(worst_res, res), max(worst_err, errv)
            stats["resolve"]["worst_residual_over_precision"] = max(stats["resolve"].get("worst_residual_over_precision", 0.0), res / PREC_RESOLVE)
            # the solver stops on the preconditioned residual; on these well-conditioned systems the true one is within a small factor
            if not (res <= 50 * PREC_RESOLVE) or not (errv <= 50 * PREC_RESOLVE * max(1.0, cond)):
                ck.violation("solve-warm-start", "PCGSolve (%s start, pass %d of a Wipe / re-assemble / solve loop, coefficient scale %g, n=%d) returned a vector with "
                             "true relative residual %.3g and distance %.3g to the dense solve (Precision %.1g, condition %.3g)"
                             % ("warm" if rnd else "cold", rnd + 1, meta["scale"], n, res, errv, PREC_RESOLVE, cond),
                             dict(engine="sparse", ops=lines[:k + 1], scale=meta["scale"], residual=res, error=errv, cond=cond))
                break
    # ---- one object, `Create()` twice
    for t in range(6 if ck.tier == "quick" else 40):
        lines, meta = scenario_recreate(rng, rng.randint(3, 7))
        rc, rm, _, (code, err) = run_both(lines, False)
        stats["recreate"] = stats.get("recreate", 0) + 1
        ck.case(("recreate", meta["n"], t), nontrivial=True)
        if code != 0:
            ck.violation("harness-abort", "sparse harness terminated abnormally (rc=%d): %s" % (code, err[-300:]), dict(engine="sparse", ops=lines))
            continue
        d = compare_replies(lines, rc, rm, "system")
        if d:
            report(lines, d, "system")
        dumps = [k_ for k_, l in enumerate(lines) if l == "dump"]
        _, A0, b0, _ = parse_dump(rc[dumps[0]])
        _, A1, b1, _ = parse_dump(rc[dumps[1]])
        srep = rc[-1].split()
        if srep[0] == "singular":
            continue
        V = np.array([tok2d(t_) for t_ in srep[1:] if t_.startswith("x")])
        if len(V) != meta["n"]:
            V = np.array([tok2d(t_) for t_ in srep[2:]])
        ref, cond = constrained_reference(A0, b0, meta["cons"])
        errv = np.linalg.norm(V - ref) / max(np.linalg.norm(ref), 1e-300)
        if not (errv <= 1e3 * PREC * max(1.0, cond)):
            ck.violation("solve-after-recreate", "a CBigLinProb that is Create()d a second time (band hint 2, then %d) returns a vector %.3g away from the dense solve of "
                         "the constrained system (n=%d, prescribed %s)" % (int(meta["n"] ** 0.5) + 1, errv, meta["n"], meta["cons"]),
                         dict(engine="sparse", ops=lines, error=errv))
    complex_part(ck, build, mx, stats)
    ck.notes.update(dict(input_distribution=stats, worst_true_relative_residual=worst_res,
                         worst_distance_to_dense_constrained_solve=worst_err, precision=PREC,
                         comparison="Float model vs C++: <=4 ulp or 1e-13*scale (solve: 1e-9 relative); "
                                    "Rat model vs C++: 1e-11*scale; dense oracle: 1e3*Precision*cond"))
    return ck.finish()
