"""C04 — the heat-flow solution satisfies the discrete conduction equations and heat balance.

stage A: Properties/C04.lean (GetK clamped / exact at knots / continuous / bounded; radiation linearisation exact at the
         fixed point; convection, transient terms) — element matrix, elimination, accumulation theorems shared with C03
stage B: CHMaterialProp::GetK (in-process harness) vs Model/Heat.lean at Float, bit for bit, on generated tables and
         temperatures (inside, at knots, outside, between)
stage P: independent nonlinear SI assembly (numpy) evaluated AT the temperatures the real hsolver wrote: free-node
         residuals with k(T) at the written temperatures, prescribed temperatures, conductors, reported heat flows;
         transient steps from the previous solution file; true solver residual of every Picard system (hook log)
"""
import os, shutil, subprocess, sys, copy
sys.path.insert(0, os.path.join(os.path.dirname(os.path.dirname(os.path.abspath(__file__))), "harness", "py"))
import numpy as np
from tools import vlib
from tools.vlib import d2tok, tok2d
import femmio, gen, fem_oracle, cuthill_tie
from runner import Run
from checks import C03


def gen_problem(rng, t):
    p = gen.gen_any("h", rng)
    p.smartmesh = rng.choice([0, 0, 1])
    p.precision = 1e-10
    p.ptype = "planar" if t % 2 == 0 else "axi"
    for lab in p.labels:
        if lab["meshsize"] <= 0:
            lab["meshsize"] = rng.choice([1.0, 1.5, 0.75])
    feats = []
    # temperature-dependent conductivity, in a randomly chosen material (may be one used only by late elements)
    if rng.random() < 0.6:
        m = rng.choice(p.blockprops)
        k0 = rng.choice([0.5, 2.0, 20.0])
        m["TK"] = [(250.0, k0), (300.0, k0 * rng.choice([1.5, 2.0])), (320.0, k0 * rng.choice([2.5, 3.0])), (400.0, k0 * 4.0)]
        feats.append("tk")
    if rng.random() < 0.4:
        p.bdryprops.append(dict(name="bRad", type=3, beta=rng.choice([0.3, 0.8, 1.0]), Tinf=rng.choice([250.0, 280.0])))
        free = [s for s in p.segs[:4] if s["bc"] < 0]
        for s in free[:1] or [p.segs[0]]:
            s["bc"] = len(p.bdryprops) - 1
        feats.append("radiation")
    holes = [r for r in p.regions if r["role"] == "hole"]
    if holes and rng.random() < 0.5:
        p.circprops.append(dict(name="cq2", V=0.0, q=rng.choice([5.0, -3.0, 10.0]), type=0))
        r = rng.choice(holes)
        pts = set(r["outer"])
        for s in p.segs:
            a, b = p.nodes[s["n0"]], p.nodes[s["n1"]]
            if (a["x"], a["y"]) in pts and (b["x"], b["y"]) in pts:
                s["cond"] = len(p.circprops) - 1
        feats.append("floating")
    if rng.random() < 0.3 and p.family == "rects":
        p.circprops.append(dict(name="cfloat", V=0.0, q=rng.choice([1.0, -0.5, 0.0]), type=0))
        p.add_node(0.25, 0.25, cond=len(p.circprops) - 1)
        feats.append("floating-near-fixed")
    p.features = feats
    # axisymmetric problems: every third one has an EXTERNAL (Kelvin-transformed) region; decided by the assembly tie and by the SI oracle (fem_oracle.Mesh.kelvin)
    p.has_ext = False
    if p.ptype == "axi" and len(p.labels) > 1 and rng.random() < 0.5:
        W = max(n["x"] for n in p.nodes)
        p.ext = (rng.choice([1.5, -0.75, 0.0, 3.0]), rng.choice([2.0 * W, 20.0]), rng.choice([W, 8.0]))
        rng.choice(p.labels[1:])["ext"] = 1
        p.has_ext = True
    p.src_on_fixed = gen.point_source_on_constrained(p, rng)
    gen.use_all_bdry(p, (1, 2, 3))        # heat flux, convection, radiation: every condition the problem defines is carried by a line
    return p


def main(argv):
    ck = vlib.Check("C04", "proof", argv)
    ck.cov["rule"] = ("generated heat-flow problems (nested boxes / discs; planar and axisymmetric; 6 units; anisotropic and "
                      "temperature-dependent conductivity in any material; volume / point sources; BC types 0-3 incl. radiation; "
                      "conductors of both kinds; transient steps from a previous solution) meshed and solved by the real tools; "
                      "plus GetK queries on generated tables; non-trivial problems have a source or non-uniform prescribed values")
    ck.assumptions += ["Picard convergence is runtime behaviour: the oracle evaluates the nonlinear residual at the written temperatures",
                       "the external-region kludge is not generated"]
    ck.run_stage_a()
    build = vlib.build_repo("plain")
    mx = vlib.model_exe()
    rng = ck.rng
    stats = dict(getk_queries=0, getk_tables=0, planar=0, axi=0, features={}, transient=0, worst_oracle_residual=0.0,
                 worst_hook_residual=0.0, picard_systems=0, nodes=0)
    # ---------- stage B: GetK
    try:
        hx = vlib.compile_harness("material_harness", build, ("femm", "luacomplex"))
    except vlib.BuildError as e:
        ck.obligation_broken("correspondence material_harness<->CHMaterialProp: " + str(e)[:300])
        hx = None
    if hx:
        ntab = 30 if ck.tier == "quick" else 300
        for t in range(ntab):
            npts = rng.choice([0, 1, 2, 3, 5, 12])
            Ts = sorted(rng.uniform(100, 900) for _ in range(npts))
            ks = [rng.uniform(0.1, 50) for _ in range(npts)]
            kx, ky = rng.uniform(0.1, 10), rng.uniform(0.1, 10)
            qs = [rng.uniform(50, 1000) for _ in range(12)] + Ts + [T + d for T in Ts for d in (-1e-9, 1e-9)] + [0.0, -5.0, 1e6]
            hl = ["htab " + " ".join(d2tok(a) + " " + d2tok(b) for a, b in zip(Ts, ks)), "hdflt %s %s" % (d2tok(kx), d2tok(ky))]
            ml = ["tab " + " ".join(d2tok(a) + " " + d2tok(b) for a, b in zip(Ts, ks)) if npts else "tab", "dflt %s" % d2tok(kx)]
            hl += ["getk " + d2tok(q) for q in qs]
            ml += ["getk " + d2tok(q) for q in qs]
            rc, _, _ = vlib.run_lines([hx], hl)
            rm, _, _ = vlib.run_lines([mx, "heat"], ml)
            stats["getk_tables"] += 1
            stats["getk_queries"] += len(qs)
            ck.case(("getk", npts, tuple(round(x, 3) for x in Ts)), nontrivial=npts >= 2,
                    sample=dict(kind="GetK", table=list(zip(Ts, ks)), queries=qs[:4]) if t == 0 else None)
            for q, a, b in zip(qs, rc[2:], rm[2:]):
                re = a.split()[0]
                if npts == 0:
                    continue     # model returns dflt for both components; the anisotropic default is covered by the oracle
                if re != b:
                    ck.obligation_broken("correspondence heat/getk: CHMaterialProp::GetK vs Model/Heat.lean",
                                         dict(table=list(zip(Ts, ks)), t=q, impl=tok2d(re), model=tok2d(b) if b.startswith("x") else b))
                    # property oracle on the implementation: clamped, bounded, exact at knots
                    v = tok2d(re)
                    if npts >= 1 and not (min(ks) - 1e-12 <= v <= max(ks) + 1e-12):
                        ck.violation("getk-out-of-range", "GetK(%.6g) = %.6g lies outside the table's conductivity range" % (q, v),
                                     dict(table=list(zip(Ts, ks)), t=q, value=v))
                    break
    # ---------- stage B: whole assembly
    APROTO = {"consts", "problem", "np", "lp", "bp", "cp", "lab", "n", "e", "pbc", "run"}
    mx = vlib.model_exe()
    try:
        ax = vlib.compile_harness("assemble_h_harness", build, ("hsolver", "femm", "luacomplex"))
    except vlib.BuildError as e:
        ck.obligation_broken("correspondence assemble_h_harness<->HSolver: " + str(e)[:400])
        ax = None
    # ---------- stage P: whole problems
    work = vlib.workdir("C04")
    nprob = 20 if ck.tier == "quick" else 160
    try:
        for t in range(nprob):
            p = gen_problem(rng, t)
            stats[p.ptype if p.ptype == "planar" else "axi"] += 1
            for ft in p.features:
                stats["features"][ft] = stats["features"].get(ft, 0) + 1
            run = Run(build, work, "p%d" % t, p)
            sig = (p.family, p.ptype, p.units, tuple(p.features), len(p.nodes), len(p.segs), tuple(sorted((c["type"], c["V"], c["q"]) for c in p.circprops)))
            ck.case(sig, nontrivial=True, sample=dict(family=p.family, type=p.ptype, units=p.units, features=p.features,
                                                     bcs=[(b["name"], b["type"]) for b in p.bdryprops]) if t < 3 else None)
            if run.mesh() != 0:
                ck.violation("mesher-failed", "fmesher failed on a generated problem: " + run.mesh_out[-300:], dict(files=run.files()))
                continue
            # ---- stage B: the system of the first pass (previous iterate zero) as the real assembly builds it vs Model/HSolver.lean
            if ax:
                dump = os.path.join(run.dir, "sys_harness.txt")
                env = dict(os.environ, XFEMM_VERIF_DUMPSYS=dump)
                try:
                    # only the FIRST system is compared: the harness is stopped after a while even if the nonlinear loop is still running
                    hp = subprocess.Popen([ax, run.base], stdout=subprocess.PIPE, stderr=subprocess.PIPE, text=True, env=env)
                    try:
                        so, se = hp.communicate(timeout=90)
                        hrc = hp.returncode
                    except subprocess.TimeoutExpired:
                        hp.kill()
                        so, se = hp.communicate()
                        hrc = 0 if (os.path.exists(dump) and "END" in open(dump).read()) else -999
                    class _R:
                        pass
                    r = _R()
                    r.stdout, r.stderr, r.returncode = so or "", se or "", hrc
                    proto = [l for l in r.stdout.splitlines() if l.split() and l.split()[0] in APROTO]
                    if r.returncode != 0 or not os.path.exists(dump) or not proto:
                        ck.violation("assembly-crash", "the real HSolver (in-process) failed on a generated problem (rc=%d): %s %s" % (r.returncode, r.stdout[-200:], r.stderr[-300:]),
                                     dict(files=run.files()))
                    else:
                        # the dump is a sequence SYS_1 SOL_1 SYS_2 SOL_2 …: pass k is assembled about the iterate SOL_(k-1)
                        blocks, cur = [], None
                        for l_ in open(dump).read().splitlines():
                            if l_.startswith("SYS "):
                                cur = ("sys", [l_]); blocks.append(cur)
                            elif l_.startswith("SOL "):
                                cur = ("sol", []); blocks.append(cur)
                            elif cur is not None:
                                cur[1].append(l_)
                        syss = [b_[1] for b_ in blocks if b_[0] == "sys" and b_[1] and b_[1][-1] == "END"]
                        sols = [[x_.split()[2] for x_ in b_[1] if x_.startswith("V ")] for b_ in blocks if b_[0] == "sol"]
                        npass = min(len(syss), len(sols) + 1, 4)
                        req = list(proto)      # ends with "run"
                        for kp in range(1, npass):
                            req += ["vo " + " ".join(sols[kp - 1]), "run"]
                        m = subprocess.run([mx, "assemble-h"], input="\n".join(req) + "\n", stdout=subprocess.PIPE, text=True, timeout=900)
                        mblocks, curm = [], None
                        for l_ in m.stdout.splitlines():
                            if l_.startswith("SYS "):
                                curm = [l_]; mblocks.append(curm)
                            elif curm is not None:
                                curm.append(l_)
                        for kp in range(npass):
                            d = C03.compare_systems(syss[kp], mblocks[kp] if kp < len(mblocks) else [])
                            stats["systems_compared"] = stats.get("systems_compared", 0) + 1
                            if kp > 0:
                                stats["later_passes_compared"] = stats.get("later_passes_compared", 0) + 1
                            stats["entries_compared"] = stats.get("entries_compared", 0) + sum(1 for l in syss[kp] if l.startswith("E "))
                            if d:
                                ck.obligation_broken("correspondence assemble-h: HSolver::AnalyzeProblem (pass %d) vs Model/HSolver.lean (%s)" % (kp + 1, d["what"]),
                                                     dict(first_difference=d, nonlinear_pass=kp + 1, files=run.files()))
                                break
                except subprocess.TimeoutExpired:
                    ck.violation("assembly-timeout", "the real HSolver (in-process) did not finish within 600 s", dict(files=run.files()))
                run.restore_mesh()
            slog = os.path.join(run.dir, "solve.log")
            rc = run.solve(env=dict(os.environ, XFEMM_VERIF_SOLVELOG=slog), timeout=240 if ("radiation" in p.features or "tk" in p.features) else 600)
            if rc == -999 and os.path.exists(slog):
                rr = []
                for l_ in open(slog):
                    mres_ = [x_ for x_ in l_.split() if x_.startswith("relres=")]
                    if mres_:
                        rr.append(float(mres_[0].split("=")[1]))
                if len(rr) > 200 and max(rr) <= 1e-6 and ("tk" in p.features or "radiation" in p.features):
                    # every linear system is solved to 1e-10, but the fixed-point iteration on k(T) (no relaxation, no pass limit) cycles
                    stats["picard_cycles"] = stats.get("picard_cycles", 0) + 1
                    ck.violation("picard-cycle", "nonlinear conductivity / radiation (%s, %s): hsolver is still iterating after 240 s and %d passes whose linear systems are all "
                                 "solved to %.1e - the fixed-point iteration cycles" % (p.units, p.ptype, len(rr), max(rr)), dict(files=run.files()))
                    continue
            if rc == -999 and "radiation" in p.features and os.path.exists(slog) and sum(1 for _ in open(slog)) > 200:
                # the same runaway as below, in the variant that never stagnates: hundreds of Picard passes and no end
                stats["radiation_runaway"] = stats.get("radiation_runaway", 0) + 1
                ck.violation("radiation-runaway", "radiation boundary with extreme sources (%s, %s): hsolver is still iterating after 240 s and %d Picard passes"
                             % (p.units, p.ptype, sum(1 for _ in open(slog))), dict(files=run.files()))
                continue
            if rc != 0 or not os.path.exists(run.solution_path()):
                ck.violation("solver-failed", "hsolver failed (rc=%s) on a well-formed generated problem: %s" % (rc, run.solve_out[-300:]),
                             dict(files=run.files()))
                continue
            # radiation runaway (known finding): with sources far beyond what the geometry can shed, the linearised T^4 term drives
            # the Picard iterates to negative absolute temperatures, the systems become indefinite and the loop stagnates at a
            # non-solution that is written with exit status 0
            if "radiation" in p.features:
                Tq = [n[2] for n in femmio.read_solution(run.solution_path(), "h")["nodes"]]
                if min(Tq) < 0 or max(Tq) > 1e4:
                    stats["radiation_runaway"] = stats.get("radiation_runaway", 0) + 1
                    ck.violation("radiation-runaway", "radiation boundary with extreme sources (%s, %s): hsolver exits 0 with temperatures between %.4g and %.4g K"
                                 % (p.units, p.ptype, min(Tq), max(Tq)), dict(files=run.files()))
                    continue
            if os.path.exists(slog):
                for l in open(slog):
                    mres = [x for x in l.split() if x.startswith("relres=")]
                    if mres:
                        stats["picard_systems"] += 1
                        v = float(mres[0].split("=")[1])
                        stats["worst_hook_residual"] = max(stats["worst_hook_residual"], v)
                        if not (v <= 1e-6):
                            ck.violation("true-residual", "PCGSolve returned with true relative residual %.3g" % v, dict(files=run.files(), log=l))
            sol = femmio.read_solution(run.solution_path(), "h")
            cuthill_tie.tie(ck, stats, mx, run, sol, "hsolver")
            stats["nodes"] += len(sol["nodes"])
            if getattr(p, "has_ext", False):
                stats["external_region_problems"] = stats.get("external_region_problems", 0) + 1
            if getattr(p, "src_on_fixed", False):
                stats["point_source_on_constrained_node"] = stats.get("point_source_on_constrained_node", 0) + 1
            mesh = fem_oracle.Mesh(p, sol)
            T = np.array([v[0] for v in mesh.vals])
            K, f, fixed, cond = fem_oracle.heat_system(mesh, T)
            rest = [l.split() for l in sol["rest"] if l.strip()]
            nc = int(rest[0][0]) if rest else 0
            rep = [float(r[1]) for r in rest[1:1 + nc]]
            nonlin = bool(p.features and ("tk" in p.features or "radiation" in p.features))
            tol = 1e-5 if nonlin else 1e-7       # Picard stops at 100*Precision
            findings, res = fem_oracle.check_solution(K, f, T, fixed, cond, p.circprops, rep, tol=tol, K_stiff=mesh.K_stiff)
            stats["worst_oracle_residual"] = max(stats["worst_oracle_residual"], res["global_residual"])
            for (key, what, data) in findings[:2]:
                ck.violation("oracle:" + key, "hsolver's solution violates the independently assembled equations: " + what,
                             dict(files=run.files(), detail=data, problem_type=p.ptype, units=p.units, features=p.features))
            # ---- transient step from this solution
            if t % 4 == 0 and not findings:
                q = copy.deepcopy(p)
                q.dt = 5.0
                for b in q.blockprops:
                    b["Kt"] = 2.0
                for b in q.bdryprops:
                    if b["type"] == 0:
                        b["Tset"] = b.get("Tset", 300.0) + 20.0
                run2 = Run(build, work, "p%dt" % t, q)
                q.prevsoln = os.path.join(run.dir, "p.anh")
                q.write(run2.file)
                for ext in (".node", ".ele", ".edge", ".pbc"):
                    shutil.copy(run.snap(ext), run2.base + ext)
                rc = run2.solve()
                stats["transient"] += 1
                if rc != 0 or not os.path.exists(run2.solution_path()):
                    ck.violation("solver-failed-transient", "hsolver failed (rc=%s) on a transient step: %s" % (rc, run2.solve_out[-300:]),
                                 dict(files=run2.files()))
                    continue
                sol2 = femmio.read_solution(run2.solution_path(), "h")
                mesh2 = fem_oracle.Mesh(q, sol2)
                T2 = np.array([v[0] for v in mesh2.vals])
                # previous temperatures in the node order of the new file (same mesh, same renumbering)
                K2, f2, fixed2, cond2 = fem_oracle.heat_system(mesh2, T2, Tprev=T)
                findings2, res2 = fem_oracle.check_solution(K2, f2, T2, fixed2, cond2, q.circprops, None, tol=max(tol, 1e-6), K_stiff=mesh2.K_stiff)
                for (key, what, data) in findings2[:1]:
                    ck.violation("oracle-transient:" + key, "transient step violates the independently assembled equations: " + what,
                                 dict(files=run2.files(), detail=data))
    finally:
        shutil.rmtree(work, ignore_errors=True)
    ck.notes["input_distribution"] = stats
    return ck.finish()
