"""C01 — mesher output is a valid conforming triangulation of the drawn geometry.

stage A: Properties/C01.lean (+ C18, C07, C02): drawn points keep index and coordinates in the graph handed to Triangle; every
         drawn line / arc is handed over as a chain through its cut points (on the line / on the circle, equal chords);
         orientation lemmas behind the certificate.  Triangle itself is an external call (assumed conforming; PARTIAL)
stage B: the cut points of arcs in the real .node file vs Model/Discretize.lean at Float (centre by getCircle, successive
         turns), bit for bit
stage P: exact-arithmetic certificate of the real mesh files of generated problems (three file types; nested boxes, holes,
         circles, periodic cells with line and arc partners; mesh sizes, min angles, smart mesh on / off): indices, every
         element counter-clockwise and non-degenerate, every edge in at most two elements and in opposite senses, total area
         = area enclosed by the boundary loops (no overlap, no gap), every drawn point a mesh node at exactly its coordinates,
         every drawn line a chain of mesh edges, every drawn arc the chain of its prescribed equal chords
"""
import copy, math, os, shutil, sys
sys.path.insert(0, os.path.join(os.path.dirname(os.path.dirname(os.path.abspath(__file__))), "harness", "py"))
from tools import vlib
from tools.vlib import d2tok, tok2d
import femmio, gen, meshcheck, meshgeom
from runner import Run
from checks import C07 as per


def model_arc_vertices(mx, p, a):
    """prescribed chord vertices of a non-periodic arc as Model/Discretize.lean computes them (exact doubles)"""
    n0, n1 = p.nodes[a["n0"]], p.nodes[a["n1"]]
    k = int(math.ceil(a["angle"] / a["maxseg"]))
    line = "arc %s %s %s %s %s %d" % (d2tok(n0["x"]), d2tok(n0["y"]), d2tok(n1["x"]), d2tok(n1["y"]), d2tok(a["angle"]), k)
    rep, _, _ = vlib.run_lines([mx, "discretize"], [line])
    v = [tok2d(x) for x in rep[0].split()]
    return k, (v[0], v[1]), v[2], [(v[i], v[i + 1]) for i in range(3, len(v), 2)]


def tol_arc_vertices(m, p, a, k):
    """chord vertices of an arc located by position (periodic partners: the mesher may turn from either end)"""
    n0, n1 = p.nodes[a["n0"]], p.nodes[a["n1"]]
    (cx, cy), R = meshgeom.arc_circle((n0["x"], n0["y"]), (n1["x"], n1["y"]), a["angle"])
    a0 = math.atan2(n0["y"] - cy, n0["x"] - cx)
    out = []
    for j in range(1, k):
        ang = a0 + math.radians(a["angle"]) * j / k
        x, y = cx + R * math.cos(ang), cy + R * math.sin(ang)
        best = min(range(len(m.xy)), key=lambda i: math.hypot(m.xy[i][0] - x, m.xy[i][1] - y))
        if math.hypot(m.xy[best][0] - x, m.xy[best][1] - y) > 1e-9 * max(R, 1.0):
            return None, (x, y)
        out.append(m.xy[best])
    return out, None


def circle_vertices(m, p, a):
    """mesh nodes on the circle of the arc within its span, in order; they must be equally spaced"""
    n0, n1 = p.nodes[a["n0"]], p.nodes[a["n1"]]
    (cx, cy), R = meshgeom.arc_circle((n0["x"], n0["y"]), (n1["x"], n1["y"]), a["angle"])
    a0 = math.atan2(n0["y"] - cy, n0["x"] - cx)
    th = math.radians(a["angle"])
    on = []
    for q in m.xy:
        if abs(math.hypot(q[0] - cx, q[1] - cy) - R) <= 1e-9 * max(R, 1.0):
            d = (math.atan2(q[1] - cy, q[0] - cx) - a0) % (2 * math.pi)
            if d > 2 * math.pi - 1e-7:
                d = 0.0
            if d <= th + 1e-7:
                on.append((d, q))
    on.sort()
    kk = len(on) - 1
    kmin = int(math.ceil(a["angle"] / a["maxseg"] - 1e-9))
    if kk < kmin:
        return None, kk, "only %d chords between mesh nodes on its circle, %d are prescribed (%g degrees at most %g per chord)" % (kk, kmin, a["angle"], a["maxseg"])
    for j in range(kk + 1):
        if abs(on[j][0] - th * j / kk) > 1e-7:
            return None, kk, "the %d mesh nodes on its circle are not equally spaced (node %d at %.9g degrees)" % (kk + 1, j, math.degrees(on[j][0]))
    return [q for (_, q) in on[1:-1]], kk, ""


def verify(ck, mx, p, run, tag, stats, periodic_bcs=()):
    """-> (key, message) of the first defect of the mesh, or None"""
    m = meshcheck.Mesh(femmio.read_node(run.snap(".node")), femmio.read_ele(run.snap(".ele")), femmio.read_edge(run.snap(".edge")))
    stats["elements"] += len(m.eles)
    stats["nodes"] += len(m.nodes)
    bad = meshcheck.certificate(m)
    if bad:
        return bad[0]
    if len(m.eles) == 0:
        return ("empty", "the mesher wrote no elements")
    index_of = {}
    for k, q in enumerate(m.xy):
        index_of.setdefault(q, k)
    if periodic_bcs:
        # the periodic triangulation re-derives the spacing of boundary arcs from its trial mesh and saves the document with it:
        # the prescribed polygon of an arc is the one of the document as the mesher left it
        saved = femmio.read_problem(run.file)
        p = copy.deepcopy(p)
        for a_, row in zip(p.arcs, saved["geom"].get("arcs", [])):
            a_["maxseg"] = float(row[3])
    for k, nd in enumerate(p.nodes):
        if (nd["x"], nd["y"]) not in index_of:
            return ("point", "drawn point %d at (%.17g, %.17g) is not a mesh node at exactly its coordinates" % (k, nd["x"], nd["y"]))
    for k, s in enumerate(p.segs):
        a, b = p.nodes[s["n0"]], p.nodes[s["n1"]]
        ch = meshcheck.chain_on_line(m, index_of[(a["x"], a["y"])], index_of[(b["x"], b["y"])])
        stats["lines"] += 1
        if ch is None:
            return ("line", "drawn line %d from (%.9g, %.9g) to (%.9g, %.9g) is not a chain of mesh edges" % (k, a["x"], a["y"], b["x"], b["y"]))
    for k, a_ in enumerate(p.arcs):
        a, b = p.nodes[a_["n0"]], p.nodes[a_["n1"]]
        i0, i1 = index_of[(a["x"], a["y"])], index_of[(b["x"], b["y"])]
        stats["arcs"] += 1
        is_per = a_["bc"] >= 0 and p.bdryprops[a_["bc"]]["name"] in periodic_bcs
        if is_per or periodic_bcs:
            # periodic triangulation: boundary arcs are re-spaced from the trial mesh (finer equal chords, recorded as the "meshed side
            # length" of the document); the polygon is read off the mesh: nodes on the circle, which must be equally spaced, at least
            # ceil(angle / max segment angle) chords, and joined by chains of mesh edges
            verts, kk, why = circle_vertices(m, p, a_)
            if verts is None:
                return ("arc-vertex", "arc %d of a periodic problem: %s" % (k, why))
            if is_per and kk == 1:
                stats["periodic_arcs_single_chord"] += 1
        else:
            kk, c, R, verts = model_arc_vertices(mx, p, a_)
            stats["model_arc_vertices"] += len(verts)
        path, msg = meshcheck.chain_on_arc(m, i0, i1, a_["angle"], verts)
        if path is None:
            if not (is_per or periodic_bcs) and "prescribed chord vertex" in msg:
                # model and mesh disagree bit for bit: is it the tie or the property?  decide by position
                v2, miss = tol_arc_vertices(m, p, a_, kk)
                if v2 is not None and meshcheck.chain_on_arc(m, i0, i1, a_["angle"], v2)[0] is not None:
                    ck.obligation_broken("correspondence discretizeInputArcSegments<->Model/Discretize.lean arcPoints: chord vertices of arc %d differ in the last bits" % k,
                                         dict(files=run.files(), model=verts[:3], mesh=v2[:3]))
                    continue
            return ("arc", "drawn arc %d (%g degrees, max %g degrees per chord -> %d chords): %s" % (k, a_["angle"], a_["maxseg"], kk, msg))
    # ---- the border of the triangulation is made of drawn entities: every mesh edge that belongs to ONE triangle lies on a drawn line,
    # or is a chord between two NEIGHBOURING mesh nodes on the circle of a drawn arc (a chord skipping nodes of the circle, or an edge
    # through a vertex that lies on nothing drawn, means the triangles cover another domain than the drawn one)
    P = [(nd["x"], nd["y"]) for nd in p.nodes]
    circles = []
    for a_ in p.arcs:
        n0, n1 = P[a_["n0"]], P[a_["n1"]]
        (cx, cy), R = meshgeom.arc_circle(n0, n1, a_["angle"])
        a0 = math.atan2(n0[1] - cy, n0[0] - cx)
        th = math.radians(a_["angle"])
        on = sorted(d for d in (((math.atan2(q[1] - cy, q[0] - cx) - a0) % (2 * math.pi)) if abs(math.hypot(q[0] - cx, q[1] - cy) - R) <= 1e-9 * max(R, 1.0) else None
                                for q in m.xy) if d is not None and (d <= th + 1e-7 or d > 2 * math.pi - 1e-7))
        on = sorted({0.0 if d > 2 * math.pi - 1e-7 else d for d in on})
        circles.append((cx, cy, R, a0, th, on))

    def on_seg(q, a, b):
        L = math.hypot(b[0] - a[0], b[1] - a[1])
        cr = (b[0] - a[0]) * (q[1] - a[1]) - (b[1] - a[1]) * (q[0] - a[0])
        t = ((q[0] - a[0]) * (b[0] - a[0]) + (q[1] - a[1]) * (b[1] - a[1])) / (L * L)
        return abs(cr) <= 1e-9 * L * max(L, 1.0) and -1e-9 <= t <= 1 + 1e-9
    for (i, j), cnt in m.edge_use.items():
        if len(cnt) != 1:
            continue
        stats["border_edges"] = stats.get("border_edges", 0) + 1
        qa, qb = m.xy[i], m.xy[j]
        ok = any(on_seg(qa, P[s["n0"]], P[s["n1"]]) and on_seg(qb, P[s["n0"]], P[s["n1"]]) for s in p.segs)
        if not ok:
            # a chord between neighbouring mesh nodes on the circle of an arc, or a piece of it (refinement subdivides chords)
            for (cx, cy, R, a0, th, on) in circles:
                for k_ in range(len(on) - 1):
                    c0 = (cx + R * math.cos(a0 + on[k_]), cy + R * math.sin(a0 + on[k_]))
                    c1 = (cx + R * math.cos(a0 + on[k_ + 1]), cy + R * math.sin(a0 + on[k_ + 1]))
                    if on_seg(qa, c0, c1) and on_seg(qb, c0, c1):
                        ok = True
                        break
                if ok:
                    break
        if not ok:
            return ("border", "the mesh edge between nodes %d (%.12g, %.12g) and %d (%.12g, %.12g) belongs to one triangle only but lies on no drawn line and on no "
                    "chord between neighbouring nodes of a drawn arc: the triangles do not cover the drawn domain" % (i, qa[0], qa[1], j, qb[0], qb[1]))
    return None


def main(argv):
    ck = vlib.Check("C01", "proof", argv)
    ck.cov["rule"] = ("generated problems: nested rectangles with material regions, conductor holes and interfaces; box with a circle (two arcs); periodic "
                      "cells (translational, sectors with apex / shaft hole, congruent arc sides incl. arcs that stay one chord); x magnetics / "
                      "electrostatics / heat files x mesh sizes, segment spacings, arc spacings 1-30 degrees, min angle 1-33, smart mesh on / off, "
                      "force-max-mesh on / off; a mesh is non-trivial when it has more than 50 elements")
    ck.assumptions += ["Triangle (external C library) is assumed to return a conforming triangulation of the graph it is given; the certificate checks it per run",
                       "domains whose boundary loops touch in a single vertex are not generated"]
    ck.run_stage_a()
    build = vlib.build_repo("plain")
    mx = vlib.model_exe()
    rng = ck.rng
    stats = dict(problems=0, by_family={}, by_kind={}, elements=0, nodes=0, lines=0, arcs=0, model_arc_vertices=0, periodic_arcs_single_chord=0)
    work = vlib.workdir("C01")
    nviol = 0
    nprob = 36 if ck.tier == "quick" else 400
    fams = ["rects", "rects", "disc", "trans1", "sector-hole", "arcsides", "rects", "disc", "sector-apex", "arcsides-k1", "rects", "trans2"]
    try:
        for t in range(nprob):
            kind = "meh"[t % 3]
            fam = fams[(t // 3) % len(fams)]
            periodic = ()
            if fam == "rects":
                p = gen.gen_rects(kind, rng)
            elif fam == "disc":
                p = gen.gen_disc(kind, rng)
                for a in p.arcs:
                    a["maxseg"] = rng.choice([1.0, 2.5, 5.0, 7.0, 10.0, 30.0])
            else:
                anti = rng.random() < 0.5
                periodic = ("per1", "per2")
                if fam == "trans1":
                    p, _, _ = per.gen_translational(kind, rng, anti, False)
                elif fam == "trans2":
                    p, _, _ = per.gen_translational(kind, rng, anti, True)
                elif fam == "sector-apex":
                    p, _, _ = per.gen_sector(kind, rng, anti, False)
                elif fam == "sector-hole":
                    p, _, _ = per.gen_sector(kind, rng, anti, True)
                else:
                    if fam == "arcsides":
                        # both listing orders of the two partner arcs, alternately (the generator decides by its call count)
                        stats["arcsides_orders"] = stats.get("arcsides_orders", 0) + 1
                        per.gen_arcsides.calls = 1 if stats["arcsides_orders"] % 2 else 3
                    p, _, _ = per.gen_arcsides(kind, rng, anti)
                    if fam == "arcsides-k1":
                        for a in p.arcs:
                            a["angle"] = 10.0
                            a["maxseg"] = rng.choice([10.0, 20.0])
            if fam == "rects" and p.holes and stats.get("offset_drawings", 0) < (2 if ck.tier == "quick" else 12):
                # a drawing far from the origin (site coordinates) whose hole label sits 0.001 inside a wall of its hole: the label is a seed
                # point handed to Triangle, it has to stay on its side of the wall at this magnitude (double precision carries 1e-11 here)
                hole_regs = [r for r in p.regions if r["role"] == "hole"]
                hr = hole_regs[0]
                inside = [h for h in p.holes if min(q[0] for q in hr["outer"]) < h["x"] < max(q[0] for q in hr["outer"])
                          and min(q[1] for q in hr["outer"]) < h["y"] < max(q[1] for q in hr["outer"])]
                if inside:
                    off = 250000.0
                    inside[0]["x"] = min(q[0] for q in hr["outer"]) + 0.001
                    inside[0]["y"] = (min(q[1] for q in hr["outer"]) + max(q[1] for q in hr["outer"])) / 2
                    for e_ in p.nodes + p.labels + p.holes:
                        e_["x"] += off; e_["y"] += off
                    for r in p.regions:
                        r["outer"] = [(q[0] + off, q[1] + off) for q in r["outer"]]
                        r["inner"] = [[(q[0] + off, q[1] + off) for q in lp] for lp in r["inner"]]
                    stats["offset_drawings"] = stats.get("offset_drawings", 0) + 1
            p.minangle = rng.choice([1.0, 10.0, 20.0, 25.0, 30.0, 33.0])
            p.smartmesh = rng.choice([0, 1, None])
            p.forcemaxmesh = rng.choice([0, 1, None])
            for lab in p.labels:
                if rng.random() < 0.5:
                    lab["meshsize"] = rng.choice([-1.0, 0.3, 0.6, 1.0, 2.0])
            if fam == "arcsides-k1":
                # a coarse trial mesh, so that the periodic arcs stay one chord each in the second pass
                p.smartmesh = 0
                p.minangle = rng.choice([1.0, 10.0, 20.0])
                for lab in p.labels:
                    lab["meshsize"] = rng.choice([-1.0, 3.0, 5.0])
            run = Run(build, work, "p%d" % t, p)
            stats["problems"] += 1
            stats["by_family"][fam] = stats["by_family"].get(fam, 0) + 1
            stats["by_kind"][kind] = stats["by_kind"].get(kind, 0) + 1
            tag = "%s:%s" % (kind, fam)
            if run.mesh(timeout=600) != 0:
                ck.case((tag, t), nontrivial=True)
                if nviol < 5:
                    nviol += 1
                    ck.violation("mesher-failed:" + tag, "fmesher fails (rc=%s) on a well-formed %s problem of family %s: %s"
                                 % (run.mesh_rc, kind, fam, " ".join(run.mesh_out[-300:].split())), dict(files=run.files()))
                continue
            before = (stats["elements"],)
            res = verify(ck, mx, p, run, tag, stats, periodic)
            nel = stats["elements"] - before[0]
            ck.case((tag, t, nel), nontrivial=nel > 50,
                    sample=dict(family=fam, physics=kind, elements=nel, minangle=p.minangle, smartmesh=p.smartmesh) if t < 3 else None)
            if res and nviol < 5:
                nviol += 1
                ck.violation("mesh:%s:%s" % (tag, res[0]), "%s problem, family %s (min angle %g, smart mesh %s): %s" % (kind, fam, p.minangle, p.smartmesh, res[1]),
                             dict(files=run.files()))
    finally:
        shutil.rmtree(work, ignore_errors=True)
    ck.notes["input_distribution"] = stats
    return ck.finish()
