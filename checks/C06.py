"""C06 — closed-form fields are reproduced: exactly if linear, to mesh accuracy otherwise.

stage A: Properties/C06.lean — patch theorem: for an affine exact solution the element gradient is exact, each element's
         contribution to a nodal equation is a flux term through the opposite side, and around a closed fan these cancel:
         the interpolant satisfies every interior equation exactly on every mesh (uses C03's element theorems)
stage P: closed-form families on the REAL tools, random dimensions / constants / units / mesh sizes:
         parallel plates with side-by-side dielectrics (planar + axisymmetric), slab with convection (planar + axisymmetric),
         uniform flux density with prescribed A across side-by-side permeabilities (static + time-harmonic): every nodal
         value vs the closed form (solver precision); stored energy, conductor charge / heat flow, field values through the
         real post-processor (femmcli) vs closed form.  Non-affine classics (coaxial capacitor, heated disc): error
         decreases under refinement and stays within a mesh-accuracy bound (a test, not a proof).
"""
import math, os, shutil, sys, copy
sys.path.insert(0, os.path.join(os.path.dirname(os.path.dirname(os.path.abspath(__file__))), "harness", "py"))
import numpy as np
from tools import vlib
import femmio, gen, lua_post
from femmio import Problem, UNIT_M, UNITS
from runner import Run

EPS0 = 8.85418781762e-12
MU0 = 4e-7 * math.pi


def box(p, W, H, split=True):
    """outer box [0,W]x[0,H] split by a vertical interface at W/2; returns node ids and segment ids by side"""
    a, b, c, d = p.add_node(0, 0), p.add_node(W, 0), p.add_node(W, H), p.add_node(0, H)
    if split:
        m0, m1 = p.add_node(W / 2, 0), p.add_node(W / 2, H)
        bottom = [p.add_seg(a, m0), p.add_seg(m0, b)]
        top = [p.add_seg(d, m1), p.add_seg(m1, c)]
        p.add_seg(m0, m1)
    else:
        bottom = [p.add_seg(a, b)]
        top = [p.add_seg(d, c)]
    right = [p.add_seg(b, c)]
    left = [p.add_seg(a, d)]
    return bottom, top, left, right


def fam_plates(rng, axi):
    p = Problem("e")
    p.units = rng.choice(UNITS)
    p.ptype = "axi" if axi else "planar"
    p.depth = rng.choice([1.0, 2.5, 40.0])
    p.precision = 1e-10
    p.smartmesh = rng.choice([0, 1])
    W, H = rng.choice([2.0, 4.0, 6.5]), rng.choice([1.0, 3.0, 5.25])
    e1, e2 = rng.choice([1.0, 2.0, 4.5]), rng.choice([1.0, 3.0, 7.0])
    V0 = rng.choice([1.0, 100.0, -12.5])
    p.blockprops = [dict(name="d1", ex=e1, ey=e1), dict(name="d2", ex=e2, ey=e2)]
    p.bdryprops = [dict(name="gnd", type=0, Vs=0.0)]
    p.circprops = [dict(name="top", V=V0, q=0.0, type=1)]
    bottom, top, left, right = box(p, W, H)
    for s in bottom:
        p.segs[s]["bc"] = 0
    for s in top:
        p.segs[s]["cond"] = 0
    ms = rng.choice([0.3, 0.6, 1.0]) * min(W, H) / 2
    p.add_label(W / 4, H / 2, 0, meshsize=ms)
    p.add_label(3 * W / 4, H / 2, 1, meshsize=ms * rng.choice([1.0, 0.5]))
    u = UNIT_M[p.units]
    if axi:
        area1, area2 = math.pi * (W / 2 * u) ** 2, math.pi * ((W * u) ** 2 - (W / 2 * u) ** 2)
    else:
        area1 = area2 = (W / 2 * u) * (p.depth * u)
    Ef = V0 / (H * u)
    cf = dict(value=lambda x, y: V0 * y / H, energy=0.5 * EPS0 * (e1 * area1 + e2 * area2) * Ef ** 2 * (H * u),
              charge=EPS0 * (e1 * area1 + e2 * area2) * Ef, field=(0.0, -Ef), probe=(W / 4, H / 3), name="top")
    return p, cf, "plates-" + p.ptype


def fam_layers(rng, variant):
    """two dielectric layers STACKED between the plates (interface perpendicular to the field): the flux density is uniform, the field and
    the potential piecewise linear - reproduced exactly since the interface is a line of the mesh; the layers are isotropic / anisotropic in
    four combinations, with EQUAL x permittivities in two of them; probes sit within an element of the interface on both sides (the
    post-processor smooths D over neighbouring nodes 'of the same material')"""
    p = Problem("e")
    p.units = rng.choice(UNITS)
    p.ptype = "planar"
    p.depth = rng.choice([1.0, 2.5])
    p.precision = 1e-10
    p.smartmesh = 0
    W, H = rng.choice([2.0, 4.0]), rng.choice([2.0, 3.0])
    e = rng.choice([2.0, 4.5])
    e2 = rng.choice([1.0, 7.0])
    mats = [((e, e), (e, e2)), ((e, e2), (e, e)), ((e, e), (e2, e2)), ((e, e2), (e, 3.0))][variant % 4]
    V0 = rng.choice([1.0, 100.0, -12.5])
    p.blockprops = [dict(name="lower", ex=mats[0][0], ey=mats[0][1]), dict(name="upper", ex=mats[1][0], ey=mats[1][1])]
    p.bdryprops = [dict(name="gnd", type=0, Vs=0.0)]
    p.circprops = [dict(name="top", V=V0, q=0.0, type=1)]
    a, b, c, d = p.add_node(0, 0), p.add_node(W, 0), p.add_node(W, H), p.add_node(0, H)
    m0, m1 = p.add_node(0, H / 2), p.add_node(W, H / 2)
    p.segs[p.add_seg(a, b)]["bc"] = 0
    p.segs[p.add_seg(d, c)]["cond"] = 0
    for (u_, v_) in ((a, m0), (m0, d), (b, m1), (m1, c), (m0, m1)):
        p.add_seg(u_, v_)
    ms = rng.choice([0.15, 0.25]) * min(W, H)
    p.add_label(W / 2, H / 4, 0, meshsize=ms)
    p.add_label(W / 2, 3 * H / 4, 1, meshsize=ms)
    u = UNIT_M[p.units]
    h = H / 2 * u
    s_ = h / mats[0][1] + h / mats[1][1]
    Dy = -EPS0 * V0 / s_                       # D = eps E, E = -grad V, V rises from 0 to V0
    E1, E2 = Dy / (EPS0 * mats[0][1]), Dy / (EPS0 * mats[1][1])
    A = (W * u) * (p.depth * u)
    C = EPS0 * A / s_

    def value(x, y):
        return -E1 * y * u if y <= H / 2 else -E1 * h - E2 * (y - H / 2) * u
    probes = []
    for dy in (-0.45, -0.1, -0.03, 0.03, 0.1, 0.45):
        for fx in (0.31, 0.5, 0.83):
            y = H / 2 + dy * H / 2
            probes.append((fx * W, y, (0.0, E1 if dy < 0 else E2), (0.0, Dy)))
    cf = dict(value=value, energy=0.5 * C * V0 ** 2, charge=C * V0, field=(0.0, E1), probe=(W / 2, H / 4), name="top", probes=probes)
    return p, cf, "layers-%d" % (variant % 4)


def fam_slab(rng, axi):
    p = Problem("h")
    p.units = rng.choice(UNITS)
    p.ptype = "axi" if axi else "planar"
    p.depth = rng.choice([1.0, 3.0])
    p.precision = 1e-10
    p.smartmesh = rng.choice([0, 1])
    W, H = rng.choice([2.0, 3.0, 5.0]), rng.choice([1.0, 2.0, 4.0])
    k = rng.choice([0.5, 2.0, 45.0])
    T0, Tinf, h = rng.choice([400.0, 350.0]), rng.choice([300.0, 280.0]), rng.choice([5.0, 50.0, 500.0])
    p.blockprops = [dict(name="s", Kx=k, Ky=k)]
    p.bdryprops = [dict(name="hot", type=0, Tset=T0), dict(name="conv", type=2, h=h, Tinf=Tinf)]
    bottom, top, left, right = box(p, W, H, split=False)
    # the gradient runs along y (the axis in the axisymmetric variant): fixed at y=0, convection at y=H
    for s in bottom:
        p.segs[s]["bc"] = 0
    for s in top:
        p.segs[s]["bc"] = 1
    ms = rng.choice([0.3, 0.6, 1.0]) * min(W, H) / 2
    p.add_label(W / 2, H / 2, 0, meshsize=ms)
    u = UNIT_M[p.units]
    L = H * u
    TL = (k * T0 / L + h * Tinf) / (k / L + h)
    cf = dict(value=lambda x, y: T0 + (TL - T0) * y / H, field=(0.0, -(TL - T0) / L), probe=(W / 3, H / 2), flux=k * (T0 - TL) / L,
              fscale=k * max(abs(T0), abs(Tinf)) / L)   # the post-processor reports G = -grad T, F = k G
    return p, cf, "slab-" + p.ptype


def fam_uniformB(rng, harmonic):
    p = Problem("m")
    p.units = rng.choice(UNITS)
    p.precision = 1e-10
    p.smartmesh = rng.choice([0, 1])
    p.depth = rng.choice([1.0, 10.0])
    W, H = rng.choice([2.0, 4.0]), rng.choice([1.0, 3.0])
    mu1, mu2 = rng.choice([1.0, 100.0, 1000.0]), rng.choice([1.0, 50.0, 2500.0])
    u = UNIT_M[p.units]
    Bx = rng.choice([0.1, 1.0, -0.5])
    A2 = Bx * u                 # A = Bx*y[m] = (Bx*u)*y[units]
    phi = rng.choice([0.0, 30.0, 90.0]) if harmonic else 0.0
    if harmonic:
        p.freq = rng.choice([50.0, 1000.0])
    p.blockprops = [dict(name="m1", Mu_x=mu1, Mu_y=mu1), dict(name="m2", Mu_x=mu2, Mu_y=mu2)]
    p.bdryprops = [dict(name="lin", type=0, A_0=0.0, A_1=0.0, A_2=A2, Phi=phi)]
    bottom, top, left, right = box(p, W, H)
    for s in bottom + top + left + right:
        p.segs[s]["bc"] = 0
    ms = rng.choice([0.3, 0.6, 1.0]) * min(W, H) / 2
    p.add_label(W / 4, H / 2, 0, meshsize=ms)
    p.add_label(3 * W / 4, H / 2, 1, meshsize=ms)
    ph = complex(math.cos(math.radians(phi)), math.sin(math.radians(phi)))
    vol = (W / 2 * u) * (H * u) * (p.depth * u)
    cf = dict(value=lambda x, y: A2 * y * ph, energy=0.5 * Bx ** 2 / MU0 * (1 / mu1 + 1 / mu2) * vol * (0.5 if harmonic else 1.0),
              field=(Bx * ph, 0.0), probe=(W / 4, H / 3))
    return p, cf, "uniformB-" + ("harmonic" if harmonic else "static")


def fam_uniformB_aniso(rng):
    """one anisotropic linear material (mu_x != mu_y), A = a1 x + a2 y prescribed all around: the flux density (a2, -a1) is uniform, H = B / mu per
    axis, and the stored energy is Vol (Bx^2 / mu_x + By^2 / mu_y) / (2 mu0)"""
    p = Problem("m")
    p.units = rng.choice(UNITS)
    p.precision = 1e-10
    p.smartmesh = rng.choice([0, 1])
    p.depth = rng.choice([1.0, 5.0])
    W, H = rng.choice([2.0, 3.0]), rng.choice([1.0, 2.0])
    mux, muy = rng.choice([(4.0, 40.0), (100.0, 5.0), (1.0, 20.0)])
    u = UNIT_M[p.units]
    Bx, By = rng.choice([0.7, -0.3]), rng.choice([-1.3, 0.5])
    p.blockprops = [dict(name="aniso", Mu_x=mux, Mu_y=muy)]
    p.bdryprops = [dict(name="lin", type=0, A_0=0.0, A_1=-By * u, A_2=Bx * u, Phi=0.0)]
    bottom, top, left, right = box(p, W, H, split=False)
    for s_ in bottom + top + left + right:
        p.segs[s_]["bc"] = 0
    p.add_label(W / 2, H / 2, 0, meshsize=rng.choice([0.3, 0.6]) * min(W, H) / 2)
    vol = (W * u) * (H * u) * (p.depth * u)
    cf = dict(value=lambda x, y: (-By * x + Bx * y) * u, energy=0.5 / MU0 * (Bx ** 2 / mux + By ** 2 / muy) * vol,
              field=(Bx, By), probe=(W / 3, H / 3))
    return p, cf, "uniformB-anisotropic"


def fam_coax(rng, ms):
    """coaxial capacitor: V = V0 ln(b/r)/ln(b/a); quarter... full annulus from arcs"""
    p = Problem("e")
    p.units = "centimeters"
    p.precision = 1e-10
    p.smartmesh = 0
    a, b = 1.0, 3.0
    p.blockprops = [dict(name="d", ex=2.0, ey=2.0)]
    p.circprops = [dict(name="in", V=10.0, q=0, type=1), dict(name="out", V=0.0, q=0, type=1)]
    for r, c in ((a, 0), (b, 1)):
        n0, n1 = p.add_node(-r, 0), p.add_node(r, 0)
        p.add_arc(n0, n1, 180.0, 2.5, cond=c)
        p.add_arc(n1, n0, 180.0, 2.5, cond=c)
    p.add_hole(0, 0)
    p.add_label(2.0, 0.0, 0, meshsize=ms)
    cf = dict(value=lambda x, y: 10.0 * math.log(b / math.hypot(x, y)) / math.log(b / a))
    return p, cf


def H_of(p):
    return max(n["y"] for n in p.nodes)


def main(argv):
    ck = vlib.Check("C06", "proof", argv)
    ck.cov["rule"] = ("closed-form families with random dimensions, material constants, boundary values, units, depths, mesh sizes and "
                      "smart-mesh settings: plates (planar/axi), slab with convection (planar/axi), uniform B across side-by-side "
                      "permeabilities (static/harmonic); plus a coaxial capacitor at two mesh sizes; a case is non-trivial when the "
                      "closed-form field is non-constant")
    ck.assumptions += ["the convergence half (non-affine classics) is an error-decrease test with a fixed bound, not a theorem",
                       "solver precision 1e-10 is requested; nodal agreement is required to 1e-6 of the field range"]
    ck.run_stage_a()
    build = vlib.build_repo("plain")
    work = vlib.workdir("C06")
    rng = ck.rng
    stats = dict(families={}, worst_nodal_error=0.0, worst_energy_error=0.0, worst_charge_error=0.0, worst_field_error=0.0, coax_errors=[])
    nrep = 2 if ck.tier == "quick" else 14
    fams = []
    for r in range(nrep):
        fams += [lambda rr=rng: fam_plates(rr, False), lambda rr=rng: fam_plates(rr, True), lambda rr=rng: fam_slab(rr, False),
                 lambda rr=rng: fam_slab(rr, True), lambda rr=rng: fam_uniformB(rr, False), lambda rr=rng: fam_uniformB(rr, True),
                 lambda rr=rng, v=2 * r: fam_layers(rr, v), lambda rr=rng, v=2 * r + 1: fam_layers(rr, v), lambda rr=rng: fam_uniformB_aniso(rr)]
    try:
        for t, mk in enumerate(fams):
            p, cf, name = mk()
            stats["families"][name] = stats["families"].get(name, 0) + 1
            run = Run(build, work, "p%d" % t, p)
            ck.case((name, p.units, p.depth, len(p.nodes), t), nontrivial=True,
                    sample=dict(family=name, units=p.units, depth=p.depth, smartmesh=p.smartmesh) if t < 6 else None)
            if run.mesh() != 0 or run.solve() != 0:
                ck.violation("tool-failed:" + name, "mesher/solver failed on a closed-form problem: " + (run.mesh_out + run.solve_out)[-300:], dict(files=run.files()))
                continue
            sol = femmio.read_solution(run.solution_path(), p.kind)
            rng_v = [cf["value"](n[0], n[1]) for n in sol["nodes"]]
            span = max(abs(v) for v in rng_v) - min(abs(v) for v in rng_v)
            # "to solver precision": 1e-6 of the field's range, floored at 1e-8 of its magnitude (Precision 1e-10 times a
            # modest condition number)
            span = max(span, max(abs(v) for v in rng_v) * 1e-2, 1e-300)
            worst = 0.0
            wn = None
            for n, ex in zip(sol["nodes"], rng_v):
                got = complex(n[2], n[3]) if (p.kind == "m" and p.freq != 0) else n[2]
                e = abs(got - ex) / span
                if e > worst:
                    worst, wn = e, (n[0], n[1], got, ex)
            stats["worst_nodal_error"] = max(stats["worst_nodal_error"], worst)
            if not (worst <= 1e-6) or any(not (abs(complex(n[2], n[3]) if (p.kind == "m" and p.freq != 0) else n[2]) < float("inf")) for n in sol["nodes"]):
                if wn is None:
                    wn = (sol["nodes"][0][0], sol["nodes"][0][1], sol["nodes"][0][2], rng_v[0]); worst = float("nan")
                ck.violation("nodal:" + name, "%s (%s, %s): node (%.6g, %.6g) holds %s, the closed-form linear field gives %s (error %.3g of the range)"
                             % (name, p.units, p.ptype, wn[0], wn[1], wn[2], wn[3], worst), dict(files=run.files(), family=name))
                continue
            # ---- derived quantities through the real post-processor
            s = lua_post.Session(p.kind, "p" + femmio.EXT[p.kind], analyze=False)
            s.point("pt", *cf["probe"])
            s.group_select()
            if p.kind == "e":
                s.block_integral("W", 0)
                s.conductor("q", cf["name"])
            elif p.kind == "m":
                s.block_integral("W", 2)
            s.clear_blocks()
            rc, out, raw = s.run(build, run.dir)
            if rc != 0 or "pt" not in out:
                ck.violation("post-failed:" + name, "femmcli post-processing failed (rc=%s): %s" % (rc, raw[-300:]), dict(files=run.files()))
                continue
            pv = out["pt"]
            if p.kind == "e":
                Ex, Ey = pv[3], pv[4]
                ferr = math.hypot(Ex - cf["field"][0], Ey - cf["field"][1]) / max(math.hypot(*cf["field"]), 1e-300)
                werr = abs(out["W"][0] - cf["energy"]) / abs(cf["energy"])
                qerr = abs(abs(out["q"][1]) - abs(cf["charge"])) / abs(cf["charge"])
                stats["worst_energy_error"] = max(stats["worst_energy_error"], werr)
                stats["worst_charge_error"] = max(stats["worst_charge_error"], qerr)
                if not (werr <= 1e-6):
                    ck.violation("energy:" + name, "stored energy %.9g J, closed form %.9g J (%s, %s)" % (out["W"][0], cf["energy"], p.units, p.ptype), dict(files=run.files()))
                if not (qerr <= 1e-6):
                    ck.violation("charge:" + name, "conductor charge %.9g C, closed form %.9g C (%s, %s)" % (out["q"][1], cf["charge"], p.units, p.ptype), dict(files=run.files()))
                if cf.get("probes"):
                    s2 = lua_post.Session(p.kind, "p" + femmio.EXT[p.kind], analyze=False)
                    for k_, (x_, y_, _, _) in enumerate(cf["probes"]):
                        s2.point("pr%d" % k_, x_, y_)
                    rc2, out2, raw2 = s2.run(build, run.dir)
                    for k_, (x_, y_, Ecf, Dcf) in enumerate(cf["probes"]):
                        v_ = out2.get("pr%d" % k_)
                        if rc2 != 0 or not v_ or any(v_[i_] is None for i_ in (1, 2, 3, 4)):
                            ck.violation("post-failed:" + name, "point values at (%g, %g) come back incomplete: %r" % (x_, y_, v_), dict(files=run.files()))
                            break
                        derr = math.hypot(v_[1] - Dcf[0], v_[2] - Dcf[1]) / abs(Dcf[1])
                        eerr = math.hypot(v_[3] - Ecf[0], v_[4] - Ecf[1]) / abs(Ecf[1])
                        stats["worst_layer_probe_error"] = max(stats.get("worst_layer_probe_error", 0.0), derr, eerr)
                        stats["layer_probes"] = stats.get("layer_probes", 0) + 1
                        if not (derr <= 1e-6 and eerr <= 1e-6):
                            ck.violation("field:" + name, "stacked layers %r / %r (%s): at (%.6g, %.6g), %.3g of the height from the interface, D = (%.6g, %.6g), E = (%.6g, %.6g); "
                                         "the closed form is D = (0, %.6g), E = (0, %.6g)" % ((p.blockprops[0]["ex"], p.blockprops[0]["ey"]), (p.blockprops[1]["ex"], p.blockprops[1]["ey"]),
                                         p.units, x_, y_, abs(y_ - H_of(p) / 2) / H_of(p), v_[1], v_[2], v_[3], v_[4], Dcf[1], Ecf[1]), dict(files=run.files(), values=v_))
                            break
            elif p.kind == "h":
                Gx, Gy = pv[3], pv[4]
                Fy = pv[2]
                # temperatures are reproduced to 1e-6 of their range; gradients divide a small difference by L
                ferr = math.hypot(Gx - cf["field"][0], Gy - cf["field"][1]) / max(math.hypot(*cf["field"]), 1e-3 * cf["fscale"] / max(pv[5], 1e-300))
                if not (abs(Fy - cf["flux"]) <= 1e-8 * cf["fscale"] + 1e-6 * abs(cf["flux"])):
                    ck.violation("flux:" + name, "heat flux density %.9g, closed form %.9g" % (Fy, cf["flux"]), dict(files=run.files()))
            else:
                B1, B2 = pv[1], pv[2]
                if B1 is None or B2 is None:
                    # femmcli prints nothing for a NaN complex number
                    ck.violation("field-nan:" + name, "the flux density at %r comes back empty (NaN) (%s, %s, f=%g)" % (cf["probe"], p.units, p.ptype, p.freq), dict(files=run.files(), values=pv))
                    continue
                ferr = math.sqrt(abs(B1 - cf["field"][0]) ** 2 + abs(B2 - cf["field"][1]) ** 2) / max(abs(cf["field"][0]), 1e-300)
                if not out.get("W") or out["W"][0] is None:
                    ck.violation("energy-missing:" + name, "the stored-energy integral comes back empty (NaN) (%s, %s, f=%g)" % (p.units, p.ptype, p.freq), dict(files=run.files()))
                else:
                    werr = abs(out["W"][0] - cf["energy"]) / abs(cf["energy"])
                    stats["worst_energy_error"] = max(stats["worst_energy_error"], werr)
                    if not (werr <= 1e-6):
                        ck.violation("energy:" + name, "stored energy %.9g J, closed form %.9g J (%s, f=%g)" % (out["W"][0], cf["energy"], p.units, p.freq), dict(files=run.files()))
            stats["worst_field_error"] = max(stats["worst_field_error"], ferr)
            if not (ferr <= 1e-6):
                ck.violation("field:" + name, "field at %r deviates from the closed-form uniform field by %.3g (relative)" % (cf["probe"], ferr),
                             dict(files=run.files(), values=pv))
        # ---- non-affine classic: coaxial capacitor, two mesh sizes
        errs = []
        for i, ms in enumerate((0.5, 0.25)):
            p, cf = fam_coax(rng, ms)
            run = Run(build, work, "coax%d" % i, p)
            ck.case(("coax", ms), nontrivial=True)
            if run.mesh() != 0 or run.solve() != 0:
                ck.violation("tool-failed:coax", "mesher/solver failed on the coaxial capacitor: " + (run.mesh_out + run.solve_out)[-300:], dict(files=run.files()))
                break
            sol = femmio.read_solution(run.solution_path(), "e")
            errs.append(max(abs(n[2] - cf["value"](n[0], n[1])) for n in sol["nodes"]) / 10.0)
        stats["coax_errors"] = errs
        if len(errs) == 2:
            if not (errs[1] < errs[0] and errs[1] < 5e-3):
                ck.violation("convergence:coax", "coaxial capacitor: relative nodal errors %.3g (h) and %.3g (h/2) do not decrease / exceed the mesh-accuracy bound 5e-3"
                             % (errs[0], errs[1]), dict(errors=errs))
    finally:
        shutil.rmtree(work, ignore_errors=True)
    ck.notes["input_distribution"] = stats
    return ck.finish()
