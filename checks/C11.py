"""C11 — linear problems superpose and are reciprocal in every formulation.

stage A: Properties/C11.lean (superposition of solutions of K x = b with excitation-independent K; reciprocity of the
         reactions for symmetric K; linearity of the element source terms of the model tied to the code)
stage P: triples of real runs (S1, S2, a*S1 + b*S2) on the IDENTICAL mesh for every formulation: electrostatics and heat
         (planar + axisymmetric), magnetostatics planar + axisymmetric, time-harmonic planar + axisymmetric: nodal values of
         the combined run = a*X1 + b*X2 at every node; zero excitation => zero field; reciprocity of conductor charges / heat
         flows and of mutual flux linkages; a harmonic solve at vanishing frequency equals the static one
"""
import copy, os, shutil, sys
sys.path.insert(0, os.path.join(os.path.dirname(os.path.dirname(os.path.abspath(__file__))), "harness", "py"))
from tools import vlib
import femmio, gen, lua_post
from runner import Run


def base_problem(kind, rng, axi, harmonic=False):
    p = gen.gen_rects(kind, rng, units=rng.choice(["millimeters", "centimeters", "inches", "meters"]))
    p.ptype = "axi" if axi else "planar"
    p.smartmesh = 0
    p.precision = 1e-10
    for lab in p.labels:
        lab["meshsize"] = rng.choice([0.75, 1.0])
    for m in p.blockprops:
        m.pop("LamType", None); m.pop("LamFill", None)
        if kind == "m":
            m["H_c"] = 0.0
            m["J_re"] = 0.0
            if harmonic:
                m["Sigma"] = m.get("Sigma", rng.choice([0.0, 1.0, 10.0]))
        else:
            m["qv"] = 0.0
    # linear heat: no radiation in the generator; mixed BC stays (linear)
    return p


def excite(p, kind, rng, which):
    """two independent excitation sets S1, S2 (dicts applied by `apply`)"""
    ex = {}
    if kind == "m":
        ex["J"] = {i: rng.choice([0.0, 1.0, -2.0]) for i in range(len(p.blockprops))}
        # (a circuit may carry no current in one of the two excitation sets: "0 A imposed" is an excitation value like any other)
        ex["I"] = {i: rng.choice([1.0, -3.0, 0.5, 0.0]) for i in range(len(p.circprops))}
        ex["A"] = (rng.choice([0.0, 1e-3]), rng.choice([0.0, 2e-3]), rng.choice([0.0, -1e-3]))
        ex["Hc"] = {i: rng.choice([0.0, 0.0, 1e5]) for i in range(len(p.blockprops))}
        ex["pt"] = rng.choice([0.0, 0.25])
    else:
        ex["qv"] = {i: rng.choice([0.0, 1.0, -0.5]) * (1e-6 if kind == "e" else 100.0) for i in range(len(p.blockprops))}
        ex["V"] = {i: rng.choice([0.0, 10.0, -4.0]) for i in range(len(p.circprops))}
        ex["q"] = {i: rng.choice([0.0, 1.0]) * (1e-9 if kind == "e" else 2.0) for i in range(len(p.circprops))}
        ex["b"] = rng.choice([0.0, 5.0, 100.0])
        ex["flux"] = rng.choice([0.0, 1.0]) * (1e-8 if kind == "e" else 50.0)
        ex["c1"] = rng.choice([0.0, 1.0]) * (1e-9 if kind == "e" else 300.0)
        ex["ptV"] = rng.choice([0.0, 5.0, -2.0])
        ex["ptq"] = rng.choice([0.0, 1.0]) * (1e-9 if kind == "e" else 2.0)
    return ex


def combine(e1, e2, a, b):
    out = {}
    for k in e1:
        if isinstance(e1[k], dict):
            out[k] = {i: a * e1[k][i] + b * e2[k][i] for i in e1[k]}
        elif isinstance(e1[k], tuple):
            out[k] = tuple(a * x + b * y for x, y in zip(e1[k], e2[k]))
        else:
            out[k] = a * e1[k] + b * e2[k]
    return out


def apply(p0, kind, ex):
    p = copy.deepcopy(p0)
    if kind == "m":
        for i, m in enumerate(p.blockprops):
            m["J_re"] = ex["J"][i]
            m["H_c"] = ex["Hc"][i]
        for i, c in enumerate(p.circprops):
            c["I_re"] = ex["I"][i]
        for bp in p.bdryprops:
            if bp["type"] == 0:
                bp["A_0"], bp["A_1"], bp["A_2"] = ex["A"]
            else:
                bp["c1"] = 0.0
        for pp in p.pointprops:
            pp["I_re"] = ex["pt"] if ex["pt"] != 0 else 1e-300   # keep the property a point *current* in every run
            pp["A_re"] = 0.0
    else:
        vk = "Vs" if kind == "e" else "Tset"
        for i, m in enumerate(p.blockprops):
            m["qv"] = ex["qv"][i]
        for i, c in enumerate(p.circprops):
            if c["type"] == 1:
                c["V"] = ex["V"][i]; c["q"] = 0.0
            else:
                c["q"] = ex["q"][i]; c["V"] = 0.0
        for bp in p.bdryprops:
            if bp["type"] == 0:
                bp[vk] = ex["b"]
            elif (kind == "e" and bp["type"] == 2) or (kind == "h" and bp["type"] == 1):
                bp["qs"] = ex["flux"]
            elif kind == "e" and bp["type"] == 1:
                bp["c1"] = ex["c1"]
            elif kind == "h" and bp["type"] == 2:
                bp["Tinf"] = ex["c1"]         # convection: c1 = -h*Tinf is linear in Tinf
        for pp in p0.pointprops and p.pointprops:
            if pp.get("q", 0.0) == 0:
                pp["V"] = ex["ptV"]            # a prescribed-value point stays one
            else:
                pp["q"] = ex["ptq"] if ex["ptq"] != 0 else 1e-300   # a point source stays a source in every run
    return p


def nodal(sol, kind, harmonic):
    if kind == "m" and harmonic:
        return [complex(n[2], n[3]) for n in sol["nodes"]]
    return [n[2] for n in sol["nodes"]]


def main(argv):
    ck = vlib.Check("C11", "proof", argv)
    ck.cov["rule"] = ("per formulation (electrostatics / heat planar+axi, magnetostatics planar+axi, harmonic planar+axi) generated "
                      "drawings with two random excitation sets S1, S2 over all excitation kinds and random scalars a, b; the three "
                      "problems are solved on one mesh; plus reciprocity pairs and a vanishing-frequency pair; non-trivial = both "
                      "S1 and S2 produce a non-zero field")
    ck.assumptions += ["point-property values that switch a node between 'prescribed value' and 'source' are kept on one side",
                       "materials are linear (no B-H curves, no radiation)"]
    ck.run_stage_a()
    build = vlib.build_repo("plain")
    work = vlib.workdir("C11")
    rng = ck.rng
    stats = dict(triples=0, by_formulation={}, worst_superposition_error=0.0, reciprocity_pairs=0, worst_reciprocity_error=0.0,
                 zero_runs=0, vanishing_frequency_pairs=0)
    forms = [("e", False, False), ("e", True, False), ("h", False, False), ("h", True, False), ("m", False, False), ("m", True, False),
             ("m", False, True), ("m", True, True)]
    if ck.tier == "thorough":
        forms = forms * 6
    try:
        for t, (kind, axi, harmonic) in enumerate(forms):
            fname = "%s-%s%s" % (kind, "axi" if axi else "planar", "-harmonic" if harmonic else "")
            stats["by_formulation"][fname] = stats["by_formulation"].get(fname, 0) + 1
            p0 = base_problem(kind, rng, axi, harmonic)
            if harmonic:
                p0.freq = rng.choice([50.0, 400.0])
            if kind == "m" and not any(l_["circ"] == 0 for l_ in p0.labels):
                # every magnetics triple has a circuit with a region (the generator draws 0-2 circuits)
                if not p0.circprops:
                    p0.circprops = [dict(name="c0", I_re=1.0, type=rng.choice([0, 1]))]
                lab0_ = p0.labels[1 if len(p0.labels) > 1 else 0]
                lab0_["circ"] = 0
                lab0_["turns"] = 1
            e1, e2 = excite(p0, kind, rng, 1), excite(p0, kind, rng, 2)
            if kind == "m" and p0.circprops and any(l_["circ"] == 0 for l_ in p0.labels):
                # the first circuit carries a current in S1 and none in S2 ("0 A imposed" is an excitation value like any other), and in
                # time-harmonic problems its regions are solid conductors, so that its voltage gradient is an unknown of the system
                if not e1["I"][0]:
                    e1["I"][0] = 1.0
                e2["I"][0] = 0.0
                if harmonic:
                    for l_ in p0.labels:
                        if l_["circ"] == 0:
                            l_["turns"] = 1
                            if not p0.blockprops[l_["block"]].get("Sigma"):
                                p0.blockprops[l_["block"]]["Sigma"] = 10.0
            a, b = rng.choice([2.0, -1.5, 0.25]), rng.choice([1.0, 3.0, -0.5])
            if kind == "h":
                # an ambient temperature of the convection condition in S1 and none in S2, combined with a NEGATIVE weight: the combined
                # excitation has a negative ambient temperature (an excitation value like any other for a linear solver), and the convection
                # condition is carried by a line of the outer box
                gen.use_all_bdry(p0, (1, 2))
                e1["c1"], e2["c1"], a = 300.0, 0.0, -1.5
            e3 = combine(e1, e2, a, b)
            ez = combine(e1, e2, 0.0, 0.0)
            runs = {}
            first = None
            ok = True
            for name, ex in (("s1", e1), ("s2", e2), ("s3", e3), ("zero", ez)):
                p = apply(p0, kind, ex)
                run = Run(build, work, "t%d_%s" % (t, name), p)
                if first is None:
                    if run.mesh() != 0:
                        ck.violation("mesher-failed", "fmesher failed: " + run.mesh_out[-300:], dict(files=run.files()))
                        ok = False
                        break
                    first = run
                else:
                    for e in (".node", ".ele", ".edge", ".pbc"):
                        shutil.copy(first.snap(e), run.base + e)
                if run.solve() != 0:
                    ck.violation("solver-failed:" + fname, "solver failed on run %s: %s" % (name, run.solve_out[-300:]), dict(files=run.files()))
                    ok = False
                    break
                runs[name] = (run, nodal(femmio.read_solution(run.solution_path(), kind), kind, harmonic))
            ck.case((fname, t), nontrivial=True, sample=dict(formulation=fname, a=a, b=b, S1={k: str(v)[:60] for k, v in e1.items()}) if t < 3 else None)
            if not ok:
                continue
            stats["triples"] += 1
            x1, x2, x3, xz = runs["s1"][1], runs["s2"][1], runs["s3"][1], runs["zero"][1]
            scale = max(max(abs(v) for v in x1) * abs(a), max(abs(v) for v in x2) * abs(b), max(abs(v) for v in x3), 1e-300)
            err = max(abs(v3 - (a * v1 + b * v2)) for v1, v2, v3 in zip(x1, x2, x3)) / scale
            stats["worst_superposition_error"] = max(stats["worst_superposition_error"], err)
            if not (err <= 1e-7):
                k = max(range(len(x3)), key=lambda i: abs(x3[i] - (a * x1[i] + b * x2[i])))
                ck.violation("superposition:" + fname, "%s: node %d of the combined run holds %s, a*X1+b*X2 = %s (a=%g, b=%g; relative deviation %.3g)"
                             % (fname, k, x3[k], a * x1[k] + b * x2[k], a, b, err),
                             dict(formulation=fname, a=a, b=b, S1=e1, S2=e2, files=runs["s3"][0].files()))
            stats["zero_runs"] += 1
            zscale = max(max(abs(v) for v in x1), max(abs(v) for v in x2), 1e-300)
            zbad = [v for v in xz if not (abs(v) <= 1e-9 * zscale)]        # (a NaN is not <= anything)
            if zbad:
                ck.violation("zero-excitation:" + fname, "%s: zero excitation gives a field of %s at %d of %d nodes" % (fname, zbad[0], len(zbad), len(xz)),
                             dict(formulation=fname, files=runs["zero"][0].files()))
        # ---- reciprocity: electrostatics / heat conductors, magnetics mutual linkage
        for t, (kind, axi, par) in enumerate([("e", False, None), ("e", True, None), ("h", False, None), ("m", False, None), ("m", True, None),
                                              ("m", False, "parallel"), ("m", False, "parallel-solid")]):
            p0 = base_problem(kind, rng, axi)
            if kind == "m":
                if len(p0.labels) < 2:
                    continue
                # series circuits (turns) - or, in the last two cases, PARALLEL circuits of one turn, stranded (no conductivity) or solid:
                # the flux linkage of the circuit that carries no current then comes from the special-case routines of the post-processor
                ctype = 0 if par else 1
                p0.circprops = [dict(name="c1", I_re=0.0, type=ctype), dict(name="c2", I_re=0.0, type=ctype)]
                for lab in p0.labels:
                    lab["circ"] = -1
                p0.labels[0].update(circ=0, turns=1 if par else rng.choice([1, 7]))
                p0.labels[1].update(circ=1, turns=1 if par else rng.choice([1, 3]))
                if par:
                    stats["reciprocity_parallel_circuits"] = stats.get("reciprocity_parallel_circuits", 0) + 1
                    for lab in p0.labels[:2]:
                        if lab["block"] >= 0:
                            m_ = p0.blockprops[lab["block"]]
                            m_.pop("LamType", None); m_.pop("LamFill", None)
                            m_["Sigma"] = 58.0 if par == "parallel-solid" else 0.0
                for bp in p0.bdryprops:
                    bp.update(A_0=0.0, A_1=0.0, A_2=0.0, c1=0.0)
                p0.pointprops = []
                for n in p0.nodes:
                    n["bc"] = -1
                names = ["c1", "c2"]
            else:
                fixedc = [i for i, c in enumerate(p0.circprops) if c["type"] == 1]
                used = sorted(set(s["cond"] for s in p0.segs if s["cond"] >= 0) & set(fixedc))
                while len(used) < 2:
                    # attach conductors to two free-standing nodes
                    idx = len(p0.circprops)
                    p0.circprops.append(dict(name="cx%d" % idx, V=0.0, q=0.0, type=1))
                    # in the free strip next to the outer boundary (no generated box comes closer than 0.2)
                    W = max(n["x"] for n in p0.nodes[:4]); H = max(n["y"] for n in p0.nodes[:4])
                    p0.add_node(0.125 if len(used) == 0 else W - 0.125, round(0.4 * H * 8) / 8 if len(used) == 0 else round(0.6 * H * 8) / 8, cond=idx)
                    used.append(idx)
                names = [p0.circprops[used[0]]["name"], p0.circprops[used[1]]["name"]]
                vk = "Vs" if kind == "e" else "Tset"
                # anisotropic materials in every reciprocity problem (the couplings of a symmetric material tensor are still symmetric; a
                # terminal quantity computed with the wrong tensor component is not)
                for m_ in p0.blockprops:
                    if kind == "e":
                        m_["ey"] = m_["ex"] * rng.choice([3.0, 0.4])
                    else:
                        m_["Ky"] = m_["Kx"] * rng.choice([3.0, 0.4])
                for bp in p0.bdryprops:
                    bp[vk] = 0.0; bp["qs"] = 0.0; bp["c1"] = 0.0; bp["Tinf"] = 0.0
                for c in p0.circprops:
                    c["V"] = 0.0; c["q"] = 0.0
                for pp in p0.pointprops:
                    pp["V"] = 0.0
                    if pp.get("q", 0.0) != 0:
                        pp["q"] = 1e-300      # no other excitation than the driven terminal
            def couplings(p0_, tagname):
                got = {}
                first = None
                runs_ = []
                for drive in (0, 1):
                    p = copy.deepcopy(p0_)
                    if kind == "m":
                        p.circprops[drive]["I_re"] = 1.0
                    else:
                        for c in p.circprops:
                            if c["name"] == names[drive]:
                                c["V"] = 1.0
                    run = Run(build, work, "r%d_%s_%d" % (t, tagname, drive), p)
                    runs_.append(run)
                    if first is None:
                        if run.mesh() != 0:
                            break
                        first = run
                    else:
                        for e in (".node", ".ele", ".edge", ".pbc"):
                            shutil.copy(first.snap(e), run.base + e)
                    if run.solve() != 0:
                        break
                    s = lua_post.Session(kind, "p" + femmio.EXT[kind], analyze=False)
                    s.conductor("t", names[1 - drive])
                    rc, out, raw = s.run(build, run.dir)
                    if rc != 0 or "t" not in out:
                        break
                    ix_ = 2 if kind == "m" else 1
                    got[drive] = out["t"][ix_] if len(out["t"]) > ix_ else None       # (an empty print = NaN shortens the list)
                    s2 = lua_post.Session(kind, "p" + femmio.EXT[kind], analyze=False)
                    s2.conductor("t", names[drive])
                    rc, out, raw = s2.run(build, run.dir)
                    got[("self", drive)] = out["t"][ix_] if ("t" in out and len(out["t"]) > ix_) else None
                return got, runs_
            got, pair_runs = couplings(p0, "a")
            ck.case(("reciprocity", kind, axi), nontrivial=True)
            if len([k for k in got if isinstance(k, int)]) == 2 and (got[0] is None or got[1] is None):
                # a coupling that comes back without a number (femmcli prints nothing for NaN) is a result, not a reason to skip the pair
                ck.violation("reciprocity:no-value:%s%s" % (kind, ":" + par if par else ""), "%s%s: the %s of the terminal that carries nothing comes back without a value (NaN): "
                             "driven 1 -> %r, driven 2 -> %r" % ({"e": "electrostatics", "h": "heat flow", "m": "magnetics"}[kind], " (%s circuits)" % par if par else "",
                             "flux linkage" if kind == "m" else "charge / heat flow", got[0], got[1]), dict(files=pair_runs[0].files()))
            if len([k for k in got if isinstance(k, int)]) == 2 and got[0] is not None and got[1] is not None:
                stats["reciprocity_pairs"] += 1
                sc = max(abs(got.get(("self", 0)) or 0), abs(got.get(("self", 1)) or 0), abs(got[0]), abs(got[1]), 1e-300)
                err = abs(got[0] - got[1]) / sc
                stats["worst_reciprocity_error"] = max(stats["worst_reciprocity_error"], err)
                mesh_level = False
                if not (err <= 1e-6) and kind == "m" and axi:
                    # axisymmetric magnetics: the flux-linkage integrals of the post-processor are not the reaction of the
                    # assembled (modified-potential) matrix, so the discrete couplings agree only to mesh accuracy — which is decided,
                    # not assumed: the same pair on a mesh four times as fine must show less than half the asymmetry (one halving is not enough on
                    # the coarsest meshes, where the error is not yet in its asymptotic range)
                    pf = copy.deepcopy(p0)
                    for lab_ in pf.labels:
                        if lab_["meshsize"] > 0:
                            lab_["meshsize"] *= 0.25
                    gf, _ = couplings(pf, "f")
                    if gf.get(0) is not None and gf.get(1) is not None:
                        scf = max(abs(gf.get(("self", 0)) or 0), abs(gf.get(("self", 1)) or 0), abs(gf[0]), abs(gf[1]), 1e-300)
                        errf = abs(gf[0] - gf[1]) / scf
                        stats.setdefault("axi_asymmetry_coarse_fine", []).append((err, errf))
                        mesh_level = errf < 0.5 * err and err < 0.2
                        if max(err, errf) < 1e-4:
                            # both far below the asymmetries of this finding (1e-4 ... 1e-2): a pair that happens to be nearly symmetric on
                            # the coarse mesh (4.6e-6, then 2.4e-5 on the fine one) does not have to get better before it counts as mesh-level
                            mesh_level = True
                        if not mesh_level and errf < 0.8 * err and err < 0.2:
                            # slow but steady: with stranded coils next to the axis the asymmetry falls by 0.6 per refinement step instead of
                            # 0.25 (8.4e-4 -> 5.2e-4 observed); one more level must continue the decrease
                            pff = copy.deepcopy(p0)
                            for lab_ in pff.labels:
                                if lab_["meshsize"] > 0:
                                    lab_["meshsize"] *= 0.125
                            gff, _ = couplings(pff, "g")
                            if gff.get(0) is not None and gff.get(1) is not None:
                                scff = max(abs(gff.get(("self", 0)) or 0), abs(gff.get(("self", 1)) or 0), abs(gff[0]), abs(gff[1]), 1e-300)
                                errff = abs(gff[0] - gff[1]) / scff
                                stats["axi_asymmetry_coarse_fine"][-1] = (err, errf, errff)
                                mesh_level = errff < 0.8 * errf
                if not (err <= 1e-6):
                    ck.violation("reciprocity:m:axi:mesh-level" if mesh_level else
                                 "reciprocity:%s:%s" % (kind, "axi" if axi else "planar"),
                                 "%s %s: coupling 1->2 = %.9g, 2->1 = %.9g (self terms %.3g, %.3g)" % (kind, "axisymmetric" if axi else "planar", got[0], got[1],
                                                                                                         got.get(("self", 0)) or 0, got.get(("self", 1)) or 0),
                                 dict(kind=kind, axi=axi, drive1=pair_runs[0].files() if pair_runs else None, drive2=pair_runs[1].files() if len(pair_runs) > 1 else None))
        # ---- a time-harmonic solve at vanishing frequency equals the static one
        vf = [(False, None), (True, None), (False, "lam"), (True, "lam"), (False, "lam0"), (True, "lam0"), (False, "solidcirc"), (True, "solidcirc")]
        if ck.tier == "thorough":
            vf = vf * 3
        for t, (axi, lam) in enumerate(vf):
            p0 = base_problem("m", rng, axi, harmonic=True)
            e1 = excite(p0, "m", rng, 1)
            e1["Hc"] = {i: 0.0 for i in e1["Hc"]}      # permanent magnets are a DC-only excitation (ignored by the AC solver)
            if lam and not any(e1["J"].values()) and not any(e1["I"].values()) and not any(e1["A"]) and not e1["pt"]:
                e1["J"] = {i: 1.0 for i in e1["J"]}
            ps = apply(p0, "m", e1)
            if lam == "solidcirc":
                lam = None
                solidcirc = True
            else:
                solidcirc = False
            if lam:
                # laminations in the plane (type 0): iron of fill t in parallel with air, mu_eff = t mu + (1 - t), in the static solvers, the
                # harmonic solvers and the post-processor alike; "lam0" = a fill factor on a material without a lamination thickness
                for m in ps.blockprops:
                    m["LamType"] = 0
                    m["LamFill"] = rng.choice([0.5, 0.9])
                    m["d_lam"] = 0.0 if lam == "lam0" else rng.choice([0.35, 0.5])
                    m["Mu_x"] = rng.choice([1.0, 50.0, 1000.0]); m["Mu_y"] = m["Mu_x"]
            # regions that belong to a circuit are made non-conducting for this pair: with a massive conductor in a series circuit the
            # harmonic formulation carries a voltage unknown whose equation degenerates as omega -> 0, and the complex solver then
            # returns with true residuals of 1e-2 (observed at 1e-16 Hz; recorded under "observed, not claimed" in DESIGN.md)
            for lab_ in ps.labels:
                if lab_["circ"] >= 0:
                    ps.blockprops[lab_["block"]]["Sigma"] = 0.0
            if solidcirc:
                # ... except in this variant: a SOLID conductor (one turn, conductivity 58 MS/m) in a PARALLEL circuit that carries a current,
                # made of a material with its own source current density - the circuit current is the total the region carries, in the
                # static and in the harmonic formulation alike; solved at 1e-6 Hz (the eddy reaction is of the order 1e-6), compared to 1e-4
                cl = [l_ for l_ in ps.labels if l_["circ"] >= 0 and l_["block"] >= 0]
                if not cl:
                    # no region of this drawing is in a circuit: put the last material region into one
                    cand = [l_ for l_ in ps.labels if l_["block"] >= 0]
                    if not cand:
                        continue
                    if not ps.circprops:
                        ps.circprops = [dict(name="cvf", I_re=1.0, type=0)]
                    cand[-1]["circ"] = 0
                    cl = [cand[-1]]
                for l_ in cl:
                    l_["turns"] = 1
                    ps.circprops[l_["circ"]]["type"] = 0
                    if not ps.circprops[l_["circ"]].get("I_re"):
                        ps.circprops[l_["circ"]]["I_re"] = 1.0
                    ps.blockprops[l_["block"]].update(Sigma=58.0, J_re=2.0)
                    ps.blockprops[l_["block"]].pop("LamType", None); ps.blockprops[l_["block"]].pop("LamFill", None)
                # non-magnetic materials and centimetres: the frequency below is then 1e-7 .. 1e-6 Hz, inside the range in which the
                # complex solver is known to converge with a voltage unknown (far lower frequencies degenerate, see above)
                for m in ps.blockprops:
                    m["Mu_x"] = m["Mu_y"] = 1.0
                ps.units = "centimeters"
            ph = copy.deepcopy(ps)
            # "vanishing": far below the magnetic diffusion frequency of the drawing, omega*sigma*mu*L^2 = 1e-11
            import math
            L = max(max(abs(n["x"]), abs(n["y"])) for n in ps.nodes) * femmio.UNIT_M[ps.units]
            smax = max([m.get("Sigma", 0.0) for m in ps.blockprops] + [0.0]) * 1e6
            mumax = max(max(m["Mu_x"], m["Mu_y"]) for m in ps.blockprops)
            # (the potential per unit current density can exceed mu*L^2 by orders of magnitude when the return path is far away:
            # a margin of 1e4 on the estimate keeps the induced reaction below 1e-7 of the static field)
            ph.freq = min(1e-4, 1e-11 / (2 * math.pi * max(smax, 1e-30) * 4e-7 * math.pi * mumax * L * L))
            if solidcirc:
                L = max(max(abs(n["x"]), abs(n["y"])) for n in ps.nodes) * femmio.UNIT_M[ps.units]
                ph.freq = 1e-6 / (2 * math.pi * 58e6 * 4e-7 * math.pi * L * L)       # omega sigma mu0 L^2 = 1e-6
            rs = Run(build, work, "vf%d_s" % t, ps)
            rh = Run(build, work, "vf%d_h" % t, ph)
            if rs.mesh() != 0:
                continue
            for e in (".node", ".ele", ".edge", ".pbc"):
                shutil.copy(rs.snap(e), rh.base + e)
            if rs.solve() != 0 or rh.solve() != 0:
                ck.violation("solver-failed:vanishing-frequency", "solver failed: " + (rs.solve_out + rh.solve_out)[-300:], dict(files=rh.files()))
                continue
            xs = nodal(femmio.read_solution(rs.solution_path(), "m"), "m", False)
            xh = nodal(femmio.read_solution(rh.solution_path(), "m"), "m", True)
            stats["vanishing_frequency_pairs"] += 1
            stats["vanishing_frequency_" + (lam or "solid")] = stats.get("vanishing_frequency_" + (lam or "solid"), 0) + 1
            ck.case(("vanishing-frequency", axi, lam, t), nontrivial=True)
            sc = max(max(abs(v) for v in xs), 1e-300)
            if sc < 1e-16 and max(abs(v) for v in xh) < 1e-16:
                # the drawn problem is not excited at all (the source sits in a material no region uses): both fields are rounding noise
                stats["vanishing_frequency_unexcited"] = stats.get("vanishing_frequency_unexcited", 0) + 1
                continue
            err = max(abs(h - s) for h, s in zip(xh, xs)) / sc
            if solidcirc:
                stats["vanishing_frequency_solid_circuit"] = stats.get("vanishing_frequency_solid_circuit", 0) + 1
            if not (err <= (1e-4 if solidcirc else 1e-5)):
                if solidcirc:
                    key = "vanishing-frequency:solid-circuit:%s" % ("axi" if axi else "planar")
                elif lam == "lam0":
                    key = "vanishing-frequency:lamfill-zero-thickness"
                elif lam:
                    key = "vanishing-frequency:laminated:%s" % ("axi" if axi else "planar")
                else:
                    key = "vanishing-frequency:%s" % ("axi" if axi else "planar")
                ck.violation(key, "%s%s: harmonic solution at %.3g Hz deviates from the static one by %.3g (relative); materials (mu, fill, d_lam): %s"
                             % ("axisymmetric" if axi else "planar", " laminated" if lam else "", ph.freq, err,
                                [(m["Mu_x"], m.get("LamFill", 1.0), m.get("d_lam", 0.0)) for m in ps.blockprops]),
                             dict(static=rs.files(), harmonic=rh.files()))
    finally:
        shutil.rmtree(work, ignore_errors=True)
    ck.notes["input_distribution"] = stats
    return ck.finish()
