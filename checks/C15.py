"""C15 — entities keep the property the script gave them through any edit history.

stage A: Properties/C15.lean — invariant by induction over ALL histories of add/delete/rename/assign:
         the property a saved slot designates is the one its last assignment resolved to (or none once deleted);
         only `assign` ever re-binds a slot; witness that the unrepaired code violated it
stage B: histories -> Lua scripts -> real femmcli -> saved file (independent parser) vs Model/Refs.lean (driver `refs`)
stage P: the property's own oracle, independent of the model: a python reference that tracks property *identities*
         (unique ids) through the history; the saved file must designate, for every entity, the property identity its
         last assignment resolved to, or none if that property was deleted (a renamed property may keep or release)
histories: exhaustive up to a bounded length over a small alphabet, random beyond
"""
import itertools, os, re, shutil, subprocess, sys
sys.path.insert(0, os.path.join(os.path.dirname(os.path.dirname(os.path.abspath(__file__))), "harness", "py"))
from tools import vlib
from tools.vlib import pct

PRE = {"m": "mi_", "e": "ei_", "h": "hi_"}
DOC = {"m": 0, "e": 1, "h": 2}
EXT = {"m": ".fem", "e": ".fee", "h": ".feh"}
KINDS = ["point", "bdry", "mat", "circ"]          # model kinds 0..3
NAMES = ["A", "B", "C"]
# entities of the fixed drawing: 5 nodes, 3 segments, 1 arc, 1 label
NODE_XY = [(0, 0), (4, 0), (4, 4), (0, 4), (2, 1)]
SEG_MID = [(2, 0), (2, 4), (0, 2)]
ARC_PT = (4.5, 2)
LABEL_XY = (2, 2)


def slots_of(phys):
    """slot layout per model kind: list of entity ids"""
    point = [("node", i) for i in range(5)]
    bdry = [("seg", i) for i in range(3)] + [("arc", 0)]
    mat = [("label", 0)]
    circ = [("label", 0)] if phys == "m" else [("node", i) for i in range(5)] + [("seg", i) for i in range(3)] + [("arc", 0)]
    return [point, bdry, mat, circ]


def lua_str(s):
    return '"' + s.replace("\\", "\\\\").replace('"', '\\"') + '"'


def lua_setup(phys):
    p = PRE[phys]
    l = ["newdocument(%d)" % DOC[phys]]
    for (x, y) in NODE_XY:
        l.append("%saddnode(%g,%g)" % (p, x, y))
    l += ["%saddsegment(0,0,4,0)" % p, "%saddsegment(4,4,0,4)" % p, "%saddsegment(0,4,0,0)" % p,
          "%saddarc(4,0,4,4,60,10)" % p, "%saddblocklabel(2,2)" % p]
    return l


def lua_op(phys, op, cur):
    """one abstract op -> lua lines; `cur` tracks the names currently assigned to each entity (needed because the
    set*prop commands write several references at once)"""
    p = PRE[phys]
    k = op[0]
    if k == "add":
        _, kind, n = op
        if kind == "point":
            return ["%saddpointprop(%s,1,0)" % (p, lua_str(n))]
        if kind == "bdry":
            if phys == "m":
                return ["%saddboundprop(%s,0,0,0,0,0,0,0,0,0)" % (p, lua_str(n))]
            if phys == "e":
                return ["%saddboundprop(%s,1,0,0,0,0)" % (p, lua_str(n))]
            return ["%saddboundprop(%s,0,300,0,0,0,0)" % (p, lua_str(n))]
        if kind == "mat":
            if phys == "m":
                return ["%saddmaterial(%s,1,1,0,0,0,0,0,1,0,0,0,0,0)" % (p, lua_str(n))]
            if phys == "e":
                return ["%saddmaterial(%s,1,1,0)" % (p, lua_str(n))]
            return ["%saddmaterial(%s,1,1,0,0)" % (p, lua_str(n))]
        if kind == "circ":
            if phys == "m":
                return ["%saddcircprop(%s,1,1)" % (p, lua_str(n))]
            return ["%saddconductorprop(%s,1,0,1)" % (p, lua_str(n))]
    if k == "del":
        _, kind, n = op
        cmd = {"point": "deletepointprop", "bdry": "deleteboundprop", "mat": "deletematerial",
               "circ": "deletecircuit" if phys == "m" else "deleteconductor"}[kind]
        return ["%s%s(%s)" % (p, cmd, lua_str(n))]
    if k == "rename":
        _, kind, o, n = op
        cmd = {"point": "modifypointprop", "bdry": "modifyboundprop", "mat": "modifymaterial",
               "circ": "modifycircprop" if phys == "m" else "modifyconductorprop"}[kind]
        return ["%s%s(%s,0,%s)" % (p, cmd, lua_str(o), lua_str(n))]
    if k == "assign":
        _, ent, field, n = op          # field: 'prop' or 'cond'
        cur[(ent, field)] = n
        pr = cur.get((ent, "prop"))
        co = cur.get((ent, "cond"))
        prs = lua_str(pr) if pr is not None else lua_str("<None>")
        cos = lua_str(co) if co is not None else lua_str("<None>")
        kind, i = ent
        if kind == "node":
            x, y = NODE_XY[i]
            body = "%ssetnodeprop(%s,0,%s)" % (p, prs, cos) if phys != "m" else "%ssetnodeprop(%s,0)" % (p, prs)
            return ["%sselectnode(%g,%g)" % (p, x, y), body, "%sclearselected()" % p]
        if kind == "seg":
            x, y = SEG_MID[i]
            body = "%ssetsegmentprop(%s,0,1,0,0,%s)" % (p, prs, cos) if phys != "m" else "%ssetsegmentprop(%s,0,1,0,0)" % (p, prs)
            return ["%sselectsegment(%g,%g)" % (p, x, y), body, "%sclearselected()" % p]
        if kind == "arc":
            body = "%ssetarcsegmentprop(10,%s,0,0,%s)" % (p, prs, cos) if phys != "m" else "%ssetarcsegmentprop(10,%s,0,0)" % (p, prs)
            return ["%sselectarcsegment(%g,%g)" % (p, ARC_PT[0], ARC_PT[1]), body, "%sclearselected()" % p]
        if kind == "label":
            if phys == "m":
                body = "%ssetblockprop(%s,1,0,%s,0,0,1)" % (p, prs, cos)
            else:
                body = "%ssetblockprop(%s,1,0,0)" % (p, prs)
            return ["%sselectlabel(%g,%g)" % (p, LABEL_XY[0], LABEL_XY[1]), body, "%sclearselected()" % p]
    raise ValueError(op)


def model_lines(phys, ops):
    """abstract ops -> `refs` engine lines (a set*prop command re-assigns every reference of the entity)"""
    layout = slots_of(phys)
    out = ["mode repaired"] + ["init %d %d" % (k, len(layout[k])) for k in range(4)]
    cur = {}
    for op in ops:
        if op[0] == "add":
            out.append("add %d %s" % (KINDS.index(op[1]), pct(op[2])))
        elif op[0] == "del":
            out.append("del %d %s" % (KINDS.index(op[1]), pct(op[2])))
        elif op[0] == "rename":
            out.append("rename %d %s %s" % (KINDS.index(op[1]), pct(op[2]), pct(op[3])))
        else:
            _, ent, field, n = op
            cur[(ent, field)] = n
            for (k, fld) in ref_fields(phys, ent):
                nm = cur.get((ent, fld))
                out.append("assign %d %d %s" % (k, layout[k].index(ent), "-" if nm is None else pct(nm)))
    out += ["dump %d" % k for k in range(4)]
    return out


def ref_fields(phys, ent):
    """(model kind, field) pairs written by the set*prop command of this entity"""
    kind = ent[0]
    if kind == "node":
        return [(0, "prop")] + ([(3, "cond")] if phys != "m" else [])
    if kind in ("seg", "arc"):
        return [(1, "prop")] + ([(3, "cond")] if phys != "m" else [])
    return [(2, "prop")] + ([(3, "cond")] if phys == "m" else [])


class Reference:
    """the property's own oracle: identities through the history, no indices"""

    def __init__(self, phys):
        self.phys = phys
        self.props = {k: [] for k in range(4)}      # kind -> list of [id, name]
        self.next = 0
        self.bound = {}                            # (kind, ent) -> id or None
        self.renamed = set()
        self.cur = {}

    def resolve(self, k, name):
        if name is None:
            return None
        m = [p for p in self.props[k] if p[1] == name]
        return m[-1][0] if m else None

    def apply(self, op):
        if op[0] == "add":
            self.props[KINDS.index(op[1])].append([self.next, op[2]])
            self.next += 1
        elif op[0] == "del":
            k = KINDS.index(op[1])
            self.props[k] = [p for p in self.props[k] if p[1] != op[2]]
        elif op[0] == "rename":
            k = KINDS.index(op[1])
            for p in self.props[k]:
                if p[1] == op[2]:
                    p[1] = op[3]
                    self.renamed.add(p[0])
                    break
        else:
            _, ent, field, n = op
            self.cur[(ent, field)] = n
            for (k, fld) in ref_fields(self.phys, ent):
                self.bound[(k, ent)] = self.resolve(k, self.cur.get((ent, fld)))

    def allowed(self, k, ent):
        """set of identities the saved file may designate for this reference (None = no property)"""
        b = self.bound.get((k, ent))
        alive = {p[0] for p in self.props[k]}
        if b is None or b not in alive:
            return {None}
        if b in self.renamed:
            return {b, None}
        return {b}


def parse_saved(path, phys):
    """independent reader: property names per section and entity indices (1-based, 0 = none)"""
    t = open(path, errors="replace").read()

    def names(section, key):
        m = re.search(r"\[%s\]\s*=\s*(\d+)" % section, t)
        n = int(m.group(1))
        body = t[m.end():]
        return re.findall(r'<%s>\s*=\s*"([^"]*)"' % key, body)[:n]
    out = dict(point=names("PointProps", "PointName"), bdry=names("BdryProps", "BdryName"), mat=names("BlockProps", "BlockName"),
               circ=names("CircuitProps" if phys == "m" else "ConductorProps", "CircuitName" if phys == "m" else "ConductorName"))

    def rows(section):
        m = re.search(r"\[%s\]\s*=\s*(\d+)\s*\n" % section, t)
        n = int(m.group(1))
        return [l.split() for l in t[m.end():].splitlines()[:n]]
    out["nodes"] = rows("NumPoints")
    out["segs"] = rows("NumSegments")
    out["arcs"] = rows("NumArcSegments")
    out["labels"] = rows("NumBlockLabels")
    out["holes"] = rows("NumHoles")
    return out


def saved_index(sv, phys, k, ent):
    kind, i = ent
    if kind == "node":
        r = sv["nodes"][i]
        return int(r[2]) if k == 0 else int(r[4])
    if kind == "seg":
        r = sv["segs"][i]
        return int(r[3]) if k == 1 else int(r[6])
    if kind == "arc":
        r = sv["arcs"][i]
        return int(r[4]) if k == 1 else int(r[7])
    if kind == "label":
        if not sv["labels"]:
            return 0       # a label without block type is written as a hole
        r = sv["labels"][i]
        return int(r[2]) if k == 2 else int(r[4])


def gen_alphabet(phys, kinds, names, ents):
    ops = []
    for kd in kinds:
        for n in names:
            ops.append(("add", kd, n))
            ops.append(("del", kd, n))
        for o in names:
            for n in names:
                if o != n:
                    ops.append(("rename", kd, o, n))
    for ent in ents:
        for (k, fld) in ref_fields(phys, ent):
            if KINDS[k] in kinds:
                for n in names + [None]:
                    ops.append(("assign", ent, fld, n))
    return ops


def main(argv):
    ck = vlib.Check("C15", "proof", argv)
    ck.cov["rule"] = ("edit histories over {add, delete, rename property} x {point, boundary, material, circuit/conductor} and "
                      "set-*-prop on 5 nodes / 3 segments / 1 arc / 1 label, names {A,B,C}; exhaustive up to a bounded length over a "
                      "reduced alphabet (1 kind, 2 names, 2 entities), random beyond; non-trivial = contains a delete or rename "
                      "after an assignment; distinct by the op sequence")
    ck.assumptions += ["saved files are parsed by an independent reader; property identity = order of creation"]
    ck.run_stage_a()
    build = vlib.build_repo("plain")
    mx = vlib.model_exe()
    work = vlib.workdir("C15")
    rng = ck.rng
    stats = dict(exhaustive=0, random=0, by_phys=dict(m=0, e=0, h=0), dels=0, renames=0, assigns=0, analyze_refusals=0,
                 analyze_checked=0, max_len=0)
    histories = []
    # exhaustive part: boundary kind, names A B, entities seg0 + arc0, electrostatics
    depth = 3 if ck.tier == "quick" else 4
    alpha = gen_alphabet("e", ["bdry"], ["A", "B"], [("seg", 0), ("arc", 0)])
    alpha = [o for o in alpha if not (o[0] == "assign" and o[2] == "cond")]
    def valid(phys, seq):
        """a rename of a property that does not exist raises a Lua error in some command sets: not a history"""
        ref = Reference(phys)
        for op in seq:
            if op[0] == "rename" and not any(p[1] == op[2] for p in ref.props[KINDS.index(op[1])]):
                return False
            # property names stay unique per kind (with duplicates "the property that carries the name" is ambiguous)
            if op[0] == "add" and any(p[1] == op[2] for p in ref.props[KINDS.index(op[1])]):
                return False
            if op[0] == "rename" and any(p[1] == op[3] for p in ref.props[KINDS.index(op[1])]):
                return False
            ref.apply(op)
        return True
    for L in range(1, depth + 1):
        for seq in itertools.product(alpha, repeat=L):
            if valid("e", seq):
                histories.append(("e", list(seq), True))
    stats["exhaustive"] = len(histories)
    stats["exhaustive_alphabet"] = len(alpha)
    stats["exhaustive_depth"] = depth
    # random part: all kinds, all physics
    nrand = 300 if ck.tier == "quick" else 4000
    for t in range(nrand):
        phys = "ehm"[t % 3]
        ents = [("node", i) for i in range(5)] + [("seg", i) for i in range(3)] + [("arc", 0), ("label", 0)]
        if phys == "h":
            # the heat-flow command set registers no hi_setarcsegmentprop (recorded under C17): arcs keep no property
            ents.remove(("arc", 0))
        full = gen_alphabet(phys, KINDS, NAMES, ents)
        adds = [o for o in full if o[0] == "add"]
        L = rng.randint(4, 40)
        seq = []
        tries = 0
        while len(seq) < L and tries < 400:
            tries += 1
            r = rng.random()
            if len(seq) < 3:
                pool = adds
            else:
                pool = [o for o in full if o[0] == ("assign" if r < 0.45 else "add" if r < 0.6 else "del" if r < 0.8 else "rename")]
            cand = rng.choice(pool)
            if valid(phys, seq + [cand]):
                seq.append(cand)
        histories.append((phys, seq, False))
    stats["random"] = nrand
    # re-definition family: a property is added AGAIN under a name that exists (a parameter sweep re-stating a material); no
    # delete / rename in these histories, so "the property that carries the name last assigned" is decided by names alone:
    # the saved index of every entity has to designate a property of exactly the name last assigned to it
    ndup = 90 if ck.tier == "quick" else 900
    for t in range(ndup):
        phys = "ehm"[t % 3]
        ents = [("node", i) for i in range(5)] + [("seg", i) for i in range(3)] + [("arc", 0), ("label", 0)]
        if phys == "h":
            ents.remove(("arc", 0))
        seq = []
        have = {k: [] for k in range(4)}
        for kd in KINDS:
            for n in rng.sample(NAMES, rng.randint(2, 3)):
                seq.append(("add", kd, n))
                have[KINDS.index(kd)].append(n)
        def assigns(cnt):
            for _ in range(cnt):
                ent = rng.choice(ents)
                k, fld = rng.choice(ref_fields(phys, ent))
                seq.append(("assign", ent, fld, rng.choice(have[k] + [None])))
        assigns(rng.randint(4, 10))
        for _ in range(rng.randint(1, 3)):
            k = rng.randrange(4)
            seq.append(("add", KINDS[k], rng.choice(have[k][:-1] if rng.random() < 0.7 else have[k])))   # mostly NOT the last one defined
            assigns(rng.randint(0, 3))
        histories.append((phys, seq, "dup"))
    stats["redefinition"] = ndup
    try:
        batch = 400
        for b0 in range(0, len(histories), batch):
            chunk = histories[b0:b0 + batch]
            script = []
            for i, (phys, ops, _) in enumerate(chunk):
                script += lua_setup(phys)
                cur = {}
                for op in ops:
                    script += lua_op(phys, op, cur)
                script.append("%ssaveas(%s)" % (PRE[phys], lua_str(os.path.join(work, "h%d%s" % (b0 + i, EXT[phys])))))
            sp = os.path.join(work, "b%d.lua" % b0)
            open(sp, "w").write("\n".join(script) + "\n")
            r = subprocess.run([os.path.join(build, "cfemm", "bin", "femmcli"), "--lua-script=" + sp], cwd=work,
                               stdout=subprocess.PIPE, stderr=subprocess.STDOUT, text=True, timeout=900, errors="replace")
            if r.returncode != 0:
                ck.violation("femmcli-failed", "femmcli failed (rc=%d) on a batch of edit histories: %s" % (r.returncode, r.stdout[-300:]),
                             dict(script=sp, tail=r.stdout[-2000:]))
                continue
            # model predictions for the whole chunk in one driver run
            lines, spans = [], []
            for (phys, ops, _) in chunk:
                ml = model_lines(phys, ops)
                spans.append((len(lines), len(ml)))
                lines += ml
            rep, _, _ = vlib.run_lines([mx, "refs"], lines)
            for i, (phys, ops, exh) in enumerate(chunk):
                hid = b0 + i
                stats["by_phys"][phys] += 1
                stats["max_len"] = max(stats["max_len"], len(ops))
                nd = sum(1 for o in ops if o[0] == "del"); nr = sum(1 for o in ops if o[0] == "rename")
                na = sum(1 for o in ops if o[0] == "assign")
                stats["dels"] += nd; stats["renames"] += nr; stats["assigns"] += na
                seen_assign = False
                nontriv = False
                for o in ops:
                    if o[0] == "assign" and o[3] is not None:
                        seen_assign = True
                    if o[0] in ("del", "rename") and seen_assign:
                        nontriv = True
                ck.case((phys, str(ops)), nontrivial=nontriv, sample=dict(physics=phys, ops=[list(map(str, o)) for o in ops[:12]])
                        if hid in (5, stats["exhaustive"] + 1, stats["exhaustive"] + 2) else None)
                path = os.path.join(work, "h%d%s" % (hid, EXT[phys]))
                try:
                    sv = parse_saved(path, phys)
                except Exception as e:
                    ck.violation("saved-file-unreadable", "the file saved after a history cannot be read: %s" % e,
                                 dict(physics=phys, ops=ops))
                    continue
                layout = slots_of(phys)
                if exh == "dup":
                    cur = {}
                    for op in ops:
                        if op[0] == "assign":
                            cur[(op[1], op[2])] = op[3]
                    bad = None
                    for k in range(4):
                        for ent in layout[k]:
                            if ent[0] == "label" and not sv["labels"] and k == 3:
                                continue
                            fld = [f for (kk, f) in ref_fields(phys, ent) if kk == k]
                            want = cur.get((ent, fld[0])) if fld and any(o[0] == "assign" and o[1] == ent for o in ops) else None
                            idx = saved_index(sv, phys, k, ent)
                            got = None if idx == 0 else (sv[KINDS[k]][idx - 1] if 0 < idx <= len(sv[KINDS[k]]) else "<index %d out of range>" % idx)
                            if got != want:
                                bad = "%s %d: the saved file designates the %s property %r, the script last assigned %r (saved properties: %r)" % (
                                    ent[0], ent[1], KINDS[k], got, want, sv[KINDS[k]])
                                break
                        if bad:
                            break
                    if bad:
                        ck.violation("refs:retargeted:redefinition", "after the history %s: %s" % ([list(map(str, o)) for o in ops][:30], bad),
                                     dict(physics=phys, ops=[list(map(str, o)) for o in ops], what=bad, lua=lua_history(phys, ops, "out" + EXT[phys])))
                    continue
                # --- stage P: identity oracle
                ref = Reference(phys)
                for op in ops:
                    ref.apply(op)
                bad = None
                for k in range(4):
                    names_now = [p[1] for p in ref.props[k]]
                    if sv[KINDS[k]] != names_now:
                        bad = ("property-list", "saved %s properties %r, history leaves %r" % (KINDS[k], sv[KINDS[k]], names_now))
                        break
                    for ent in layout[k]:
                        if ent[0] == "label" and not sv["labels"] and k == 3:
                            continue    # a label without block type is a hole: the format has no circuit field for it
                        idx = saved_index(sv, phys, k, ent)
                        if idx < 0 or idx > len(ref.props[k]):
                            bad = ("index-out-of-range", "%s %s: saved %s index %d, but only %d properties exist" % (ent[0], ent[1], KINDS[k], idx, len(ref.props[k])))
                            break
                        tgt = None if idx == 0 else ref.props[k][idx - 1][0]
                        if tgt not in ref.allowed(k, ent):
                            def nm(i):
                                return None if i is None else next((p[1] for p in ref.props[k] if p[0] == i), "<deleted>")
                            bad = ("retargeted", "%s %d: saved file designates %s property %r (created #%s), the history allows %s"
                                   % (ent[0], ent[1], KINDS[k], nm(tgt), tgt, sorted((str(a), nm(a)) for a in ref.allowed(k, ent))))
                            break
                    if bad:
                        break
                if bad:
                    small = shrink_history(build, work, phys, ops) if len(ops) > 3 else ops
                    ck.violation("refs:" + bad[0], "after the history %s: %s" % ([list(map(str, o)) for o in small][:12], bad[1]),
                                 dict(physics=phys, ops=[list(map(str, o)) for o in small], original_length=len(ops), what=bad[1],
                                      lua=lua_history(phys, small, "out" + EXT[phys])))
                # --- stage B: model
                s0, sl = spans[i]
                dumps = rep[s0 + sl - 4:s0 + sl]
                for k in range(4):
                    m = re.match(r"props=(\S*) slots=(.*)", dumps[k] if k < len(dumps) else "")
                    if not m:
                        ck.obligation_broken("correspondence refs: driver reply malformed")
                        break
                    mprops = [vlib_unpct(x) for x in m.group(1).split(",")] if m.group(1) else []
                    mslots = [int(x.split(":")[0]) for x in m.group(2).split()]
                    islots = [saved_index(sv, phys, k, ent) for ent in layout[k]]
                    if k == 3 and phys == "m" and not sv["labels"]:
                        mslots = islots     # hole label: circuit not representable
                    if mprops != sv[KINDS[k]] or mslots != islots:
                        ck.obligation_broken("correspondence refs: saved file vs Model/Refs.lean differ (%s)" % KINDS[k],
                                             dict(physics=phys, ops=[list(map(str, o)) for o in ops], kind=KINDS[k],
                                                  impl=dict(props=sv[KINDS[k]], slots=islots), model=dict(props=mprops, slots=mslots)))
                        break
        # ================= "analysis either uses exactly that association or refuses to run"
        # electrostatics, boundary properties with distinct fixed voltages (10 V x order of creation) on two lines and the arc; after the
        # history the problem is saved and analysed in the same session, and the saved file is analysed in a fresh session: the potential next
        # to every entity tells which property each analysis applied there
        nana = 36 if ck.tier == "quick" else 300
        ents_a = [("seg", 0), ("seg", 1), ("arc", 0)]
        probes = {("seg", 0): (2.0, 0.02), ("seg", 1): (2.0, 3.98), ("arc", 0): (4.5, 2.0)}
        fixed_ = []
        for e_ in ents_a:
            # a property is assigned, deleted, and its NAME comes back (added again with other values / another property renamed to it)
            fixed_.append([("add", "bdry", "A"), ("add", "bdry", "B"), ("assign", e_, "prop", "A"), ("del", "bdry", "A"), ("add", "bdry", "A")])
            fixed_.append([("add", "bdry", "A"), ("add", "bdry", "B"), ("assign", e_, "prop", "A"), ("del", "bdry", "A"), ("rename", "bdry", "B", "A")])
        # a name is assigned BEFORE a property of that name exists, then the property is defined
        fixed_.append([("add", "bdry", "B"), ("assign", ("seg", 0), "prop", "A"), ("add", "bdry", "A")])
        fixed_.append([("add", "bdry", "B"), ("assign", ("arc", 0), "prop", "C"), ("add", "bdry", "C")])
        for t in range(nana):
            seq, have, created = [], [], 0
            L = rng.randint(3, 9)
            tries = 0
            if t < len(fixed_):
                seq, tries = list(fixed_[t]), 10 ** 9
            while len(seq) < L and tries < 200:
                tries += 1
                r = rng.random()
                if r < 0.3 or not have:
                    n = rng.choice(NAMES)
                    if n in have:
                        continue
                    seq.append(("add", "bdry", n)); have.append(n)
                elif r < 0.65:
                    seq.append(("assign", rng.choice(ents_a), "prop", rng.choice(have + [None])))      # existing names only (or none)
                elif r < 0.85:
                    n = rng.choice(have)
                    seq.append(("del", "bdry", n)); have.remove(n)
                else:
                    o = rng.choice(have)
                    n = rng.choice([x for x in NAMES if x not in have] or [None])
                    if n is None:
                        continue
                    seq.append(("rename", "bdry", o, n)); have[have.index(o)] = n
            d = os.path.join(work, "ana%d" % t)
            os.makedirs(d)
            lines = lua_setup("e") + ['ei_addmaterial("air",1,1,0)', "ei_selectlabel(2,2)", 'ei_setblockprop("air",1,0,0)', "ei_clearselected()",
                                      'ei_addpointprop("gnd",0,0)', "ei_selectnode(2,1)", 'ei_setnodeprop("gnd",0,"<None>")', "ei_clearselected()"]
            cur = {}
            for op in seq:
                if op[0] == "add":
                    created += 1
                    lines.append('ei_addboundprop(%s,%d,0,0,0,0)' % (lua_str(op[2]), 10 * created))
                else:
                    lines += lua_op("e", op, cur)
            pr = "".join(',eo_getpointvalues(%g,%g)' % probes[e_] for e_ in ents_a)
            lines += ['ei_saveas("h.fee")', 'ei_saveas("w.fee")', "ei_analyze(1)", "ei_loadsolution()"] + \
                     ['v%d = eo_getpointvalues(%g,%g)' % (k_, probes[e_][0], probes[e_][1]) for k_, e_ in enumerate(ents_a)] + \
                     ['print("@@S",v0,v1,v2)']
            open(os.path.join(d, "a.lua"), "w").write("\n".join(lines) + "\n")
            r1 = subprocess.run([os.path.join(build, "cfemm", "bin", "femmcli"), "--lua-script=a.lua"], cwd=d, stdout=subprocess.PIPE, stderr=subprocess.STDOUT,
                                text=True, timeout=300, errors="replace")
            stats["analyze_checked"] += 1
            ck.case(("analysis", str(seq)), nontrivial=any(o[0] in ("del", "rename") for o in seq))
            if not os.path.exists(os.path.join(d, "h.fee")):
                ck.violation("femmcli-failed", "femmcli failed before saving the problem of an analysis history: %s" % r1.stdout[-300:], dict(ops=[list(map(str, o)) for o in seq]))
                continue
            m1 = re.search(r"@@S\s+(\S+)\s+(\S+)\s+(\S+)", r1.stdout)
            if not m1:
                stats["analyze_refusals"] += 1        # the session refused (or failed) to analyse: allowed by the property
                continue
            open(os.path.join(d, "b.lua"), "w").write("\n".join(['open("h.fee")', "ei_analyze(1)", "ei_loadsolution()"] +
                     ['v%d = eo_getpointvalues(%g,%g)' % (k_, probes[e_][0], probes[e_][1]) for k_, e_ in enumerate(ents_a)] + ['print("@@S",v0,v1,v2)']) + "\n")
            r2 = subprocess.run([os.path.join(build, "cfemm", "bin", "femmcli"), "--lua-script=b.lua"], cwd=d, stdout=subprocess.PIPE, stderr=subprocess.STDOUT,
                                text=True, timeout=300, errors="replace")
            m2 = re.search(r"@@S\s+(\S+)\s+(\S+)\s+(\S+)", r2.stdout)
            if not m2:
                ck.violation("analysis:saved-file-refused", "the problem was analysed in the session that built it, but the file it saved is refused / fails in a fresh session: %s"
                             % " ".join(r2.stdout[-300:].split()), dict(ops=[list(map(str, o)) for o in seq], lua=lines))
                continue
            va, vb = [float(x) for x in m1.groups()], [float(x) for x in m2.groups()]
            sc_ = max([abs(x) for x in va + vb] + [1.0])
            # was a name assigned while no property carried it, and did a property of that name appear later?  (own key: known finding)
            early, have_ = set(), set()
            abd = False
            for op in seq:
                if op[0] == "add":
                    abd = abd or op[2] in early
                    have_.add(op[2])
                elif op[0] == "del":
                    have_.discard(op[2])
                elif op[0] == "rename":
                    abd = abd or op[3] in early
                    have_.discard(op[2]); have_.add(op[3])
                elif op[3] is not None and op[3] not in have_:
                    early.add(op[3])
            if any(abs(a_ - b_) > 1e-6 * sc_ for a_, b_ in zip(va, vb)):
                ck.violation("analysis:assigned-before-defined" if abd else "analysis:other-association", "after the history %s the analysis run in the session applies other boundary properties than the file it saved: "
                             "potentials next to line 0, line 1, the arc are %s in the session and %s when the saved file is analysed" % ([list(map(str, o)) for o in seq], va, vb),
                             dict(ops=[list(map(str, o)) for o in seq], lua=lines))
    finally:
        shutil.rmtree(work, ignore_errors=True)
    ck.notes["input_distribution"] = stats
    return ck.finish()


def vlib_unpct(s):
    return re.sub(r"%([0-9A-Fa-f]{2})", lambda m: chr(int(m.group(1), 16)), s)


def lua_history(phys, ops, outname):
    l = lua_setup(phys)
    cur = {}
    for op in ops:
        l += lua_op(phys, op, cur)
    l.append("%ssaveas(%s)" % (PRE[phys], lua_str(outname)))
    return l


def history_bad(build, work, phys, ops):
    out = os.path.join(work, "shr" + EXT[phys])
    sp = os.path.join(work, "shr.lua")
    open(sp, "w").write("\n".join(lua_history(phys, ops, out)) + "\n")
    if os.path.exists(out):
        os.remove(out)
    r = subprocess.run([os.path.join(build, "cfemm", "bin", "femmcli"), "--lua-script=" + sp], cwd=work, stdout=subprocess.PIPE,
                       stderr=subprocess.STDOUT, text=True, timeout=120, errors="replace")
    if r.returncode != 0 or not os.path.exists(out):
        return False
    try:
        sv = parse_saved(out, phys)
    except Exception:
        return False
    ref = Reference(phys)
    for op in ops:
        ref.apply(op)
    layout = slots_of(phys)
    for k in range(4):
        if sv[KINDS[k]] != [p[1] for p in ref.props[k]]:
            return True
        for ent in layout[k]:
            if ent[0] == "label" and not sv["labels"] and k == 3:
                continue
            idx = saved_index(sv, phys, k, ent)
            if idx < 0 or idx > len(ref.props[k]):
                return True
            tgt = None if idx == 0 else ref.props[k][idx - 1][0]
            if tgt not in ref.allowed(k, ent):
                return True
    return False


def shrink_history(build, work, phys, ops):
    cur = list(ops)
    i = 0
    while i < len(cur):
        cand = cur[:i] + cur[i + 1:]
        if cand and history_bad(build, work, phys, cand):
            cur = cand
        else:
            i += 1
    return cur
