"""C02 — the mesh carries materials, boundary conditions and conductors to the right places.

stage A: Properties/C02.lean (codec round-trips for every index under the explicit guard, Triangle's own
         markers decode to none, region attribute = solver label index, name lookup)
stage B: (i) encoder: markers in the .poly the real fmesher hands to Triangle vs Model/Markers.lean (name level);
         (ii) decoder: what the real ESolver/HSolver/FSolver::LoadMesh decode (in-process harness) vs the model,
              on the real mesh and on the same mesh with synthetic marker columns covering the codec range
stage P: exact-geometry oracle on the implementation's decoded mesh: every element lies in the drawn region of
         its label, every marked side / vertex lies on the entity carrying that assignment and every mesh edge /
         vertex on an assigned entity is marked, nothing else is
"""
import os, random, shutil, sys
sys.path.insert(0, os.path.join(os.path.dirname(os.path.dirname(os.path.abspath(__file__))), "harness", "py"))
from tools import vlib
import femmio, gen, meshgeom
from runner import Run
from tools.vlib import pct


def harness_decode(hx, kind, base):
    out = vlib.sh([hx, kind, base]).stdout.splitlines()
    nodes, els, err = [], [], None
    for l in out:
        t = l.split()
        if not t:
            continue
        if t[0] == "n":
            nodes.append((int(t[2]), int(t[3])))
        elif t[0] == "e":
            els.append(tuple(int(x) for x in t[2:]))
        elif t[0] in ("loadmesh-error", "loadproblem-failed"):
            err = l
    return nodes, els, err


def model_decode(mx, kind, node_markers, edges, eles, onlyfirst_bcs, default_label):
    """run Model/Markers.lean on raw mesh columns: returns (nodes [(bm,cond)], els [(lbl, e0,e1,e2)])"""
    lines = []
    for m in node_markers:
        lines.append("dec-node %s %d" % (kind, m))
    for (a, b, m) in edges:
        lines.append("dec-edge %s %d" % (kind, m))
    for (p0, p1, p2, attr) in eles:
        lines.append("elem-label %d %s" % (attr, "-" if default_label is None else default_label))
    rep, err, rc = vlib.run_lines([mx, "markers"], lines)
    nn, ne = len(node_markers), len(edges)
    nodes = [tuple(int(x) for x in r.split()) for r in rep[:nn]]
    edec = [None if r == "none" else tuple(int(x) for x in r.split()) for r in rep[nn:nn + ne]]
    lbls = [None if r == "missing" else int(r) for r in rep[nn + ne:]]
    # conductor numbers of edges are copied onto both end nodes (E/H)
    nodes = [list(x) for x in nodes]
    lines = ["els " + " ".join("%d,%d,%d" % (e[0], e[1], e[2]) for e in eles)]
    for (a, b, m), d in zip(edges, edec):
        if d is None:
            continue
        j, c = d
        if kind != "m" and c >= 0:
            nodes[a][1] = c
            nodes[b][1] = c
        if kind == "m" or j >= 0:
            lines.append("edge %d %d %d %d" % (a, b, j, 1 if (kind != "m" and j in onlyfirst_bcs) else 0))
    lines.append("dump-e")
    rep, err, rc = vlib.run_lines([mx, "markers"], lines)
    es = [tuple(int(x) for x in t.split(",")) for t in rep[-1].split()]
    return [tuple(x) for x in nodes], [(l,) + e for l, e in zip(lbls, es)]


def write_mesh(base, nodes, eles, edges):
    with open(base + ".node", "w") as f:
        f.write("%d\t2\t0\t1\n" % len(nodes))
        for i, (x, y, m) in enumerate(nodes):
            f.write("%d\t%.17g\t%.17g\t%d\n" % (i, x, y, m))
    with open(base + ".ele", "w") as f:
        f.write("%d\t3\t1\n" % len(eles))
        for i, (a, b, c, at) in enumerate(eles):
            f.write("%d\t%d\t%d\t%d\t%d\n" % (i, a, b, c, at))
    with open(base + ".edge", "w") as f:
        f.write("%d\t1\n" % len(edges))
        for i, (a, b, m) in enumerate(edges):
            f.write("%d\t%d\t%d\t%d\n" % (i, a, b, m))


def main(argv):
    ck = vlib.Check("C02", "proof", argv)
    ck.cov["rule"] = ("generated problems (nested boxes / discs, random materials, BC / conductor / point-property "
                      "assignments, shuffled definition orders) x {electrostatics, heat, magnetics}; per problem the real "
                      "mesher's .poly and mesh plus one synthetic re-marking; non-trivial = at least one assigned entity; "
                      "distinct by (kind, family, #entities, assignment signature)")
    ck.assumptions += ["Triangle copies coordinates verbatim and propagates segment markers to sub-edges (validated per run "
                       "by the geometric oracle, not proved)",
                       "geometric predicates of the oracle are evaluated in double precision with 1e-9 relative tolerance on "
                       "dyadic input coordinates"]
    ck.run_stage_a()
    build = vlib.build_repo("plain")
    try:
        hx = vlib.compile_harness("loadmesh_harness", build, ("esolver", "hsolver", "fsolver", "femm", "luacomplex"))
    except vlib.BuildError as e:
        ck.obligation_broken("correspondence loadmesh_harness<->LoadMesh: " + str(e)[:400])
        return ck.finish()
    mx = vlib.model_exe()
    work = vlib.workdir("C02")
    nprob = 9 if ck.tier == "quick" else 90
    stats = dict(kinds=dict(e=0, h=0, m=0), families={}, marked_nodes=0, marked_edges=0, elements=0, synthetic=0,
                 poly_nodes=0, poly_segs=0)
    rng = ck.rng
    try:
        for t in range(nprob):
            kind = "ehm"[t % 3]
            prob = gen.gen_any(kind, rng, mix=True)
            tries_ = 0
            while (t // 3) % 2 == 1 and tries_ < 20 and not (len(prob.labels) >= 3 and any(r.get("label") == len(prob.labels) - 1 for r in prob.regions)):
                prob = gen.gen_any(kind, rng, mix=True)       # the default-label round needs three labelled regions
                tries_ += 1
            prob.smartmesh = rng.choice([0, 0, 1])
            for lab in prob.labels:
                if lab["meshsize"] <= 0:
                    lab["meshsize"] = rng.choice([1.0, 2.0, 0.75])
            # every second round of the three physics: a region WITHOUT a block label next to a label flagged as default that is not the first
            # one in the file - the elements of the unlabelled region belong to the default label
            if (t // 3) % 2 == 1 and len(prob.labels) >= 3:
                last = len(prob.labels) - 1
                owner = [r for r in prob.regions if r.get("label") == last]
                if owner and not any(l_["default"] for l_ in prob.labels):
                    owner[0]["label"] = "default"
                    prob.labels.pop()
                    prob.labels[last - 1]["default"] = 1
                    stats["default_label_problems"] = stats.get("default_label_problems", 0) + 1
            run = Run(build, work, "p%d" % t, prob)
            stats["kinds"][kind] += 1
            stats["families"][prob.family] = stats["families"].get(prob.family, 0) + 1
            sig = (kind, prob.family, len(prob.nodes), len(prob.segs), len(prob.arcs),
                   tuple(s["bc"] for s in prob.segs), tuple(s["cond"] for s in prob.segs), tuple(n["bc"] for n in prob.nodes))
            nontriv = any(s["bc"] >= 0 or s["cond"] >= 0 for s in prob.segs + prob.arcs)
            ck.case(sig, nontrivial=nontriv, sample=dict(kind=kind, family=prob.family, nodes=len(prob.nodes), segs=len(prob.segs),
                                                       arcs=len(prob.arcs), labels=len(prob.labels),
                                                       seg_bc=[s["bc"] for s in prob.segs], seg_cond=[s["cond"] for s in prob.segs])
                    if t < 3 else None)
            if run.mesh() != 0:
                ck.violation("mesher-failed", "fmesher failed (rc=%s) on a well-formed generated problem: %s" % (run.mesh_rc, run.mesh_out[-300:]),
                             dict(files=run.files()))
                continue
            ents = meshgeom.Entities(prob)
            pnames = [p["name"] for p in prob.pointprops]
            bnames = [b["name"] for b in prob.bdryprops]
            cnames = [c["name"] for c in prob.circprops]

            def nm(lst, i):
                return lst[i] if 0 <= i < len(lst) else "<None>"
            # ---------- B(i): encoder, .poly vs model (name level)
            poly = femmio.read_poly(run.snap(".poly"))
            lines, expect_items = [], []
            for i, n in enumerate(prob.nodes):
                lines.append("enc-node-n %s %s %s %s %s" % (kind, ",".join(map(pct, pnames)) or "-", ",".join(map(pct, cnames)) or "-",
                                                          pct(nm(pnames, n["bc"])), pct(nm(cnames, n["cond"]))))
                expect_items.append(("node", i))
            poly_seg_ent = []
            for (a, b, m) in poly["segs"]:
                pa, pb = poly["nodes"][a][:2], poly["nodes"][b][:2]
                ent = ents.edge_entity(pa, pb)
                poly_seg_ent.append(ent)
                if ent is None:
                    continue
                e = ents.get(ent)
                lines.append("enc-seg-n %s %s %s %s %s" % (kind, ",".join(map(pct, bnames)) or "-", ",".join(map(pct, cnames)) or "-",
                                                         pct(nm(bnames, e["bc"])), pct(nm(cnames, e["cond"]))))
                expect_items.append(("seg", len(poly_seg_ent) - 1))
            rep, _, _ = vlib.run_lines([mx, "markers"], lines)
            stats["poly_nodes"] += len(poly["nodes"]); stats["poly_segs"] += len(poly["segs"])
            for (what, i), r in zip(expect_items, rep):
                if what == "node":
                    got = poly["nodes"][i]
                    if (got[0], got[1]) != ents.pts[i]:
                        ck.obligation_broken("correspondence markers/encoder: drawn point %d is not PSLG vertex %d at its exact coordinates" % (i, i),
                                             dict(files=run.files(), point=i))
                    elif got[2] != int(r):
                        ck.obligation_broken("correspondence markers/encoder: vertex marker in .poly differs from Model/Markers.lean",
                                             dict(files=run.files(), point=i, impl=got[2], model=int(r)))
                else:
                    got = poly["segs"][i][2]
                    if got != int(r):
                        ck.obligation_broken("correspondence markers/encoder: segment marker in .poly differs from Model/Markers.lean",
                                             dict(files=run.files(), poly_segment=i, entity=poly_seg_ent[i], impl=got, model=int(r)))
            for i, ent in enumerate(poly_seg_ent):
                if ent is None:
                    ck.violation("poly-seg-off-entity", "a PSLG segment handed to Triangle lies on no drawn line or arc chord",
                                 dict(files=run.files(), poly_segment=i))
            # added (non-drawn) PSLG vertices carry no marker
            for i in range(len(prob.nodes), len(poly["nodes"])):
                if poly["nodes"][i][2] != 0:
                    ck.violation("poly-extra-vertex-marked", "a subdivision vertex carries marker %d" % poly["nodes"][i][2],
                                 dict(files=run.files(), vertex=i))
            # ---------- B(ii): decoder on the real mesh
            nodes, eles, edges = run.mesh_data()
            onlyfirst = set(i for i, b in enumerate(prob.bdryprops) if b["type"] == 2) if kind != "m" else set()
            dflt = None
            for i, lab in enumerate(prob.labels):
                if lab["default"]:
                    dflt = i
            run.restore_mesh()
            hn, he, herr = harness_decode(hx, kind, run.base)
            mn, me = model_decode(mx, kind, [n[2] for n in nodes], edges, eles, onlyfirst, dflt)
            if herr:
                ck.violation("loadmesh-rejects-own-mesh", "the solver's LoadMesh rejects the mesher's own output: " + herr,
                             dict(files=run.files()))
                continue
            if kind == "m":
                mn = [(a, -1) for (a, b) in mn]
            if hn != mn:
                k = next(i for i in range(len(hn)) if i >= len(mn) or hn[i] != mn[i])
                ck.obligation_broken("correspondence markers/decoder: node decode differs (LoadMesh vs Model/Markers.lean)",
                                     dict(files=run.files(), node=k, marker=nodes[k][2], impl=hn[k], model=mn[k] if k < len(mn) else None))
            himp = [(e[3],) + tuple(e[5:8]) for e in he]
            if himp != me:
                k = next(i for i in range(len(himp)) if i >= len(me) or himp[i] != me[i])
                ck.obligation_broken("correspondence markers/decoder: element label / side markers differ",
                                     dict(files=run.files(), element=k, impl=himp[k], model=me[k] if k < len(me) else None))
            # ---------- P: geometric oracle on what the implementation decoded
            stats["elements"] += len(eles)
            xy = [(n[0], n[1]) for n in nodes]
            bad = None
            for k, (p0, p1, p2, lbl, blk, e0, e1, e2) in enumerate(he):
                cx = (xy[p0][0] + xy[p1][0] + xy[p2][0]) / 3
                cy = (xy[p0][1] + xy[p1][1] + xy[p2][1]) / 3
                reg = [r for r in prob.regions if r["label"] == lbl or (r["label"] == "default" and lbl == dflt)]
                if not reg or not any(meshgeom.in_region((cx, cy), r_) for r_ in reg):
                    bad = ("element-wrong-label", "element %d (centroid %.6g,%.6g) is attributed to label %d whose drawn region does not contain it" % (k, cx, cy, lbl), dict(element=k, label=lbl))
                    break
                if lbl is not None and 0 <= lbl < len(prob.labels) and blk != prob.labels[lbl]["block"]:
                    bad = ("element-wrong-material", "element %d: material index %d, label %d has %d" % (k, blk, lbl, prob.labels[lbl]["block"]), dict(element=k))
                    break
            if bad:
                ck.violation(bad[0], bad[1], dict(files=run.files(), **bad[2]))
                continue
            for r in prob.regions:
                if r["role"] == "hole":
                    pass
            # sides: expected marking per mesh edge
            side_mark = {}
            for k, e in enumerate(he):
                p = e[0:3]
                for s in range(3):
                    a, b = p[s], p[(s + 1) % 3]
                    side_mark.setdefault((min(a, b), max(a, b)), []).append(e[5 + s])
            nviol = 0
            for (a, b, m) in edges:
                ent = ents.edge_entity(xy[a], xy[b])
                marks = side_mark.get((min(a, b), max(a, b)), [])
                want = ents.get(ent)["bc"] if ent is not None else -1
                if want >= 0:
                    stats["marked_edges"] += 1
                    ok = all(x == want for x in marks) if want not in onlyfirst else (sorted(marks)[-1] == want and sum(1 for x in marks if x == want) == 1)
                    if kind == "m" or want not in onlyfirst:
                        ok = ok and len(marks) > 0
                else:
                    ok = all(x == -1 for x in marks)
                if not ok and nviol < 2:
                    nviol += 1
                    ck.violation("edge-wrong-bc", "mesh edge %d-%d lies on %s whose boundary condition index is %d but the adjacent element sides carry %s"
                                 % (a, b, ent, want, marks), dict(files=run.files(), edge=(a, b), entity=ent, expected=want, observed=marks))
            for i, (bm, cond) in enumerate(hn):
                on = ents.node_entities(xy[i])
                wbm = -1
                wcond = set()
                for ent in on:
                    e = ents.get(ent)
                    if ent[0] == "pt":
                        wbm = e["bc"]
                    if kind != "m" and e["cond"] >= 0:
                        wcond.add(e["cond"])
                if bm >= 0:
                    stats["marked_nodes"] += 1
                okc = (cond in wcond) if wcond else (cond == -1)
                if kind == "m":
                    okc = True
                if (bm != wbm or not okc) and nviol < 4:
                    nviol += 1
                    ck.violation("node-wrong-assignment", "mesh node %d at %r lies on %s: expected point property %d, conductor in %s; decoded (%d, %d)"
                                 % (i, xy[i], on, wbm, sorted(wcond) or [-1], bm, cond),
                                 dict(files=run.files(), node=i, entities=on, expected=(wbm, sorted(wcond)), observed=(bm, cond)))
            # ---------- B(ii) again on a synthetic re-marking covering the codec range
            r2 = random.Random(rng.random())
            nb, nc, npp = len(prob.bdryprops), max(len(prob.circprops), 1), len(prob.pointprops)

            def enc_node():
                c = r2.random()
                if c < 0.25:
                    return r2.choice([0, 1, -2, -3, -65538])
                pp = r2.choice([None] + list(range(npp)) + ([r2.randint(0, 65533)] if kind != "m" else [r2.randint(0, 1000)]))
                cc = r2.choice([None, 0, nc - 1, r2.randint(0, 3000)]) if kind != "m" else None
                return (0 if pp is None else pp + 2) + (0 if cc is None else (cc + 1) * 0x10000)

            def enc_edge():
                c = r2.random()
                if c < 0.25:
                    return r2.choice([0, 1])
                bb = r2.choice([None] + list(range(nb))) if nb else None
                cc = r2.choice([None, 0, nc - 1, r2.randint(0, 3000)]) if kind != "m" else None
                if bb is None and cc is None:
                    return 0 if kind != "m" else -1
                return -((0 if bb is None else bb + 2) + (0 if cc is None else (cc + 1) * 0x10000))
            snodes = [(x, y, enc_node()) for (x, y, m) in nodes]
            sedges = [(a, b, enc_edge()) for (a, b, m) in edges]
            sdir = os.path.join(run.dir, "syn")
            os.makedirs(sdir, exist_ok=True)
            shutil.copy(run.file, os.path.join(sdir, "p" + femmio.EXT[kind]))
            shutil.copy(run.snap(".pbc"), os.path.join(sdir, "p.pbc"))
            write_mesh(os.path.join(sdir, "p"), snodes, eles, sedges)
            hn2, he2, herr2 = harness_decode(hx, kind, os.path.join(sdir, "p"))
            mn2, me2 = model_decode(mx, kind, [n[2] for n in snodes], sedges, eles, onlyfirst, dflt)
            if kind == "m":
                mn2 = [(a, -1) for (a, b) in mn2]
            stats["synthetic"] += 1
            himp2 = [(e[3],) + tuple(e[5:8]) for e in he2]
            if herr2 or hn2 != mn2 or himp2 != me2:
                det = dict(kind=kind, error=herr2)
                if not herr2:
                    if hn2 != mn2:
                        k = next(i for i in range(len(hn2)) if hn2[i] != mn2[i])
                        det.update(node=k, marker=snodes[k][2], impl=hn2[k], model=mn2[k])
                    else:
                        k = next(i for i in range(len(himp2)) if himp2[i] != me2[i])
                        det.update(element=k, impl=himp2[k], model=me2[k])
                det["files"] = {f: open(os.path.join(sdir, f)).read() for f in os.listdir(sdir)}
                ck.obligation_broken("correspondence markers/decoder (synthetic markers): LoadMesh vs Model/Markers.lean", det)
                # search: is the property itself violated?  a marker produced by the encoder (within the guard)
                # that the implementation decodes to something else is a concrete failing input
                if not herr2 and hn2 != mn2:
                    for k in range(len(hn2)):
                        m = snodes[k][2]
                        if hn2[k] != mn2[k] and m > 1 and (m & 0xffff) - 2 < 65534:
                            pp = (m & 0xffff) - 2
                            cc = (m >> 16) - 1
                            if kind == "m":
                                want = (m - 2, -1)
                            else:
                                want = (pp if pp >= 0 else -1, cc)
                            # conductor may be overwritten by an edge conductor: only judge the point property
                            if hn2[k][0] != want[0]:
                                ck.violation("decode-wrong-point-property", "vertex marker %d (point property %d, conductor %d as encoded by the mesher) is decoded as %r by LoadMesh"
                                             % (m, want[0], want[1], hn2[k]), dict(kind=kind, marker=m, expected=want, observed=hn2[k], files=det["files"]))
                                break
    finally:
        shutil.rmtree(work, ignore_errors=True)
    ck.notes["input_distribution"] = stats
    return ck.finish()
