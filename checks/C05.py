"""C05 — static and time-harmonic magnetic solutions satisfy the discrete field equations.

stage A: Properties/C05.lean (laminated permeabilities = parallel / series combination, circuit current density
         reproduces the circuit current for stranded and conducting regions, reluctivity element = stiff (C03 element
         theorems), consistent-mass matrix)
stage B: the permeabilities the REAL Static2D assigns to every element (in-process harness) vs Model/Magnetics.lean
         lamMu at Float, bit for bit
stage P: independent SI assembly on the .ans the real fsolver wrote: magnetostatics (anisotropic / laminated mu, J,
         series / parallel circuits with turns, magnets, point currents, prescribed A(x,y), mixed BC) and time-harmonic
         (complex A, consistent-mass eddy term, complex BCs, circuit records): free-node residuals, prescribed values,
         per-label circuit records = applied density, total current per circuit region
"""
import copy, os, shutil, subprocess, sys
sys.path.insert(0, os.path.join(os.path.dirname(os.path.dirname(os.path.abspath(__file__))), "harness", "py"))
import numpy as np
from tools import vlib
from tools.vlib import d2tok, tok2d
import femmio, gen, fem_oracle, cuthill_tie
from runner import Run
from checks import C03
# free-node residual bound of a time-harmonic solution, relative to the magnitudes of the terms that meet in the rows (sources
# counted before a circuit voltage cancels them: see fem_oracle.check_solution)
HARMONIC_TOL = 1e-6
APROTO = {"consts", "problem", "np", "lp", "bp", "cp", "lab", "n", "e", "pbc", "run"}


def gen_problem(rng, t):
    harmonic = t % 3 == 2
    p = gen.gen_rects("m", rng) if harmonic else gen.gen_any("m", rng)
    p.smartmesh = rng.choice([0, 0, 1])
    p.precision = 1e-10
    for lab in p.labels:
        if lab["meshsize"] <= 0:
            lab["meshsize"] = rng.choice([1.0, 1.5, 0.75])
        lab["magdir"] = rng.choice([0.0, 90.0, 37.0, -120.0])
        # a direction of magnetisation given as an expression of the position (evaluated by the solver's Lua at the element
        # centroid); such problems are outside the assembly tie (the model takes a number per label) and are decided by the
        # hook residual and the SI oracle, which evaluates the same expression itself
        if not harmonic and lab["block"] >= 0 and p.blockprops[lab["block"]].get("H_c") and rng.random() < 0.15:
            lab["magdirfctn"] = rng.choice(["theta", "theta+90", "x*10+y*5", "R*20-30", "z*15"])
        # the number of turns is a property of series-connected regions; in a parallel circuit every region is one turn
        # (mixing wound and solid conducting regions in ONE parallel circuit is outside the generated domain: Static2D
        #  excludes wound regions from the conductance integral but still applies -sigma*dV in them; see DESIGN.md)
        if lab["circ"] >= 0 and p.circprops[lab["circ"]]["type"] == 0:
            lab["turns"] = 1
    if harmonic:
        p.freq = rng.choice([50.0, 400.0, 2000.0])
        for m in p.blockprops:
            m.pop("H_c", None); m.pop("LamType", None); m.pop("LamFill", None)
            if rng.random() < 0.3:
                m["J_im"] = rng.choice([0.5, -1.0])
        # a circuit region whose own material carries a complex source density: the circuit current is the TOTAL the region carries,
        # so the solver has to offset the material's density (real and imaginary part) when it derives the applied one
        for lab in p.labels:
            if lab["circ"] >= 0 and lab["block"] >= 0 and rng.random() < 0.5:
                p.blockprops[lab["block"]]["J_re"] = rng.choice([0.25, -1.0])
                p.blockprops[lab["block"]]["J_im"] = rng.choice([0.75, -0.5])
        # at least one SOLID conductor in a circuit whose material has a source density of its own (the circuit row of the harmonic system
        # then has to offset the whole of it): the regions of the first circuit in use get one turn, a conductivity and a complex J
        cl = [lab for lab in p.labels if lab["circ"] >= 0 and lab["block"] >= 0]
        if cl:
            c0 = cl[0]["circ"]
            for lab in cl:
                if lab["circ"] == c0:
                    lab["turns"] = 1
                    m = p.blockprops[lab["block"]]
                    m.pop("LamType", None); m.pop("LamFill", None)
                    m["Sigma"] = m.get("Sigma") or rng.choice([10.0, 58.0])
                    m["J_re"] = m.get("J_re") or rng.choice([0.25, -1.0])
                    m["J_im"] = m.get("J_im") or rng.choice([0.75, -0.5])
        # point currents with a phase: in phase, in pure QUADRATURE (real part exactly zero - still a source, not a prescribed potential),
        # and general, in turn; a node of the drawing that carries no property gets the point property if none does
        for pp in p.pointprops:
            pp["I_re"], pp["I_im"] = [(0.5, 0.0), (0.0, 1.5), (2.0, -1.5)][(t // 3) % 3]
        if p.pointprops and not any(n_["bc"] >= 0 for n_ in p.nodes):
            free_ = [n_ for n_ in p.nodes[4:] if n_["bc"] < 0] or p.nodes
            free_[0]["bc"] = 0
        stats_phase = (t // 3) % 3
        for b in p.bdryprops:
            if b["type"] == 0:
                b["Phi"] = rng.choice([0.0, 30.0, 90.0])
        for c in p.circprops:
            if rng.random() < 0.3:
                c["I_im"] = rng.choice([0.5, -2.0])
    else:
        for b in p.bdryprops:
            if b["type"] == 0 and rng.random() < 0.3:
                b["Phi"] = rng.choice([0.0, 60.0])
    if not harmonic and rng.random() < 0.3:
        # prescribed potentials A0 + A1 r + A2 theta ([Coordinates] = polar, settable through the file only)
        p.coords = "polar"
        for b in p.bdryprops:
            if b["type"] == 0:
                b["A_1"] = rng.choice([1e-3, -5e-4])
                b["A_2"] = rng.choice([0.0, 1e-5])
    gen.use_all_bdry(p, (2,))             # the mixed condition, if the problem defines one, is carried by a line
    p.harmonic = harmonic
    return p


def harmonic_variant(rng, p):
    """the same drawing with the material / boundary features of time-harmonic problems that the SI oracle of stage P does not
    cover: hysteresis lag, laminations with skin effect, stranded-wire regions (proximity-effect permeability), small-skin-depth
    and complex mixed boundaries, complex point properties.  Only the ASSEMBLY of Harmonic2D is compared on these."""
    q = copy.deepcopy(p)
    in_circuit = set(lab["block"] for lab in q.labels if lab["circ"] >= 0)
    in_parallel = set(lab["block"] for lab in q.labels if lab["circ"] >= 0 and q.circprops[lab["circ"]]["type"] == 0)
    for im, m in enumerate(q.blockprops):
        r = rng.random()
        m.pop("H_c", None)
        if im in in_circuit and 0.25 <= r < 0.5:
            r = 0.1          # a laminated block carries no bulk current: keep circuit regions solid or stranded
        if im in in_parallel and 0.5 <= r < 0.75:
            r = 0.1          # a wire-type material is wound whatever its turns: not inside a PARALLEL circuit (see gen_problem)
        if r < 0.25:
            m["Phi_hx"] = rng.choice([0.0, 5.0, 20.0]); m["Phi_hy"] = rng.choice([0.0, 5.0, 20.0])
        elif r < 0.5:
            m["LamType"] = 0; m["d_lam"] = rng.choice([0.35, 0.5, 0.635]); m["LamFill"] = rng.choice([0.9, 0.98, 1.0])
            m["Sigma"] = rng.choice([0.0, 2.0, 10.0]); m["Phi_hx"] = rng.choice([0.0, 10.0]); m["Phi_hy"] = m["Phi_hx"]
            m["Mu_x"] = rng.choice([1.0, 500.0, 2500.0]); m["Mu_y"] = rng.choice([m["Mu_x"], 1000.0])
        elif r < 0.75:
            m["LamType"] = rng.choice([3, 4, 5, 6, 7, 8]); m["WireD"] = rng.choice([0.2, 0.5, 1.0]); m["NStrands"] = rng.choice([1, 7, 19])
            m["Sigma"] = rng.choice([58.0, 35.0, 0.0]); m["Mu_x"] = 1.0; m["Mu_y"] = 1.0
        if rng.random() < 0.3:
            m["J_im"] = rng.choice([0.5, -1.0])
    for b in q.bdryprops:
        if b["type"] == 2:
            if rng.random() < 0.4:
                b["type"] = 1; b["Mu_ssd"] = rng.choice([1.0, 100.0, 1000.0]); b["Sigma_ssd"] = rng.choice([1.0, 5.0, 58.0])
            else:
                b["c0i"] = rng.choice([0.0, 0.5, -2.0]); b["c1i"] = rng.choice([0.0, 0.25])
    for pp in q.pointprops:
        pp["A_im"] = rng.choice([0.0, 1e-4]); pp["I_im"] = rng.choice([0.0, 0.0, 0.25])
    for c in q.circprops:
        c["I_im"] = rng.choice([0.0, 0.5, -2.0])
    for lab in q.labels:
        if lab["circ"] >= 0 and q.circprops[lab["circ"]]["type"] == 1:
            lab["turns"] = rng.choice([1, 10, -25])
    q.freq = rng.choice([50.0, 400.0, 2000.0, 20000.0])
    return q


def parse_csys(lines):
    E, B, hdr = {}, {}, None
    for l in lines:
        t = l.split()
        if not t:
            continue
        if t[0] == "SYS":
            if hdr is not None:
                break
            hdr = l.strip()
        elif t[0] == "E":
            E[(int(t[1]), int(t[2]))] = (t[3], t[4])
        elif t[0] == "B":
            B[int(t[1])] = (t[2], t[3])
    return hdr, E, B


def compare_csystems(dump_lines, model_lines, ulps=4):
    h1, E1, B1 = parse_csys(dump_lines)
    h2, E2, B2 = parse_csys(model_lines)
    if h1 is None or h2 is None:
        return dict(what="no system", impl=h1, model=h2)
    if h1 != h2:
        return dict(what="size / bandwidth differ", impl=h1, model=h2)
    if set(E1) != set(E2):
        return dict(what="stored entries differ", positions=sorted(set(E1) ^ set(E2))[:5])
    for (X1, X2, what) in ((E1, E2, "matrix entry differs"), (B1, B2, "right-hand side differs")):
        fin = [abs(tok2d(v)) for pair in X1.values() for v in pair]
        scale = max([v for v in fin if v == v and v != float("inf")] + [1e-300])
        for k in sorted(X1):
            for c in (0, 1):
                a, b = tok2d(X1[k][c]), tok2d(X2.get(k, ("x7FF8000000000000",) * 2)[c])
                if a != a and b != b:
                    continue
                if vlib.ulp_diff(a, b) > ulps and abs(a - b) > 1e-13 * scale:
                    return dict(what=what, position=k, part="re" if c == 0 else "im", impl=a, model=b)
    return None


def harmonic_tie(ck, stats, mhx, mx, run, fast, tag):
    """stage B: the whole system of the first pass of Harmonic2D vs Model/MHarmonic.lean"""
    dump = os.path.join(run.dir, "sys_harness_h.txt")
    if os.path.exists(dump):
        os.remove(dump)
    try:
        r = subprocess.run([mhx, run.base] + (["fast"] if fast else []), stdout=subprocess.PIPE, stderr=subprocess.PIPE, text=True, timeout=600,
                           env=dict(os.environ, XFEMM_VERIF_DUMPSYS=dump))
    except subprocess.TimeoutExpired:
        ck.violation("assembly-timeout:harmonic", "the real FSolver::Harmonic2D (in-process) did not finish within 600 s", dict(files=run.files()))
        return
    proto = [l for l in r.stdout.splitlines() if l.split() and l.split()[0] in APROTO]
    if "unsupported" in r.stdout:
        stats["assembly_unsupported"] = stats.get("assembly_unsupported", 0) + 1
    elif r.returncode != 0 or not os.path.exists(dump) or not proto:
        ck.violation("assembly-crash:harmonic", "the real FSolver::Harmonic2D (in-process, assembly harness) failed (rc=%d): %s"
                     % (r.returncode, (r.stdout[-200:] + r.stderr[-300:])), dict(files=run.files()))
    else:
        # which branches of the assembly this problem reaches (from the state the real solver printed)
        toks = [l.split() for l in proto]
        bps = [t_ for t_ in toks if t_[0] == "bp"]
        lps = [t_ for t_ in toks if t_[0] == "lp"]
        els = [t_ for t_ in toks if t_[0] == "e"]
        used_blk = set(int(t_[5]) for t_ in els)
        used_lp = set(int(x_) for t_ in els for x_ in t_[6:9] if int(x_) >= 0)
        feat = stats.setdefault("harmonic_features", dict(lamination_skin_effect=0, lamination_no_conductivity=0, hysteresis_lag=0, stranded_proximity=0,
                                                          small_skin_depth_bc=0, complex_mixed_bc=0, prescribed_phase=0, circuit_rows=0, periodic=0))
        for i_, b_ in enumerate(bps):
            if i_ not in used_blk:
                continue
            lt, ld, cd = int(b_[3]), tok2d(b_[5]), tok2d(b_[10])
            feat["lamination_skin_effect"] += int(lt == 0 and ld != 0 and cd != 0)
            feat["lamination_no_conductivity"] += int(lt == 0 and ld != 0 and cd == 0)
            feat["hysteresis_lag"] += int(tok2d(b_[6]) != 0 or tok2d(b_[7]) != 0)
        feat["stranded_proximity"] += sum(1 for t_ in toks if t_[0] == "lab" and (tok2d(t_[3]) != 1.0 or tok2d(t_[4]) != 0.0))
        for i_, l_ in enumerate(lps):
            if i_ in used_lp:
                feat["small_skin_depth_bc"] += int(l_[1] == "1")
                feat["complex_mixed_bc"] += int(l_[1] == "2" and (tok2d(l_[9]) != 0 or tok2d(l_[11]) != 0))
                feat["prescribed_phase"] += int(l_[1] == "0" and tok2d(l_[5]) != 0)
        feat["periodic"] += sum(1 for t_ in toks if t_[0] == "pbc")
        m = subprocess.run([mx, "assemble-mh"], input="\n".join(proto) + "\n", stdout=subprocess.PIPE, text=True, timeout=600)
        nn_ = sum(1 for t_ in toks if t_[0] == "n")
        feat["circuit_rows"] += sum(1 for l in m.stdout.splitlines() if l.startswith("E ") and int(l.split()[1]) < nn_ <= int(l.split()[2]))
        stats["_prox"] = {i_: complex(tok2d(t_[3]), tok2d(t_[4])) for i_, t_ in enumerate([t2 for t2 in toks if t2[0] == "lab"])}
        d = compare_csystems(open(dump).read().splitlines(), m.stdout.splitlines())
        stats["systems_compared"] = stats.get("systems_compared", 0) + 1
        stats["systems_compared_harmonic" + tag] = stats.get("systems_compared_harmonic" + tag, 0) + 1
        stats["entries_compared"] = stats.get("entries_compared", 0) + sum(1 for l in m.stdout.splitlines() if l.startswith("E "))
        if d:
            ck.obligation_broken("correspondence assemble-mh: FSolver::Harmonic2D (first pass) vs Model/MHarmonic.lean (%s)" % d["what"],
                                 dict(first_difference=d, files=run.files()))



def check_harmonic_solution(ck, stats, p, run, tag="", prox=None):
    """stage P on a time-harmonic problem: solve with the real fsolver, hook residual, independent SI assembly at the written potentials"""
    slog = os.path.join(run.dir, "solve.log")
    rc = run.solve(env=dict(os.environ, XFEMM_VERIF_SOLVELOG=slog))
    if rc != 0 or not os.path.exists(run.solution_path()):
        ck.violation("solver-failed" + tag, "fsolver failed (rc=%s) on a well-formed generated problem: %s" % (rc, run.solve_out[-300:]), dict(files=run.files()))
        return
    if os.path.exists(slog):
        for l in open(slog):
            mres = [x for x in l.split() if x.startswith("relres=")]
            if mres:
                v = float(mres[0].split("=")[1])
                # recorded only: on these variants (up to 20 kHz on coarse meshes, skin depth far below the element size) the recurrence
                # residual of the complex solver drifts from the true one (3.5e-5 seen at 100 kHz); the property's own statement - the
                # written potentials satisfy the independently assembled equations - is what decides below
                stats["worst_hook_residual_variant"] = max(stats.get("worst_hook_residual_variant", 0.0), v)
    sol = femmio.read_solution(run.solution_path(), "m")
    mesh = fem_oracle.Mesh(p, sol)
    rest = [l.split() for l in sol["rest"] if l.strip()]
    nl = int(rest[0][0])
    A = np.array([complex(v[0], v[1]) for v in mesh.vals])
    rec = [(int(r[0]), complex(float(r[1]), float(r[2]))) for r in rest[1:1 + nl]]
    fa = []
    K, f, fixed = fem_oracle.harmonic_system(mesh, rec, prox, f_abs_out=fa)
    findings, res = fem_oracle.check_solution(K, f, A, fixed, {}, [], None, tol=HARMONIC_TOL, f_abs=fa[0] if fa else None)
    stats["worst_oracle_residual"] = max(stats["worst_oracle_residual"], res["global_residual"])
    stats["variant_solutions_checked"] = stats.get("variant_solutions_checked", 0) + 1
    used = set(lab["block"] for lab in p.labels)
    cca = any(m.get("LamType", 0) in (7, 8) and m.get("Sigma", 0.0) != 0 for i_, m in enumerate(p.blockprops) if i_ in used)
    for (key, what, data) in findings[:2]:
        if key == "non-finite" and cca:
            # copper-clad aluminium wire (LamType 7 / 8): GetFillFactor has the curve fit but no wire radius for these types -> 0/0
            ck.violation("harmonic:cca-wire:nan", "time-harmonic problem with a conducting copper-clad-aluminium wire region (LamType 7 / 8): " + what,
                         dict(files=run.files(), detail=data, units=p.units, frequency=p.freq))
            continue
        ck.violation("oracle:" + key + tag, "fsolver's solution violates the independently assembled equations: " + what,
                     dict(files=run.files(), detail=data, units=p.units, frequency=p.freq))


def main(argv):
    ck = vlib.Check("C05", "proof", argv)
    ck.cov["rule"] = ("generated planar magnetics problems with linear materials (mu_x != mu_y, lamination types 0-2 with fill, "
                      "conductivity), source densities, series / parallel circuits with turns (stranded and solid), magnets with "
                      "several directions, point currents, prescribed A0+A1x+A2y with phase, mixed BC, 6 units; every third "
                      "problem time-harmonic (50-2000 Hz, complex sources); meshed and solved by the real tools")
    ck.assumptions += ["nonlinear (B-H) materials, air-gap elements, incremental permeability, laminations in harmonic problems "
                       "and axisymmetric magnetics are outside this property's scope / not generated (see C19, C11, C06)",
                       "Lua-expression magnet directions are an input of the oracle (not generated here)"]
    ck.run_stage_a()
    build = vlib.build_repo("plain")
    mx = vlib.model_exe()
    try:
        hx = vlib.compile_harness("mag_harness", build, ("fsolver", "femm", "luacomplex"))
        ax = vlib.compile_harness("assemble_m_harness", build, ("fsolver", "femm", "luacomplex"))
        mhx = vlib.compile_harness("assemble_mh_harness", build, ("fsolver", "femm", "luacomplex"))
    except vlib.BuildError as e:
        ck.obligation_broken("correspondence mag_harness<->FSolver: " + str(e)[:300])
        hx = None
        ax = None
        mhx = None
    work = vlib.workdir("C05")
    nprob = 21 if ck.tier == "quick" else 180
    rng = ck.rng
    stats = dict(static=0, harmonic=0, units={}, circuits=dict(series=0, parallel=0), magnets=0, laminated=0, elements_mu_compared=0,
                 worst_oracle_residual=0.0, worst_hook_residual=0.0, nodes=0)
    try:
        for t in range(nprob):
            p = gen_problem(rng, t)
            stats["harmonic" if p.harmonic else "static"] += 1
            stats["units"][p.units] = stats["units"].get(p.units, 0) + 1
            stats["magnets"] += sum(1 for m in p.blockprops if m.get("H_c"))
            stats["laminated"] += sum(1 for m in p.blockprops if "LamType" in m)
            stats["functional_magnet_directions"] = stats.get("functional_magnet_directions", 0) + sum(
                1 for l in p.labels if l.get("magdirfctn") and l["block"] >= 0 and p.blockprops[l["block"]].get("H_c"))
            for l in p.labels:
                if l["circ"] >= 0:
                    stats["circuits"]["series" if p.circprops[l["circ"]]["type"] == 1 else "parallel"] += 1
            run = Run(build, work, "p%d" % t, p)
            sig = (p.family, p.units, p.harmonic, p.freq, len(p.nodes), tuple((m["Mu_x"], m["Mu_y"], m.get("LamType"), m.get("H_c")) for m in p.blockprops),
                   tuple((l["circ"], l["turns"]) for l in p.labels))
            ck.case(sig, nontrivial=True, sample=dict(family=p.family, units=p.units, frequency=p.freq,
                                                     materials=[(m["Mu_x"], m["Mu_y"], m.get("LamType"), m.get("LamFill"), m.get("H_c"), m.get("Sigma")) for m in p.blockprops],
                                                     circuits=[(c["I_re"], c["type"]) for c in p.circprops]) if t < 3 else None)
            if run.mesh() != 0:
                ck.violation("mesher-failed", "fmesher failed on a generated problem: " + run.mesh_out[-300:], dict(files=run.files()))
                continue
            # ---- stage B: element permeabilities decided by the real Static2D
            if hx and not p.harmonic:
                r = subprocess.run([hx, run.base], stdout=subprocess.PIPE, stderr=subprocess.PIPE, text=True, timeout=300, cwd=run.dir)
                lines = [l.split() for l in r.stdout.splitlines() if l.split()]
                if r.returncode != 0 or not any(l[0] == "static2d" and l[1] == "1" for l in lines):
                    ck.violation("assembly-crash", "the real FSolver::Static2D (in-process) failed (rc=%d): %s" % (r.returncode, (r.stdout + r.stderr)[-300:]),
                                 dict(files=run.files()))
                else:
                    blks = {int(l[1]): l for l in lines if l[0] == "blk"}
                    q = ["lam %s %s %s %s" % (b[2], b[3], b[4], b[5]) for i, b in sorted(blks.items())]
                    rep, _, _ = vlib.run_lines([mx, "magnetics"], q)
                    model = {i: rep[k].split() for k, i in enumerate(sorted(blks))}
                    for l in lines:
                        if l[0] == "mu":
                            stats["elements_mu_compared"] += 1
                            blk = int(l[2])
                            if [l[3], l[4]] != model[blk]:
                                ck.obligation_broken("correspondence magnetics/lamMu: element permeability of Static2D vs Model/Magnetics.lean",
                                                     dict(element=int(l[1]), block=blk, inputs=blks[blk][2:6], impl=[tok2d(l[3]), tok2d(l[4])],
                                                          model=[tok2d(x) for x in model[blk]], files=run.files()))
                                break
                run.restore_mesh()
            # ---- stage B: the whole system of the first pass of Static2D / StaticAxisymmetric vs Model/MSolver.lean, bit for bit
            if ax and not p.harmonic:
                dump = os.path.join(run.dir, "sys_harness.txt")
                try:
                    r = subprocess.run([ax, run.base], stdout=subprocess.PIPE, stderr=subprocess.PIPE, text=True, timeout=600,
                                       env=dict(os.environ, XFEMM_VERIF_DUMPSYS=dump))
                    proto = [l for l in r.stdout.splitlines() if l.split() and l.split()[0] in APROTO]
                    if "unsupported" in r.stdout:
                        stats["assembly_unsupported"] = stats.get("assembly_unsupported", 0) + 1
                    elif r.returncode != 0 or not os.path.exists(dump) or not proto:
                        ck.violation("assembly-crash", "the real FSolver (in-process, assembly harness) failed (rc=%d): %s" % (r.returncode, (r.stdout[-200:] + r.stderr[-300:])),
                                     dict(files=run.files()))
                    else:
                        pl_ = next((l.split() for l in proto if l.split()[0] == "problem"), None)
                        if pl_ and len(pl_) >= 3:
                            cuthill_tie.tie_bandwidth(ck, stats, mx, run, int(pl_[2]), "fsolver, in-process")
                        m = subprocess.run([mx, "assemble-m"], input="\n".join(proto) + "\n", stdout=subprocess.PIPE, text=True, timeout=600)
                        d = C03.compare_systems(open(dump).read().splitlines(), m.stdout.splitlines())
                        stats["systems_compared"] = stats.get("systems_compared", 0) + 1
                        stats["systems_compared_" + ("planar" if p.ptype == "planar" else "axi")] = stats.get("systems_compared_" + ("planar" if p.ptype == "planar" else "axi"), 0) + 1
                        stats["entries_compared"] = stats.get("entries_compared", 0) + sum(1 for l in m.stdout.splitlines() if l.startswith("E "))
                        if d:
                            ck.obligation_broken("correspondence assemble-m: FSolver::%s (first pass) vs Model/MSolver.lean (%s)" % ("Static2D" if p.ptype == "planar" else "StaticAxisymmetric", d["what"]),
                                                 dict(first_difference=d, files=run.files()))
                except subprocess.TimeoutExpired:
                    ck.violation("assembly-timeout", "the real FSolver (in-process) did not finish within 600 s", dict(files=run.files()))
                run.restore_mesh()
            # ---- stage B, axisymmetric twin: the same drawing revolved; only the assembly of StaticAxisymmetric is compared (the SI
            # oracle below is planar)
            if ax and not p.harmonic and t % 2 == 0:
                pa = copy.deepcopy(p)
                pa.ptype = "axi"
                if len(pa.labels) > 1 and rng.random() < 0.34:
                    # an EXTERNAL (Kelvin-transformed) region: [extZo] [extRo] [extRi] and a block label flagged external
                    W_ = max(n_["x"] for n_ in pa.nodes)
                    pa.ext = (rng.choice([1.5, -0.75, 0.0, 3.0]), rng.choice([2.0 * W_, 20.0]), rng.choice([W_, 8.0]))
                    rng.choice(pa.labels[1:])["ext"] = 1
                    stats["external_region_problems"] = stats.get("external_region_problems", 0) + 1
                runa = Run(build, work, "p%d_axi" % t, pa)
                if runa.mesh() == 0:
                    dump = os.path.join(runa.dir, "sys_harness.txt")
                    try:
                        r = subprocess.run([ax, runa.base], stdout=subprocess.PIPE, stderr=subprocess.PIPE, text=True, timeout=600,
                                           env=dict(os.environ, XFEMM_VERIF_DUMPSYS=dump))
                        proto = [l for l in r.stdout.splitlines() if l.split() and l.split()[0] in APROTO]
                        if "unsupported" in r.stdout:
                            stats["assembly_unsupported"] = stats.get("assembly_unsupported", 0) + 1
                        elif r.returncode != 0 or not os.path.exists(dump) or not proto:
                            ck.violation("assembly-crash:axi", "the real FSolver (in-process, assembly harness) failed on an axisymmetric problem (rc=%d): %s"
                                         % (r.returncode, (r.stdout[-200:] + r.stderr[-300:])), dict(files=runa.files()))
                        else:
                            m = subprocess.run([mx, "assemble-m"], input="\n".join(proto) + "\n", stdout=subprocess.PIPE, text=True, timeout=600)
                            d = C03.compare_systems(open(dump).read().splitlines(), m.stdout.splitlines())
                            stats["systems_compared"] = stats.get("systems_compared", 0) + 1
                            stats["systems_compared_axi"] = stats.get("systems_compared_axi", 0) + 1
                            stats["entries_compared"] = stats.get("entries_compared", 0) + sum(1 for l in m.stdout.splitlines() if l.startswith("E "))
                            if d:
                                ck.obligation_broken("correspondence assemble-m: FSolver::StaticAxisymmetric (first pass) vs Model/MSolver.lean (%s)" % d["what"],
                                                     dict(first_difference=d, files=runa.files()))
                    except subprocess.TimeoutExpired:
                        ck.violation("assembly-timeout:axi", "the real FSolver (in-process) did not finish within 600 s", dict(files=runa.files()))
            # ---- stage B, time-harmonic: the whole system of the first pass of Harmonic2D vs Model/MHarmonic.lean, and the same for a
            # variant with lag angles, laminations, stranded regions, small-skin-depth / complex mixed boundaries
            if mhx and p.harmonic:
                harmonic_tie(ck, stats, mhx, mx, run, False, "")
                stats.pop("_prox", None)
                run.restore_mesh()
                pv = harmonic_variant(rng, p)
                runv = Run(build, work, "p%d_var" % t, pv)
                if runv.mesh() == 0:
                    harmonic_tie(ck, stats, mhx, mx, runv, True, "_variant")
                    runv.restore_mesh()
                    # the proximity-effect permeability of stranded regions is a curve fit the oracle does not re-derive: it is taken
                    # from the state the real solver printed (per label), everything else of the equations is assembled independently
                    prox = stats.pop("_prox", None)
                    if prox is not None or not any(m.get("LamType", 0) > 2 and m.get("Sigma", 0.0) != 0 for m in pv.blockprops):
                        check_harmonic_solution(ck, stats, pv, runv, ":variant", prox)
                stats.pop("_prox", None)
            slog = os.path.join(run.dir, "solve.log")
            rc = run.solve(env=dict(os.environ, XFEMM_VERIF_SOLVELOG=slog))
            if rc != 0 or not os.path.exists(run.solution_path()):
                ck.violation("solver-failed", "fsolver failed (rc=%s) on a well-formed generated problem: %s" % (rc, run.solve_out[-300:]),
                             dict(files=run.files()))
                continue
            if os.path.exists(slog):
                for l in open(slog):
                    mres = [x for x in l.split() if x.startswith("relres=")]
                    if mres:
                        v = float(mres[0].split("=")[1])
                        stats["worst_hook_residual"] = max(stats["worst_hook_residual"], v)
                        # the complex solver (BiCG-type recurrence) stops on its recurrence residual; on strongly skin-effect dominated systems
                        # the true residual drifts above it: 1e-5 for complex solves, 1e-6 for real ones
                        if not (v <= (1e-5 if " complex " in l else 1e-6)):
                            ck.violation("true-residual", "the linear solver returned with true relative residual %.3g" % v, dict(files=run.files(), log=l))
            sol = femmio.read_solution(run.solution_path(), "m")
            cuthill_tie.tie(ck, stats, mx, run, sol, "fsolver")
            stats["nodes"] += len(sol["nodes"])
            mesh = fem_oracle.Mesh(p, sol)
            rest = [l.split() for l in sol["rest"] if l.strip()]
            nl = int(rest[0][0])
            findings = []
            if p.harmonic:
                A = np.array([complex(v[0], v[1]) for v in mesh.vals])
                rec = [(int(r[0]), complex(float(r[1]), float(r[2]))) for r in rest[1:1 + nl]]
                fa = []
                K, f, fixed = fem_oracle.harmonic_system(mesh, rec, f_abs_out=fa)
                findings, res = fem_oracle.check_solution(K, f, A, fixed, {}, [], None, tol=HARMONIC_TOL, f_abs=fa[0] if fa else None)
                # total current of each circuit region (series: I*turns per label; parallel: I over all its labels)
                tot = fem_oracle.circuit_totals(mesh, rec, A)
                w = 2 * np.pi * p.freq
                for c, cp in enumerate(p.circprops):
                    labs = [l for l in range(len(p.labels)) if p.labels[l]["circ"] == c]
                    groups = [[l] for l in labs] if cp["type"] == 1 else ([labs] if labs else [])
                    for g in groups:
                        want = complex(cp["I_re"], cp.get("I_im", 0.0)) * (p.labels[g[0]]["turns"] if cp["type"] == 1 else 1)
                        got = sum(tot.get(l, 0) for l in g)
                        # scale: the conduction and eddy parts may nearly cancel
                        sc = abs(want) + sum(abs(fem_oracle.label_sigma(p, l)) * w * float(np.abs(A).max()) * float(sum(mesh.area[k] for k in range(len(mesh.els)) if mesh.lbl[k] == l)) for l in g)
                        if abs(got - want) > 1e-5 * max(sc, 1e-30):
                            findings.append(("circuit-current", "circuit %d region %s carries %.6g%+.6gj A, prescribed %.6g%+.6gj A"
                                             % (c, g, got.real, got.imag, want.real, want.imag), dict(circuit=c)))
            else:
                A = np.array([v[0] for v in mesh.vals])
                K, f, fixed, Jc = fem_oracle.magnetostatic_system(mesh)
                findings, res = fem_oracle.check_solution(K, f, A, fixed, {}, [], None, tol=1e-7)
                rec = [(int(r[0]), float(r[1])) for r in rest[1:1 + nl]]
                for l, (kind, J) in Jc.items():
                    case, val = rec[l]
                    applied = val * 1e6 if case == 1 else -fem_oracle.label_sigma(p, l) * val
                    # a circuit current that exactly offsets the block's own current density leaves rounding noise, not a density
                    jscale = max([abs(b.get("J_re", 0.0)) * 1e6 for b in p.blockprops] + [abs(v) for (_, v) in Jc.values()] + [1e-30])
                    if abs(applied - J) > 1e-7 * max(abs(J), abs(applied), 1e-30) + 1e-9 * jscale:
                        findings.append(("circuit-record", "label %d: the circuit record written with the solution gives %.9g A/m^2, the density that "
                                         "reproduces the circuit current is %.9g A/m^2" % (l, applied, J), dict(label=l)))
            stats["worst_oracle_residual"] = max(stats["worst_oracle_residual"], res["global_residual"])
            for (key, what, data) in findings[:2]:
                ck.violation("oracle:" + key, "fsolver's solution violates the independently assembled equations: " + what,
                             dict(files=run.files(), detail=data, units=p.units, frequency=p.freq))
            # ---- the same problem solved again on the mesh of its own solution ([PrevSoln] = the .ans just written, [PrevType] = 0:
            # no incremental permeability, the previous solution only supplies the mesh): still a linear magnetostatic problem, so
            # the written potentials have to satisfy the same equations
            if (not p.harmonic and p.ptype == "planar" and not findings and stats.get("prevsoln_reuse_runs", 0) < 2
                    and any(l["circ"] >= 0 and p.circprops[l["circ"]]["type"] == 1 and l["turns"] != 1 and p.circprops[l["circ"]]["I_re"] != 0
                            for l in p.labels)):
                stats["prevsoln_reuse_runs"] = stats.get("prevsoln_reuse_runs", 0) + 1
                p2 = copy.deepcopy(p)
                p2.prevsoln, p2.prevtype = "prev.ans", 0
                run2 = Run(build, work, "p%d_prev" % t, p2)
                shutil.copy(run.solution_path(), os.path.join(run2.dir, "prev.ans"))
                if run2.mesh() == 0 and run2.solve() == 0 and os.path.exists(run2.solution_path()):
                    sol2 = femmio.read_solution(run2.solution_path(), "m")
                    mesh2 = fem_oracle.Mesh(p2, sol2)
                    A2 = np.array([v[0] for v in mesh2.vals])
                    K2, f2, fixed2, _ = fem_oracle.magnetostatic_system(mesh2)
                    fnd2, res2 = fem_oracle.check_solution(K2, f2, A2, fixed2, {}, [], None, tol=1e-7)
                    if fnd2:
                        ck.violation("prevsoln-reuse", "the same linear problem solved on the mesh of its own solution ([PrevSoln], [PrevType] = 0) violates "
                                     "the equations its first solution satisfies: " + fnd2[0][1] + " (largest |A| %.6g, first solution %.6g)"
                                     % (float(np.abs(A2).max()), float(np.abs(A).max())), dict(files=run2.files(), units=p.units))
                else:
                    ck.violation("prevsoln-reuse:solver-failed", "fsolver failed (rc=%s) on a solved problem that names its own solution as previous solution "
                                 "with [PrevType] = 0: %s" % (run2.solve_rc, run2.solve_out[-300:]), dict(files=run2.files()))
    finally:
        shutil.rmtree(work, ignore_errors=True)
    ck.notes["input_distribution"] = stats
    return ck.finish()
